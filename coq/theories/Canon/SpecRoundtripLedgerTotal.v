(** C06 support, part 2: [store] / [lower_flat] succeed on every well-typed value from ANY allocator state
    (bump or presets, any addresses), hence the two-step ledger protocol never gets stuck. *)
From Coq Require Import List ZArith NArith Bool Lia.
From WB Require Import Wit.Ty Canon.Spec.
From WB Require Import Canon.SpecRoundtripArith Canon.SpecRoundtripEq Canon.SpecRoundtripMem.
Import ListNotations.
Local Open Scope N_scope.
From WB Require Import Canon.SpecRoundtripFlat Canon.SpecRoundtripLedger.
(** * Totality of [store] / [lower_flat] on well-typed values, from ANY allocator state *)
Lemma scalar_bits_total t n v : scalar_bytes t = Some n -> has_type t v = true ->
  exists x, scalar_bits t v = Some x.
Proof.
  intros Hn Hv. destruct (scalar_mem_rt 4 (or_introl eq_refl) t n v Hn Hv) as (x & E & _). exists x. exact E.
Qed.
Lemma scalar_flat_total t n v : scalar_bytes t = Some n -> has_type t v = true ->
  exists c, scalar_flat t v = Some c.
Proof.
  intros Hn Hv. destruct (scalar_flat_rt 4 (or_introl eq_refl) t n v Hn Hv) as (c & x & E & _).
  exists (c, x). exact E.
Qed.

Section total.
  Variable pw : N.

  Definition TotM (t : ty) : Prop :=
    forall v, has_type t v = true -> forall a st, exists st', store pw t v a st = Some st'.
  Definition TotF (t : ty) : Prop :=
    forall v, has_type t v = true -> forall st, exists r, lower_flat pw t v st = Some r.

  Lemma elems_total (sto : val -> N -> mstate -> option mstate) sz vs :
    Forall (fun v => forall a st, exists st', sto v a st = Some st') vs ->
    forall a st, exists st', store_elems sto sz vs a st = Some st'.
  Proof.
    induction 1 as [|v vs Hv _ IH]; intros a st; [exists st; reflexivity|].
    rewrite store_elems_cons. destruct (Hv a st) as (st1 & E1). rewrite E1. apply IH.
  Qed.

  Lemma list_total et (sto : val -> N -> mstate -> option mstate) vs :
    Forall (fun v => forall a st, exists st', sto v a st = Some st') vs ->
    forall a st, exists st', store_list_t pw et sto vs a st = Some st'.
  Proof.
    intros HF a st. unfold store_list_t. cbv zeta.
    destruct (st_alloc st (N.of_nat (length vs) * elem_size pw et) (alignment pw et)) as [p st1].
    destruct (elems_total sto (elem_size pw et) vs HF p st1) as (st2 & E2). rewrite E2. eexists. reflexivity.
  Qed.

  Lemma lower_list_total et (sto : val -> N -> mstate -> option mstate) vs :
    Forall (fun v => forall a st, exists st', sto v a st = Some st') vs ->
    forall st, exists r, lower_list_t pw st et sto vs = Some r.
  Proof.
    intros HF st. unfold lower_list_t. cbv zeta.
    destruct (st_alloc st (N.of_nat (length vs) * elem_size pw et) (alignment pw et)) as [p st1].
    destruct (elems_total sto (elem_size pw et) vs HF p st1) as (st2 & E2). rewrite E2. eexists. reflexivity.
  Qed.

  Lemma fields_total fs : Forall TotM fs -> forall vs, all2_t has_type fs vs = true ->
    forall a s st, exists st', store_fields_t pw (store pw) a fs vs s st = Some st'.
  Proof.
    induction 1 as [|f fs Hf _ IH]; intros [|v vs] Ht a s st; cbn [all2_t] in Ht; try discriminate Ht.
    - exists st. reflexivity.
    - apply andb_true_iff in Ht. destruct Ht as [Ht1 Ht2]. cbn [store_fields_t]. cbv zeta.
      destruct (Hf v Ht1 (a + align_to s (alignment pw f)) st) as (st1 & E1). rewrite E1. apply IH. exact Ht2.
  Qed.

  Lemma lower_fields_total fs : Forall TotF fs -> forall vs, all2_t has_type fs vs = true ->
    forall st, exists r, lower_fields_t (lower_flat pw) fs vs st = Some r.
  Proof.
    induction 1 as [|f fs Hf _ IH]; intros [|v vs] Ht st; cbn [all2_t] in Ht; try discriminate Ht.
    - eexists. reflexivity.
    - apply andb_true_iff in Ht. destruct Ht as [Ht1 Ht2]. cbn [lower_fields_t].
      destruct (Hf v Ht1 st) as ([xs st1] & E1). rewrite E1.
      destruct (IH vs Ht2 st1) as ([ys st2] & E2). rewrite E2. eexists. reflexivity.
  Qed.

  Lemma same_total et vs : Forall (fun v => forall st, exists r, lower_flat pw et v st = Some r) vs ->
    forall st, exists r, lower_same_t (lower_flat pw et) vs st = Some r.
  Proof.
    induction 1 as [|v vs Hv _ IH]; intros st; cbn [lower_same_t]; [eexists; reflexivity|].
    destruct (Hv st) as ([xs st1] & E1). rewrite E1. destruct (IH st1) as ([ys st2] & E2). rewrite E2.
    eexists. reflexivity.
  Qed.

  Lemma case_pick (Q : ty -> Prop) cs i c : Forall (OptP Q) cs -> nth_error cs i = Some c -> OptP Q c.
  Proof. intros HF Hn. rewrite Forall_forall in HF. apply HF. eapply nth_error_In. exact Hn. Qed.

  Lemma variant_total ds cs i p : Forall (OptP TotM) cs ->
    i < N.of_nat (length cs) -> nthcase_t has_type cs (N.to_nat i) p = true ->
    forall a st, exists st', store_variant_t pw (store pw) ds cs i p a st = Some st'.
  Proof.
    intros HF Hi Ht a st. destruct (nthcase_t_nth _ _ _ _ Ht) as (c & Hnth & Hc).
    pose proof (case_pick TotM cs _ c HF Hnth) as HQ.
    unfold store_variant_t. apply N.ltb_lt in Hi. rewrite Hi.
    rewrite (store_case_t_nth (store pw) cs _ c p _ _ Hnth).
    destruct c as [t|], p as [v|]; cbn [opt_t store_opt_t OptP] in *; try discriminate Hc.
    - apply HQ. exact Hc.
    - eexists. reflexivity.
  Qed.

  Lemma lower_variant_total cs i p : Forall (OptP TotF) cs ->
    i < N.of_nat (length cs) -> nthcase_t has_type cs (N.to_nat i) p = true ->
    forall st, exists r, lower_variant_t pw (lower_flat pw) st cs i p = Some r.
  Proof.
    intros HF Hi Ht st. destruct (nthcase_t_nth _ _ _ _ Ht) as (c & Hnth & Hc).
    pose proof (case_pick TotF cs _ c HF Hnth) as HQ.
    unfold lower_variant_t. apply N.ltb_lt in Hi. rewrite Hi.
    rewrite (lower_case_t_nth (lower_flat pw) st cs _ c p Hnth).
    destruct c as [t|], p as [v|]; cbn [opt_t lower_opt_t OptP] in *; try discriminate Hc.
    - destruct (HQ v Hc st) as ([xs st1] & E). rewrite E. eexists. reflexivity.
    - eexists. reflexivity.
  Qed.

  Lemma nth_lt {A} (cs : list A) i c : nth_error cs (N.to_nat i) = Some c -> i < N.of_nat (length cs).
  Proof. intros H. assert (N.to_nat i < length cs)%nat by (apply nth_error_Some; congruence). lia. Qed.

  Theorem store_total t : TotM t.
  Proof.
    induction t using ty_ind'; intros v Ht a st;
    try (match goal with |- exists _, store pw ?t v a st = _ =>
           first [rewrite (store_scalar_eq pw t 1%nat v a st eq_refl); destruct (scalar_bits_total t 1%nat v eq_refl Ht) as (x & Ex)
                 |rewrite (store_scalar_eq pw t 2%nat v a st eq_refl); destruct (scalar_bits_total t 2%nat v eq_refl Ht) as (x & Ex)
                 |rewrite (store_scalar_eq pw t 4%nat v a st eq_refl); destruct (scalar_bits_total t 4%nat v eq_refl Ht) as (x & Ex)
                 |rewrite (store_scalar_eq pw t 8%nat v a st eq_refl); destruct (scalar_bits_total t 8%nat v eq_refl Ht) as (x & Ex)]
           end; rewrite Ex; eexists; reflexivity).
    - destruct v as [| | |bs| | | |]; try discriminate Ht. rewrite store_string_eq.
      destruct (st_alloc st (N.of_nat (length bs)) 1). eexists. reflexivity.
    - destruct v as [| | | |vs| | |]; try discriminate Ht. change (forallb (has_type t) vs = true) in Ht.
      rewrite store_list_eq. apply list_total. rewrite forallb_forall in Ht. apply Forall_forall.
      intros x Hin. apply IHt. apply Ht. exact Hin.
    - destruct v as [| | | |vs| | |]; try discriminate Ht.
      change ((N.of_nat (length vs) =? n) && forallb (has_type t) vs = true) in Ht.
      apply andb_true_iff in Ht. destruct Ht as [Hl Ht]. rewrite store_fixed_eq, Hl. apply elems_total.
      rewrite forallb_forall in Ht. apply Forall_forall. intros x Hin. apply IHt. apply Ht. exact Hin.
    - destruct v as [| | | |vs| | |]; try discriminate Ht.
      change (forallb (fun e => match e with VRec [a; b] => has_type t1 a && has_type t2 b | _ => false end) vs = true) in Ht.
      rewrite store_map_eq. apply list_total. rewrite forallb_forall in Ht. apply Forall_forall.
      intros e Hin. specialize (Ht e Hin). destruct e as [| | | | |[|x [|y [|]]]| |]; try discriminate Ht.
      apply andb_true_iff in Ht. destruct Ht as [Hx Hy]. intros a' st'. cbn [store_entry].
      destruct (IHt1 x Hx a' st') as (st1 & E1). rewrite E1. apply IHt2. exact Hy.
    - destruct v as [| | | | |vs| |]; try discriminate Ht. rewrite has_type_record in Ht.
      rewrite store_record_eq. apply fields_total; assumption.
    - destruct v as [| | | | |vs| |]; try discriminate Ht. rewrite has_type_tuple in Ht.
      rewrite store_tuple_eq. apply fields_total; assumption.
    - destruct v as [| | | | | |i p|]; try discriminate Ht. rewrite has_type_variant in Ht.
      apply andb_true_iff in Ht. destruct Ht as [Hi Ht]. apply N.ltb_lt in Hi.
      rewrite store_variant_eq. apply variant_total; assumption.
    - destruct v as [| | | | | |i [p|]|]; try discriminate Ht. change (i <? n = true) in Ht.
      rewrite store_enum_eq, Ht. eexists. reflexivity.
    - destruct v as [| | | | | |i p|]; try discriminate Ht. rewrite has_type_option in Ht.
      rewrite store_option_eq. destruct (nthcase_t_nth _ _ _ _ Ht) as (c & Hnth & _).
      apply variant_total; [repeat constructor; exact IHt|eapply nth_lt; exact Hnth|exact Ht].
    - destruct v as [| | | | | |i p|]; try discriminate Ht. rewrite has_type_result in Ht.
      rewrite store_result_eq. destruct (nthcase_t_nth _ _ _ _ Ht) as (c & Hnth & _).
      apply variant_total; [repeat constructor; assumption|eapply nth_lt; exact Hnth|exact Ht].
    - destruct v as [| | | | | | |bs]; try discriminate Ht. change (N.of_nat (length bs) =? n = true) in Ht.
      rewrite store_flags_eq, Ht. eexists. reflexivity.
  Qed.
  Theorem lower_total t : TotF t.
  Proof.
    induction t using ty_ind'; intros v Ht st;
    try (match goal with |- exists _, lower_flat pw ?t v st = _ =>
           first [rewrite (lower_scalar_eq pw t 1%nat v st eq_refl); destruct (scalar_flat_total t 1%nat v eq_refl Ht) as (x & Ex)
                 |rewrite (lower_scalar_eq pw t 2%nat v st eq_refl); destruct (scalar_flat_total t 2%nat v eq_refl Ht) as (x & Ex)
                 |rewrite (lower_scalar_eq pw t 4%nat v st eq_refl); destruct (scalar_flat_total t 4%nat v eq_refl Ht) as (x & Ex)
                 |rewrite (lower_scalar_eq pw t 8%nat v st eq_refl); destruct (scalar_flat_total t 8%nat v eq_refl Ht) as (x & Ex)]
           end; rewrite Ex; eexists; reflexivity).
    - destruct v as [| | |bs| | | |]; try discriminate Ht. rewrite lower_string_eq.
      destruct (st_alloc st (N.of_nat (length bs)) 1). eexists. reflexivity.
    - destruct v as [| | | |vs| | |]; try discriminate Ht. change (forallb (has_type t) vs = true) in Ht.
      rewrite lower_list_eq. apply lower_list_total. rewrite forallb_forall in Ht. apply Forall_forall.
      intros x Hin. apply store_total. apply Ht. exact Hin.
    - destruct v as [| | | |vs| | |]; try discriminate Ht.
      change ((N.of_nat (length vs) =? n) && forallb (has_type t) vs = true) in Ht.
      apply andb_true_iff in Ht. destruct Ht as [Hl Ht]. rewrite lower_fixed_eq, Hl. apply same_total.
      rewrite forallb_forall in Ht. apply Forall_forall. intros x Hin. apply IHt. apply Ht. exact Hin.
    - destruct v as [| | | |vs| | |]; try discriminate Ht.
      change (forallb (fun e => match e with VRec [a; b] => has_type t1 a && has_type t2 b | _ => false end) vs = true) in Ht.
      rewrite lower_map_eq. apply lower_list_total. rewrite forallb_forall in Ht. apply Forall_forall.
      intros e Hin. specialize (Ht e Hin). destruct e as [| | | | |[|x [|y [|]]]| |]; try discriminate Ht.
      apply andb_true_iff in Ht. destruct Ht as [Hx Hy]. intros a' st'. cbn [store_entry].
      destruct (store_total t1 x Hx a' st') as (st1 & E1). rewrite E1. apply store_total. exact Hy.
    - destruct v as [| | | | |vs| |]; try discriminate Ht. rewrite has_type_record in Ht.
      rewrite lower_record_eq. apply lower_fields_total; assumption.
    - destruct v as [| | | | |vs| |]; try discriminate Ht. rewrite has_type_tuple in Ht.
      rewrite lower_tuple_eq. apply lower_fields_total; assumption.
    - destruct v as [| | | | | |i p|]; try discriminate Ht. rewrite has_type_variant in Ht.
      apply andb_true_iff in Ht. destruct Ht as [Hi Ht]. apply N.ltb_lt in Hi.
      rewrite lower_variant_eq. apply lower_variant_total; assumption.
    - destruct v as [| | | | | |i [p|]|]; try discriminate Ht. change (i <? n = true) in Ht.
      rewrite lower_enum_eq, Ht. eexists. reflexivity.
    - destruct v as [| | | | | |i p|]; try discriminate Ht. rewrite has_type_option in Ht.
      rewrite lower_option_eq. destruct (nthcase_t_nth _ _ _ _ Ht) as (c & Hnth & _).
      apply lower_variant_total; [repeat constructor; exact IHt|eapply nth_lt; exact Hnth|exact Ht].
    - destruct v as [| | | | | |i p|]; try discriminate Ht. rewrite has_type_result in Ht.
      rewrite lower_result_eq. destruct (nthcase_t_nth _ _ _ _ Ht) as (c & Hnth & _).
      apply lower_variant_total; [repeat constructor; assumption|eapply nth_lt; exact Hnth|exact Ht].
    - destruct v as [| | | | | | |bs]; try discriminate Ht. change (N.of_nat (length bs) =? n = true) in Ht.
      rewrite lower_flags_eq, Ht. eexists. reflexivity.
  Qed.
End total.

(** * The two-step protocol, unconditionally for well-typed values *)
Theorem ledger_protocol_total :
  forall (pw : N) (t : ty) (v : val), has_type t v = true ->
  (* flat form *)
  (forall base st, exists cs0 st0' cs st',
      lower_flat pw t v (mstate0 base) = Some (cs0, st0') /\
      lower_flat pw t v st = Some (cs, st') /\
      ledger_shape (map (fun '(_, s, a) => (s, a)) (rev (allocs st0'))) st st') /\
  (* memory form *)
  (forall base a0 a st, exists st0' st',
      store pw t v a0 (mstate0 base) = Some st0' /\
      store pw t v a st = Some st' /\
      ledger_shape (map (fun '(_, s, a) => (s, a)) (rev (allocs st0'))) st st').
Proof.
  intros pw t v Ht. split.
  - intros base st.
    destruct (lower_total pw t v Ht (mstate0 base)) as ([cs0 st0'] & E0).
    destruct (lower_total pw t v Ht st) as ([cs st'] & E).
    exists cs0, st0', cs, st'. split; [exact E0|]. split; [exact E|].
    exact (proj2 (ledger_protocol_sound_flat pw t v (mstate0 base) cs0 st0' eq_refl E0) st cs st' E).
  - intros base a0 a st.
    destruct (store_total pw t v Ht a0 (mstate0 base)) as (st0' & E0).
    destruct (store_total pw t v Ht a st) as (st' & E).
    exists st0', st'. split; [exact E0|]. split; [exact E|].
    exact (proj2 (ledger_protocol_sound_mem pw t v a0 (mstate0 base) st0' eq_refl E0) a st st' E).
Qed.
