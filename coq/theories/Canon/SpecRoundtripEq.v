(** C05, part 2: top-level twins of the local [let fix] helpers of [Canon/Spec.v] / [Wit/Ty.v] with their
    equation lemmas (all by [reflexivity]), the side condition [bounded_ty], and layout facts. *)
From Coq Require Import List ZArith NArith Bool Lia.
From WB Require Import Wit.Ty Canon.Spec.
Import ListNotations.
Local Open Scope N_scope.
From WB Require Import Canon.SpecRoundtripArith.
Local Ltac Zify.zify_post_hook ::= Z.to_euclidean_division_equations.
(** * Top-level twins of the local helper functions of Spec.v and Ty.v, with their equation lemmas *)

(** ** has_type *)
Definition all2_t (ht : ty -> val -> bool) :=
  fix all2 (ts : list ty) (vs : list val) {struct ts} : bool :=
    match ts, vs with
    | [], [] => true
    | t :: ts', v :: vs' => ht t v && all2 ts' vs'
    | _, _ => false
    end.
Definition opt_t (ht : ty -> val -> bool) (o : option ty) (p : option val) : bool :=
  match o, p with
  | None, None => true
  | Some t, Some v => ht t v
  | _, _ => false
  end.
Definition nthcase_t (ht : ty -> val -> bool) :=
  fix nthcase (cs : list (option ty)) (i : nat) (p : option val) {struct cs} : bool :=
    match cs, i with
    | [], _ => false
    | c :: _, O => opt_t ht c p
    | _ :: cs', S j => nthcase cs' j p
    end.

Lemma has_type_record fs vs : has_type (TRecord fs) (VRec vs) = all2_t has_type fs vs.
Proof. reflexivity. Qed.
Lemma has_type_tuple fs vs : has_type (TTuple fs) (VRec vs) = all2_t has_type fs vs.
Proof. reflexivity. Qed.
Lemma has_type_variant cs i p :
  has_type (TVariant cs) (VVar i p) = (i <? N.of_nat (length cs)) && nthcase_t has_type cs (N.to_nat i) p.
Proof. reflexivity. Qed.
Lemma has_type_option t i p :
  has_type (TOption t) (VVar i p) = nthcase_t has_type (cases_of_option t) (N.to_nat i) p.
Proof. reflexivity. Qed.
Lemma has_type_result a b i p :
  has_type (TResult a b) (VVar i p) = nthcase_t has_type (cases_of_result a b) (N.to_nat i) p.
Proof. reflexivity. Qed.

Lemma all2_t_Forall2 ht fs : forall vs, all2_t ht fs vs = true -> Forall2 (fun t v => ht t v = true) fs vs.
Proof.
  induction fs as [|f fs IH]; intros [|v vs] H; cbn [all2_t] in H; try discriminate.
  - constructor.
  - apply andb_true_iff in H. destruct H. constructor; auto.
Qed.

Lemma nthcase_t_nth ht cs : forall i p, nthcase_t ht cs i p = true ->
  exists c, nth_error cs i = Some c /\ opt_t ht c p = true.
Proof.
  induction cs as [|c cs IH]; intros i p H; cbn [nthcase_t] in H; [discriminate|].
  destruct i as [|i].
  - exists c. split; [reflexivity|assumption].
  - cbn [nth_error]. apply IH. assumption.
Qed.

(** ** layout *)
Definition rec_end (pw : N) (fs : list ty) (s : N) : N :=
  fold_left (fun s f => align_to s (alignment pw f) + elem_size pw f) fs s.
Definition max_align (pw : N) (fs : list ty) : N := fold_left N.max (map (alignment pw) fs) 1.
Definition record_size (pw : N) (fs : list ty) : N := align_to (rec_end pw fs 0) (max_align pw fs).
Definition max_case_size (pw : N) (cs : list (option ty)) : N :=
  fold_left N.max (map (omap (elem_size pw) 0) cs) 0.
Definition variant_size (pw ds : N) (cs : list (option ty)) : N :=
  align_to (payload_offset pw ds cs + max_case_size pw cs) (N.max ds (max_case_alignment pw cs)).

Lemma elem_size_record pw fs : elem_size pw (TRecord fs) = record_size pw fs.
Proof. reflexivity. Qed.
Lemma elem_size_tuple pw fs : elem_size pw (TTuple fs) = record_size pw fs.
Proof. reflexivity. Qed.
Lemma elem_size_variant pw cs :
  elem_size pw (TVariant cs) = variant_size pw (disc_size (N.of_nat (length cs))) cs.
Proof. reflexivity. Qed.
Lemma elem_size_option pw t : elem_size pw (TOption t) = variant_size pw 1 (cases_of_option t).
Proof. reflexivity. Qed.
Lemma elem_size_result pw a b : elem_size pw (TResult a b) = variant_size pw 1 (cases_of_result a b).
Proof. reflexivity. Qed.
Lemma alignment_record pw fs : alignment pw (TRecord fs) = max_align pw fs.
Proof. reflexivity. Qed.
Lemma alignment_tuple pw fs : alignment pw (TTuple fs) = max_align pw fs.
Proof. reflexivity. Qed.
Lemma alignment_variant pw cs :
  alignment pw (TVariant cs) = N.max (disc_size (N.of_nat (length cs))) (max_case_alignment pw cs).
Proof. reflexivity. Qed.
Lemma flatten_record pw fs : flatten pw (TRecord fs) = concat (map (flatten pw) fs).
Proof. reflexivity. Qed.
Lemma flatten_tuple pw fs : flatten pw (TTuple fs) = concat (map (flatten pw) fs).
Proof. reflexivity. Qed.
Lemma flatten_variant pw cs : flatten pw (TVariant cs) = CI32 :: flatten_cases pw cs.
Proof. reflexivity. Qed.
Lemma flatten_option pw t : flatten pw (TOption t) = CI32 :: flatten_cases pw (cases_of_option t).
Proof. reflexivity. Qed.
Lemma flatten_result pw a b : flatten pw (TResult a b) = CI32 :: flatten_cases pw (cases_of_result a b).
Proof. reflexivity. Qed.
Lemma flatten_fixed pw t n : flatten pw (TFixed t n) = concat (repeat (flatten pw t) (N.to_nat n)).
Proof. reflexivity. Qed.
(** ** store *)
Section twins.
  Variable pw : N.

  Definition store_fields_t (sto : ty -> val -> N -> mstate -> option mstate) (a : N) :=
    fix store_fields (fs : list ty) (vs : list val) (s : N) (st : mstate) {struct fs} : option mstate :=
      match fs, vs with
      | [], [] => Some st
      | f :: fs', v :: vs' =>
          let o := align_to s (alignment pw f) in
          match sto f v (a + o) st with
          | Some st' => store_fields fs' vs' (o + elem_size pw f) st'
          | None => None
          end
      | _, _ => None
      end.
  Definition store_opt_t (sto : ty -> val -> N -> mstate -> option mstate)
    (o : option ty) (p : option val) (a : N) (st : mstate) : option mstate :=
    match o, p with
    | None, None => Some st
    | Some t, Some v => sto t v a st
    | _, _ => None
    end.
  Definition store_case_t (sto : ty -> val -> N -> mstate -> option mstate) :=
    fix store_case (cs : list (option ty)) (i : nat) (p : option val) (a : N) (st : mstate) {struct cs} : option mstate :=
      match cs, i with
      | [], _ => None
      | c :: _, O => store_opt_t sto c p a st
      | _ :: cs', S j => store_case cs' j p a st
      end.
  Definition store_variant_t (sto : ty -> val -> N -> mstate -> option mstate)
    (ds : N) (cs : list (option ty)) (i : N) (p : option val) (a : N) (st : mstate) : option mstate :=
    if i <? N.of_nat (length cs) then
      store_case_t sto cs (N.to_nat i) p (a + payload_offset pw ds cs) (st_store st a (N.to_nat ds) i)
    else None.
  Definition store_list_t (et : ty) (sto : val -> N -> mstate -> option mstate)
    (vs : list val) (a : N) (st : mstate) : option mstate :=
    let sz := elem_size pw et in
    let '(p, st1) := st_alloc st (N.of_nat (length vs) * sz) (alignment pw et) in
    match store_elems sto sz vs p st1 with
    | Some st2 => Some (store_ptr_len pw st2 a p (N.of_nat (length vs)))
    | None => None
    end.

  Lemma store_record_eq fs vs a st :
    store pw (TRecord fs) (VRec vs) a st = store_fields_t (store pw) a fs vs 0 st.
  Proof. reflexivity. Qed.
  Lemma store_tuple_eq fs vs a st :
    store pw (TTuple fs) (VRec vs) a st = store_fields_t (store pw) a fs vs 0 st.
  Proof. reflexivity. Qed.
  Lemma store_variant_eq cs i p a st :
    store pw (TVariant cs) (VVar i p) a st
    = store_variant_t (store pw) (disc_size (N.of_nat (length cs))) cs i p a st.
  Proof. reflexivity. Qed.
  Lemma store_option_eq t i p a st :
    store pw (TOption t) (VVar i p) a st = store_variant_t (store pw) 1 (cases_of_option t) i p a st.
  Proof. reflexivity. Qed.
  Lemma store_result_eq x y i p a st :
    store pw (TResult x y) (VVar i p) a st = store_variant_t (store pw) 1 (cases_of_result x y) i p a st.
  Proof. reflexivity. Qed.
  Lemma store_list_eq et vs a st :
    store pw (TList et) (VList vs) a st = store_list_t et (store pw et) vs a st.
  Proof. reflexivity. Qed.
  Lemma store_map_eq k e vs a st :
    store pw (TMap k e) (VList vs) a st
    = store_list_t (map_entry k e) (store_entry (store pw k) (store pw e) (entry_value_offset pw k e)) vs a st.
  Proof. reflexivity. Qed.
  Lemma store_fixed_eq et n vs a st :
    store pw (TFixed et n) (VList vs) a st
    = if N.of_nat (length vs) =? n then store_elems (store pw et) (elem_size pw et) vs a st else None.
  Proof. reflexivity. Qed.
  Lemma store_string_eq bs a st :
    store pw TString (VStr bs) a st
    = let '(p, st1) := st_alloc st (N.of_nat (length bs)) 1 in
      Some (store_ptr_len pw
              {| mem := store_bytes_at (mem st1) p bs; next := next st1; allocs := allocs st1; presets := presets st1 |}
              a p (N.of_nat (length bs))).
  Proof. reflexivity. Qed.
  Lemma store_enum_eq n i a st :
    store pw (TEnum n) (VVar i None) a st
    = if i <? n then Some (st_store st a (N.to_nat (disc_size n)) i) else None.
  Proof. reflexivity. Qed.
  Lemma store_flags_eq n bs a st :
    store pw (TFlags n) (VFlags bs) a st
    = if N.of_nat (length bs) =? n then Some (st_store st a (N.to_nat (flags_size n)) (flags_bits bs)) else None.
  Proof. reflexivity. Qed.
  Lemma store_scalar_eq t n v a st : scalar_bytes t = Some n ->
    store pw t v a st = match scalar_bits t v with Some x => Some (st_store st a n x) | None => None end.
  Proof.
    intros H. destruct t; try discriminate H; injection H as <-; destruct v; reflexivity.
  Qed.

  Lemma store_case_t_nth sto cs : forall i c p a st, nth_error cs i = Some c ->
    store_case_t sto cs i p a st = store_opt_t sto c p a st.
  Proof.
    induction cs as [|c0 cs IH]; intros [|i] c p a st H; cbn [nth_error] in H; try discriminate.
    - injection H as ->. reflexivity.
    - cbn [store_case_t]. apply IH. assumption.
  Qed.

  (** ** load *)
  Definition load_fields_t (ld : ty -> (N -> N) -> N -> option val) (m : N -> N) (a : N) :=
    fix load_fields (fs : list ty) (s : N) {struct fs} : option (list val) :=
      match fs with
      | [] => Some []
      | f :: fs' =>
          let o := align_to s (alignment pw f) in
          match ld f m (a + o) with
          | Some v => match load_fields fs' (o + elem_size pw f) with
                      | Some vs => Some (v :: vs)
                      | None => None
                      end
          | None => None
          end
      end.
  Definition load_opt_t (ld : ty -> (N -> N) -> N -> option val) (m : N -> N) (o : option ty) (a : N) : option (option val) :=
    match o with
    | None => Some None
    | Some t => match ld t m a with Some v => Some (Some v) | None => None end
    end.
  Definition load_case_t (ld : ty -> (N -> N) -> N -> option val) (m : N -> N) :=
    fix load_case (cs : list (option ty)) (i : nat) (a : N) {struct cs} : option (option val) :=
      match cs, i with
      | [], _ => None
      | c :: _, O => load_opt_t ld m c a
      | _ :: cs', S j => load_case cs' j a
      end.
  Definition load_variant_t (ld : ty -> (N -> N) -> N -> option val) (m : N -> N) (a : N)
    (ds : N) (cs : list (option ty)) : option val :=
    let i := load_le m a (N.to_nat ds) in
    if i <? N.of_nat (length cs) then
      match load_case_t ld m cs (N.to_nat i) (a + payload_offset pw ds cs) with
      | Some p => Some (VVar i p)
      | None => None
      end
    else None.
  Definition load_list_t (m : N -> N) (a : N) (et : ty) (ld : N -> option val) : option val :=
    let p := load_le m a (pw_bytes pw) in
    let len := load_le m (a + pw) (pw_bytes pw) in
    if p mod alignment pw et =? 0 then
      match load_elems ld (elem_size pw et) (N.to_nat len) p with
      | Some vs => Some (VList vs)
      | None => None
      end
    else None.

  Lemma load_record_eq fs m a :
    load pw (TRecord fs) m a = match load_fields_t (load pw) m a fs 0 with Some vs => Some (VRec vs) | None => None end.
  Proof. reflexivity. Qed.
  Lemma load_tuple_eq fs m a :
    load pw (TTuple fs) m a = match load_fields_t (load pw) m a fs 0 with Some vs => Some (VRec vs) | None => None end.
  Proof. reflexivity. Qed.
  Lemma load_variant_eq cs m a :
    load pw (TVariant cs) m a = load_variant_t (load pw) m a (disc_size (N.of_nat (length cs))) cs.
  Proof. reflexivity. Qed.
  Lemma load_option_eq t m a :
    load pw (TOption t) m a = load_variant_t (load pw) m a 1 (cases_of_option t).
  Proof. reflexivity. Qed.
  Lemma load_result_eq x y m a :
    load pw (TResult x y) m a = load_variant_t (load pw) m a 1 (cases_of_result x y).
  Proof. reflexivity. Qed.
  Lemma load_list_eq et m a : load pw (TList et) m a = load_list_t m a et (load pw et m).
  Proof. reflexivity. Qed.
  Lemma load_map_eq k e m a :
    load pw (TMap k e) m a
    = load_list_t m a (map_entry k e) (load_entry (load pw k m) (load pw e m) (entry_value_offset pw k e)).
  Proof. reflexivity. Qed.
  Lemma load_fixed_eq et n m a :
    load pw (TFixed et n) m a
    = match load_elems (load pw et m) (elem_size pw et) (N.to_nat n) a with
      | Some vs => Some (VList vs)
      | None => None
      end.
  Proof. reflexivity. Qed.
  Lemma load_string_eq m a :
    load pw TString m a
    = Some (VStr (map (fun k => (m (load_le m a (pw_bytes pw) + N.of_nat k)) mod 256)
                      (seq 0 (N.to_nat (load_le m (a + pw) (pw_bytes pw)))))).
  Proof. reflexivity. Qed.
  Lemma load_enum_eq n m a :
    load pw (TEnum n) m a
    = if load_le m a (N.to_nat (disc_size n)) <? n then Some (VVar (load_le m a (N.to_nat (disc_size n))) None) else None.
  Proof. reflexivity. Qed.
  Lemma load_flags_eq n m a :
    load pw (TFlags n) m a = Some (VFlags (bits_flags (N.to_nat n) (load_le m a (N.to_nat (flags_size n))))).
  Proof. reflexivity. Qed.
  Lemma load_scalar_eq t n m a : scalar_bytes t = Some n ->
    load pw t m a = scalar_lift t (load_le m a n).
  Proof. intros H. destruct t; try discriminate H; injection H as <-; reflexivity. Qed.

  Lemma load_case_t_nth ld m cs : forall i c a, nth_error cs i = Some c ->
    load_case_t ld m cs i a = load_opt_t ld m c a.
  Proof.
    induction cs as [|c0 cs IH]; intros [|i] c a H; cbn [nth_error] in H; try discriminate.
    - injection H as ->. reflexivity.
    - cbn [load_case_t]. apply IH. assumption.
  Qed.
End twins.
Section twins_flat.
  Variable pw : N.

  (** ** lower_flat *)
  Definition lower_list_t (st : mstate) (et : ty) (sto : val -> N -> mstate -> option mstate) (vs : list val)
    : option (list cval * mstate) :=
    let sz := elem_size pw et in
    let '(p, st1) := st_alloc st (N.of_nat (length vs) * sz) (alignment pw et) in
    match store_elems sto sz vs p st1 with
    | Some st2 => Some ([(ptr_ct pw, p); (ptr_ct pw, N.of_nat (length vs))], st2)
    | None => None
    end.
  Definition lower_fields_t (low : ty -> val -> mstate -> option (list cval * mstate)) :=
    fix lower_fields (fs : list ty) (vs : list val) (st : mstate) {struct fs} : option (list cval * mstate) :=
      match fs, vs with
      | [], [] => Some ([], st)
      | f :: fs', v :: vs' =>
          match low f v st with
          | Some (xs, st') => match lower_fields fs' vs' st' with
                              | Some (ys, st'') => Some ((xs ++ ys)%list, st'')
                              | None => None
                              end
          | None => None
          end
      | _, _ => None
      end.
  Definition lower_same_t (low : val -> mstate -> option (list cval * mstate)) :=
    fix go (vs : list val) (st : mstate) {struct vs} : option (list cval * mstate) :=
      match vs with
      | [] => Some ([], st)
      | v :: vs' => match low v st with
                    | Some (xs, st') => match go vs' st' with
                                        | Some (ys, st'') => Some ((xs ++ ys)%list, st'')
                                        | None => None
                                        end
                    | None => None
                    end
      end.
  Definition lower_opt_t (low : ty -> val -> mstate -> option (list cval * mstate)) (st : mstate)
    (o : option ty) (p : option val) : option (list cval * mstate) :=
    match o, p with
    | None, None => Some ([], st)
    | Some t, Some v => low t v st
    | _, _ => None
    end.
  Definition lower_case_t (low : ty -> val -> mstate -> option (list cval * mstate)) (st : mstate) :=
    fix lower_case (cs : list (option ty)) (i : nat) (p : option val) {struct cs} : option (list cval * mstate) :=
      match cs, i with
      | [], _ => None
      | c :: _, O => lower_opt_t low st c p
      | _ :: cs', S j => lower_case cs' j p
      end.
  Definition lower_variant_t (low : ty -> val -> mstate -> option (list cval * mstate)) (st : mstate)
    (cs : list (option ty)) (i : N) (p : option val) : option (list cval * mstate) :=
    if i <? N.of_nat (length cs) then
      match lower_case_t low st cs (N.to_nat i) p with
      | Some (xs, st') => Some ((CI32, i) :: retag xs (flatten_cases pw cs), st')
      | None => None
      end
    else None.

  Lemma lower_record_eq fs vs st :
    lower_flat pw (TRecord fs) (VRec vs) st = lower_fields_t (lower_flat pw) fs vs st.
  Proof. reflexivity. Qed.
  Lemma lower_tuple_eq fs vs st :
    lower_flat pw (TTuple fs) (VRec vs) st = lower_fields_t (lower_flat pw) fs vs st.
  Proof. reflexivity. Qed.
  Lemma lower_variant_eq cs i p st :
    lower_flat pw (TVariant cs) (VVar i p) st = lower_variant_t (lower_flat pw) st cs i p.
  Proof. reflexivity. Qed.
  Lemma lower_option_eq t i p st :
    lower_flat pw (TOption t) (VVar i p) st = lower_variant_t (lower_flat pw) st (cases_of_option t) i p.
  Proof. reflexivity. Qed.
  Lemma lower_result_eq x y i p st :
    lower_flat pw (TResult x y) (VVar i p) st = lower_variant_t (lower_flat pw) st (cases_of_result x y) i p.
  Proof. reflexivity. Qed.
  Lemma lower_list_eq et vs st :
    lower_flat pw (TList et) (VList vs) st = lower_list_t st et (store pw et) vs.
  Proof. reflexivity. Qed.
  Lemma lower_map_eq k e vs st :
    lower_flat pw (TMap k e) (VList vs) st
    = lower_list_t st (map_entry k e) (store_entry (store pw k) (store pw e) (entry_value_offset pw k e)) vs.
  Proof. reflexivity. Qed.
  Lemma lower_fixed_eq et n vs st :
    lower_flat pw (TFixed et n) (VList vs) st
    = if N.of_nat (length vs) =? n then lower_same_t (lower_flat pw et) vs st else None.
  Proof. reflexivity. Qed.
  Lemma lower_string_eq bs st :
    lower_flat pw TString (VStr bs) st
    = let '(p, st1) := st_alloc st (N.of_nat (length bs)) 1 in
      Some ([(ptr_ct pw, p); (ptr_ct pw, N.of_nat (length bs))],
            {| mem := store_bytes_at (mem st1) p bs; next := next st1; allocs := allocs st1; presets := presets st1 |}).
  Proof. reflexivity. Qed.
  Lemma lower_enum_eq n i st :
    lower_flat pw (TEnum n) (VVar i None) st = if i <? n then Some ([(CI32, i)], st) else None.
  Proof. reflexivity. Qed.
  Lemma lower_flags_eq n bs st :
    lower_flat pw (TFlags n) (VFlags bs) st
    = if N.of_nat (length bs) =? n then
        Some (map (fun k => (CI32, (flags_bits bs / 2 ^ (32 * N.of_nat k)) mod 2 ^ 32))
                  (seq 0 (N.to_nat (flags_words n))), st)
      else None.
  Proof. reflexivity. Qed.
  Lemma lower_scalar_eq t n v st : scalar_bytes t = Some n ->
    lower_flat pw t v st = match scalar_flat t v with Some c => Some ([c], st) | None => None end.
  Proof. intros H. destruct t; try discriminate H; destruct v; reflexivity. Qed.

  Lemma lower_case_t_nth low st cs : forall i c p, nth_error cs i = Some c ->
    lower_case_t low st cs i p = lower_opt_t low st c p.
  Proof.
    induction cs as [|c0 cs IH]; intros [|i] c p H; cbn [nth_error] in H; try discriminate.
    - injection H as ->. reflexivity.
    - cbn [lower_case_t]. apply IH. assumption.
  Qed.

  (** ** lift_flat *)
  Definition lift_list_t (vs : list cval) (et : ty) (ld : N -> option val) : option (val * list cval) :=
    match vs with
    | (_, p) :: (_, len) :: rest =>
        if p mod alignment pw et =? 0 then
          match load_elems ld (elem_size pw et) (N.to_nat len) p with
          | Some xs => Some (VList xs, rest)
          | None => None
          end
        else None
    | _ => None
    end.
  Definition lift_fields_t (lif : ty -> (N -> N) -> list cval -> option (val * list cval)) (m : N -> N) :=
    fix lift_fields (fs : list ty) (vs : list cval) {struct fs} : option (list val * list cval) :=
      match fs with
      | [] => Some ([], vs)
      | f :: fs' => match lif f m vs with
                    | Some (v, rest) => match lift_fields fs' rest with
                                        | Some (xs, rest') => Some (v :: xs, rest')
                                        | None => None
                                        end
                    | None => None
                    end
      end.
  Definition lift_same_t (lif : list cval -> option (val * list cval)) :=
    fix go (n : nat) (vs : list cval) {struct n} : option (list val * list cval) :=
      match n with
      | O => Some ([], vs)
      | S k => match lif vs with
               | Some (v, rest) => match go k rest with
                                   | Some (xs, rest') => Some (v :: xs, rest')
                                   | None => None
                                   end
               | None => None
               end
      end.
  Definition lift_opt_t (lif : ty -> (N -> N) -> list cval -> option (val * list cval)) (m : N -> N)
    (o : option ty) (payload : list cval) : option (option val) :=
    match o with
    | None => Some None
    | Some t => match lif t m (coerce_list payload (flatten pw t)) with
                | Some (v, _) => Some (Some v)
                | None => None
                end
    end.
  Definition lift_case_t (lif : ty -> (N -> N) -> list cval -> option (val * list cval)) (m : N -> N) :=
    fix lift_case (cs : list (option ty)) (i : nat) (payload : list cval) {struct cs} : option (option val) :=
      match cs, i with
      | [], _ => None
      | c :: _, O => lift_opt_t lif m c payload
      | _ :: cs', S j => lift_case cs' j payload
      end.
  Definition lift_variant_t (lif : ty -> (N -> N) -> list cval -> option (val * list cval)) (m : N -> N)
    (vs : list cval) (cs : list (option ty)) : option (val * list cval) :=
    match vs with
    | (_, d) :: rest =>
        let i := d mod 2 ^ 32 in
        let k := length (flatten_cases pw cs) in
        if i <? N.of_nat (length cs) then
          match lift_case_t lif m cs (N.to_nat i) (firstn k rest) with
          | Some p => Some (VVar i p, skipn k rest)
          | None => None
          end
        else None
    | [] => None
    end.

  Lemma lift_record_eq fs m vs :
    lift_flat pw (TRecord fs) m vs
    = match lift_fields_t (lift_flat pw) m fs vs with Some (xs, rest) => Some (VRec xs, rest) | None => None end.
  Proof. reflexivity. Qed.
  Lemma lift_tuple_eq fs m vs :
    lift_flat pw (TTuple fs) m vs
    = match lift_fields_t (lift_flat pw) m fs vs with Some (xs, rest) => Some (VRec xs, rest) | None => None end.
  Proof. reflexivity. Qed.
  Lemma lift_variant_eq cs m vs : lift_flat pw (TVariant cs) m vs = lift_variant_t (lift_flat pw) m vs cs.
  Proof. reflexivity. Qed.
  Lemma lift_option_eq t m vs :
    lift_flat pw (TOption t) m vs = lift_variant_t (lift_flat pw) m vs (cases_of_option t).
  Proof. reflexivity. Qed.
  Lemma lift_result_eq x y m vs :
    lift_flat pw (TResult x y) m vs = lift_variant_t (lift_flat pw) m vs (cases_of_result x y).
  Proof. reflexivity. Qed.
  Lemma lift_list_eq et m vs : lift_flat pw (TList et) m vs = lift_list_t vs et (load pw et m).
  Proof. reflexivity. Qed.
  Lemma lift_map_eq k e m vs :
    lift_flat pw (TMap k e) m vs
    = lift_list_t vs (map_entry k e) (load_entry (load pw k m) (load pw e m) (entry_value_offset pw k e)).
  Proof. reflexivity. Qed.
  Lemma lift_fixed_eq et n m vs :
    lift_flat pw (TFixed et n) m vs
    = match lift_same_t (lift_flat pw et m) (N.to_nat n) vs with
      | Some (xs, rest) => Some (VList xs, rest)
      | None => None
      end.
  Proof. reflexivity. Qed.
  Lemma lift_string_eq m vs :
    lift_flat pw TString m vs
    = match vs with
      | (_, p) :: (_, len) :: rest =>
          Some (VStr (map (fun k => (m (p + N.of_nat k)) mod 256) (seq 0 (N.to_nat len))), rest)
      | _ => None
      end.
  Proof. reflexivity. Qed.
  Lemma lift_enum_eq n m vs :
    lift_flat pw (TEnum n) m vs
    = match vs with
      | (_, d) :: rest => if d mod 2 ^ 32 <? n then Some (VVar (d mod 2 ^ 32) None, rest) else None
      | [] => None
      end.
  Proof. reflexivity. Qed.
  Lemma lift_flags_eq n m vs :
    lift_flat pw (TFlags n) m vs
    = if (length vs <? N.to_nat (flags_words n))%nat then None else
        Some (VFlags (bits_flags (N.to_nat n)
                        (fold_right (fun (c : cval) acc => (snd c) mod 2 ^ 32 + 2 ^ 32 * acc) 0
                                    (firstn (N.to_nat (flags_words n)) vs))),
              skipn (N.to_nat (flags_words n)) vs).
  Proof. reflexivity. Qed.
  Lemma lift_scalar_eq t n m vs : scalar_bytes t = Some n ->
    lift_flat pw t m vs
    = match vs with
      | (_, x) :: rest => match scalar_lift t x with Some v => Some (v, rest) | None => None end
      | [] => None
      end.
  Proof. intros H. destruct t; try discriminate H; reflexivity. Qed.

  Lemma lift_case_t_nth lif m cs : forall i c payload, nth_error cs i = Some c ->
    lift_case_t lif m cs i payload = lift_opt_t lif m c payload.
  Proof.
    induction cs as [|c0 cs IH]; intros [|i] c payload H; cbn [nth_error] in H; try discriminate.
    - injection H as ->. reflexivity.
    - cbn [lift_case_t]. apply IH. assumption.
  Qed.
End twins_flat.
(** ** validity / boundedness *)
Fixpoint bounded_ty (t : ty) : bool :=
  match t with
  | TList t | TOption t | TFixed t _ => bounded_ty t
  | TMap k v => bounded_ty k && bounded_ty v
  | TRecord fs | TTuple fs => forallb bounded_ty fs
  | TVariant cs => (N.of_nat (length cs) <=? 4294967296)
                   && forallb (fun c => match c with Some t => bounded_ty t | None => true end) cs
  | TEnum n => n <=? 4294967296
  | TResult a b => match a with Some t => bounded_ty t | None => true end
                   && match b with Some t => bounded_ty t | None => true end
  | _ => true
  end.

Definition ovalid (c : option ty) : bool := match c with Some t => valid_ty t | None => true end.
Definition obounded (c : option ty) : bool := match c with Some t => bounded_ty t | None => true end.

Lemma valid_record fs : valid_ty (TRecord fs) = negb (match fs with [] => true | _ => false end) && forallb valid_ty fs.
Proof. reflexivity. Qed.
Lemma valid_tuple fs : valid_ty (TTuple fs) = negb (match fs with [] => true | _ => false end) && forallb valid_ty fs.
Proof. reflexivity. Qed.
Lemma valid_variant cs : valid_ty (TVariant cs) = negb (match cs with [] => true | _ => false end) && forallb ovalid cs.
Proof. reflexivity. Qed.
Lemma valid_result a b : valid_ty (TResult a b) = ovalid a && ovalid b.
Proof. reflexivity. Qed.
Lemma bounded_record fs : bounded_ty (TRecord fs) = forallb bounded_ty fs.
Proof. reflexivity. Qed.
Lemma bounded_tuple fs : bounded_ty (TTuple fs) = forallb bounded_ty fs.
Proof. reflexivity. Qed.
Lemma bounded_variant cs :
  bounded_ty (TVariant cs) = (N.of_nat (length cs) <=? 4294967296) && forallb obounded cs.
Proof. reflexivity. Qed.
Lemma bounded_result a b : bounded_ty (TResult a b) = obounded a && obounded b.
Proof. reflexivity. Qed.

(** ** layout facts *)
Lemma fold_max_ge_init l : forall d, d <= fold_left N.max l d.
Proof. induction l as [|x l IH]; intros d; cbn [fold_left]; [lia|]. specialize (IH (N.max d x)). lia. Qed.

Lemma fold_max_ge_in l x : forall d, In x l -> x <= fold_left N.max l d.
Proof.
  induction l as [|y l IH]; intros d H; [destruct H|]. cbn [fold_left]. destruct H as [->|H].
  - pose proof (fold_max_ge_init l (N.max d x)). lia.
  - apply IH. assumption.
Qed.

Lemma max_align_pos pw fs : 0 < max_align pw fs.
Proof. unfold max_align. pose proof (fold_max_ge_init (map (alignment pw) fs) 1). lia. Qed.

Lemma max_case_alignment_pos pw cs : 0 < max_case_alignment pw cs.
Proof. unfold max_case_alignment. pose proof (fold_max_ge_init (map (omap (alignment pw) 1) cs) 1). lia. Qed.

Lemma flags_align_pos n : 0 < flags_align n.
Proof. unfold flags_align. destruct (n =? 0); [lia|]. destruct (n <=? 8); [lia|]. destruct (n <=? 16); lia. Qed.

Lemma alignment_pos pw t : 0 < pw -> 0 < alignment pw t.
Proof.
  intros Hpw. induction t; try exact eq_refl; try exact Hpw; try exact IHt.
  - rewrite alignment_record. apply max_align_pos.
  - rewrite alignment_tuple. apply max_align_pos.
  - rewrite alignment_variant. pose proof (max_case_alignment_pos pw cs). lia.
  - apply disc_size_pos.
  - change (0 < N.max 1 (alignment pw t)). lia.
  - change (0 < N.max 1 (N.max (omap (alignment pw) 1 ok) (omap (alignment pw) 1 err))). lia.
  - apply flags_align_pos.
Qed.

Lemma rec_end_cons pw f fs s :
  rec_end pw (f :: fs) s = rec_end pw fs (align_to s (alignment pw f) + elem_size pw f).
Proof. reflexivity. Qed.

Lemma rec_end_ge pw fs : 0 < pw -> forall s, s <= rec_end pw fs s.
Proof.
  intros Hpw. induction fs as [|f fs IH]; intros s; [cbn; lia|].
  rewrite rec_end_cons. pose proof (IH (align_to s (alignment pw f) + elem_size pw f)).
  pose proof (align_to_ge s (alignment pw f) (alignment_pos pw f Hpw)). lia.
Qed.

Lemma record_size_ge pw fs : rec_end pw fs 0 <= record_size pw fs.
Proof. unfold record_size. apply align_to_ge. apply max_align_pos. Qed.

Lemma payload_offset_ge pw ds cs : ds <= payload_offset pw ds cs.
Proof. unfold payload_offset. apply align_to_ge. apply max_case_alignment_pos. Qed.

Lemma variant_size_ge pw ds cs : payload_offset pw ds cs + max_case_size pw cs <= variant_size pw ds cs.
Proof. unfold variant_size. apply align_to_ge. pose proof (max_case_alignment_pos pw cs). lia. Qed.

Lemma case_size_le pw cs i c : nth_error cs i = Some c -> omap (elem_size pw) 0 c <= max_case_size pw cs.
Proof.
  intros H. unfold max_case_size. apply fold_max_ge_in. apply in_map. eapply nth_error_In. eassumption.
Qed.

Lemma flags_size_pos n : 0 < n -> 0 < flags_size n.
Proof. intros. pose proof (flags_size_bits n). lia. Qed.

Lemma elem_size_pos pw t : 0 < pw -> valid_ty t = true -> 0 < elem_size pw t.
Proof.
  intros Hpw. induction t using ty_ind'; intros Hv; try exact eq_refl.
  - change (0 < 2 * pw). lia.
  - change (0 < 2 * pw). lia.
  - change (valid_ty t && (0 <? n) = true) in Hv. apply andb_true_iff in Hv. destruct Hv as [Hv Hn].
    apply N.ltb_lt in Hn. specialize (IHt Hv). change (0 < n * elem_size pw t). nia.
  - change (0 < 2 * pw). lia.
  - rewrite elem_size_record. rewrite valid_record in Hv. apply andb_true_iff in Hv. destruct Hv as [Hne Hv].
    destruct fs as [|f fs]; [discriminate|]. cbn [forallb] in Hv. apply andb_true_iff in Hv. destruct Hv as [Hf _].
    inversion H as [|? ? Pf _]; subst. specialize (Pf Hf).
    pose proof (record_size_ge pw (f :: fs)). rewrite rec_end_cons in H0.
    pose proof (rec_end_ge pw fs Hpw (align_to 0 (alignment pw f) + elem_size pw f)). lia.
  - rewrite elem_size_tuple. rewrite valid_tuple in Hv. apply andb_true_iff in Hv. destruct Hv as [Hne Hv].
    destruct ts as [|f fs]; [discriminate|]. cbn [forallb] in Hv. apply andb_true_iff in Hv. destruct Hv as [Hf _].
    inversion H as [|? ? Pf _]; subst. specialize (Pf Hf).
    pose proof (record_size_ge pw (f :: fs)). rewrite rec_end_cons in H0.
    pose proof (rec_end_ge pw fs Hpw (align_to 0 (alignment pw f) + elem_size pw f)). lia.
  - rewrite elem_size_variant. pose proof (variant_size_ge pw (disc_size (N.of_nat (length cs))) cs).
    pose proof (payload_offset_ge pw (disc_size (N.of_nat (length cs))) cs).
    pose proof (disc_size_pos (N.of_nat (length cs))). lia.
  - apply disc_size_pos.
  - rewrite elem_size_option. pose proof (variant_size_ge pw 1 (cases_of_option t)).
    pose proof (payload_offset_ge pw 1 (cases_of_option t)). lia.
  - rewrite elem_size_result. pose proof (variant_size_ge pw 1 (cases_of_result ok err)).
    pose proof (payload_offset_ge pw 1 (cases_of_result ok err)). lia.
  - apply flags_size_pos. apply N.ltb_lt. exact Hv.
Qed.
