(** C05, part 4: flat-form round trip of the canonical-ABI oracle: [lift_flat] after [lower_flat] returns the
    value and consumes exactly the lowered core values. *)
From Coq Require Import List ZArith NArith Bool Lia.
From WB Require Import Wit.Ty Canon.Spec.
Import ListNotations.
Local Open Scope N_scope.
From WB Require Import Canon.SpecRoundtripArith Canon.SpecRoundtripEq Canon.SpecRoundtripMem.
Local Ltac Zify.zify_post_hook ::= Z.to_euclidean_division_equations.
(** ** list helpers *)
Lemma firstn_app_exact {A} (l r : list A) n : length l = n -> firstn n (l ++ r) = l.
Proof. intros <-. rewrite firstn_app, Nat.sub_diag, firstn_all. cbn [firstn]. apply app_nil_r. Qed.
Lemma skipn_app_exact {A} (l r : list A) n : length l = n -> skipn n (l ++ r) = r.
Proof. intros <-. rewrite skipn_app, Nat.sub_diag, skipn_all. reflexivity. Qed.

(** ** joins only widen *)
Definition fits (c : cval) : Prop := snd c < 2 ^ ct_bits (fst c).

Fixpoint ple (a b : list ct) : Prop :=
  match a, b with
  | [], _ => True
  | x :: a', y :: b' => ct_bits x <= ct_bits y /\ ple a' b'
  | _ :: _, [] => False
  end.

Lemma join_bits_l x y : ct_bits x <= ct_bits (join x y).
Proof. destruct x, y; cbn; lia. Qed.
Lemma join_bits_r x y : ct_bits y <= ct_bits (join x y).
Proof. destruct x, y; cbn; lia. Qed.

Lemma ple_refl a : ple a a.
Proof. induction a; cbn; [exact I|]. split; [lia|assumption]. Qed.
Lemma ple_trans a : forall b c, ple a b -> ple b c -> ple a c.
Proof.
  induction a as [|x a IH]; intros [|y b] [|z c] H1 H2; cbn in *; try exact I; try contradiction.
  destruct H1, H2. split; [lia|eauto].
Qed.
Lemma ple_join_l a : forall b, ple a (join_lists a b).
Proof.
  induction a as [|x a IH]; intros [|y b]; cbn [join_lists ple]; try exact I.
  - split; [lia|apply ple_refl].
  - split; [apply join_bits_l|apply IH].
Qed.
Lemma ple_join_r a : forall b, ple b (join_lists a b).
Proof.
  induction a as [|x a IH]; intros [|y b]; cbn [join_lists ple]; try exact I.
  - split; [lia|apply ple_refl].
  - split; [apply join_bits_r|apply IH].
Qed.

Lemma ple_fold_acc pw cs : forall acc,
  ple acc (fold_left (fun acc c => join_lists acc (omap (flatten pw) [] c)) cs acc).
Proof.
  induction cs as [|c cs IH]; intros acc; cbn [fold_left]; [apply ple_refl|].
  eapply ple_trans; [apply ple_join_l|apply IH].
Qed.
Lemma ple_fold_in pw cs c : In c cs -> forall acc,
  ple (omap (flatten pw) [] c) (fold_left (fun acc c => join_lists acc (omap (flatten pw) [] c)) cs acc).
Proof.
  induction cs as [|c0 cs IH]; intros Hin acc; [destruct Hin|]. cbn [fold_left]. destruct Hin as [->|Hin].
  - eapply ple_trans; [apply ple_join_r|apply ple_fold_acc].
  - apply IH. assumption.
Qed.
Lemma ple_case pw cs i c : nth_error cs i = Some c -> ple (omap (flatten pw) [] c) (flatten_cases pw cs).
Proof. intros H. apply ple_fold_in. eapply nth_error_In. eassumption. Qed.

(** ** retag / coerce_list *)
Lemma retag_tags want : forall ys, map fst (retag ys want) = want.
Proof.
  induction want as [|w want IH]; intros [|[c x] ys]; cbn [retag map fst]; try reflexivity; f_equal; apply IH.
Qed.
Lemma retag_length ys want : length (retag ys want) = length want.
Proof. rewrite <- (retag_tags want ys) at 2. rewrite map_length. reflexivity. Qed.

Lemma pow2_pos n : 0 < 2 ^ n.
Proof. apply N.neq_0_lt_0, N.pow_nonzero. discriminate. Qed.

Lemma retag_fits want : forall ys, Forall fits ys -> ple (map fst ys) want -> Forall fits (retag ys want).
Proof.
  induction want as [|w want IH]; intros [|[c x] ys] Hf Hp; cbn [retag]; try constructor.
  - unfold fits. cbn [fst snd]. apply pow2_pos.
  - apply IH; [constructor|exact I].
  - cbn [map fst ple] in Hp. destruct Hp as [Hb _]. inversion Hf as [|? ? Hx _]; subst.
    unfold fits in *. cbn [fst snd] in *. eapply N.lt_le_trans; [exact Hx|].
    apply N.pow_le_mono_r; [discriminate|exact Hb].
  - cbn [map fst ple] in Hp. destruct Hp as [_ Hp]. inversion Hf; subst. apply IH; assumption.
Qed.

Lemma coerce_retag ys : forall want, Forall fits ys -> ple (map fst ys) want ->
  coerce_list (retag ys want) (map fst ys) = ys.
Proof.
  induction ys as [|[c x] ys IH]; intros want Hf Hp.
  - destruct want; reflexivity.
  - destruct want as [|w want]; [destruct Hp|]. cbn [map fst ple] in Hp. destruct Hp as [_ Hp].
    inversion Hf as [|? ? Hx Hf']; subst. cbn [retag map fst coerce_list]. unfold coerce_down.
    unfold fits in Hx. cbn [fst snd] in Hx. rewrite N.mod_small by exact Hx. f_equal. apply IH; assumption.
Qed.
Section flat.
  Variable pw : N.
  Hypothesis Hpw : pw = 4 \/ pw = 8.
  Let B := ptr_bound pw.

  Lemma ct_bits_ptr : 2 ^ ct_bits (ptr_ct pw) = B.
  Proof. unfold B, ptr_bound. destruct Hpw; subst; reflexivity. Qed.

  (** The flat-form round-trip contract of type [t] for value [v]. *)
  Definition flat_ok (t : ty) (v : val) : Prop :=
    forall st, presets st = [] ->
    exists cs st', lower_flat pw t v st = Some (cs, st') /\ presets st' = [] /\ next st <= next st' /\
      (forall b, b < next st -> mem st' b = mem st b) /\
      map fst cs = flatten pw t /\
      (next st' < B -> Forall fits cs) /\
      (forall m rest, next st' < B -> (forall b, next st <= b < next st' -> m b = mem st' b) ->
         lift_flat pw t m (cs ++ rest) = Some (v, rest)).

  (** ** scalars *)
  Lemma scalar_flat_rt t n v : scalar_bytes t = Some n -> has_type t v = true ->
    exists c x, scalar_flat t v = Some (c, x) /\ flatten pw t = [c] /\ x < 2 ^ ct_bits c /\
                scalar_lift t x = Some v.
  Proof.
    intros Hn Hv.
    destruct t; try discriminate Hn; destruct v; try discriminate Hv;
      cbn [has_type] in Hv; cbn [scalar_flat scalar_lift];
      try (apply in_range_spec in Hv).
    all: try match goal with |- context [Some (?c, wrapZ ?k ?z)] =>
           exists c, (wrapZ k z); split; [reflexivity|]; split; [reflexivity|]; split; [apply wrapZ_lt|];
           do 2 f_equal end.
    all: try match goal with |- context [Some (?c, Z.to_N ?z)] =>
           exists c, (Z.to_N z); split; [reflexivity|]; split; [reflexivity|]; cbn [ct_bits]; ev_consts;
           (split; [lia|]) end.
    all: ev_consts.
    all: try solve [do 2 f_equal; lia].
    all: try solve [first [apply signed_8_32|apply signed_16_32|apply signed_32_32|apply signed_64_64]; lia].
    - exists CI32, (if b then 1 else 0). destruct b; (split; [reflexivity|]; split; [reflexivity|]; split; reflexivity).
    - apply N.ltb_lt in Hv. exists CF32, bits. split; [reflexivity|]. split; [reflexivity|]. split; [exact Hv|].
      rewrite N.mod_small by exact Hv. reflexivity.
    - apply N.ltb_lt in Hv. exists CF64, bits. split; [reflexivity|]. split; [reflexivity|]. split; [exact Hv|].
      rewrite N.mod_small by exact Hv. reflexivity.
    - assert (Hr : (0 <= z < 1114112)%Z).
      { unfold is_scalar_value in Hv. apply orb_true_iff in Hv. destruct Hv as [Hv|Hv]; apply in_range_spec in Hv; lia. }
      exists CI32, (Z.to_N z). split; [reflexivity|]. split; [reflexivity|]. split; [cbn [ct_bits]; lia|].
      rewrite N.mod_small by lia. rewrite Z2N.id by lia. rewrite Hv. reflexivity.
  Qed.

  Lemma flat_ok_scalar t n v : scalar_bytes t = Some n -> has_type t v = true -> flat_ok t v.
  Proof.
    intros Hn Hv st Hp. destruct (scalar_flat_rt t n v Hn Hv) as (c & x & E & Hfl & Hx & Hl).
    rewrite (lower_scalar_eq pw t n v st Hn), E. exists [(c, x)], st.
    split; [reflexivity|]. split; [assumption|]. split; [lia|]. split; [reflexivity|].
    split; [rewrite Hfl; reflexivity|]. split; [intros _; repeat constructor; exact Hx|].
    intros m rest _ _. rewrite (lift_scalar_eq pw t n m _ Hn). cbn [app]. rewrite Hl. reflexivity.
  Qed.

  Lemma flat_ok_enum n v : bounded_ty (TEnum n) = true -> has_type (TEnum n) v = true -> flat_ok (TEnum n) v.
  Proof.
    intros Hb Hv st Hp. destruct v as [| | | | | |i [p|]|]; try discriminate Hv.
    change (i <? n = true) in Hv. change (n <=? 4294967296 = true) in Hb.
    rewrite lower_enum_eq, Hv. apply N.leb_le in Hb. pose proof Hv as Hv'. apply N.ltb_lt in Hv'.
    exists [(CI32, i)], st.
    split; [reflexivity|]. split; [assumption|]. split; [lia|]. split; [reflexivity|].
    split; [reflexivity|]. split.
    - intros _. repeat constructor. unfold fits. cbn [fst snd ct_bits]. change (2 ^ 32) with 4294967296. lia.
    - intros m rest _ _. rewrite lift_enum_eq. cbn [app].
      rewrite N.mod_small by (change (2 ^ 32) with 4294967296; lia). rewrite Hv. reflexivity.
  Qed.

  Lemma words_tags (f : nat -> N) w : forall j, map fst (map (fun k => (CI32, f k)) (seq j w)) = repeat CI32 w.
  Proof. induction w as [|w IH]; intros j; [reflexivity|]. cbn [seq map fst repeat]. f_equal. apply IH. Qed.

  Lemma flat_ok_flags n v : has_type (TFlags n) v = true -> flat_ok (TFlags n) v.
  Proof.
    intros Hv st Hp. destruct v as [| | | | | | |bs]; try discriminate Hv.
    change (N.of_nat (length bs) =? n = true) in Hv.
    rewrite lower_flags_eq, Hv. apply N.eqb_eq in Hv.
    set (w := N.to_nat (flags_words n)).
    set (ws := map (fun k => (CI32, (flags_bits bs / 2 ^ (32 * N.of_nat k)) mod 2 ^ 32)) (seq 0 w)).
    assert (Hlen : @length cval ws = w) by (unfold ws; rewrite map_length, seq_length; reflexivity).
    exists ws, st.
    split; [reflexivity|]. split; [assumption|]. split; [lia|]. split; [reflexivity|].
    split; [apply words_tags|]. split.
    - intros _. apply Forall_forall. intros c Hin. unfold ws in Hin. apply in_map_iff in Hin.
      destruct Hin as (k & <- & _). unfold fits. cbn [fst snd ct_bits].
      apply N.mod_lt. apply N.pow_nonzero. discriminate.
    - intros m rest _ _. rewrite lift_flags_eq. fold w.
      assert (Hl : (length (@app cval ws rest) <? w)%nat = false) by (apply Nat.ltb_ge; rewrite app_length; lia).
      rewrite Hl. rewrite (@firstn_app_exact cval ws rest w Hlen), (@skipn_app_exact cval ws rest w Hlen).
      unfold ws. rewrite words_sum. rewrite N.mul_0_r, N.pow_0_r, N.div_1_r.
      rewrite N.mod_small.
      + subst n. rewrite Nat2N.id, bits_flags_bits. reflexivity.
      + eapply N.lt_le_trans; [apply flags_bits_lt|]. apply N.pow_le_mono_r; [discriminate|].
        unfold w. rewrite N2Nat.id. rewrite Hv. apply flags_words_bits.
  Qed.

  Lemma flat_ok_string v : has_type TString v = true -> flat_ok TString v.
  Proof.
    intros Hv st Hp. destruct v as [| | |bs| | | |]; try discriminate Hv.
    change (forallb (fun b => b <? 256) bs = true) in Hv.
    rewrite lower_string_eq, (st_alloc_bump st _ 1 Hp).
    set (p := align_to (next st) 1). set (len := N.of_nat (length bs)).
    assert (Hpge : next st <= p) by (apply align_to_ge; reflexivity).
    eexists. eexists. split; [reflexivity|]. cbn [presets next mem].
    split; [assumption|]. split; [lia|]. split.
    - intros b Hb. apply store_bytes_at_other. lia.
    - split; [reflexivity|]. split.
      + intros HB. repeat constructor; unfold fits; cbn [fst snd]; rewrite ct_bits_ptr; lia.
      + intros m rest HB Hm. rewrite lift_string_eq. cbn [app]. unfold len. rewrite Nat2N.id. f_equal. f_equal. f_equal.
        apply bytes_readback; [exact Hv|]. intros k Hk.
        rewrite Hm by (fold len; lia). apply store_bytes_at_nth. exact Hk.
  Qed.
  (** ** records / tuples *)
  Lemma fields_flat_ok fs vs : Forall2 flat_ok fs vs ->
    forall st, presets st = [] ->
    exists cs st', lower_fields_t (lower_flat pw) fs vs st = Some (cs, st') /\ presets st' = [] /\
      next st <= next st' /\
      (forall b, b < next st -> mem st' b = mem st b) /\
      map fst cs = concat (map (flatten pw) fs) /\
      (next st' < B -> Forall fits cs) /\
      (forall m rest, next st' < B -> (forall b, next st <= b < next st' -> m b = mem st' b) ->
         lift_fields_t (lift_flat pw) m fs (cs ++ rest) = Some (vs, rest)).
  Proof.
    induction 1 as [|f v fs vs Hv _ IH]; intros st Hp.
    - exists [], st. split; [reflexivity|]. split; [assumption|]. split; [lia|]. split; [reflexivity|].
      split; [reflexivity|]. split; [constructor|]. reflexivity.
    - destruct (Hv st Hp) as (xs & st1 & E1 & Hp1 & Hn1 & Hf1 & Ht1 & Hfit1 & Hl1).
      destruct (IH st1 Hp1) as (ys & st2 & E2 & Hp2 & Hn2 & Hf2 & Ht2 & Hfit2 & Hl2).
      exists (xs ++ ys)%list, st2. cbn [lower_fields_t]. rewrite E1, E2.
      split; [reflexivity|]. split; [assumption|]. split; [lia|]. split.
      + intros b Hb. rewrite Hf2 by lia. apply Hf1. assumption.
      + split; [cbn [map concat]; unfold cval in *; rewrite map_app, Ht1, Ht2; reflexivity|]. split.
        * intros HB. apply Forall_app. split; [apply Hfit1; lia|apply Hfit2; assumption].
        * intros m rest HB Hm. cbn [lift_fields_t]. rewrite <- app_assoc.
          rewrite (Hl1 m); [|lia|].
          -- rewrite (Hl2 m); [reflexivity|assumption|]. intros b Hb. apply Hm. lia.
          -- intros b Hb. rewrite Hm by lia. apply Hf2. lia.
  Qed.

  (** ** fixed-length lists *)
  Lemma same_flat_ok et vs : Forall (flat_ok et) vs ->
    forall st, presets st = [] ->
    exists cs st', lower_same_t (lower_flat pw et) vs st = Some (cs, st') /\ presets st' = [] /\
      next st <= next st' /\
      (forall b, b < next st -> mem st' b = mem st b) /\
      map fst cs = concat (repeat (flatten pw et) (length vs)) /\
      (next st' < B -> Forall fits cs) /\
      (forall m rest, next st' < B -> (forall b, next st <= b < next st' -> m b = mem st' b) ->
         lift_same_t (lift_flat pw et m) (length vs) (cs ++ rest) = Some (vs, rest)).
  Proof.
    induction 1 as [|v vs Hv _ IH]; intros st Hp.
    - exists [], st. split; [reflexivity|]. split; [assumption|]. split; [lia|]. split; [reflexivity|].
      split; [reflexivity|]. split; [constructor|]. reflexivity.
    - destruct (Hv st Hp) as (xs & st1 & E1 & Hp1 & Hn1 & Hf1 & Ht1 & Hfit1 & Hl1).
      destruct (IH st1 Hp1) as (ys & st2 & E2 & Hp2 & Hn2 & Hf2 & Ht2 & Hfit2 & Hl2).
      exists (xs ++ ys)%list, st2. cbn [lower_same_t]. rewrite E1, E2.
      split; [reflexivity|]. split; [assumption|]. split; [lia|]. split.
      + intros b Hb. rewrite Hf2 by lia. apply Hf1. assumption.
      + split; [cbn [length repeat concat]; unfold cval in *; rewrite map_app, Ht1, Ht2; reflexivity|]. split.
        * intros HB. apply Forall_app. split; [apply Hfit1; lia|apply Hfit2; assumption].
        * intros m rest HB Hm. cbn [length lift_same_t]. rewrite <- app_assoc.
          rewrite (Hl1 m); [|lia|].
          -- rewrite (Hl2 m); [reflexivity|assumption|]. intros b Hb. apply Hm. lia.
          -- intros b Hb. rewrite Hm by lia. apply Hf2. lia.
  Qed.

  (** ** variants *)
  Definition fcopt_ok (c : option ty) (p : option val) : Prop :=
    match c, p with
    | None, None => True
    | Some t, Some v => flat_ok t v
    | _, _ => False
    end.

  Lemma variant_flat_ok cs i p c :
    nth_error cs (N.to_nat i) = Some c -> fcopt_ok c p ->
    i < N.of_nat (length cs) -> i < 2 ^ 32 ->
    forall st, presets st = [] ->
    exists xs st', lower_variant_t pw (lower_flat pw) st cs i p = Some (xs, st') /\ presets st' = [] /\
      next st <= next st' /\
      (forall b, b < next st -> mem st' b = mem st b) /\
      map fst xs = CI32 :: flatten_cases pw cs /\
      (next st' < B -> Forall fits xs) /\
      (forall m rest, next st' < B -> (forall b, next st <= b < next st' -> m b = mem st' b) ->
         lift_variant_t pw (lift_flat pw) m (xs ++ rest) cs = Some (VVar i p, rest)).
  Proof.
    intros Hnth Hc Hi H32 st Hp.
    pose proof (ple_case pw cs _ c Hnth) as Hple.
    assert (Hi' : i <? N.of_nat (length cs) = true) by (apply N.ltb_lt; exact Hi).
    unfold lower_variant_t. rewrite Hi'. rewrite (lower_case_t_nth (lower_flat pw) st cs _ c p Hnth).
    assert (Hcase : exists ys st', lower_opt_t (lower_flat pw) st c p = Some (ys, st') /\ presets st' = [] /\
              next st <= next st' /\ (forall b, b < next st -> mem st' b = mem st b) /\
              map fst ys = omap (flatten pw) [] c /\ (next st' < B -> Forall fits ys) /\
              (forall m, next st' < B -> (forall b, next st <= b < next st' -> m b = mem st' b) ->
                 lift_opt_t pw (lift_flat pw) m c (retag ys (flatten_cases pw cs)) = Some p)).
    { destruct c as [t|], p as [v|]; cbn [fcopt_ok] in Hc; try contradiction; cbn [lower_opt_t omap].
      - destruct (Hc st Hp) as (ys & st' & E & Hp' & Hn & Hf & Ht & Hfit & Hl).
        exists ys, st'. split; [exact E|]. split; [assumption|]. split; [assumption|]. split; [assumption|].
        split; [assumption|]. split; [assumption|]. intros m HB Hm.
        cbn [omap] in Hple. rewrite <- Ht in Hple. unfold lift_opt_t. rewrite <- Ht.
        rewrite (coerce_retag ys _ (Hfit HB) Hple).
        specialize (Hl m [] HB Hm). rewrite app_nil_r in Hl. rewrite Hl. reflexivity.
      - exists [], st. split; [reflexivity|]. split; [assumption|]. split; [lia|]. split; [reflexivity|].
        split; [reflexivity|]. split; [constructor|]. intros m _ _. reflexivity. }
    destruct Hcase as (ys & st' & E & Hp' & Hn & Hf & Ht & Hfit & Hl).
    rewrite E. eexists. exists st'. split; [reflexivity|]. split; [assumption|]. split; [assumption|].
    split; [assumption|]. split; [cbn [map fst]; rewrite retag_tags; reflexivity|]. split.
    - intros HB. constructor; [unfold fits; cbn [fst snd ct_bits]; exact H32|].
      apply retag_fits; [apply Hfit; assumption|rewrite Ht; exact Hple].
    - intros m rest HB Hm. unfold lift_variant_t. cbn [app]. cbv zeta.
      rewrite (N.mod_small i (2 ^ 32)) by exact H32. rewrite Hi'.
      rewrite (@firstn_app_exact cval _ rest _ (retag_length ys (flatten_cases pw cs))).
      rewrite (@skipn_app_exact cval _ rest _ (retag_length ys (flatten_cases pw cs))).
      rewrite (lift_case_t_nth pw (lift_flat pw) m cs _ c _ Hnth).
      rewrite (Hl m HB Hm). reflexivity.
  Qed.
  (** ** lists and maps *)
  Lemma list_flat_ok et sto ld vs :
    0 < elem_size pw et -> Forall (mem_ok pw (elem_size pw et) sto ld) vs ->
    forall st, presets st = [] ->
    exists cs st', lower_list_t pw st et sto vs = Some (cs, st') /\ presets st' = [] /\ next st <= next st' /\
      (forall b, b < next st -> mem st' b = mem st b) /\
      map fst cs = [ptr_ct pw; ptr_ct pw] /\
      (next st' < B -> Forall fits cs) /\
      (forall m rest, next st' < B -> (forall b, next st <= b < next st' -> m b = mem st' b) ->
         lift_list_t pw (cs ++ rest) et (ld m) = Some (VList vs, rest)).
  Proof.
    intros Hsz Hvs st Hp.
    destruct (list_body_ok pw Hpw et sto ld vs st Hsz Hvs Hp)
      as (st1 & st2 & E1 & E2 & Hp2 & Hpge & Hn2 & Hmod & Hf2 & Hl2).
    unfold lower_list_t. cbv zeta. rewrite E1, E2.
    set (p := align_to (next st) (alignment pw et)) in *. set (len := N.of_nat (length vs)) in *.
    eexists. exists st2. split; [reflexivity|]. split; [assumption|]. split; [lia|]. split; [assumption|].
    split; [reflexivity|]. split.
    - intros HB. repeat constructor; unfold fits; cbn [fst snd]; rewrite ct_bits_ptr; fold B in HB; lia.
    - intros m rest HB Hm. unfold lift_list_t. cbn [app]. rewrite Hmod. cbn [N.eqb].
      unfold len. rewrite Nat2N.id. rewrite (Hl2 m HB Hm). reflexivity.
  Qed.

  (** ** the induction over types *)
  Definition PF (t : ty) : Prop :=
    valid_ty t = true -> bounded_ty t = true -> forall v, has_type t v = true -> flat_ok t v.

  Lemma fields_PF fs : Forall PF fs -> forallb valid_ty fs = true -> forallb bounded_ty fs = true ->
    forall vs, all2_t has_type fs vs = true -> Forall2 flat_ok fs vs.
  Proof.
    induction 1 as [|f fs Hf _ IH]; intros Hv Hb [|v vs] Ht; cbn [all2_t] in Ht; try discriminate Ht.
    - constructor.
    - cbn [forallb] in Hv, Hb. apply andb_true_iff in Hv, Hb, Ht.
      destruct Hv, Hb, Ht. constructor; auto.
  Qed.

  Lemma cases_PF cs i c : Forall (OptP PF) cs -> forallb ovalid cs = true -> forallb obounded cs = true ->
    nth_error cs i = Some c -> forall p, opt_t has_type c p = true -> fcopt_ok c p.
  Proof.
    intros HP Hv Hb Hnth p Ht. apply nth_error_In in Hnth.
    rewrite Forall_forall in HP. rewrite forallb_forall in Hv, Hb.
    specialize (HP c Hnth). specialize (Hv c Hnth). specialize (Hb c Hnth).
    destruct c as [t|], p as [v|]; cbn in *; try discriminate; auto.
  Qed.

  Ltac finish_variant E H1 H2 H3 H4 H5 H6 :=
    split; [exact E|]; split; [exact H1|]; split; [exact H2|]; split; [exact H3|]; split; [exact H4|];
    split; [exact H5|].

  Theorem flat_roundtrip t : PF t.
  Proof.
    induction t using ty_ind'; intros Hv Hb v Ht;
      try (match goal with |- flat_ok ?t _ =>
             first [exact (flat_ok_scalar t 1%nat v eq_refl Ht) | exact (flat_ok_scalar t 2%nat v eq_refl Ht)
                   | exact (flat_ok_scalar t 4%nat v eq_refl Ht) | exact (flat_ok_scalar t 8%nat v eq_refl Ht)] end).
    - (* string *) exact (flat_ok_string v Ht).
    - (* list *)
      destruct v as [| | | |vs| | |]; try discriminate Ht.
      change (forallb (has_type t) vs = true) in Ht.
      intros st Hp.
      destruct (list_flat_ok t (store pw t) (load pw t) vs (elem_size_pos pw t (pw_pos pw Hpw) Hv)
                  (elems_P pw t vs (mem_roundtrip pw Hpw t) Hv Hb Ht) st Hp)
        as (cs & st' & E & H1 & H2 & H3 & H4 & H5 & H6).
      exists cs, st'. rewrite lower_list_eq. finish_variant E H1 H2 H3 H4 H5 H6.
      intros m rest HB Hm. rewrite lift_list_eq. exact (H6 m rest HB Hm).
    - (* fixed *)
      destruct v as [| | | |vs| | |]; try discriminate Ht.
      change ((N.of_nat (length vs) =? n) && forallb (has_type t) vs = true) in Ht.
      change (valid_ty t && (0 <? n) = true) in Hv.
      apply andb_true_iff in Ht, Hv. destruct Ht as [Hlen Ht], Hv as [Hv _].
      assert (HF : Forall (flat_ok t) vs).
      { rewrite forallb_forall in Ht. apply Forall_forall. intros x Hin. apply IHt; auto. }
      intros st Hp. rewrite lower_fixed_eq, Hlen. apply N.eqb_eq in Hlen. subst n.
      destruct (same_flat_ok t vs HF st Hp) as (cs & st' & E & H1 & H2 & H3 & H4 & H5 & H6).
      exists cs, st'. split; [exact E|]. split; [exact H1|]. split; [exact H2|]. split; [exact H3|].
      split; [rewrite flatten_fixed, Nat2N.id; exact H4|]. split; [exact H5|].
      intros m rest HB Hm. rewrite lift_fixed_eq, Nat2N.id, (H6 m rest HB Hm). reflexivity.
    - (* map *)
      destruct v as [| | | |vs| | |]; try discriminate Ht.
      change (forallb (fun e => match e with VRec [a; b] => has_type t1 a && has_type t2 b | _ => false end) vs = true) in Ht.
      change (valid_ty t1 && valid_ty t2 = true) in Hv. change (bounded_ty t1 && bounded_ty t2 = true) in Hb.
      apply andb_true_iff in Hv, Hb. destruct Hv as [Hv1 Hv2], Hb as [Hb1 Hb2].
      intros st Hp.
      destruct (list_flat_ok (map_entry t1 t2)
                  (store_entry (store pw t1) (store pw t2) (entry_value_offset pw t1 t2))
                  (fun m => load_entry (load pw t1 m) (load pw t2 m) (entry_value_offset pw t1 t2)) vs)
        with (st := st) as (cs & st' & E & H1 & H2 & H3 & H4 & H5 & H6); [| |exact Hp|].
      + change (0 < record_size pw [t1; t2]).
        pose proof (record_size_ge pw [t1; t2]) as Hge. rewrite rec_end_cons in Hge.
        pose proof (rec_end_ge pw [t2] (pw_pos pw Hpw) (align_to 0 (alignment pw t1) + elem_size pw t1)).
        pose proof (elem_size_pos pw t1 (pw_pos pw Hpw) Hv1). lia.
      + rewrite forallb_forall in Ht. apply Forall_forall. intros e Hin. specialize (Ht e Hin).
        destruct e as [| | | | |[|x [|y [|]]]| |]; try discriminate Ht.
        apply andb_true_iff in Ht. destruct Ht.
        apply entry_ok; [exact Hpw|apply (mem_roundtrip pw Hpw t1)|apply (mem_roundtrip pw Hpw t2)]; assumption.
      + exists cs, st'. rewrite lower_map_eq. finish_variant E H1 H2 H3 H4 H5 H6.
        intros m rest HB Hm. rewrite lift_map_eq. exact (H6 m rest HB Hm).
    - (* record *)
      destruct v as [| | | | |vs| |]; try discriminate Ht.
      rewrite has_type_record in Ht. rewrite valid_record in Hv. rewrite bounded_record in Hb.
      apply andb_true_iff in Hv. destruct Hv as [_ Hv].
      pose proof (fields_PF fs H Hv Hb vs Ht) as HF.
      intros st Hp. destruct (fields_flat_ok fs vs HF st Hp) as (cs & st' & E & H1 & H2 & H3 & H4 & H5 & H6).
      exists cs, st'. rewrite lower_record_eq, flatten_record. finish_variant E H1 H2 H3 H4 H5 H6.
      intros m rest HB Hm. rewrite lift_record_eq, (H6 m rest HB Hm). reflexivity.
    - (* tuple *)
      destruct v as [| | | | |vs| |]; try discriminate Ht.
      rewrite has_type_tuple in Ht. rewrite valid_tuple in Hv. rewrite bounded_tuple in Hb.
      apply andb_true_iff in Hv. destruct Hv as [_ Hv].
      pose proof (fields_PF ts H Hv Hb vs Ht) as HF.
      intros st Hp. destruct (fields_flat_ok ts vs HF st Hp) as (cs & st' & E & H1 & H2 & H3 & H4 & H5 & H6).
      exists cs, st'. rewrite lower_tuple_eq, flatten_tuple. finish_variant E H1 H2 H3 H4 H5 H6.
      intros m rest HB Hm. rewrite lift_tuple_eq, (H6 m rest HB Hm). reflexivity.
    - (* variant *)
      destruct v as [| | | | | |i p|]; try discriminate Ht.
      rewrite has_type_variant in Ht. rewrite valid_variant in Hv. rewrite bounded_variant in Hb.
      apply andb_true_iff in Hv, Hb, Ht. destruct Hv as [_ Hv], Hb as [Hn Hb], Ht as [Hi Ht].
      apply N.ltb_lt in Hi. apply N.leb_le in Hn.
      destruct (nthcase_t_nth _ _ _ _ Ht) as (c & Hnth & Hc).
      intros st Hp.
      destruct (variant_flat_ok cs i p c Hnth (cases_PF cs _ c H Hv Hb Hnth p Hc) Hi) with (st := st)
        as (xs & st' & E & H1 & H2 & H3 & H4 & H5 & H6); [change (2 ^ 32) with 4294967296; lia|exact Hp|].
      exists xs, st'. rewrite lower_variant_eq, flatten_variant. finish_variant E H1 H2 H3 H4 H5 H6.
      intros m rest HB Hm. rewrite lift_variant_eq. exact (H6 m rest HB Hm).
    - (* enum *) exact (flat_ok_enum n v Hb Ht).
    - (* option *)
      destruct v as [| | | | | |i p|]; try discriminate Ht.
      rewrite has_type_option in Ht. destruct (nthcase_t_nth _ _ _ _ Ht) as (c & Hnth & Hc).
      assert (Hi : i < N.of_nat (length (cases_of_option t))).
      { assert (N.to_nat i < length (cases_of_option t))%nat by (apply nth_error_Some; congruence). lia. }
      assert (HF : Forall (OptP PF) (cases_of_option t)) by (repeat constructor; exact IHt).
      assert (Hv' : forallb ovalid (cases_of_option t) = true)
        by (change (valid_ty t = true) in Hv; cbn [forallb cases_of_option ovalid]; rewrite Hv; reflexivity).
      assert (Hb' : forallb obounded (cases_of_option t) = true)
        by (change (bounded_ty t = true) in Hb; cbn [forallb cases_of_option obounded]; rewrite Hb; reflexivity).
      intros st Hp.
      destruct (variant_flat_ok _ i p c Hnth (cases_PF _ _ c HF Hv' Hb' Hnth p Hc) Hi) with (st := st)
        as (xs & st' & E & H1 & H2 & H3 & H4 & H5 & H6);
        [change (2 ^ 32) with 4294967296; cbn [length cases_of_option] in Hi; lia|exact Hp|].
      exists xs, st'. rewrite lower_option_eq, flatten_option. finish_variant E H1 H2 H3 H4 H5 H6.
      intros m rest HB Hm. rewrite lift_option_eq. exact (H6 m rest HB Hm).
    - (* result *)
      destruct v as [| | | | | |i p|]; try discriminate Ht.
      rewrite has_type_result in Ht. destruct (nthcase_t_nth _ _ _ _ Ht) as (c & Hnth & Hc).
      assert (Hi : i < N.of_nat (length (cases_of_result ok err))).
      { assert (N.to_nat i < length (cases_of_result ok err))%nat by (apply nth_error_Some; congruence). lia. }
      assert (HF : Forall (OptP PF) (cases_of_result ok err)) by (repeat constructor; assumption).
      rewrite valid_result in Hv. rewrite bounded_result in Hb.
      assert (Hv' : forallb ovalid (cases_of_result ok err) = true)
        by (cbn [forallb cases_of_result]; rewrite andb_true_r; exact Hv).
      assert (Hb' : forallb obounded (cases_of_result ok err) = true)
        by (cbn [forallb cases_of_result]; rewrite andb_true_r; exact Hb).
      intros st Hp.
      destruct (variant_flat_ok _ i p c Hnth (cases_PF _ _ c HF Hv' Hb' Hnth p Hc) Hi) with (st := st)
        as (xs & st' & E & H1 & H2 & H3 & H4 & H5 & H6);
        [change (2 ^ 32) with 4294967296; cbn [length cases_of_result] in Hi; lia|exact Hp|].
      exists xs, st'. rewrite lower_result_eq, flatten_result. finish_variant E H1 H2 H3 H4 H5 H6.
      intros m rest HB Hm. rewrite lift_result_eq. exact (H6 m rest HB Hm).
    - (* flags *) exact (flat_ok_flags n v Ht).
  Qed.
End flat.

(** (A) flat form, stand-alone statement. *)
Theorem lower_lift_roundtrip pw t v st :
  pw = 4 \/ pw = 8 -> valid_ty t = true -> bounded_ty t = true -> has_type t v = true ->
  presets st = [] ->
  exists cs st', lower_flat pw t v st = Some (cs, st') /\ presets st' = [] /\ next st <= next st' /\
    (forall b, b < next st -> mem st' b = mem st b) /\
    map fst cs = flatten pw t /\ length cs = length (flatten pw t) /\
    (next st' < ptr_bound pw ->
       Forall fits cs /\
       lift_flat pw t (mem st') cs = Some (v, []) /\
       (forall m rest, (forall b, next st <= b < next st' -> m b = mem st' b) ->
          lift_flat pw t m (cs ++ rest) = Some (v, rest))).
Proof.
  intros Hpw Hv Hb Ht Hp.
  destruct (flat_roundtrip pw Hpw t Hv Hb v Ht st Hp) as (cs & st' & E & H1 & H2 & H3 & H4 & H5 & H6).
  exists cs, st'. split; [exact E|]. split; [exact H1|]. split; [exact H2|]. split; [exact H3|].
  split; [exact H4|]. split; [rewrite <- H4; rewrite map_length; reflexivity|].
  intros HB. split; [exact (H5 HB)|]. split.
  - specialize (H6 (mem st') [] HB (fun b _ => eq_refl)). rewrite app_nil_r in H6. exact H6.
  - intros m rest Hm. exact (H6 m rest HB Hm).
Qed.
