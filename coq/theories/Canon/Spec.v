(** The Component Model canonical ABI (CanonicalABI.md / definitions.py), transcribed as executable
    Gallina, parameterised by the pointer width [pw] in bytes (4 = wasm32, 8 = the memory64 layout that
    wit-parser's ArchitectureSize/Alignment encode).  This file is the ORACLE: it is written from the
    specification, not from crates/core/src/abi.rs.

    Deliberate simplifications (stated in the trusted base):
    - strings are byte lists; UTF-8/UTF-16 validation and transcoding are not modelled;
    - floats are bit patterns and are never canonicalised (the property asks for bit-exact transport);
    - linear memory is an unbounded [N -> N] byte map; "out of bounds" traps are not modelled, alignment
      traps are;
    - [realloc] is a deterministic bump allocator recorded in an allocation ledger. *)
From Coq Require Import List ZArith NArith Bool Lia.
From WB Require Import Wit.Ty.
Import ListNotations.
Local Open Scope N_scope.

(** * Core value types and values *)
Inductive ct := CI32 | CI64 | CF32 | CF64.
Definition ct_eqb (a b : ct) : bool :=
  match a, b with CI32, CI32 | CI64, CI64 | CF32, CF32 | CF64, CF64 => true | _, _ => false end.
Definition cval : Type := ct * N.          (* type, bit pattern *)

Definition ptr_ct (pw : N) : ct := if pw =? 8 then CI64 else CI32.

(** * Layout *)
Definition align_to (x a : N) : N := ((x + a - 1) / a) * a.

Definition disc_size (ncases : N) : N :=
  if ncases <=? 256 then 1 else if ncases <=? 65536 then 2 else 4.

Definition flags_size (n : N) : N :=
  if n =? 0 then 0 else if n <=? 8 then 1 else if n <=? 16 then 2 else 4 * ((n + 31) / 32).
Definition flags_align (n : N) : N :=
  if n =? 0 then 4 else if n <=? 8 then 1 else if n <=? 16 then 2 else 4.
Definition flags_words (n : N) : N :=
  if n =? 0 then 0 else if n <=? 16 then 1 else (n + 31) / 32.

Definition omap {A} (f : ty -> A) (d : A) (o : option ty) : A :=
  match o with Some t => f t | None => d end.

Fixpoint alignment (pw : N) (t : ty) : N :=
  let maxl (l : list N) := fold_left N.max l 1 in
  let cases (cs : list (option ty)) := maxl (map (omap (alignment pw) 1) cs) in
  match t with
  | TBool | TU8 | TS8 => 1
  | TU16 | TS16 => 2
  | TU32 | TS32 | TF32 | TChar | TErrCtx | TOwn | TBorrow | TFuture _ | TStream _ => 4
  | TU64 | TS64 | TF64 => 8
  | TString | TList _ | TMap _ _ => pw
  | TFixed t _ => alignment pw t
  | TRecord fs | TTuple fs => maxl (map (alignment pw) fs)
  | TVariant cs => N.max (disc_size (N.of_nat (length cs))) (cases cs)
  | TEnum n => disc_size n
  | TOption t => N.max 1 (alignment pw t)
  | TResult a b => N.max 1 (N.max (omap (alignment pw) 1 a) (omap (alignment pw) 1 b))
  | TFlags n => flags_align n
  end.

Definition max_case_alignment (pw : N) (cs : list (option ty)) : N :=
  fold_left N.max (map (omap (alignment pw) 1) cs) 1.

Fixpoint elem_size (pw : N) (t : ty) : N :=
  let record (fs : list ty) :=
    align_to (fold_left (fun s f => align_to s (alignment pw f) + elem_size pw f) fs 0)
             (fold_left N.max (map (alignment pw) fs) 1) in
  let variant (ds : N) (cs : list (option ty)) :=
    let mca := max_case_alignment pw cs in
    let ms := fold_left N.max (map (omap (elem_size pw) 0) cs) 0 in
    align_to (align_to ds mca + ms) (N.max ds mca) in
  match t with
  | TBool | TU8 | TS8 => 1
  | TU16 | TS16 => 2
  | TU32 | TS32 | TF32 | TChar | TErrCtx | TOwn | TBorrow | TFuture _ | TStream _ => 4
  | TU64 | TS64 | TF64 => 8
  | TString | TList _ | TMap _ _ => 2 * pw
  | TFixed t n => n * elem_size pw t
  | TRecord fs | TTuple fs => record fs
  | TVariant cs => variant (disc_size (N.of_nat (length cs))) cs
  | TEnum n => disc_size n
  | TOption t => variant 1 (cases_of_option t)
  | TResult a b => variant 1 (cases_of_result a b)
  | TFlags n => flags_size n
  end.

(** Offsets of record fields: [(offset, type)] in order. *)
Fixpoint field_offsets_from (pw : N) (s : N) (fs : list ty) : list (N * ty) :=
  match fs with
  | [] => []
  | f :: fs' => let o := align_to s (alignment pw f) in (o, f) :: field_offsets_from pw (o + elem_size pw f) fs'
  end.
Definition field_offsets (pw : N) (fs : list ty) := field_offsets_from pw 0 fs.
Definition payload_offset (pw : N) (ds : N) (cs : list (option ty)) : N :=
  align_to ds (max_case_alignment pw cs).

(** The element type of a map's backing list. *)
Definition map_entry (k v : ty) : ty := TTuple [k; v].

(** * Flattening *)
Definition join (a b : ct) : ct :=
  if ct_eqb a b then a
  else match a, b with
       | CI32, CF32 | CF32, CI32 => CI32
       | _, _ => CI64
       end.

Fixpoint join_lists (a b : list ct) : list ct :=
  match a, b with
  | [], _ => b
  | _, [] => a
  | x :: a', y :: b' => join x y :: join_lists a' b'
  end.

Fixpoint flatten (pw : N) (t : ty) : list ct :=
  let cases (cs : list (option ty)) :=
    fold_left (fun acc c => join_lists acc (omap (flatten pw) [] c)) cs [] in
  match t with
  | TBool | TU8 | TS8 | TU16 | TS16 | TU32 | TS32 | TChar | TErrCtx | TOwn | TBorrow
  | TFuture _ | TStream _ | TEnum _ => [CI32]
  | TU64 | TS64 => [CI64]
  | TF32 => [CF32]
  | TF64 => [CF64]
  | TString | TList _ | TMap _ _ => [ptr_ct pw; ptr_ct pw]
  | TFixed t n => concat (repeat (flatten pw t) (N.to_nat n))
  | TRecord fs | TTuple fs => concat (map (flatten pw) fs)
  | TVariant cs => CI32 :: cases cs
  | TOption t => CI32 :: cases (cases_of_option t)
  | TResult a b => CI32 :: cases (cases_of_result a b)
  | TFlags n => repeat CI32 (N.to_nat (flags_words n))
  end.

Definition flatten_cases (pw : N) (cs : list (option ty)) : list ct :=
  fold_left (fun acc c => join_lists acc (omap (flatten pw) [] c)) cs [].

(** * Function types *)
Definition MAX_FLAT_PARAMS : nat := 16.
Definition MAX_FLAT_ASYNC_PARAMS : nat := 4.
Definition MAX_FLAT_RESULTS : nat := 1.

(** * Memory and allocation *)
Record mstate := {
  mem : N -> N;                          (* bytes *)
  next : N;                              (* bump pointer *)
  allocs : list (N * N * N);             (* ledger: (ptr, size, align), most recent first *)
  presets : list N;                      (* addresses the embedder's realloc will return next (else: bump) *)
}.
Definition mstate0 (base : N) : mstate := {| mem := fun _ => 0; next := base; allocs := []; presets := [] |}.

Definition pow256 (n : nat) : N := N.pow 256 (N.of_nat n).

Fixpoint load_le (m : N -> N) (a : N) (n : nat) : N :=
  match n with
  | O => 0
  | S k => (m a) mod 256 + 256 * load_le m (a + 1) k
  end.

Definition store_le (m : N -> N) (a : N) (n : nat) (x : N) : N -> N :=
  fun b => if (a <=? b) && (b <? a + N.of_nat n) then (x / pow256 (N.to_nat (b - a))) mod 256 else m b.

Definition st_store (st : mstate) (a : N) (n : nat) (x : N) : mstate :=
  {| mem := store_le (mem st) a n x; next := next st; allocs := allocs st; presets := presets st |}.

(** realloc(0, 0, align, size): zero-sized requests are not entered in the ledger. *)
Definition st_alloc (st : mstate) (size align : N) : N * mstate :=
  match (if size =? 0 then [] else presets st) with
  | p :: rest =>
      (p, {| mem := mem st; next := next st; allocs := (p, size, align) :: allocs st; presets := rest |})
  | [] =>
      let p := align_to (next st) align in
      (p, {| mem := mem st; next := p + size;
             allocs := if size =? 0 then allocs st else (p, size, align) :: allocs st; presets := presets st |})
  end.

Fixpoint store_bytes_at (m : N -> N) (a : N) (bs : list N) : N -> N :=
  match bs with
  | [] => m
  | b :: bs' => store_bytes_at (store_le m a 1 b) (a + 1) bs'
  end.

(** * Scalars *)
Definition pw_bytes (pw : N) : nat := N.to_nat pw.
Definition wrapZ (bits : N) (z : Z) : N := Z.to_N (z mod (2 ^ Z.of_N bits))%Z.
Definition to_signed (bits : N) (n : N) : Z :=
  let m := n mod (2 ^ bits) in
  if m <? 2 ^ (bits - 1) then Z.of_N m else (Z.of_N m - 2 ^ Z.of_N bits)%Z.

Definition scalar_bytes (t : ty) : option nat :=
  match t with
  | TBool | TU8 | TS8 => Some 1%nat
  | TU16 | TS16 => Some 2%nat
  | TU32 | TS32 | TF32 | TChar | TErrCtx | TOwn | TBorrow | TFuture _ | TStream _ => Some 4%nat
  | TU64 | TS64 | TF64 => Some 8%nat
  | _ => None
  end.

(** Bit pattern of a scalar value as stored in memory / carried in its flat core value. *)
Definition scalar_bits (t : ty) (v : val) : option N :=
  match t, v with
  | TBool, VBool b => Some (if b then 1 else 0)
  | (TU8 | TU16 | TU32 | TU64 | TChar | TErrCtx | TOwn | TBorrow | TFuture _ | TStream _), VNum z => Some (Z.to_N z)
  | TS8, VNum z => Some (wrapZ 8 z)
  | TS16, VNum z => Some (wrapZ 16 z)
  | TS32, VNum z => Some (wrapZ 32 z)
  | TS64, VNum z => Some (wrapZ 64 z)
  | (TF32 | TF64), VFloat b => Some b
  | _, _ => None
  end.

(** Flat core value of a scalar: sign-/zero-extended to 32 bits for narrow integers. *)
Definition scalar_flat (t : ty) (v : val) : option cval :=
  match t, v with
  | TBool, VBool b => Some (CI32, if b then 1 else 0)
  | (TU8 | TU16 | TU32 | TChar | TErrCtx | TOwn | TBorrow | TFuture _ | TStream _), VNum z => Some (CI32, Z.to_N z)
  | (TS8 | TS16 | TS32), VNum z => Some (CI32, wrapZ 32 z)
  | TU64, VNum z => Some (CI64, Z.to_N z)
  | TS64, VNum z => Some (CI64, wrapZ 64 z)
  | TF32, VFloat b => Some (CF32, b)
  | TF64, VFloat b => Some (CF64, b)
  | _, _ => None
  end.

(** Lifting a scalar from the N carried by a core value / loaded from memory ([x] already reduced to the
    core width).  [None] = trap. *)
Definition scalar_lift (t : ty) (x : N) : option val :=
  match t with
  | TBool => Some (VBool (negb (x =? 0)))
  | TU8 => Some (VNum (Z.of_N (x mod 2 ^ 8)))
  | TU16 => Some (VNum (Z.of_N (x mod 2 ^ 16)))
  | TU32 | TErrCtx | TOwn | TBorrow | TFuture _ | TStream _ => Some (VNum (Z.of_N (x mod 2 ^ 32)))
  | TU64 => Some (VNum (Z.of_N (x mod 2 ^ 64)))
  | TS8 => Some (VNum (to_signed 8 x))
  | TS16 => Some (VNum (to_signed 16 x))
  | TS32 => Some (VNum (to_signed 32 x))
  | TS64 => Some (VNum (to_signed 64 x))
  | TF32 => Some (VFloat (x mod 2 ^ 32))
  | TF64 => Some (VFloat (x mod 2 ^ 64))
  | TChar => let c := x mod 2 ^ 32 in
             if is_scalar_value (Z.of_N c) then Some (VNum (Z.of_N c)) else None
  | _ => None
  end.

Definition flags_bits (bs : list bool) : N :=
  fold_right (fun (b : bool) acc => (if b then 1 else 0) + 2 * acc) 0 bs.
Fixpoint bits_flags (n : nat) (x : N) : list bool :=
  match n with O => [] | S k => N.odd x :: bits_flags k (x / 2) end.

(** * Storing *)
Section store.
  Variable pw : N.

  (** Store the elements of a list consecutively starting at [a]. *)
  Definition store_elems (store : val -> N -> mstate -> option mstate) (sz : N) :=
    fix go (vs : list val) (a : N) (st : mstate) : option mstate :=
      match vs with
      | [] => Some st
      | v :: vs' => match store v a st with
                    | Some st' => go vs' (a + sz) st'
                    | None => None
                    end
      end.

  Definition store_ptr_len (st : mstate) (a p len : N) : mstate :=
    st_store (st_store st a (pw_bytes pw) p) (a + pw) (pw_bytes pw) len.

  (** A map entry is laid out as [tuple<k, v>]. *)
  Definition entry_value_offset (k e : ty) : N := align_to (elem_size pw k) (alignment pw e).
  Definition store_entry (sk se : val -> N -> mstate -> option mstate) (off : N)
    (v : val) (a : N) (st : mstate) : option mstate :=
    match v with
    | VRec [x; y] => match sk x a st with Some st' => se y (a + off) st' | None => None end
    | _ => None
    end.
  Definition load_entry (lk le : N -> option val) (off : N) (a : N) : option val :=
    match lk a with
    | Some x => match le (a + off) with Some y => Some (VRec [x; y]) | None => None end
    | None => None
    end.

  Fixpoint store (t : ty) (v : val) (a : N) (st : mstate) {struct t} : option mstate :=
    let store_list (et : ty) (sto : val -> N -> mstate -> option mstate) (vs : list val) (a : N) (st : mstate) : option mstate :=
      let sz := elem_size pw et in
      let '(p, st1) := st_alloc st (N.of_nat (length vs) * sz) (alignment pw et) in
      match store_elems sto sz vs p st1 with
      | Some st2 => Some (store_ptr_len st2 a p (N.of_nat (length vs)))
      | None => None
      end in
    let fix store_fields (fs : list ty) (vs : list val) (s : N) (st : mstate) {struct fs} : option mstate :=
      match fs, vs with
      | [], [] => Some st
      | f :: fs', v :: vs' =>
          let o := align_to s (alignment pw f) in
          match store f v (a + o) st with
          | Some st' => store_fields fs' vs' (o + elem_size pw f) st'
          | None => None
          end
      | _, _ => None
      end in
    let store_opt (o : option ty) (p : option val) (a : N) (st : mstate) : option mstate :=
      match o, p with
      | None, None => Some st
      | Some t, Some v => store t v a st
      | _, _ => None
      end in
    let fix store_case (cs : list (option ty)) (i : nat) (p : option val) (a : N) (st : mstate) {struct cs} : option mstate :=
      match cs, i with
      | [], _ => None
      | c :: _, O => store_opt c p a st
      | _ :: cs', S j => store_case cs' j p a st
      end in
    let store_variant (ds : N) (cs : list (option ty)) (i : N) (p : option val) : option mstate :=
      if i <? N.of_nat (length cs) then
        store_case cs (N.to_nat i) p (a + payload_offset pw ds cs) (st_store st a (N.to_nat ds) i)
      else None in
    match t, v with
    | TString, VStr bs =>
        let '(p, st1) := st_alloc st (N.of_nat (length bs)) 1 in
        let st2 := {| mem := store_bytes_at (mem st1) p bs; next := next st1; allocs := allocs st1; presets := presets st1 |} in
        Some (store_ptr_len st2 a p (N.of_nat (length bs)))
    | TList et, VList vs => store_list et (store et) vs a st
    | TMap k e, VList vs => store_list (map_entry k e) (store_entry (store k) (store e) (entry_value_offset k e)) vs a st
    | TFixed et n, VList vs =>
        if N.of_nat (length vs) =? n then store_elems (store et) (elem_size pw et) vs a st else None
    | TRecord fs, VRec vs => store_fields fs vs 0 st
    | TTuple fs, VRec vs => store_fields fs vs 0 st
    | TVariant cs, VVar i p => store_variant (disc_size (N.of_nat (length cs))) cs i p
    | TEnum n, VVar i None => if i <? n then Some (st_store st a (N.to_nat (disc_size n)) i) else None
    | TOption t', VVar i p => store_variant 1 (cases_of_option t') i p
    | TResult ok err, VVar i p => store_variant 1 (cases_of_result ok err) i p
    | TFlags n, VFlags bs =>
        if N.of_nat (length bs) =? n then Some (st_store st a (N.to_nat (flags_size n)) (flags_bits bs)) else None
    | _, _ =>
        match scalar_bytes t, scalar_bits t v with
        | Some n, Some x => Some (st_store st a n x)
        | _, _ => None
        end
    end.

  (** * Lowering to flat core values *)
  Definition coerce_up (have want : ct) (x : N) : N := x.
    (* lower_flat_variant: f32->i32 / f64->i64 reinterpret, i32->i64 zero-extend, f32->i64 reinterpret+zero-extend:
       on bit patterns all of them are the identity *)

  Fixpoint retag (vs : list cval) (want : list ct) : list cval :=
    match vs, want with
    | (_, x) :: vs', w :: want' => (w, x) :: retag vs' want'
    | [], w :: want' => (w, 0) :: retag [] want'
    | _, [] => []
    end.

  Fixpoint lower_flat (t : ty) (v : val) (st : mstate) {struct t} : option (list cval * mstate) :=
    let lower_list (et : ty) (sto : val -> N -> mstate -> option mstate) (vs : list val) : option (list cval * mstate) :=
      let sz := elem_size pw et in
      let '(p, st1) := st_alloc st (N.of_nat (length vs) * sz) (alignment pw et) in
      match store_elems sto sz vs p st1 with
      | Some st2 => Some ([(ptr_ct pw, p); (ptr_ct pw, N.of_nat (length vs))], st2)
      | None => None
      end in
    let fix lower_fields (fs : list ty) (vs : list val) (st : mstate) {struct fs} : option (list cval * mstate) :=
      match fs, vs with
      | [], [] => Some ([], st)
      | f :: fs', v :: vs' =>
          match lower_flat f v st with
          | Some (xs, st') => match lower_fields fs' vs' st' with
                              | Some (ys, st'') => Some ((xs ++ ys)%list, st'')
                              | None => None
                              end
          | None => None
          end
      | _, _ => None
      end in
    let lower_same (low : val -> mstate -> option (list cval * mstate)) :=
      fix go (vs : list val) (st : mstate) {struct vs} : option (list cval * mstate) :=
      match vs with
      | [] => Some ([], st)
      | v :: vs' => match low v st with
                    | Some (xs, st') => match go vs' st' with
                                        | Some (ys, st'') => Some ((xs ++ ys)%list, st'')
                                        | None => None
                                        end
                    | None => None
                    end
      end in
    let lower_opt (o : option ty) (p : option val) : option (list cval * mstate) :=
      match o, p with
      | None, None => Some ([], st)
      | Some t, Some v => lower_flat t v st
      | _, _ => None
      end in
    let fix lower_case (cs : list (option ty)) (i : nat) (p : option val) {struct cs} : option (list cval * mstate) :=
      match cs, i with
      | [], _ => None
      | c :: _, O => lower_opt c p
      | _ :: cs', S j => lower_case cs' j p
      end in
    let lower_variant (cs : list (option ty)) (i : N) (p : option val) : option (list cval * mstate) :=
      if i <? N.of_nat (length cs) then
        match lower_case cs (N.to_nat i) p with
        | Some (xs, st') => Some ((CI32, i) :: retag xs (flatten_cases pw cs), st')
        | None => None
        end
      else None in
    match t, v with
    | TString, VStr bs =>
        let '(p, st1) := st_alloc st (N.of_nat (length bs)) 1 in
        Some ([(ptr_ct pw, p); (ptr_ct pw, N.of_nat (length bs))],
              {| mem := store_bytes_at (mem st1) p bs; next := next st1; allocs := allocs st1; presets := presets st1 |})
    | TList et, VList vs => lower_list et (store et) vs
    | TMap k e, VList vs => lower_list (map_entry k e) (store_entry (store k) (store e) (entry_value_offset k e)) vs
    | TFixed et n, VList vs => if N.of_nat (length vs) =? n then lower_same (lower_flat et) vs st else None
    | TRecord fs, VRec vs => lower_fields fs vs st
    | TTuple fs, VRec vs => lower_fields fs vs st
    | TVariant cs, VVar i p => lower_variant cs i p
    | TEnum n, VVar i None => if i <? n then Some ([(CI32, i)], st) else None
    | TOption t', VVar i p => lower_variant (cases_of_option t') i p
    | TResult ok err, VVar i p => lower_variant (cases_of_result ok err) i p
    | TFlags n, VFlags bs =>
        if N.of_nat (length bs) =? n then
          Some (map (fun k => (CI32, (flags_bits bs / 2 ^ (32 * N.of_nat k)) mod 2 ^ 32))
                    (seq 0 (N.to_nat (flags_words n))), st)
        else None
    | _, _ => match scalar_flat t v with Some c => Some ([c], st) | None => None end
    end.

  (** * Loading *)
  Definition load_elems (load : N -> option val) (sz : N) :=
    fix go (n : nat) (a : N) : option (list val) :=
      match n with
      | O => Some []
      | S k => match load a with
               | Some v => match go k (a + sz) with Some vs => Some (v :: vs) | None => None end
               | None => None
               end
      end.

  Fixpoint load (t : ty) (m : N -> N) (a : N) {struct t} : option val :=
    let load_list (et : ty) (ld : N -> option val) : option val :=
      let p := load_le m a (pw_bytes pw) in
      let len := load_le m (a + pw) (pw_bytes pw) in
      if p mod alignment pw et =? 0 then
        match load_elems ld (elem_size pw et) (N.to_nat len) p with
        | Some vs => Some (VList vs)
        | None => None
        end
      else None in
    let fix load_fields (fs : list ty) (s : N) {struct fs} : option (list val) :=
      match fs with
      | [] => Some []
      | f :: fs' =>
          let o := align_to s (alignment pw f) in
          match load f m (a + o) with
          | Some v => match load_fields fs' (o + elem_size pw f) with
                      | Some vs => Some (v :: vs)
                      | None => None
                      end
          | None => None
          end
      end in
    let load_opt (o : option ty) (a : N) : option (option val) :=
      match o with
      | None => Some None
      | Some t => match load t m a with Some v => Some (Some v) | None => None end
      end in
    let fix load_case (cs : list (option ty)) (i : nat) (a : N) {struct cs} : option (option val) :=
      match cs, i with
      | [], _ => None
      | c :: _, O => load_opt c a
      | _ :: cs', S j => load_case cs' j a
      end in
    let load_variant (ds : N) (cs : list (option ty)) : option val :=
      let i := load_le m a (N.to_nat ds) in
      if i <? N.of_nat (length cs) then
        match load_case cs (N.to_nat i) (a + payload_offset pw ds cs) with
        | Some p => Some (VVar i p)
        | None => None
        end
      else None in
    match t with
    | TString =>
        let p := load_le m a (pw_bytes pw) in
        let len := load_le m (a + pw) (pw_bytes pw) in
        Some (VStr (map (fun k => (m (p + N.of_nat k)) mod 256) (seq 0 (N.to_nat len))))
    | TList et => load_list et (load et m)
    | TMap k e => load_list (map_entry k e) (load_entry (load k m) (load e m) (entry_value_offset k e))
    | TFixed et n =>
        match load_elems (load et m) (elem_size pw et) (N.to_nat n) a with
        | Some vs => Some (VList vs)
        | None => None
        end
    | TRecord fs | TTuple fs => match load_fields fs 0 with Some vs => Some (VRec vs) | None => None end
    | TVariant cs => load_variant (disc_size (N.of_nat (length cs))) cs
    | TEnum n => let i := load_le m a (N.to_nat (disc_size n)) in
                 if i <? n then Some (VVar i None) else None
    | TOption t' => load_variant 1 (cases_of_option t')
    | TResult ok err => load_variant 1 (cases_of_result ok err)
    | TFlags n => Some (VFlags (bits_flags (N.to_nat n) (load_le m a (N.to_nat (flags_size n)))))
    | _ => match scalar_bytes t with
           | Some n => scalar_lift t (load_le m a n)
           | None => None
           end
    end.

  (** * Lifting from flat core values *)
  (** lift_flat_variant's coercion from the joined slot type [have] to the case's own type [want]:
      i64 -> i32 wraps; everything else is a reinterpretation of the low bits. *)
  Definition ct_bits (c : ct) : N := match c with CI32 | CF32 => 32 | CI64 | CF64 => 64 end.
  Definition coerce_down (want : ct) (x : N) : cval := (want, x mod 2 ^ ct_bits want).

  Fixpoint coerce_list (vs : list cval) (want : list ct) : list cval :=
    match vs, want with
    | (_, x) :: vs', w :: want' => coerce_down w x :: coerce_list vs' want'
    | _, _ => []
    end.

  Fixpoint lift_flat (t : ty) (m : N -> N) (vs : list cval) {struct t} : option (val * list cval) :=
    let lift_list (et : ty) (ld : N -> option val) : option (val * list cval) :=
      match vs with
      | (_, p) :: (_, len) :: rest =>
          if p mod alignment pw et =? 0 then
            match load_elems ld (elem_size pw et) (N.to_nat len) p with
            | Some xs => Some (VList xs, rest)
            | None => None
            end
          else None
      | _ => None
      end in
    let fix lift_fields (fs : list ty) (vs : list cval) {struct fs} : option (list val * list cval) :=
      match fs with
      | [] => Some ([], vs)
      | f :: fs' => match lift_flat f m vs with
                    | Some (v, rest) => match lift_fields fs' rest with
                                        | Some (xs, rest') => Some (v :: xs, rest')
                                        | None => None
                                        end
                    | None => None
                    end
      end in
    let lift_same (lif : list cval -> option (val * list cval)) :=
      fix go (n : nat) (vs : list cval) {struct n} : option (list val * list cval) :=
      match n with
      | O => Some ([], vs)
      | S k => match lif vs with
               | Some (v, rest) => match go k rest with
                                   | Some (xs, rest') => Some (v :: xs, rest')
                                   | None => None
                                   end
               | None => None
               end
      end in
    let lift_opt (o : option ty) (payload : list cval) : option (option val) :=
      match o with
      | None => Some None
      | Some t => match lift_flat t m (coerce_list payload (flatten pw t)) with
                  | Some (v, _) => Some (Some v)
                  | None => None
                  end
      end in
    let fix lift_case (cs : list (option ty)) (i : nat) (payload : list cval) {struct cs} : option (option val) :=
      match cs, i with
      | [], _ => None
      | c :: _, O => lift_opt c payload
      | _ :: cs', S j => lift_case cs' j payload
      end in
    let lift_variant (cs : list (option ty)) : option (val * list cval) :=
      match vs with
      | (_, d) :: rest =>
          let i := d mod 2 ^ 32 in
          let k := length (flatten_cases pw cs) in
          if i <? N.of_nat (length cs) then
            match lift_case cs (N.to_nat i) (firstn k rest) with
            | Some p => Some (VVar i p, skipn k rest)
            | None => None
            end
          else None
      | [] => None
      end in
    match t with
    | TString =>
        match vs with
        | (_, p) :: (_, len) :: rest =>
            Some (VStr (map (fun k => (m (p + N.of_nat k)) mod 256) (seq 0 (N.to_nat len))), rest)
        | _ => None
        end
    | TList et => lift_list et (load et m)
    | TMap k e => lift_list (map_entry k e) (load_entry (load k m) (load e m) (entry_value_offset k e))
    | TFixed et n => match lift_same (lift_flat et m) (N.to_nat n) vs with
                     | Some (xs, rest) => Some (VList xs, rest)
                     | None => None
                     end
    | TRecord fs | TTuple fs => match lift_fields fs vs with
                               | Some (xs, rest) => Some (VRec xs, rest)
                               | None => None
                               end
    | TVariant cs => lift_variant cs
    | TEnum n => match vs with
                 | (_, d) :: rest => let i := d mod 2 ^ 32 in
                                     if i <? n then Some (VVar i None, rest) else None
                 | [] => None
                 end
    | TOption t' => lift_variant (cases_of_option t')
    | TResult ok err => lift_variant (cases_of_result ok err)
    | TFlags n =>
        let w := N.to_nat (flags_words n) in
        if (length vs <? w)%nat then None else
        let x := fold_right (fun (c : cval) acc => (snd c) mod 2 ^ 32 + 2 ^ 32 * acc) 0 (firstn w vs) in
        Some (VFlags (bits_flags (N.to_nat n) x), skipn w vs)
    | _ => match vs with
           | (_, x) :: rest => match scalar_lift t x with
                               | Some v => Some (v, rest)
                               | None => None
                               end
           | [] => None
           end
    end.
End store.

(** Well-formed types: what WIT source can express (non-empty aggregates, pw in {4,8}). *)
Fixpoint valid_ty (t : ty) : bool :=
  match t with
  | TList t | TOption t => valid_ty t
  | TFixed t n => valid_ty t && (0 <? n)
  | TMap k v => valid_ty k && valid_ty v
  | TRecord fs | TTuple fs => negb (match fs with [] => true | _ => false end) && forallb valid_ty fs
  | TVariant cs => negb (match cs with [] => true | _ => false end)
                   && forallb (fun c => match c with Some t => valid_ty t | None => true end) cs
  | TEnum n | TFlags n => 0 <? n
  | TResult a b => match a with Some t => valid_ty t | None => true end
                   && match b with Some t => valid_ty t | None => true end
  | TFuture p | TStream p => match p with Some t => valid_ty t | None => true end
  | _ => true
  end.
