(** C06 support: the allocation ledger of the canonical-ABI oracle [Canon/Spec.v].
    [spec_allocs pw t v] is the (size, align) sequence of the non-zero-sized allocations that lowering / storing
    [v : t] performs, as a function of type and value only.  Every successful run of [lower_flat] or [store], from
    ANY allocator state (bump or presets), appends exactly that sequence to the ledger; zero-sized requests
    consume no preset and enter no entry; presets are consumed in order.  Under the bump allocator the new
    entries are aligned, fresh, pairwise disjoint blocks. *)
From Coq Require Import List ZArith NArith Bool Lia.
From WB Require Import Wit.Ty Canon.Spec.
From WB Require Import Canon.SpecRoundtripArith Canon.SpecRoundtripEq Canon.SpecRoundtripMem.
Import ListNotations.
Local Open Scope N_scope.
Local Ltac Zify.zify_post_hook ::= Z.to_euclidean_division_equations.
(** * The allocation sequence of a lowering, as a function of type and value only *)
Definition nz (s a : N) : list (N * N) := if s =? 0 then [] else [(s, a)].

Fixpoint spec_allocs (pw : N) (t : ty) (v : val) {struct t} : list (N * N) :=
  let fix fields (fs : list ty) (vs : list val) {struct fs} : list (N * N) :=
    match fs, vs with
    | f :: fs', v :: vs' => (spec_allocs pw f v ++ fields fs' vs')%list
    | _, _ => []
    end in
  let opt (o : option ty) (p : option val) : list (N * N) :=
    match o, p with
    | Some t, Some v => spec_allocs pw t v
    | _, _ => []
    end in
  let fix case (cs : list (option ty)) (i : nat) (p : option val) {struct cs} : list (N * N) :=
    match cs, i with
    | [], _ => []
    | c :: _, O => opt c p
    | _ :: cs', S j => case cs' j p
    end in
  match t, v with
  | TString, VStr bs => nz (N.of_nat (length bs)) 1
  | TList et, VList vs =>
      (nz (N.of_nat (length vs) * elem_size pw et) (alignment pw et) ++ flat_map (spec_allocs pw et) vs)%list
  | TMap k e, VList vs =>
      (nz (N.of_nat (length vs) * elem_size pw (map_entry k e)) (alignment pw (map_entry k e))
       ++ flat_map (fun x => match x with
                             | VRec [a; b] => (spec_allocs pw k a ++ spec_allocs pw e b)%list
                             | _ => []
                             end) vs)%list
  | TFixed et _, VList vs => flat_map (spec_allocs pw et) vs
  | TRecord fs, VRec vs => fields fs vs
  | TTuple fs, VRec vs => fields fs vs
  | TVariant cs, VVar i p => case cs (N.to_nat i) p
  | TOption t', VVar i p => case (cases_of_option t') (N.to_nat i) p
  | TResult a b, VVar i p => case (cases_of_result a b) (N.to_nat i) p
  | _, _ => []
  end.

(** twins + equations *)
Definition sa_fields_t (f : ty -> val -> list (N * N)) :=
  fix fields (fs : list ty) (vs : list val) {struct fs} : list (N * N) :=
    match fs, vs with
    | f0 :: fs', v :: vs' => (f f0 v ++ fields fs' vs')%list
    | _, _ => []
    end.
Definition sa_opt_t (f : ty -> val -> list (N * N)) (o : option ty) (p : option val) : list (N * N) :=
  match o, p with
  | Some t, Some v => f t v
  | _, _ => []
  end.
Definition sa_case_t (f : ty -> val -> list (N * N)) :=
  fix case (cs : list (option ty)) (i : nat) (p : option val) {struct cs} : list (N * N) :=
    match cs, i with
    | [], _ => []
    | c :: _, O => sa_opt_t f c p
    | _ :: cs', S j => case cs' j p
    end.
Definition sa_entry (pw : N) (k e : ty) (x : val) : list (N * N) :=
  match x with
  | VRec [a; b] => (spec_allocs pw k a ++ spec_allocs pw e b)%list
  | _ => []
  end.

Lemma sa_record pw fs vs : spec_allocs pw (TRecord fs) (VRec vs) = sa_fields_t (spec_allocs pw) fs vs.
Proof. reflexivity. Qed.
Lemma sa_tuple pw fs vs : spec_allocs pw (TTuple fs) (VRec vs) = sa_fields_t (spec_allocs pw) fs vs.
Proof. reflexivity. Qed.
Lemma sa_variant pw cs i p : spec_allocs pw (TVariant cs) (VVar i p) = sa_case_t (spec_allocs pw) cs (N.to_nat i) p.
Proof. reflexivity. Qed.
Lemma sa_option pw t i p :
  spec_allocs pw (TOption t) (VVar i p) = sa_case_t (spec_allocs pw) (cases_of_option t) (N.to_nat i) p.
Proof. reflexivity. Qed.
Lemma sa_result pw a b i p :
  spec_allocs pw (TResult a b) (VVar i p) = sa_case_t (spec_allocs pw) (cases_of_result a b) (N.to_nat i) p.
Proof. reflexivity. Qed.
Lemma sa_list pw et vs :
  spec_allocs pw (TList et) (VList vs)
  = (nz (N.of_nat (length vs) * elem_size pw et) (alignment pw et) ++ flat_map (spec_allocs pw et) vs)%list.
Proof. reflexivity. Qed.
Lemma sa_map pw k e vs :
  spec_allocs pw (TMap k e) (VList vs)
  = (nz (N.of_nat (length vs) * elem_size pw (map_entry k e)) (alignment pw (map_entry k e))
     ++ flat_map (sa_entry pw k e) vs)%list.
Proof. reflexivity. Qed.
Lemma sa_fixed pw et n vs : spec_allocs pw (TFixed et n) (VList vs) = flat_map (spec_allocs pw et) vs.
Proof. reflexivity. Qed.
Lemma sa_string pw bs : spec_allocs pw TString (VStr bs) = nz (N.of_nat (length bs)) 1.
Proof. reflexivity. Qed.
Lemma sa_scalar pw t n v : scalar_bytes t = Some n -> spec_allocs pw t v = [].
Proof. intros H. destruct t; try discriminate H; destruct v; reflexivity. Qed.
Lemma sa_enum pw n v : spec_allocs pw (TEnum n) v = [].
Proof. destruct v; reflexivity. Qed.
Lemma sa_flags pw n v : spec_allocs pw (TFlags n) v = [].
Proof. destruct v; reflexivity. Qed.
(** * The ledger invariant *)
Definition sa_of (e : N * N * N) : N * N := let '(_, s, a) := e in (s, a).
Definition ptr_of (e : N * N * N) : N := let '(p, _, _) := e in p.

(** a well-formed block handed out by the bump allocator between bump pointers [lo] and [hi] *)
Definition block_in (lo hi : N) (e : N * N * N) : Prop :=
  let '(p, s, a) := e in 0 < s /\ 0 < a /\ p mod a = 0 /\ lo <= p /\ p + s <= hi.
Definition blocks_disjoint (x y : N * N * N) : Prop :=
  let '(p, s, _) := x in let '(q, r, _) := y in p + s <= q \/ q + r <= p.

Lemma FOP_app {A} (R : A -> A -> Prop) l1 : forall l2,
  ForallOrdPairs R l1 -> ForallOrdPairs R l2 -> (forall x y, In x l1 -> In y l2 -> R x y) ->
  ForallOrdPairs R (l1 ++ l2).
Proof.
  induction l1 as [|a l1 IH]; intros l2 H1 H2 Hx; [exact H2|].
  inversion H1 as [|? ? Ha H1']; subst. cbn [app]. constructor.
  - apply Forall_app. split; [exact Ha|]. apply Forall_forall. intros y Hy. apply Hx; [left; reflexivity|exact Hy].
  - apply IH; [exact H1'|exact H2|]. intros x y Hin Hy. apply Hx; [right; exact Hin|exact Hy].
Qed.

Lemma firstn_add {A} (l : list A) a : forall b, firstn (a + b) l = (firstn a l ++ firstn b (skipn a l))%list.
Proof.
  revert l. induction a as [|a IH]; intros l b; [reflexivity|].
  destruct l as [|x l]; [cbn; rewrite firstn_nil; reflexivity|]. cbn [plus firstn skipn app]. f_equal. apply IH.
Qed.

Lemma skipn_add {A} (l : list A) a : forall b, skipn b (skipn a l) = skipn (a + b) l.
Proof.
  revert l. induction a as [|a IH]; intros l b; [reflexivity|].
  destruct l as [|x l]; [cbn; apply skipn_nil|]. cbn [plus skipn]. apply IH.
Qed.

Section ledger.
  Variable pw : N.

  Definition inv (sa : list (N * N)) (st st' : mstate) : Prop :=
    exists new,
      allocs st' = (new ++ allocs st)%list /\
      map sa_of (rev new) = sa /\
      presets st' = skipn (length sa) (presets st) /\
      (length sa <= length (presets st) -> map ptr_of (rev new) = firstn (length sa) (presets st))%nat /\
      (0 < pw -> presets st = [] ->
         next st <= next st' /\ Forall (block_in (next st) (next st')) new /\
         ForallOrdPairs blocks_disjoint new).

  Lemma inv_refl st : inv [] st st.
  Proof.
    exists []. split; [reflexivity|]. split; [reflexivity|]. split; [reflexivity|]. split; [reflexivity|].
    intros _ _. split; [lia|]. split; constructor.
  Qed.

  Lemma inv_same_r sa st st' st'' :
    next st'' = next st' -> allocs st'' = allocs st' -> presets st'' = presets st' ->
    inv sa st st' -> inv sa st st''.
  Proof. intros E1 E2 E3 (new & H). exists new. rewrite E1, E2, E3. exact H. Qed.

  Lemma inv_same_l sa st0 st st' :
    next st0 = next st -> allocs st0 = allocs st -> presets st0 = presets st ->
    inv sa st0 st' -> inv sa st st'.
  Proof. intros E1 E2 E3 (new & H). exists new. rewrite <- E1, <- E2, <- E3. exact H. Qed.

  Lemma block_in_weaken lo hi lo' hi' e : lo' <= lo -> hi <= hi' -> block_in lo hi e -> block_in lo' hi' e.
  Proof. destruct e as [[p s] a]. unfold block_in. intros; intuition lia. Qed.

  Lemma inv_trans sa1 sa2 st st1 st2 : inv sa1 st st1 -> inv sa2 st1 st2 -> inv (sa1 ++ sa2) st st2.
  Proof.
    intros (n1 & A1 & S1 & P1 & Q1 & B1) (n2 & A2 & S2 & P2 & Q2 & B2).
    exists (n2 ++ n1)%list. rewrite app_length.
    split; [rewrite A2, A1; apply app_assoc|].
    split; [rewrite rev_app_distr, map_app, S1, S2; reflexivity|].
    split; [rewrite P2, P1, skipn_add; reflexivity|]. split.
    - intros Hl. rewrite rev_app_distr, map_app. rewrite firstn_add. f_equal.
      + apply Q1. lia.
      + rewrite <- P1. apply Q2. rewrite P1, skipn_length. lia.
    - intros Hpw Hp. destruct (B1 Hpw Hp) as (N1 & F1 & D1).
      assert (Hp1 : presets st1 = []) by (rewrite P1, Hp; apply skipn_nil).
      destruct (B2 Hpw Hp1) as (N2 & F2 & D2).
      split; [lia|]. split.
      + apply Forall_app. split.
        * eapply Forall_impl; [|exact F2]. intros e. apply block_in_weaken; lia.
        * eapply Forall_impl; [|exact F1]. intros e. apply block_in_weaken; lia.
      + apply FOP_app; [exact D2|exact D1|].
        intros x y Hx Hy. rewrite Forall_forall in F1, F2. specialize (F2 x Hx). specialize (F1 y Hy).
        destruct x as [[p s] a], y as [[q r] b]. unfold block_in, blocks_disjoint in *. right. lia.
  Qed.

  Lemma inv_alloc st size al : (0 < pw -> 0 < al) -> inv (nz size al) st (snd (st_alloc st size al)).
  Proof.
    intros Hal. unfold st_alloc, nz. destruct (N.eqb_spec size 0) as [->|Hnz].
    - cbn [snd allocs presets next N.eqb]. exists []. split; [reflexivity|]. split; [reflexivity|].
      split; [reflexivity|]. split; [reflexivity|]. intros Hpw _.
      pose proof (align_to_ge (next st) al (Hal Hpw)). cbn [next]. split; [lia|]. split; constructor.
    - destruct (presets st) as [|p rest] eqn:Ep; cbn [snd allocs presets next].
      + exists [(align_to (next st) al, size, al)]. rewrite Ep. split; [reflexivity|]. split; [reflexivity|].
        split; [reflexivity|]. split; [cbn; lia|]. intros Hpw _.
        pose proof (align_to_ge (next st) al (Hal Hpw)). cbn [next]. split; [lia|]. split.
        * repeat constructor; try lia. apply align_to_mod. exact (Hal Hpw).
        * repeat constructor.
      + exists [(p, size, al)]. rewrite Ep. split; [reflexivity|]. split; [reflexivity|].
        split; [reflexivity|]. split; [reflexivity|]. intros _ Hp. discriminate Hp.
  Qed.

  Lemma inv_alloc' st size al p st1 : (0 < pw -> 0 < al) -> st_alloc st size al = (p, st1) -> inv (nz size al) st st1.
  Proof. intros Hal E. pose proof (inv_alloc st size al Hal) as H. rewrite E in H. exact H. Qed.

  Lemma inv_nil_app_r sa st st' : inv (sa ++ []) st st' -> inv sa st st'.
  Proof. rewrite app_nil_r. auto. Qed.
  Lemma pw_al t : 0 < pw -> 0 < alignment pw t.
  Proof. apply alignment_pos. Qed.

  (** ** memory form *)
  Definition PM (t : ty) : Prop :=
    forall v a st st', store pw t v a st = Some st' -> inv (spec_allocs pw t v) st st'.

  Lemma elems_inv (sto : val -> N -> mstate -> option mstate) (f : val -> list (N * N)) sz vs :
    (forall v a st st', sto v a st = Some st' -> inv (f v) st st') ->
    forall a st st', store_elems sto sz vs a st = Some st' -> inv (flat_map f vs) st st'.
  Proof.
    intros Hs. induction vs as [|v vs IH]; intros a st st' H.
    - injection H as <-. apply inv_refl.
    - rewrite store_elems_cons in H. destruct (sto v a st) as [st1|] eqn:E1; [|discriminate H].
      cbn [flat_map]. eapply inv_trans; [eapply Hs; exact E1|eapply IH; exact H].
  Qed.

  Lemma st_store_inv sa st a n x st' : inv sa (st_store st a n x) st' -> inv sa st st'.
  Proof. apply inv_same_l; reflexivity. Qed.

  Lemma ptr_len_inv sa st st2 a p len : inv sa st st2 -> inv sa st (store_ptr_len pw st2 a p len).
  Proof. apply inv_same_r; reflexivity. Qed.

  Lemma list_inv et (sto : val -> N -> mstate -> option mstate) (f : val -> list (N * N)) vs a st st' :
    (forall v a st st', sto v a st = Some st' -> inv (f v) st st') ->
    store_list_t pw et sto vs a st = Some st' ->
    inv (nz (N.of_nat (length vs) * elem_size pw et) (alignment pw et) ++ flat_map f vs) st st'.
  Proof.
    intros Hs H. unfold store_list_t in H. cbv zeta in H.
    destruct (st_alloc st (N.of_nat (length vs) * elem_size pw et) (alignment pw et)) as [p st1] eqn:Ea.
    destruct (store_elems sto (elem_size pw et) vs p st1) as [st2|] eqn:E2; [|discriminate H].
    injection H as <-. apply ptr_len_inv. eapply inv_trans.
    - eapply inv_alloc'; [apply pw_al|exact Ea].
    - eapply elems_inv; [exact Hs|exact E2].
  Qed.

  Lemma fields_inv fs : Forall PM fs ->
    forall vs a s st st', store_fields_t pw (store pw) a fs vs s st = Some st' ->
    inv (sa_fields_t (spec_allocs pw) fs vs) st st'.
  Proof.
    induction 1 as [|f fs Hf _ IH]; intros [|v vs] a s st st' H; cbn [store_fields_t] in H; try discriminate H.
    - injection H as <-. apply inv_refl.
    - cbv zeta in H. destruct (store pw f v (a + align_to s (alignment pw f)) st) as [st1|] eqn:E1; [|discriminate H].
      cbn [sa_fields_t]. eapply inv_trans; [eapply Hf; exact E1|eapply IH; exact H].
  Qed.

  Lemma case_inv cs : Forall (OptP PM) cs ->
    forall i p a st st', store_case_t (store pw) cs i p a st = Some st' ->
    inv (sa_case_t (spec_allocs pw) cs i p) st st'.
  Proof.
    induction 1 as [|c cs Hc _ IH]; intros i p a st st' H; cbn [store_case_t] in H; [discriminate H|].
    destruct i as [|i]; cbn [sa_case_t].
    - destruct c as [t|], p as [v|]; cbn [store_opt_t sa_opt_t] in *; try discriminate H.
      + eapply Hc. exact H.
      + injection H as <-. apply inv_refl.
    - eapply IH. exact H.
  Qed.

  Lemma variant_inv ds cs i p a st st' : Forall (OptP PM) cs ->
    store_variant_t pw (store pw) ds cs i p a st = Some st' ->
    inv (sa_case_t (spec_allocs pw) cs (N.to_nat i) p) st st'.
  Proof.
    intros HF H. unfold store_variant_t in H. destruct (i <? N.of_nat (length cs)); [|discriminate H].
    eapply st_store_inv. eapply case_inv; [exact HF|exact H].
  Qed.

  Lemma entry_inv k e : PM k -> PM e ->
    forall v a st st', store_entry (store pw k) (store pw e) (entry_value_offset pw k e) v a st = Some st' ->
    inv (sa_entry pw k e v) st st'.
  Proof.
    intros Hk He v a st st' H. unfold store_entry in H.
    destruct v as [| | | | |[|x [|y [|]]]| |]; try discriminate H.
    destruct (store pw k x a st) as [st1|] eqn:E1; [|discriminate H].
    cbn [sa_entry]. eapply inv_trans; [eapply Hk; exact E1|eapply He; exact H].
  Qed.

  Theorem store_inv t : PM t.
  Proof.
    induction t using ty_ind'; intros v a st st' Hs;
    try (match goal with |- inv (spec_allocs pw ?t v) _ _ =>
           first [rewrite (store_scalar_eq pw t 1%nat v a st eq_refl) in Hs; rewrite (sa_scalar pw t 1%nat v eq_refl)
                 |rewrite (store_scalar_eq pw t 2%nat v a st eq_refl) in Hs; rewrite (sa_scalar pw t 2%nat v eq_refl)
                 |rewrite (store_scalar_eq pw t 4%nat v a st eq_refl) in Hs; rewrite (sa_scalar pw t 4%nat v eq_refl)
                 |rewrite (store_scalar_eq pw t 8%nat v a st eq_refl) in Hs; rewrite (sa_scalar pw t 8%nat v eq_refl)]
           end; destruct (scalar_bits _ v); [|discriminate Hs]; injection Hs as <-;
           apply inv_same_r with (st' := st); try reflexivity; apply inv_refl).
    - (* string *)
      destruct v as [| | |bs| | | |]; try discriminate Hs.
      rewrite store_string_eq in Hs. rewrite sa_string.
      destruct (st_alloc st (N.of_nat (length bs)) 1) as [p st1] eqn:Ea. injection Hs as <-.
      apply ptr_len_inv. eapply inv_same_r with (st' := st1); try reflexivity.
      eapply inv_alloc'; [intros _; reflexivity|exact Ea].
    - (* list *)
      destruct v as [| | | |vs| | |]; try discriminate Hs.
      rewrite store_list_eq in Hs. rewrite sa_list. eapply list_inv; [|exact Hs]. exact IHt.
    - (* fixed *)
      destruct v as [| | | |vs| | |]; try discriminate Hs.
      rewrite store_fixed_eq in Hs. rewrite sa_fixed. destruct (N.of_nat (length vs) =? n); [|discriminate Hs].
      eapply elems_inv; [|exact Hs]. exact IHt.
    - (* map *)
      destruct v as [| | | |vs| | |]; try discriminate Hs.
      rewrite store_map_eq in Hs. rewrite sa_map. eapply list_inv; [|exact Hs]. apply entry_inv; assumption.
    - (* record *)
      destruct v as [| | | | |vs| |]; try discriminate Hs.
      rewrite store_record_eq in Hs. rewrite sa_record. eapply fields_inv; eassumption.
    - (* tuple *)
      destruct v as [| | | | |vs| |]; try discriminate Hs.
      rewrite store_tuple_eq in Hs. rewrite sa_tuple. eapply fields_inv; eassumption.
    - (* variant *)
      destruct v as [| | | | | |i p|]; try discriminate Hs.
      rewrite store_variant_eq in Hs. rewrite sa_variant. eapply variant_inv; eassumption.
    - (* enum *)
      rewrite sa_enum. destruct v as [| | | | | |i [p|]|]; try discriminate Hs.
      rewrite store_enum_eq in Hs. destruct (i <? n); [|discriminate Hs]. injection Hs as <-.
      apply inv_same_r with (st' := st); try reflexivity. apply inv_refl.
    - (* option *)
      destruct v as [| | | | | |i p|]; try discriminate Hs.
      rewrite store_option_eq in Hs. rewrite sa_option. eapply variant_inv; [|exact Hs].
      repeat constructor. exact IHt.
    - (* result *)
      destruct v as [| | | | | |i p|]; try discriminate Hs.
      rewrite store_result_eq in Hs. rewrite sa_result. eapply variant_inv; [|exact Hs].
      repeat constructor; assumption.
    - (* flags *)
      rewrite sa_flags. destruct v as [| | | | | | |bs]; try discriminate Hs.
      rewrite store_flags_eq in Hs. destruct (N.of_nat (length bs) =? n); [|discriminate Hs]. injection Hs as <-.
      apply inv_same_r with (st' := st); try reflexivity. apply inv_refl.
  Qed.
  (** ** flat form *)
  Definition PFl (t : ty) : Prop :=
    forall v st cs st', lower_flat pw t v st = Some (cs, st') -> inv (spec_allocs pw t v) st st'.

  Lemma lower_list_inv et (sto : val -> N -> mstate -> option mstate) (f : val -> list (N * N)) vs st cs st' :
    (forall v a st st', sto v a st = Some st' -> inv (f v) st st') ->
    lower_list_t pw st et sto vs = Some (cs, st') ->
    inv (nz (N.of_nat (length vs) * elem_size pw et) (alignment pw et) ++ flat_map f vs) st st'.
  Proof.
    intros Hs H. unfold lower_list_t in H. cbv zeta in H.
    destruct (st_alloc st (N.of_nat (length vs) * elem_size pw et) (alignment pw et)) as [p st1] eqn:Ea.
    destruct (store_elems sto (elem_size pw et) vs p st1) as [st2|] eqn:E2; [|discriminate H].
    injection H as _ <-. eapply inv_trans.
    - eapply inv_alloc'; [apply pw_al|exact Ea].
    - eapply elems_inv; [exact Hs|exact E2].
  Qed.

  Lemma same_inv et : PFl et ->
    forall vs st cs st', lower_same_t (lower_flat pw et) vs st = Some (cs, st') ->
    inv (flat_map (spec_allocs pw et) vs) st st'.
  Proof.
    intros He. induction vs as [|v vs IH]; intros st cs st' H; cbn [lower_same_t] in H.
    - injection H as _ <-. apply inv_refl.
    - destruct (lower_flat pw et v st) as [[xs st1]|] eqn:E1; [|discriminate H].
      destruct (lower_same_t (lower_flat pw et) vs st1) as [[ys st2]|] eqn:E2; [|discriminate H].
      injection H as _ <-. cbn [flat_map]. eapply inv_trans; [eapply He; exact E1|eapply IH; exact E2].
  Qed.

  Lemma lower_fields_inv fs : Forall PFl fs ->
    forall vs st cs st', lower_fields_t (lower_flat pw) fs vs st = Some (cs, st') ->
    inv (sa_fields_t (spec_allocs pw) fs vs) st st'.
  Proof.
    induction 1 as [|f fs Hf _ IH]; intros [|v vs] st cs st' H; cbn [lower_fields_t] in H; try discriminate H.
    - injection H as _ <-. apply inv_refl.
    - destruct (lower_flat pw f v st) as [[xs st1]|] eqn:E1; [|discriminate H].
      destruct (lower_fields_t (lower_flat pw) fs vs st1) as [[ys st2]|] eqn:E2; [|discriminate H].
      injection H as _ <-. cbn [sa_fields_t]. eapply inv_trans; [eapply Hf; exact E1|eapply IH; exact E2].
  Qed.

  Lemma lower_case_inv st cs : Forall (OptP PFl) cs ->
    forall i p xs st', lower_case_t (lower_flat pw) st cs i p = Some (xs, st') ->
    inv (sa_case_t (spec_allocs pw) cs i p) st st'.
  Proof.
    induction 1 as [|c cs Hc _ IH]; intros i p xs st' H; cbn [lower_case_t] in H; [discriminate H|].
    destruct i as [|i]; cbn [sa_case_t].
    - destruct c as [t|], p as [v|]; cbn [lower_opt_t sa_opt_t] in *; try discriminate H.
      + eapply Hc. exact H.
      + injection H as _ <-. apply inv_refl.
    - eapply IH. exact H.
  Qed.

  Lemma lower_variant_inv cs i p st xs st' : Forall (OptP PFl) cs ->
    lower_variant_t pw (lower_flat pw) st cs i p = Some (xs, st') ->
    inv (sa_case_t (spec_allocs pw) cs (N.to_nat i) p) st st'.
  Proof.
    intros HF H. unfold lower_variant_t in H. destruct (i <? N.of_nat (length cs)); [|discriminate H].
    destruct (lower_case_t (lower_flat pw) st cs (N.to_nat i) p) as [[ys st1]|] eqn:E; [|discriminate H].
    injection H as _ <-. eapply lower_case_inv; [exact HF|exact E].
  Qed.

  Theorem lower_inv t : PFl t.
  Proof.
    induction t using ty_ind'; intros v st xs0 st' Hs;
    try (match goal with |- inv (spec_allocs pw ?t v) _ _ =>
           first [rewrite (lower_scalar_eq pw t 1%nat v st eq_refl) in Hs; rewrite (sa_scalar pw t 1%nat v eq_refl)
                 |rewrite (lower_scalar_eq pw t 2%nat v st eq_refl) in Hs; rewrite (sa_scalar pw t 2%nat v eq_refl)
                 |rewrite (lower_scalar_eq pw t 4%nat v st eq_refl) in Hs; rewrite (sa_scalar pw t 4%nat v eq_refl)
                 |rewrite (lower_scalar_eq pw t 8%nat v st eq_refl) in Hs; rewrite (sa_scalar pw t 8%nat v eq_refl)]
           end; destruct (scalar_flat _ v); [|discriminate Hs]; injection Hs as _ <-; apply inv_refl).
    - (* string *)
      destruct v as [| | |bs| | | |]; try discriminate Hs.
      rewrite lower_string_eq in Hs. rewrite sa_string.
      destruct (st_alloc st (N.of_nat (length bs)) 1) as [p st1] eqn:Ea. injection Hs as _ <-.
      eapply inv_same_r with (st' := st1); try reflexivity.
      eapply inv_alloc'; [intros _; reflexivity|exact Ea].
    - (* list *)
      destruct v as [| | | |vs| | |]; try discriminate Hs.
      rewrite lower_list_eq in Hs. rewrite sa_list. eapply lower_list_inv; [|exact Hs]. apply store_inv.
    - (* fixed *)
      destruct v as [| | | |vs| | |]; try discriminate Hs.
      rewrite lower_fixed_eq in Hs. rewrite sa_fixed. destruct (N.of_nat (length vs) =? n); [|discriminate Hs].
      eapply same_inv; [exact IHt|exact Hs].
    - (* map *)
      destruct v as [| | | |vs| | |]; try discriminate Hs.
      rewrite lower_map_eq in Hs. rewrite sa_map. eapply lower_list_inv; [|exact Hs].
      apply entry_inv; apply store_inv.
    - (* record *)
      destruct v as [| | | | |vs| |]; try discriminate Hs.
      rewrite lower_record_eq in Hs. rewrite sa_record. eapply lower_fields_inv; eassumption.
    - (* tuple *)
      destruct v as [| | | | |vs| |]; try discriminate Hs.
      rewrite lower_tuple_eq in Hs. rewrite sa_tuple. eapply lower_fields_inv; eassumption.
    - (* variant *)
      destruct v as [| | | | | |i p|]; try discriminate Hs.
      rewrite lower_variant_eq in Hs. rewrite sa_variant. eapply lower_variant_inv; eassumption.
    - (* enum *)
      rewrite sa_enum. destruct v as [| | | | | |i [p|]|]; try discriminate Hs.
      rewrite lower_enum_eq in Hs. destruct (i <? n); [|discriminate Hs]. injection Hs as _ <-. apply inv_refl.
    - (* option *)
      destruct v as [| | | | | |i p|]; try discriminate Hs.
      rewrite lower_option_eq in Hs. rewrite sa_option. eapply lower_variant_inv; [|exact Hs].
      repeat constructor. exact IHt.
    - (* result *)
      destruct v as [| | | | | |i p|]; try discriminate Hs.
      rewrite lower_result_eq in Hs. rewrite sa_result. eapply lower_variant_inv; [|exact Hs].
      repeat constructor; assumption.
    - (* flags *)
      rewrite sa_flags. destruct v as [| | | | | | |bs]; try discriminate Hs.
      rewrite lower_flags_eq in Hs. destruct (N.of_nat (length bs) =? n); [|discriminate Hs].
      injection Hs as _ <-. apply inv_refl.
  Qed.
End ledger.

(** * Exported statements (spelled out) *)

(** The new ledger entries of a run from [st] to [st'] have exactly the (size, align) sequence [sa]; presets
    are consumed one per (non-zero-sized) entry, in order. *)
Definition ledger_shape (sa : list (N * N)) (st st' : mstate) : Prop :=
  exists new,
    allocs st' = (new ++ allocs st)%list /\
    map (fun '(_, s, a) => (s, a)) (rev new) = sa /\
    presets st' = skipn (length sa) (presets st) /\
    ((length sa <= length (presets st))%nat ->
       map (fun '(p, _, _) => p) (rev new) = firstn (length sa) (presets st)).

(** Under the bump allocator the new entries are well-formed, fresh, pairwise disjoint blocks. *)
Definition ledger_blocks (st st' : mstate) : Prop :=
  exists new,
    allocs st' = (new ++ allocs st)%list /\
    presets st' = [] /\ next st <= next st' /\
    Forall (fun '(p, s, a) => 0 < s /\ 0 < a /\ p mod a = 0 /\ next st <= p /\ p + s <= next st') new /\
    ForallOrdPairs (fun x y => let '(p, s, _) := x in let '(q, r, _) := y in p + s <= q \/ q + r <= p) new.

Lemma inv_shape pw sa st st' : inv pw sa st st' -> ledger_shape sa st st'.
Proof. intros (new & A & S & P & Q & _). exists new. repeat split; assumption. Qed.

Lemma inv_blocks pw sa st st' : 0 < pw -> presets st = [] -> inv pw sa st st' -> ledger_blocks st st'.
Proof.
  intros Hpw Hp (new & A & S & P & Q & B). destruct (B Hpw Hp) as (N1 & F & D).
  exists new. split; [exact A|]. split; [rewrite P, Hp; apply skipn_nil|]. split; [exact N1|].
  split; [exact F|exact D].
Qed.

Theorem ledger_shape_flat pw t v st cs st' :
  lower_flat pw t v st = Some (cs, st') -> ledger_shape (spec_allocs pw t v) st st'.
Proof. intros H. eapply inv_shape. eapply lower_inv. exact H. Qed.

Theorem ledger_shape_mem pw t v a st st' :
  store pw t v a st = Some st' -> ledger_shape (spec_allocs pw t v) st st'.
Proof. intros H. eapply inv_shape. eapply store_inv. exact H. Qed.

Theorem ledger_blocks_flat pw t v st cs st' : 0 < pw -> presets st = [] ->
  lower_flat pw t v st = Some (cs, st') -> ledger_blocks st st'.
Proof. intros Hpw Hp H. eapply inv_blocks; [exact Hpw|exact Hp|]. eapply lower_inv. exact H. Qed.

Theorem ledger_blocks_mem pw t v a st st' : 0 < pw -> presets st = [] ->
  store pw t v a st = Some st' -> ledger_blocks st st'.
Proof. intros Hpw Hp H. eapply inv_blocks; [exact Hpw|exact Hp|]. eapply store_inv. exact H. Qed.

(** The two-step protocol: predict the (size, align) sequence from ANY run that starts with an empty ledger
    (e.g. [mstate0 base], bump allocator); every other successful run - any allocator state, any preset list -
    enters exactly that sequence, and takes its addresses from the presets when there are enough of them. *)
Theorem ledger_protocol_sound_flat pw t v st0 cs0 st0' :
  allocs st0 = [] -> lower_flat pw t v st0 = Some (cs0, st0') ->
  let pred := map (fun '(_, s, a) => (s, a)) (rev (allocs st0')) in
  pred = spec_allocs pw t v /\
  forall st cs st', lower_flat pw t v st = Some (cs, st') -> ledger_shape pred st st'.
Proof.
  intros Ha H0. cbv zeta.
  assert (E : map (fun '(_, s, a) => (s, a)) (rev (allocs st0')) = spec_allocs pw t v).
  { destruct (ledger_shape_flat pw t v st0 cs0 st0' H0) as (new & A & S & _).
    rewrite A, Ha, app_nil_r. exact S. }
  split; [exact E|]. intros st cs st' H. rewrite E. eapply ledger_shape_flat. exact H.
Qed.

Theorem ledger_protocol_sound_mem pw t v a0 st0 st0' :
  allocs st0 = [] -> store pw t v a0 st0 = Some st0' ->
  let pred := map (fun '(_, s, a) => (s, a)) (rev (allocs st0')) in
  pred = spec_allocs pw t v /\
  forall a st st', store pw t v a st = Some st' -> ledger_shape pred st st'.
Proof.
  intros Ha H0. cbv zeta.
  assert (E : map (fun '(_, s, a) => (s, a)) (rev (allocs st0')) = spec_allocs pw t v).
  { destruct (ledger_shape_mem pw t v a0 st0 st0' H0) as (new & A & S & _).
    rewrite A, Ha, app_nil_r. exact S. }
  split; [exact E|]. intros a st st' H. rewrite E. eapply ledger_shape_mem. exact H.
Qed.

(** Combined forms used by Props/C06.v *)
Theorem ledger_prediction_sound :
  forall (pw : N) (t : ty) (v : val),
  (forall st cs st', lower_flat pw t v st = Some (cs, st') -> ledger_shape (spec_allocs pw t v) st st') /\
  (forall a st st', store pw t v a st = Some st' -> ledger_shape (spec_allocs pw t v) st st') /\
  (forall st0 cs0 st0', allocs st0 = [] -> lower_flat pw t v st0 = Some (cs0, st0') ->
     map (fun '(_, s, a) => (s, a)) (rev (allocs st0')) = spec_allocs pw t v) /\
  (forall a0 st0 st0', allocs st0 = [] -> store pw t v a0 st0 = Some st0' ->
     map (fun '(_, s, a) => (s, a)) (rev (allocs st0')) = spec_allocs pw t v).
Proof.
  intros pw t v. split; [intros st cs st'; apply ledger_shape_flat|].
  split; [intros a st st'; apply ledger_shape_mem|]. split.
  - intros st0 cs0 st0' Ha H. exact (proj1 (ledger_protocol_sound_flat pw t v st0 cs0 st0' Ha H)).
  - intros a0 st0 st0' Ha H. exact (proj1 (ledger_protocol_sound_mem pw t v a0 st0 st0' Ha H)).
Qed.

Theorem ledger_blocks_wellformed :
  forall (pw : N), 0 < pw -> forall (t : ty) (v : val) (st : mstate), presets st = [] ->
  (forall cs st', lower_flat pw t v st = Some (cs, st') -> ledger_blocks st st') /\
  (forall a st', store pw t v a st = Some st' -> ledger_blocks st st').
Proof.
  intros pw Hpw t v st Hp. split.
  - intros cs st'. apply ledger_blocks_flat; assumption.
  - intros a st'. apply ledger_blocks_mem; assumption.
Qed.
