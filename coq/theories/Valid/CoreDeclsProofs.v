(** C13 — soundness (and, on unambiguous tables, completeness) of the verified declaration checker. *)
From Coq Require Import String Ascii List Bool Arith Lia.
From WB Require Import Valid.CoreDecls.
Import ListNotations.
Open Scope string_scope.

(** [d] is exactly the item [i]: same direction, module, field and core signature. *)
Definition decl_is (d : decl) (i : core_item) : Prop :=
  d_dir d = ci_dir i /\ d_module d = ci_module i /\ d_field d = ci_field i /\ d_sig d = Some (ci_sig i).

Lemma flat_map_nil {A B} (f : A -> list B) l :
  flat_map f l = [] <-> forall x, In x l -> f x = [].
Proof.
  induction l as [|a l IH]; simpl.
  - split; [intros _ x []|reflexivity].
  - split.
    + intros H. apply app_eq_nil in H as [Ha Hl]. intros x [<-|Hx]; [assumption|]. now apply IH.
    + intros H. rewrite (H a (or_introl eq_refl)). simpl. apply IH. intros x Hx. apply H. now right.
Qed.

Lemma same_name_true d i :
  same_name d i = true <-> d_dir d = ci_dir i /\ d_module d = ci_module i /\ d_field d = ci_field i.
Proof.
  unfold same_name.
  destruct (dir_eq_dec (d_dir d) (ci_dir i)); [|split; [discriminate|tauto]].
  destruct (string_dec (d_module d) (ci_module i)); [|split; [discriminate|tauto]].
  destruct (string_dec (d_field d) (ci_field i)); [|split; [discriminate|tauto]].
  tauto.
Qed.

Lemma mem_true s l : mem s l = true <-> In s l.
Proof. unfold mem. destruct (in_dec string_dec s l); split; auto; discriminate. Qed.

Lemma dups_nil l : dups l = [] -> NoDup l.
Proof.
  induction l as [|x tl IH]; simpl; intros H; [constructor|].
  apply app_eq_nil in H as [Hx Htl].
  constructor; [|now apply IH].
  intros Hin. apply mem_true in Hin. rewrite Hin in Hx. discriminate.
Qed.

Lemma nodup_dups l : NoDup l -> dups l = [].
Proof.
  induction 1 as [|x tl Hx _ IH]; simpl; [reflexivity|].
  rewrite IH, app_nil_r.
  destruct (mem x tl) eqn:E; [|reflexivity]. apply mem_true in E. contradiction.
Qed.

(** One declaration. *)
Lemma check_decl_sound E names d :
  check_decl E names d = [] ->
  exists i, In i E /\ decl_is d i /\ (forall n, ci_needs i = Some n -> In n names).
Proof.
  unfold check_decl.
  destruct (find (same_name d) E) as [i|] eqn:F; [|discriminate].
  apply find_some in F as [Hin Hn]. apply same_name_true in Hn as (Hd & Hm & Hf).
  intros H. apply app_eq_nil in H as [Hs Hneeds].
  exists i. split; [assumption|]. split.
  - unfold decl_is. repeat split; try assumption.
    destruct (d_sig d) as [s|]; [|discriminate].
    destruct (sig_eq_dec s (ci_sig i)); [now subst|discriminate].
  - intros n Hn. rewrite Hn in Hneeds.
    destruct (mem n names) eqn:M; [now apply mem_true|discriminate].
Qed.

Lemma check_required_sound names alts :
  check_required names alts = [] -> exists n, In n alts /\ In n names.
Proof.
  unfold check_required. destruct (existsb _ alts) eqn:X; [|discriminate].
  intros _. apply existsb_exists in X as (n & Hn & Hm). exists n. split; [assumption|now apply mem_true].
Qed.

(** * The proof obligation of the check *)
Theorem check_decls_sound : forall w ds,
  check_decls w ds = [] ->
  (forall d, In d ds ->
     exists i, In i (expected w) /\ decl_is d i /\
               (forall n, ci_needs i = Some n -> In n (export_names ds)))
  /\ (forall alts, In alts (required w) -> exists n, In n alts /\ In n (export_names ds))
  /\ NoDup (export_names ds).
Proof.
  intros w ds H. unfold check_decls in H.
  apply app_eq_nil in H as [H1 H23]. apply app_eq_nil in H23 as [H2 H3].
  split; [|split].
  - intros d Hd. apply check_decl_sound. now apply (proj1 (flat_map_nil _ _) H1).
  - intros alts Ha. apply check_required_sound. now apply (proj1 (flat_map_nil _ _) H2).
  - now apply dups_nil.
Qed.

(** Every exported function of the world is covered by [required] (the second clause is not vacuous). *)
Lemma required_world_func w f : In f (w_exp_funcs w) -> In (export_alternatives None f) (required w).
Proof. intros H. unfold required. apply in_or_app. right. now apply in_map. Qed.

Lemma required_iface_func w i f :
  In i (w_exp_ifaces w) -> In f (i_funcs i) -> In (export_alternatives (Some (i_key i)) f) (required w).
Proof.
  intros Hi Hf. unfold required. apply in_or_app. left.
  apply in_flat_map. exists i. split; [assumption|]. now apply in_map.
Qed.

Corollary check_decls_exports_every_function : forall w ds,
  check_decls w ds = [] ->
  (forall f, In f (w_exp_funcs w) ->
     In (sync_export None f) (export_names ds) \/
     (f_async f = true /\ (In (async_export None f) (export_names ds) \/ In (stackful_export None f) (export_names ds))))
  /\ (forall i f, In i (w_exp_ifaces w) -> In f (i_funcs i) ->
     let k := Some (i_key i) in
     In (sync_export k f) (export_names ds) \/
     (f_async f = true /\ (In (async_export k f) (export_names ds) \/ In (stackful_export k f) (export_names ds)))).
Proof.
  intros w ds H. destruct (check_decls_sound w ds H) as (_ & Hreq & _).
  assert (A : forall k f, (exists n, In n (export_alternatives k f) /\ In n (export_names ds)) ->
     In (sync_export k f) (export_names ds) \/
     (f_async f = true /\ (In (async_export k f) (export_names ds) \/ In (stackful_export k f) (export_names ds)))).
  { intros k f (n & Hn & Hin). unfold export_alternatives in Hn.
    destruct Hn as [<-|Hn]; [now left|].
    destruct (f_async f); [|destruct Hn].
    right. split; [reflexivity|]. destruct Hn as [<-|[<-|[]]]; auto. }
  split.
  - intros f Hf. apply A, Hreq. now apply required_world_func.
  - intros i f Hi Hf. apply A, Hreq. now apply required_iface_func.
Qed.

(** * Completeness on unambiguous tables: the checker raises no false alarm. *)
Lemma app_nil_intro {A} (a b : list A) : a = [] -> b = [] -> (a ++ b)%list = [].
Proof. intros -> ->. reflexivity. Qed.

Lemma find_first_unique (E : list core_item) d i :
  NoDup (map (fun i => (ci_dir i, ci_module i, ci_field i)) E) ->
  In i E -> same_name d i = true -> find (same_name d) E = Some i.
Proof.
  induction E as [|a E IH]; simpl; intros ND Hin Hs; [destruct Hin|].
  inversion ND as [|? ? Hna ND']; subst.
  destruct Hin as [->|Hin].
  - now rewrite Hs.
  - destruct (same_name d a) eqn:Ea; [|now apply IH].
    exfalso. apply Hna.
    apply same_name_true in Hs as (h1 & h2 & h3). apply same_name_true in Ea as (g1 & g2 & g3).
    apply in_map_iff. exists i. split; [|assumption]. congruence.
Qed.

Theorem check_decls_complete : forall w ds,
  NoDup (map (fun i => (ci_dir i, ci_module i, ci_field i)) (expected w)) ->
  (forall d, In d ds ->
     exists i, In i (expected w) /\ decl_is d i /\
               (forall n, ci_needs i = Some n -> In n (export_names ds))) ->
  (forall alts, In alts (required w) -> exists n, In n alts /\ In n (export_names ds)) ->
  NoDup (export_names ds) ->
  check_decls w ds = [].
Proof.
  intros w ds ND H1 H2 H3. unfold check_decls.
  apply app_nil_intro; [|apply app_nil_intro].
  - apply flat_map_nil. intros d Hd. destruct (H1 d Hd) as (i & Hi & (h1 & h2 & h3 & h4) & Hn).
    unfold check_decl.
    rewrite (find_first_unique (expected w) d i ND Hi) by (apply same_name_true; auto).
    rewrite h4. destruct (sig_eq_dec (ci_sig i) (ci_sig i)); [|congruence]. simpl.
    destruct (ci_needs i) as [n|]; [|reflexivity].
    specialize (Hn n eq_refl). apply mem_true in Hn. now rewrite Hn.
  - apply flat_map_nil. intros alts Ha. destruct (H2 alts Ha) as (n & Hn & Hin).
    unfold check_required.
    assert (X : existsb (fun a => mem a (export_names ds)) alts = true).
    { apply existsb_exists. exists n. split; [assumption|now apply mem_true]. }
    now rewrite X.
  - now apply nodup_dups.
Qed.

(** * Non-vacuity: a concrete world with an exported interface holding a resource, a sync and an
    async function with a stream payload, and a world-level import; a full set of declarations passes,
    the C backend's snake-case destructor name does not. *)
Definition ex_f1 : func :=
  mkFunc KFree "f-one" false (s_ [I32] []) (s_ [I32;I32] [I32]) (s_ [I32] [I32]) (s_ [I32] [I32]) (s_ [I32] []) (s_ [I32] []) [].
Definition ex_f2 : func :=
  mkFunc (KMethod "my-thing") "go" true (s_ [I32;I32] []) (s_ [I32;I32] [I32]) (s_ [I32;I32] []) (s_ [I32;I32] [I32])
         (s_ [I32;I32] []) (s_ [] []) [PStream].
Definition ex_w : world :=
  mkWorld [] [ex_f1] [] [mkIface (KId "a" "b" "i" (Some "1.2.3")) [ex_f1; ex_f2] ["my-thing"]] [].

Definition ex_ok : list decl :=
  [ mkDecl Imp "$root" "f-one" (Some (s_ [I32] []));
    mkDecl Exp "" "a:b/i@1.2.3#f-one" (Some (s_ [I32] [I32]));
    mkDecl Exp "" "cabi_post_a:b/i@1.2.3#f-one" (Some (s_ [I32] []));
    mkDecl Exp "" "[async-lift]a:b/i@1.2.3#[method]my-thing.go" (Some (s_ [I32;I32] [I32]));
    mkDecl Exp "" "[callback][async-lift]a:b/i@1.2.3#[method]my-thing.go" (Some (s_ [I32;I32;I32] [I32]));
    mkDecl Imp "[export]a:b/i@1.2.3" "[task-return][method]my-thing.go" (Some (s_ [] []));
    mkDecl Imp "[export]a:b/i@1.2.3" "[async-lower][stream-read-0][method]my-thing.go" (Some (s_ [I32;I32;I32] [I32]));
    mkDecl Imp "[export]a:b/i@1.2.3" "[resource-new]my-thing" (Some (s_ [I32] [I32]));
    mkDecl Exp "" "a:b/i@1.2.3#[dtor]my-thing" (Some (s_ [I32] []));
    mkDecl Imp "$root" "[waitable-set-new]" (Some (s_ [] [I32])) ].

Example ex_ok_passes : check_decls ex_w ex_ok = [].
Proof. vm_compute. reflexivity. Qed.

Example ex_unambiguous : unambiguous ex_w = true.
Proof. vm_compute. reflexivity. Qed.

(** The anticipated C finding in miniature: `#[dtor]my_thing` is no item of the world. *)
Example ex_snake_dtor_rejected :
  check_decls ex_w (mkDecl Exp "" "a:b/i@1.2.3#[dtor]my_thing" (Some (s_ [I32] [])) :: ex_ok)
  = [EUnknown (mkDecl Exp "" "a:b/i@1.2.3#[dtor]my_thing" (Some (s_ [I32] [])))].
Proof. vm_compute. reflexivity. Qed.

(** [async-lift] on the sync function, a missing callback, a missing export, a wrong signature. *)
Example ex_async_on_sync_rejected :
  exists e, check_decls ex_w (mkDecl Exp "" "[async-lift]a:b/i@1.2.3#f-one" (Some (s_ [I32] [I32])) :: ex_ok) = [e].
Proof. eexists. vm_compute. reflexivity. Qed.
Example ex_missing_callback_rejected :
  exists d n, check_decls ex_w (filter (fun d => negb (String.eqb (d_field d) "[callback][async-lift]a:b/i@1.2.3#[method]my-thing.go")) ex_ok)
            = [ENeeds d n].
Proof. do 2 eexists. vm_compute. reflexivity. Qed.
Example ex_missing_export_rejected :
  check_decls ex_w (filter (fun d => negb (String.eqb (d_field d) "a:b/i@1.2.3#f-one")) ex_ok)
  = [EMissing ["a:b/i@1.2.3#f-one"]].
Proof. vm_compute. reflexivity. Qed.
