(** Soundness and completeness of the HTML link checker (property C29, validated part). *)
From Coq Require Import List String Ascii Bool.
From WB Require Import Valid.PkgGraph Valid.PkgGraphProofs Valid.HtmlLinks.
Import ListNotations.
Local Open Scope string_scope.

Record valid (d : doc) : Prop := {
  (* no <a href> start tag occurs while another <a href> element is open *)
  v_no_nesting : forall pre h ids post, d_toks d = (pre ++ AOpen (Some h) ids :: post)%list ->
                 ~ In true (stack_after [] pre);
  (* every </a> closes an open <a> *)
  v_balanced : forall pre post, d_toks d = (pre ++ AClose :: post)%list -> stack_after [] pre <> [];
  (* every intra-document link points to an anchor of the same document (or was written, target
     included, by the author of a doc comment) *)
  v_anchors : forall pre x ids post, d_toks d = (pre ++ AOpen (Some ("#" ++ x)%string) ids :: post)%list ->
              x = "" \/ In x (ids_of (d_toks d)) \/ In x (d_authored d);
}.

Lemma stack_after_cons s t ts : stack_after s (t :: ts) = stack_after (step s t) ts.
Proof. reflexivity. Qed.

Lemma nest_errs_nil ts : forall s,
  nest_errs s ts = [] <->
  (forall pre t post, ts = (pre ++ t :: post)%list -> here (stack_after s pre) t = []).
Proof.
  induction ts as [|t0 r IH]; intros s; cbn [nest_errs].
  - split; [|reflexivity]. intros _ pre t post H. destruct pre; discriminate.
  - rewrite app_nil, IH. split.
    + intros [H0 Hr] pre t post H. destruct pre as [|x pre]; cbn [app] in H; injection H as <- ->.
      * exact H0.
      * rewrite stack_after_cons. eapply Hr. reflexivity.
    + intros H. split.
      * apply (H [] t0 r). reflexivity.
      * intros pre t post ->. rewrite <- stack_after_cons. eapply (H (t0 :: pre)). reflexivity.
Qed.

Lemma existsb_id_false s : existsb (fun b : bool => b) s = false <-> ~ In true s.
Proof.
  split.
  - intros H Hin. assert (E : existsb (fun b : bool => b) s = true)
      by (apply existsb_exists; exists true; auto). congruence.
  - intros H. destruct (existsb (fun b : bool => b) s) eqn:E; [|reflexivity].
    apply existsb_exists in E. destruct E as [x [Hx ->]]. contradiction.
Qed.

Lemma target_spec h x : target h = Some x <-> h = "#" ++ x.
Proof.
  destruct h as [|c r]; cbn [target append]; [split; discriminate|].
  destruct (Ascii.eqb c "#"%char) eqn:E.
  - apply Ascii.eqb_eq in E. subst c. split; [intros H; injection H as ->; reflexivity|].
    intros H. injection H as ->. reflexivity.
  - split; [discriminate|]. intros H. injection H as -> _. cbn in E. discriminate.
Qed.

Lemma targets_In ts x :
  In x (targets ts) <-> exists pre ids post, ts = (pre ++ AOpen (Some ("#" ++ x)%string) ids :: post)%list.
Proof.
  unfold targets. rewrite in_flat_map. split.
  - intros [t [Hin Hx]]. destruct t as [[h|] ids| |]; try (destruct Hx; fail).
    destruct (target h) as [y|] eqn:E; [|destruct Hx]. destruct Hx as [<-|[]].
    apply target_spec in E. subst h. apply in_split in Hin. destruct Hin as (pre & post & ->). eauto.
  - intros (pre & ids & post & ->). exists (AOpen (Some ("#" ++ x)%string) ids). split.
    + apply in_or_app. right. left. reflexivity.
    + assert (E : target ("#" ++ x) = Some x) by (apply target_spec; reflexivity).
      rewrite E. left. reflexivity.
Qed.

Lemma resolved_spec d x :
  resolved d x = true <-> x = "" \/ In x (ids_of (d_toks d)) \/ In x (d_authored d).
Proof.
  unfold resolved. rewrite !orb_true_iff, String.eqb_eq, !smem_In. tauto.
Qed.

Theorem check_sound : forall d, check d = [] -> valid d.
Proof.
  intros d H. unfold check in H. rewrite app_nil, map_nil, filter_nil in H. destruct H as [Hn Hd].
  rewrite nest_errs_nil in Hn. constructor.
  - intros pre h ids post E. specialize (Hn _ _ _ E). cbn [here] in Hn.
    apply existsb_id_false. destruct (existsb _ _); [discriminate | reflexivity].
  - intros pre post E. specialize (Hn _ _ _ E). cbn [here] in Hn.
    destruct (stack_after [] pre); [discriminate | discriminate].
  - intros pre x ids post E. apply resolved_spec. apply negb_false. apply Hd.
    apply targets_In. eauto.
Qed.

Theorem check_complete : forall d, valid d -> check d = [].
Proof.
  intros d [H1 H2 H3]. unfold check. rewrite app_nil, map_nil, filter_nil. split.
  - apply nest_errs_nil. intros pre t post E. destruct t as [[h|] ids| |]; cbn [here]; try reflexivity.
    + specialize (H1 _ _ _ _ E). apply existsb_id_false in H1. rewrite H1. reflexivity.
    + specialize (H2 _ _ E). destruct (stack_after [] pre); [congruence | reflexivity].
  - intros x Hx. apply negb_false. apply resolved_spec. apply targets_In in Hx.
    destruct Hx as (pre & ids & post & E). eauto.
Qed.
