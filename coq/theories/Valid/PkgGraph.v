(** Verified checker for the package graph of a generated MoonBit project (property C30, validated
    part).  Input: what the (trusted, simple) scraper lib/c30_scrape.py extracts from the REAL output
    of the MoonBit generator: for every package directory its declared imports (the "import" list of
    moon.pkg.json) and the aliases it references ([@alias.] tokens of its .mbt files), the project
    name, and the package directories the WIT world's interfaces must map to (built from the WIT
    names as wit-parser reports them).  Definitions only; soundness and completeness are proved in
    Valid/PkgGraphProofs.v. *)
From Coq Require Import List String Ascii Bool.
Import ListNotations.
Local Open Scope string_scope.

Record pkg := {
  p_dir : string;                        (* directory of the package, relative to the output root *)
  p_imports : list (string * string);    (* (path, alias) entries of moon.pkg.json's "import" *)
  p_refs : list string;                  (* aliases used as [@alias.] in the package's .mbt files *)
}.

Record output := {
  o_project : string;                    (* module name: import paths are [project/dir] *)
  o_external : list string;              (* path prefixes of packages that are not generated (MoonBit core library) *)
  o_pkgs : list pkg;
  o_expected : list string;              (* directories required by the WIT names, e.g. interface/my-ns/my-pkg/leaf-iface *)
}.

Inductive err :=
| Undeclared (dir alias : string)        (* @alias. used but no import declares that alias *)
| DupAlias (dir alias : string)          (* two imports of one package share an alias *)
| DupPath (dir path : string)            (* one package imported twice (under two aliases) *)
| MissingPkg (dir path : string)         (* import path is neither external nor a generated package *)
| DupDir (dir : string)                  (* two generated packages share a directory *)
| MissingExpected (dir : string).        (* a WIT interface/world has no package directory with its verbatim name *)

Definition smem (s : string) (l : list string) : bool := existsb (String.eqb s) l.

(** elements that occur again later in the list *)
Fixpoint dups (l : list string) : list string :=
  match l with
  | [] => []
  | x :: r => if smem x r then x :: dups r else dups r
  end.

(** [strip_prefix p s = Some r] iff [s = p ++ r] *)
Fixpoint strip_prefix (p s : string) : option string :=
  match p with
  | EmptyString => Some s
  | String c p' => match s with
                   | EmptyString => None
                   | String d s' => if Ascii.eqb c d then strip_prefix p' s' else None
                   end
  end.

Definition is_digit (c : ascii) : bool :=
  let n := nat_of_ascii c in Nat.leb 48 n && Nat.leb n 57.

Fixpoint all_digits (s : string) : bool :=
  match s with
  | EmptyString => true
  | String c r => is_digit c && all_digits r
  end.

(** A directory realises an expected one if it is equal to it or extends its last segment by decimal
    digits only (the generator's disambiguation when two versions of one WIT package are used). *)
Definition dir_matches (expected dir : string) : bool :=
  match strip_prefix expected dir with
  | Some rest => all_digits rest
  | None => false
  end.

Definition is_some {A} (o : option A) : bool := match o with Some _ => true | None => false end.

Definition is_external (o : output) (path : string) : bool :=
  existsb (fun pre => is_some (strip_prefix pre path)) (o_external o).

Definition is_generated (o : output) (path : string) : bool :=
  existsb (fun q => String.eqb path (o_project o ++ "/" ++ p_dir q)) (o_pkgs o).

Definition path_ok (o : output) (path : string) : bool := is_external o path || is_generated o path.

Definition check_pkg (o : output) (p : pkg) : list err :=
  map (Undeclared (p_dir p)) (filter (fun a => negb (smem a (map snd (p_imports p)))) (p_refs p))
  ++ map (DupAlias (p_dir p)) (dups (map snd (p_imports p)))
  ++ map (DupPath (p_dir p)) (dups (map fst (p_imports p)))
  ++ map (MissingPkg (p_dir p)) (filter (fun path => negb (path_ok o path)) (map fst (p_imports p))).

Definition matching (o : output) (e : string) : list pkg :=
  filter (fun q => dir_matches e (p_dir q)) (o_pkgs o).

(** at least one realising directory, and at least as many as the number of times the directory is
    required (two versions of one WIT package require the same directory twice) *)
Definition expected_ok (o : output) (e : string) : bool :=
  existsb (fun q => dir_matches e (p_dir q)) (o_pkgs o)
  && Nat.leb (count_occ string_dec (o_expected o) e) (List.length (matching o e)).

Definition check (o : output) : list err :=
  flat_map (check_pkg o) (o_pkgs o)
  ++ map DupDir (dups (map p_dir (o_pkgs o)))
  ++ map MissingExpected (filter (fun e => negb (expected_ok o e)) (o_expected o)).
