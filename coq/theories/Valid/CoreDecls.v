(** C13 — core import/export declarations of a world (definitions only; proofs in CoreDeclsProofs.v).

    SPEC: the core wasm names the component model's LEGACY name mangling assigns to the items of a world,
    transcribed from wit-parser 0.257 [Resolve::wasm_import_name], [Resolve::wasm_export_name],
    [Function::task_return_import], [ManglingAndAbi::for_func] and from wit-component 0.257
    [validation.rs] (which names a core module may import/export and which exports the encoder
    requires).  The table is re-checked against those functions on every world explored
    (harness/crates/declscrape `world`, see checks/c13.py "oracle tie").

    CHECKER: [check_decls w ds] validates the declarations [ds] scraped from generated bindings.  *)
From Coq Require Import String Ascii List Bool Arith DecimalString.
Import ListNotations.
Open Scope string_scope.

(** * Core signatures *)
Inductive cty := I32 | I64 | F32 | F64.
Record sig := mkSig { s_params : list cty; s_results : list cty }.

Definition cty_eq_dec (a b : cty) : {a = b} + {a <> b}.
Proof. decide equality. Defined.
Definition sig_eq_dec (a b : sig) : {a = b} + {a <> b}.
Proof. decide equality; apply (list_eq_dec cty_eq_dec). Defined.

(** * Worlds *)
Inductive fkind :=
| KFree                      (* f: func(...)                      *)
| KMethod (r : string)       (* resource r { f: func(...) }       *)
| KStatic (r : string)       (* resource r { f: static func(...) }*)
| KCtor (r : string).        (* resource r { constructor(...) }   *)

Inductive pkind := PFuture | PStream.

(** The flattened core signatures come from wit-parser's [wasm_signature] (GuestImport,
    GuestImportAsync, GuestExport, GuestExportAsync, GuestExportAsyncStackful) and
    [task_return_import]; [f_payloads] is [Function::find_futures_and_streams] (position = index). *)
Record func := mkFunc {
  f_kind : fkind; f_item : string; f_async : bool;
  f_imp_sync : sig; f_imp_async : sig;
  f_exp_sync : sig; f_exp_async : sig; f_exp_stackful : sig; f_task_return : sig;
  f_payloads : list pkind }.

Inductive ikey :=
| KName (n : string)                                   (* import x: interface { .. }  *)
| KId (ns pkg iface : string) (ver : option string).   (* ns:pkg/iface@ver            *)

Record iface := mkIface { i_key : ikey; i_funcs : list func; i_resources : list string }.

Record world := mkWorld {
  w_imp_ifaces : list iface; w_imp_funcs : list func; w_imp_resources : list string;
  w_exp_ifaces : list iface; w_exp_funcs : list func }.

(** * Names *)
Definition key_string (k : ikey) : string :=
  match k with
  | KName n => n
  | KId ns pkg i ver => ns ++ ":" ++ pkg ++ "/" ++ i ++ match ver with Some v => "@" ++ v | None => "" end
  end.

(** wit-parser stores this string in [Function::name]. *)
Definition func_name (f : func) : string :=
  match f_kind f with
  | KFree => f_item f
  | KMethod r => "[method]" ++ r ++ "." ++ f_item f
  | KStatic r => "[static]" ++ r ++ "." ++ f_item f
  | KCtor r => "[constructor]" ++ r
  end.

Definition import_module (k : option ikey) : string :=
  match k with Some k => key_string k | None => "$root" end.
Definition export_module (k : option ikey) : string := "[export]" ++ import_module k.
Definition export_name (k : option ikey) (n : string) : string :=
  match k with Some k => key_string k ++ "#" ++ n | None => n end.

Definition nat_string (n : nat) : string := NilZero.string_of_uint (Nat.to_uint n).

(** * Items *)
Inductive dir := Imp | Exp.
Definition dir_eq_dec (a b : dir) : {a = b} + {a <> b}.
Proof. decide equality. Defined.

(** [ci_needs]: an export that must accompany this one (the callback of an [async-lift] export). *)
Record core_item := mkItem {
  ci_dir : dir; ci_module : string; ci_field : string; ci_sig : sig; ci_needs : option string }.

Definition imp (m f : string) (s : sig) : core_item := mkItem Imp m f s None.
Definition exp (f : string) (s : sig) : core_item := mkItem Exp "" f s None.

Definition s_ (p r : list cty) : sig := mkSig p r.

(** future/stream intrinsics of payload position [n] of function [fname] (validation.rs
    [maybe_classify_wit_intrinsic] gives the signatures). *)
Definition payload_intrinsics_at (m fname : string) (idx : string) (k : pkind) : list core_item :=
  let pre := match k with PFuture => "future" | PStream => "stream" end in
  let rw := match k with PFuture => s_ [I32; I32] [I32] | PStream => s_ [I32; I32; I32] [I32] end in
  let nm (op : string) := "[" ++ pre ++ "-" ++ op ++ "-" ++ idx ++ "]" ++ fname in
  let al (s : string) := "[async-lower]" ++ s in
  [ imp m (nm "new") (s_ [] [I64]);
    imp m (nm "read") rw;  imp m (al (nm "read")) rw;
    imp m (nm "write") rw; imp m (al (nm "write")) rw;
    imp m (nm "cancel-read") (s_ [I32] [I32]);  imp m (al (nm "cancel-read")) (s_ [I32] [I32]);
    imp m (nm "cancel-write") (s_ [I32] [I32]); imp m (al (nm "cancel-write")) (s_ [I32] [I32]);
    imp m (nm "drop-readable") (s_ [I32] []);
    imp m (nm "drop-writable") (s_ [I32] []) ].

Definition payload_intrinsics (m fname : string) (n : nat) (k : pkind) : list core_item :=
  payload_intrinsics_at m fname (nat_string n) k.

(** The payload-less `future` / `stream` types are addressed as "unit" ([WasmImport::FutureIntrinsic] with
    [ty: None]); the encoder accepts them for any function name ([prefixed_payload]). *)
Definition unit_intrinsics (m fname : string) : list core_item :=
  (payload_intrinsics_at m fname "unit" PFuture ++ payload_intrinsics_at m fname "unit" PStream)%list.

Fixpoint payload_items_from (m fname : string) (n : nat) (ps : list pkind) : list core_item :=
  match ps with
  | [] => []
  | k :: tl => payload_intrinsics m fname n k ++ payload_items_from m fname (S n) tl
  end.
Definition payload_items (m fname : string) (ps : list pkind) :=
  (payload_items_from m fname 0 ps ++ unit_intrinsics m fname)%list.

(** A function can use the async ABI only if its WIT type is [async]
    ([ManglingAndAbi::for_func]; the component validator rejects `async` canonical options on a
    non-async function type). *)
Definition import_func_items (k : option ikey) (f : func) : list core_item :=
  let m := import_module k in
  imp m (func_name f) (f_imp_sync f)
  :: (if f_async f then [imp m ("[async-lower]" ++ func_name f) (f_imp_async f)] else [])
  ++ payload_items m (func_name f) (f_payloads f).

Definition sync_export (k : option ikey) (f : func) := export_name k (func_name f).
Definition async_export (k : option ikey) (f : func) := "[async-lift]" ++ export_name k (func_name f).
Definition stackful_export (k : option ikey) (f : func) := "[async-lift-stackful]" ++ export_name k (func_name f).
Definition callback_export (k : option ikey) (f : func) := "[callback]" ++ async_export k f.
Definition post_return_export (k : option ikey) (f : func) := "cabi_post_" ++ export_name k (func_name f).

Definition callback_sig := s_ [I32; I32; I32] [I32].
(** wit-component [validate_post_return]: the results of the sync export become the parameters. *)
Definition post_return_sig (f : func) := s_ (s_results (f_exp_sync f)) [].

Definition export_func_items (k : option ikey) (f : func) : list core_item :=
  [ exp (sync_export k f) (f_exp_sync f);
    exp (post_return_export k f) (post_return_sig f) ]
  ++ (if f_async f then
        [ mkItem Exp "" (async_export k f) (f_exp_async f) (Some (callback_export k f));
          exp (stackful_export k f) (f_exp_stackful f);
          exp (callback_export k f) callback_sig ]
      else [])
  ++ [ imp (export_module k) ("[task-return]" ++ func_name f) (f_task_return f) ]
  ++ payload_items (export_module k) (func_name f) (f_payloads f).

Definition imported_resource_items (k : option ikey) (r : string) : list core_item :=
  [ imp (import_module k) ("[resource-drop]" ++ r) (s_ [I32] []) ].

Definition exported_resource_items (k : ikey) (r : string) : list core_item :=
  let m := export_module (Some k) in
  let d := key_string k ++ "#[dtor]" ++ r in
  [ imp m ("[resource-drop]" ++ r) (s_ [I32] []);
    imp m ("[resource-new]" ++ r) (s_ [I32] [I32]);
    imp m ("[resource-rep]" ++ r) (s_ [I32] [I32]);
    exp d (s_ [I32] []);
    exp ("[async-lift]" ++ d) (s_ [I32] []);
    exp ("[async-lift-stackful]" ++ d) (s_ [I32] []) ].

Definition imported_iface_items (i : iface) : list core_item :=
  flat_map (import_func_items (Some (i_key i))) (i_funcs i)
  ++ flat_map (imported_resource_items (Some (i_key i))) (i_resources i).

Definition exported_iface_items (i : iface) : list core_item :=
  flat_map (export_func_items (Some (i_key i))) (i_funcs i)
  ++ flat_map (exported_resource_items (i_key i)) (i_resources i).

(** World-independent canonical built-ins and fixed exports (validation.rs
    [classify_component_model_import] / [classify_component_export], legacy names). *)
Definition unit_payload_items : list core_item := unit_intrinsics "$root" "".

Definition builtin_items : list core_item :=
  let r := "$root" in
  [ imp r "[backpressure-inc]" (s_ [] []);
    imp r "[backpressure-dec]" (s_ [] []);
    imp r "[waitable-set-new]" (s_ [] [I32]);
    imp r "[waitable-set-wait]" (s_ [I32; I32] [I32]);
    imp r "[cancellable][waitable-set-wait]" (s_ [I32; I32] [I32]);
    imp r "[waitable-set-poll]" (s_ [I32; I32] [I32]);
    imp r "[cancellable][waitable-set-poll]" (s_ [I32; I32] [I32]);
    imp r "[waitable-set-drop]" (s_ [I32] []);
    imp r "[waitable-join]" (s_ [I32; I32] []);
    imp r "[subtask-drop]" (s_ [I32] []);
    imp r "[subtask-cancel]" (s_ [I32] [I32]);
    imp r "[async-lower][subtask-cancel]" (s_ [I32] [I32]);
    imp r "[error-context-new-utf8]" (s_ [I32; I32] [I32]);
    imp r "[error-context-new-utf16]" (s_ [I32; I32] [I32]);
    imp r "[error-context-new-latin1+utf16]" (s_ [I32; I32] [I32]);
    imp r "[error-context-debug-message-utf8]" (s_ [I32; I32] []);
    imp r "[error-context-debug-message-utf16]" (s_ [I32; I32] []);
    imp r "[error-context-debug-message-latin1+utf16]" (s_ [I32; I32] []);
    imp r "[error-context-drop]" (s_ [I32] []);
    imp r "[context-get-0]" (s_ [] [I32]);
    imp r "[context-set-0]" (s_ [I32] []);
    imp r "[context-get-1]" (s_ [] [I32]);
    imp r "[context-set-1]" (s_ [I32] []);
    imp r "[thread-index]" (s_ [] [I32]);
    imp r "[thread-yield]" (s_ [] [I32]);
    imp r "[cancellable][thread-yield]" (s_ [] [I32]);
    imp "[export]$root" "[task-cancel]" (s_ [] []);
    exp "cabi_realloc" (s_ [I32; I32; I32; I32] [I32]);
    exp "_initialize" (s_ [] []) ]
  ++ unit_payload_items.

Definition world_items (w : world) : list core_item :=
  flat_map imported_iface_items (w_imp_ifaces w)
  ++ flat_map (import_func_items None) (w_imp_funcs w)
  ++ flat_map (imported_resource_items None) (w_imp_resources w)
  ++ flat_map exported_iface_items (w_exp_ifaces w)
  ++ flat_map (export_func_items None) (w_exp_funcs w).

Definition expected (w : world) : list core_item := world_items w ++ builtin_items.

(** For every exported function the encoder requires one of these exports
    (validation.rs [ExportMap::validate]: an [InterfaceFunc]/[WorldFunc] entry with any ABI). *)
Definition export_alternatives (k : option ikey) (f : func) : list string :=
  sync_export k f :: (if f_async f then [async_export k f; stackful_export k f] else []).

Definition required (w : world) : list (list string) :=
  flat_map (fun i => map (export_alternatives (Some (i_key i))) (i_funcs i)) (w_exp_ifaces w)
  ++ map (export_alternatives None) (w_exp_funcs w).

(** * Declarations scraped from generated code, and the checker *)
Record decl := mkDecl { d_dir : dir; d_module : string; d_field : string; d_sig : option sig }.

Definition same_name (d : decl) (i : core_item) : bool :=
  if dir_eq_dec (d_dir d) (ci_dir i) then
    if string_dec (d_module d) (ci_module i) then
      if string_dec (d_field d) (ci_field i) then true else false
    else false
  else false.

Definition export_names (ds : list decl) : list string :=
  map d_field (filter (fun d => if dir_eq_dec (d_dir d) Exp then true else false) ds).

Definition mem (s : string) (l : list string) : bool := if in_dec string_dec s l then true else false.

Inductive error :=
| EUnknown (d : decl)                   (* no item of the world has this name: import unresolvable / export ignored *)
| ENoSig (d : decl)                     (* the scraper could not read a signature *)
| ESig (d : decl) (want : sig)          (* name of an item, wrong core signature *)
| ENeeds (d : decl) (n : string)        (* e.g. [async-lift] export without its [callback] *)
| EMissing (alts : list string)         (* a required export (any of the alternatives) is absent *)
| EDup (n : string).                    (* two exports with one name *)

Definition check_decl (E : list core_item) (names : list string) (d : decl) : list error :=
  match find (same_name d) E with
  | None => [EUnknown d]
  | Some i =>
      match d_sig d with
      | None => [ENoSig d]
      | Some s => if sig_eq_dec s (ci_sig i) then [] else [ESig d (ci_sig i)]
      end
      ++ match ci_needs i with
         | Some n => if mem n names then [] else [ENeeds d n]
         | None => []
         end
  end.

Definition check_required (names : list string) (alts : list string) : list error :=
  if existsb (fun a => mem a names) alts then [] else [EMissing alts].

Fixpoint dups (l : list string) : list error :=
  match l with
  | [] => []
  | x :: tl => (if mem x tl then [EDup x] else []) ++ dups tl
  end.

Definition check_decls (w : world) (ds : list decl) : list error :=
  let names := export_names ds in
  flat_map (check_decl (expected w) names) ds
  ++ flat_map (check_required names) (required w)
  ++ dups names.

(** The table is unambiguous on a world when no two items share direction, module and field. *)
Definition item_key (i : core_item) : string :=
  (match ci_dir i with Imp => "I" | Exp => "E" end) ++ String "001"%char (ci_module i ++ String "001"%char (ci_field i)).
Definition unambiguous (w : world) : bool :=
  match dups (map item_key (expected w)) with [] => true | _ => false end.
