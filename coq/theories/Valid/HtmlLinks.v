(** Verified checker for the links of a generated HTML document (property C29, validated part).
    Input: the anchor-relevant tokens of the REAL .html file in document order, produced by the
    (trusted, simple) tokenizer lib/c29_html.py: every [<a ...>] start tag with its [href] (if any) and
    its [id]/[name] attributes, every [</a>], and every [id] carried by another element; plus the
    link targets written by the doc-comment authors themselves (raw HTML / markdown links inside WIT doc
    comments are passed through verbatim and are not the generator's links).
    Definitions only; soundness and completeness in Valid/HtmlLinksProofs.v. *)
From Coq Require Import List String Ascii Bool.
From WB Require Import Valid.PkgGraph.
Import ListNotations.
Local Open Scope string_scope.

Inductive tok :=
| AOpen (href : option string) (ids : list string)     (* <a href=".." id=".." name=".."> *)
| AClose                                                (* </a> *)
| OtherId (id : string).                                (* <h1 id="..">, ... *)

Record doc := { d_toks : list tok; d_authored : list string }.

Inductive err :=
| Nested (href : string)       (* an <a href> start tag while another <a href> is open *)
| StrayClose                   (* </a> with no open <a> *)
| Dangling (target : string).  (* href="#target" but no id/name "target" in the document *)

(** The stack of open [<a>] elements: [true] for one with an [href]. *)
Definition step (s : list bool) (t : tok) : list bool :=
  match t with
  | AOpen (Some _) _ => true :: s
  | AOpen None _ => false :: s
  | AClose => tl s
  | OtherId _ => s
  end.

Definition stack_after (s : list bool) (ts : list tok) : list bool := fold_left step ts s.

(** what is wrong with token [t] when the open elements are [s] *)
Definition here (s : list bool) (t : tok) : list err :=
  match t with
  | AOpen (Some h) _ => if existsb (fun b => b) s then [Nested h] else []
  | AClose => match s with [] => [StrayClose] | _ => [] end
  | _ => []
  end.

Fixpoint nest_errs (s : list bool) (ts : list tok) : list err :=
  match ts with
  | [] => []
  | t :: r => here s t ++ nest_errs (step s t) r
  end.

Definition ids_of (ts : list tok) : list string :=
  flat_map (fun t => match t with AOpen _ ids => ids | OtherId i => [i] | AClose => [] end) ts.

(** ["#x"] is an intra-document link to [x] *)
Definition target (h : string) : option string :=
  match h with
  | String c r => if Ascii.eqb c "#"%char then Some r else None
  | EmptyString => None
  end.

Definition targets (ts : list tok) : list string :=
  flat_map (fun t => match t with
                     | AOpen (Some h) _ => match target h with Some x => [x] | None => [] end
                     | _ => []
                     end) ts.

Definition resolved (d : doc) (x : string) : bool :=
  String.eqb x "" || smem x (ids_of (d_toks d)) || smem x (d_authored d).

Definition check (d : doc) : list err :=
  nest_errs [] (d_toks d) ++ map Dangling (filter (fun x => negb (resolved d x)) (targets (d_toks d))).
