(** Soundness and completeness of the package-graph checker (property C30, validated part). *)
From Coq Require Import List String Ascii Bool Arith.
From WB Require Import Valid.PkgGraph.
Import ListNotations.
Local Open Scope string_scope.

(** * The specification the checker decides *)

Record consistent (o : output) : Prop := {
  (* every [@alias.] reference of a package is declared by an import of that package *)
  c_declared : forall p a, In p (o_pkgs o) -> In a (p_refs p) ->
               exists path, In (path, a) (p_imports p);
  (* within one package no alias is declared twice ... *)
  c_alias_unique : forall p, In p (o_pkgs o) -> NoDup (map snd (p_imports p));
  (* ... and no package is imported twice (so a referenced package has exactly one alias) *)
  c_path_unique : forall p, In p (o_pkgs o) -> NoDup (map fst (p_imports p));
  (* every imported path is an external (core library) package or a generated package directory *)
  c_exists : forall p path a, In p (o_pkgs o) -> In (path, a) (p_imports p) ->
             (exists pre rest, In pre (o_external o) /\ path = pre ++ rest) \/
             (exists q, In q (o_pkgs o) /\ path = o_project o ++ "/" ++ p_dir q);
  c_dirs_unique : NoDup (map p_dir (o_pkgs o));
  (* every directory required by the WIT names exists verbatim (up to a trailing decimal counter) *)
  c_expected : forall e, In e (o_expected o) ->
               exists q rest, In q (o_pkgs o) /\ p_dir q = e ++ rest /\ all_digits rest = true;
  (* ... and a directory required k times is realised by at least k package directories *)
  c_expected_mult : forall e, In e (o_expected o) ->
               count_occ string_dec (o_expected o) e <= List.length (matching o e);
}.

(** * Small list facts *)

Lemma smem_In s l : smem s l = true <-> In s l.
Proof.
  unfold smem. rewrite existsb_exists. split.
  - intros [x [Hx He]]. apply String.eqb_eq in He. subst. exact Hx.
  - intros H. exists s. split; [exact H | apply String.eqb_refl].
Qed.

Lemma dups_nil l : dups l = [] <-> NoDup l.
Proof.
  induction l as [|x r IH]; cbn [dups].
  - split; [constructor | reflexivity].
  - destruct (smem x r) eqn:E.
    + split; [discriminate|]. intros H. inversion H as [|? ? Hn _]; subst.
      apply smem_In in E. contradiction.
    + rewrite IH. split.
      * intros H. constructor; [|exact H]. intros Hin. apply smem_In in Hin. congruence.
      * intros H. inversion H; assumption.
Qed.

Lemma filter_nil {A} (f : A -> bool) l : filter f l = [] <-> forall x, In x l -> f x = false.
Proof.
  induction l as [|x r IH]; cbn [filter].
  - split; [intros _ ? [] | reflexivity].
  - destruct (f x) eqn:E.
    + split; [discriminate|]. intros H. specialize (H x (or_introl eq_refl)). congruence.
    + rewrite IH. split.
      * intros H y [<-|Hy]; auto.
      * intros H y Hy. apply H. right. exact Hy.
Qed.

Lemma map_nil {A B} (f : A -> B) l : map f l = [] <-> l = [].
Proof. destruct l; cbn; split; congruence. Qed.

Lemma app_nil {A} (a b : list A) : (a ++ b)%list = [] <-> a = [] /\ b = [].
Proof. split; [apply app_eq_nil | intros [-> ->]; reflexivity]. Qed.

Lemma flat_map_nil {A B} (f : A -> list B) l : flat_map f l = [] <-> forall x, In x l -> f x = [].
Proof.
  induction l as [|x r IH]; cbn [flat_map].
  - split; [intros _ ? [] | reflexivity].
  - rewrite app_nil, IH. split.
    + intros [H1 H2] y [<-|Hy]; auto.
    + intros H. split; [apply H; left; reflexivity | intros y Hy; apply H; right; exact Hy].
Qed.

Lemma strip_prefix_spec p s r : strip_prefix p s = Some r <-> s = p ++ r.
Proof.
  revert s. induction p as [|c p IH]; intros s; cbn [strip_prefix append].
  - split; [intros H; injection H as ->; reflexivity | intros ->; reflexivity].
  - destruct s as [|d s]; [split; discriminate|].
    destruct (Ascii.eqb c d) eqn:E.
    + apply Ascii.eqb_eq in E. subst d. rewrite IH. split; [intros ->; reflexivity | intros H; injection H as ->; reflexivity].
    + split; [discriminate|]. intros H. injection H as -> _. rewrite Ascii.eqb_refl in E. discriminate.
Qed.

Lemma negb_false b : negb b = false <-> b = true.
Proof. destruct b; cbn; split; congruence. Qed.

(** * Boolean pieces against their specifications *)

Lemma is_external_spec o path :
  is_external o path = true <-> exists pre rest, In pre (o_external o) /\ path = pre ++ rest.
Proof.
  unfold is_external. rewrite existsb_exists. split.
  - intros [pre [Hin H]]. destruct (strip_prefix pre path) as [rest|] eqn:E; [|discriminate].
    apply strip_prefix_spec in E. eauto.
  - intros (pre & rest & Hin & ->). exists pre. split; [exact Hin|].
    assert (H : strip_prefix pre (pre ++ rest) = Some rest) by (apply strip_prefix_spec; reflexivity).
    rewrite H. reflexivity.
Qed.

Lemma is_generated_spec o path :
  is_generated o path = true <-> exists q, In q (o_pkgs o) /\ path = o_project o ++ "/" ++ p_dir q.
Proof.
  unfold is_generated. rewrite existsb_exists. split.
  - intros [q [Hin H]]. apply String.eqb_eq in H. eauto.
  - intros (q & Hin & ->). exists q. split; [exact Hin | apply String.eqb_refl].
Qed.

Lemma expected_ok_spec o e :
  expected_ok o e = true <->
  (exists q rest, In q (o_pkgs o) /\ p_dir q = e ++ rest /\ all_digits rest = true) /\
  count_occ string_dec (o_expected o) e <= List.length (matching o e).
Proof.
  unfold expected_ok, dir_matches. rewrite andb_true_iff, Nat.leb_le, existsb_exists.
  apply and_iff_compat_r. split.
  - intros [q [Hin H]]. destruct (strip_prefix e (p_dir q)) as [rest|] eqn:E; [|discriminate].
    apply strip_prefix_spec in E. eauto.
  - intros (q & rest & Hin & Hd & Hdig). exists q. split; [exact Hin|].
    assert (H : strip_prefix e (p_dir q) = Some rest) by (apply strip_prefix_spec; exact Hd).
    rewrite H. exact Hdig.
Qed.

Lemma In_snd {A B} (l : list (A * B)) b : In b (map snd l) <-> exists a, In (a, b) l.
Proof.
  rewrite in_map_iff. split.
  - intros [[a b'] [Hs Hin]]. cbn in Hs. subst. eauto.
  - intros [a Hin]. exists (a, b). auto.
Qed.

Lemma check_pkg_nil o p :
  check_pkg o p = [] <->
  (forall a, In a (p_refs p) -> exists path, In (path, a) (p_imports p)) /\
  NoDup (map snd (p_imports p)) /\ NoDup (map fst (p_imports p)) /\
  (forall path a, In (path, a) (p_imports p) -> path_ok o path = true).
Proof.
  unfold check_pkg. rewrite !app_nil, !map_nil, !filter_nil, !dups_nil.
  split.
  - intros (H1 & H2 & H3 & H4). repeat split; auto.
    + intros a Ha. apply In_snd. apply smem_In. apply negb_false. auto.
    + intros path a Hin. apply negb_false. apply H4. apply (in_map fst) in Hin. exact Hin.
  - intros (H1 & H2 & H3 & H4). repeat split; auto.
    + intros a Ha. apply negb_false. apply smem_In. apply In_snd. auto.
    + intros path Hin. apply negb_false. apply in_map_iff in Hin.
      destruct Hin as [[p0 a] [Hf Hin]]. cbn in Hf. subst p0. eauto.
Qed.

(** * Soundness and completeness *)

Theorem check_sound : forall o, check o = [] -> consistent o.
Proof.
  intros o H. unfold check in H. rewrite !app_nil, flat_map_nil, !map_nil, dups_nil, filter_nil in H.
  destruct H as (Hp & Hd & He).
  constructor.
  - intros p a Hin Ha. apply Hp, check_pkg_nil in Hin. destruct Hin as (H1 & _). auto.
  - intros p Hin. apply Hp, check_pkg_nil in Hin. tauto.
  - intros p Hin. apply Hp, check_pkg_nil in Hin. tauto.
  - intros p path a Hin Hi. apply Hp, check_pkg_nil in Hin. destruct Hin as (_ & _ & _ & H4).
    specialize (H4 _ _ Hi). unfold path_ok in H4. apply orb_true_iff in H4.
    destruct H4 as [H4|H4]; [left; apply is_external_spec | right; apply is_generated_spec]; exact H4.
  - exact Hd.
  - intros e Hin. apply (proj1 (expected_ok_spec o e)). apply negb_false. auto.
  - intros e Hin. apply (proj1 (expected_ok_spec o e)). apply negb_false. auto.
Qed.

Theorem check_complete : forall o, consistent o -> check o = [].
Proof.
  intros o [H1 H2 H3 H4 H5 H6 H7]. unfold check.
  rewrite !app_nil, flat_map_nil, !map_nil, dups_nil, filter_nil. repeat split.
  - intros p Hin. apply check_pkg_nil.
    split; [intros a Ha; eapply H1; eauto|].
    split; [apply H2; exact Hin|]. split; [apply H3; exact Hin|].
    intros path a Hi. unfold path_ok. apply orb_true_iff.
    destruct (H4 p path a Hin Hi) as [H|H];
      [left; apply is_external_spec | right; apply is_generated_spec]; exact H.
  - exact H5.
  - intros e Hin. apply negb_false. apply expected_ok_spec. auto.
Qed.

(** Consequence used in the property statement: inside one package an alias names one path and a
    path has one alias. *)
Lemma alias_functional o p p1 p2 a :
  consistent o -> In p (o_pkgs o) -> In (p1, a) (p_imports p) -> In (p2, a) (p_imports p) -> p1 = p2.
Proof.
  intros [_ H2 _ _ _ _ _] Hin. specialize (H2 p Hin). revert H2.
  induction (p_imports p) as [|[k v] l IH]; cbn [map snd]; intros Hnd Hx Hy; [destruct Hx|].
  inversion Hnd as [|? ? Hnotin Hnd']; subst.
  destruct Hx as [Hx|Hx], Hy as [Hy|Hy].
  - congruence.
  - injection Hx as -> ->. exfalso. apply Hnotin. apply (in_map snd) in Hy. exact Hy.
  - injection Hy as -> ->. exfalso. apply Hnotin. apply (in_map snd) in Hx. exact Hx.
  - eauto.
Qed.

Lemma path_one_alias o p path a1 a2 :
  consistent o -> In p (o_pkgs o) -> In (path, a1) (p_imports p) -> In (path, a2) (p_imports p) -> a1 = a2.
Proof.
  intros [_ _ H3 _ _ _ _] Hin. specialize (H3 p Hin). revert H3.
  induction (p_imports p) as [|[k v] l IH]; cbn [map fst]; intros Hnd Hx Hy; [destruct Hx|].
  inversion Hnd as [|? ? Hnotin Hnd']; subst.
  destruct Hx as [Hx|Hx], Hy as [Hy|Hy].
  - congruence.
  - injection Hx as -> ->. exfalso. apply Hnotin. apply (in_map fst) in Hy. exact Hy.
  - injection Hy as -> ->. exfalso. apply Hnotin. apply (in_map fst) in Hx. exact Hx.
  - eauto.
Qed.
