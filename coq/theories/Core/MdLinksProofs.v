(** Proofs about the model of [Markdown::finish]'s event pass (property C29, proved part). *)
From Coq Require Import List String Bool NArith Lia.
From WB Require Import Core.MdLinks.
Import ListNotations.
Local Open Scope string_scope.

(** If the parser's events never nest links, neither does what is handed to the HTML renderer. *)
Theorem pass_well_nested : forall h evs b,
  well_nested b evs = true -> well_nested b (pass h b evs) = true.
Proof.
  intros h evs. unfold pass. induction evs as [|e r IH]; intros b H; [reflexivity|].
  destruct e as [d| |c|n]; cbn [plan apply_plan well_nested] in *.
  - apply andb_true_iff in H. destruct H as [Hb Hr]. rewrite Hb. cbn. apply IH. exact Hr.
  - apply andb_true_iff in H. destruct H as [Hb Hr]. rewrite Hb. cbn. apply IH. exact Hr.
  - destruct b; cbn [apply_plan well_nested].
    + apply IH. exact H.
    + destruct (lookup c h) as [dst|]; cbn [apply_plan well_nested negb andb]; apply IH; exact H.
  - apply IH. exact H.
Qed.

Lemma plan_length h evs : forall b, List.length (plan h b evs) = List.length evs.
Proof.
  induction evs as [|e r IH]; intros b; [reflexivity|].
  destruct e; cbn [plan List.length]; f_equal; apply IH.
Qed.

(** Exactly the code spans outside links whose text is a key of [hrefs] are wrapped, with the
    destination [hrefs] gives. *)
Theorem plan_spec : forall h evs b i dst,
  nth_error (plan h b evs) i = Some (Some dst) <->
  exists c, nth_error evs i = Some (Code c) /\ in_link_at b evs i = false /\ lookup c h = Some dst.
Proof.
  intros h evs. induction evs as [|e r IH]; intros b i dst.
  - destruct i; cbn; split; try discriminate; intros (c & H & _); discriminate.
  - destruct i as [|j].
    + destruct e as [d| |c|n]; cbn [plan nth_error in_link_at]; split; try discriminate;
        try (intros (c0 & H & _); discriminate).
      * intros H. injection H as H. exists c. destruct b; [discriminate|]. auto.
      * intros (c0 & Hc & Hb & Hl). injection Hc as <-. rewrite Hb. rewrite Hl. reflexivity.
    + destruct e as [d| |c|n]; cbn [plan nth_error in_link_at]; apply IH.
Qed.

(** Nothing is dropped or reordered: removing the wrappers the plan inserted gives the input back. *)
Fixpoint unwrap (evs : list ev) (p : list (option string)) : list ev :=
  match p, evs with
  | Some _ :: p', _ :: e :: _ :: r => e :: unwrap r p'
  | None :: p', e :: r => e :: unwrap r p'
  | _, _ => []
  end.

Theorem pass_only_inserts : forall h evs b, unwrap (pass h b evs) (plan h b evs) = evs.
Proof.
  intros h evs. unfold pass. induction evs as [|e r IH]; intros b; [reflexivity|].
  destruct e as [d| |c|n]; cbn [plan apply_plan unwrap]; try (f_equal; apply IH).
  destruct (if b then None else lookup c h); cbn [apply_plan unwrap]; f_equal; apply IH.
Qed.

(** When the parser does not nest links, the loop's boolean IS "depth > 0". *)
Lemma in_link_is_depth : forall evs b i,
  well_nested b evs = true ->
  in_link_at b evs i = negb (Nat.eqb (depth_at (if b then 1 else 0) evs i) 0).
Proof.
  induction evs as [|e r IH]; intros b i H.
  - destruct i, b; reflexivity.
  - destruct i as [|j]; [destruct e, b; reflexivity|].
    destruct e as [d| |c|n]; cbn [well_nested in_link_at depth_at] in *.
    + apply andb_true_iff in H. destruct H as [Hb Hr]. destruct b; [discriminate|].
      rewrite (IH true j Hr). reflexivity.
    + apply andb_true_iff in H. destruct H as [Hb Hr]. subst b. rewrite (IH false j Hr). reflexivity.
    + apply IH. exact H.
    + apply IH. exact H.
Qed.

(** PARTIAL form of the link half of C29 on the model: if the parser's links are not nested, no
    generated (inserted) link is ever placed inside a link. *)
Theorem no_generated_link_inside_link_partial : forall h evs i dst,
  well_nested false evs = true ->
  nth_error (plan h false evs) i = Some (Some dst) -> depth_at 0 evs i = 0.
Proof.
  intros h evs i dst Hw Hp. apply plan_spec in Hp. destruct Hp as (c & _ & Hin & _).
  rewrite (in_link_is_depth evs false i Hw) in Hin. cbn in Hin.
  destruct (depth_at 0 evs i); [reflexivity | discriminate].
Qed.

(** REFUTATION of the full statement (balanced streams with nesting, which pulldown-cmark 0.13 does
    produce for an autolink inside an inline link): the boolean is cleared by the inner End(Link) and a
    code span further inside the outer link is wrapped in a generated link. *)
Theorem generated_link_inside_link_refuted : exists h evs i dst,
  balanced 0 evs = true /\ nth_error (plan h false evs) i = Some (Some dst) /\ depth_at 0 evs i = 1.
Proof.
  exists [("r", "#r")], [StartLink "#r"; Code "r"; StartLink "http://example.com/x"; Other 0; EndLink; Code "r"; EndLink],
         5, "#r".
  vm_compute. repeat split.
Qed.
