(** C25: the classifier [run_reason] answers 0 exactly on the safe sequences of [run_safe]. *)
From Coq Require Import List Ascii Bool Arith.
From WB Require Import Core.Source Core.SourceSpec.
Import ListNotations.

Lemma frag_reason_safe interp st f : frag_reason interp st f = 0 <-> frag_safe interp st f = true.
Proof.
  unfold frag_reason, frag_safe, piece_safe. destruct (has_cr f); simpl. { split; discriminate. }
  destruct (rust_lines f) as [|l rest]. { tauto. }
  destruct (bol_after true (as_str st)); simpl. { tauto. }
  destruct (is_nil rest), (no_lead_ws l); simpl;
    destruct (interp && negb (in_comment st) && starts_with_c RBRACE (trim l) && ends2sp (rbuf st)); simpl;
    split; auto; discriminate.
Qed.

Lemma parts_reason_safe ps : forall st, parts_reason st ps = 0 <-> parts_safe st ps = true.
Proof.
  induction ps as [|p r IH]; intro st; simpl. { tauto. }
  pose proof (frag_reason_safe true st p) as H.
  destruct (frag_reason true st p) eqn:E.
  - rewrite (proj1 H eq_refl). simpl. apply IH.
  - destruct (frag_safe true st p). { destruct H as [_ H]. specialize (H eq_refl). discriminate. }
    simpl. split; discriminate.
Qed.

Lemma bop_reason_safe st b : bop_reason st b = 0 <-> bop_safe st b = true.
Proof.
  destruct b; simpl; try tauto; try apply frag_reason_safe. apply parts_reason_safe.
Qed.

Theorem run_reason_safe ops : forall st, run_reason st ops = 0 <-> run_safe st ops = true.
Proof.
  induction ops as [|b r IH]; intro st; simpl. { tauto. }
  pose proof (bop_reason_safe st b) as H.
  destruct (bop_reason st b) eqn:E.
  - rewrite (proj1 H eq_refl). simpl. destruct (step_b st b) as [[st' o]|]; [apply IH | tauto].
  - destruct (bop_safe st b). { destruct H as [_ H]. specialize (H eq_refl). discriminate. }
    simpl. split; discriminate.
Qed.

Lemma start_state_b_iff st : start_state_b st = true <-> (continuing st = false /\ in_comment st = false).
Proof.
  unfold start_state_b. rewrite andb_true_iff, !negb_true_iff. tauto.
Qed.
