(** * Core/ResourceOwnSpec.v — the statements of C07 about the model [Core/ResourceOwn.v] (definitions only). *)
From Coq Require Import List NArith Bool Permutation.
From WB Require Import Core.ResourceOwn.
Import ListNotations.
Local Open Scope N_scope.

(** handles held by live Rust wrappers (a wrapper whose handle was taken holds none) *)
Definition live_handles (s : st) : list N :=
  map (fun p => w_handle (snd p)) (filter (fun p => negb (w_handle (snd p) =? MAXH)) (ws s)).
Definition borrow_entries (s : st) : list (N * hentry) := filter (fun p => negb (e_own (snd p))) (tbl s).
Definition own_entries (s : st) : list (N * hentry) := filter (fun p => e_own (snd p)) (tbl s).
Definition exported_own_reps (s : st) : list N :=
  map (fun p => e_rep (snd p)) (filter (fun p => e_own (snd p) && rkind_eqb (e_kind (snd p)) Exported) (tbl s)).
Definition temps (s : st) : list (N * wrapper) := filter (fun p => w_temp (snd p)) (ws s).

(** the system invariant *)
Record Inv (s : st) : Prop := {
  inv_tbl_nodup : NoDup (keys (tbl s));
  inv_ws_nodup : NoDup (keys (ws s));
  inv_reps_nodup : NoDup (keys (reps s));
  (* every table entry is held by exactly one live wrapper, and every live wrapper holds exactly one table entry *)
  inv_handles : Permutation (live_handles s) (keys (tbl s));
  (* a wrapper and the entry it holds agree: borrow temporaries hold borrow entries, user-owned wrappers hold own entries *)
  inv_agree : forall w x, In (w, x) (ws s) -> w_handle x <> MAXH ->
      exists e, lookup (w_handle x) (tbl s) = Some e /\ e_own e = negb (w_temp x) /\ e_kind e = w_kind x;
  (* [strengthening needed for the induction] between two operations no live wrapper holds the "taken" sentinel: the
     wrapper whose handle was taken by [UPassOwn] is dropped within the same operation *)
  inv_no_sentinel : forall w x, In (w, x) (ws s) -> w_handle x <> MAXH;
  inv_lends : forall h e, In (h, e) (tbl s) -> e_lends e = 0;
  (* [strengthening] borrow entries in the guest's table are borrows of imported resources (a borrow of an exported
     resource is passed as the bare rep, CanonicalABI lower_borrow) *)
  inv_borrow_imported : forall h e, In (h, e) (tbl s) -> e_own e = false -> e_kind e = Imported;
  inv_need_drop : need_drop s = N.of_nat (length (borrow_entries s));
  inv_temps : in_export s = false -> temps s = [] /\ need_drop s = 0;
  (* every live box of an exported resource has exactly one owner: an own handle in this table or one held outside *)
  inv_boxes : Permutation (keys (reps s)) (exported_own_reps s ++ hostown s);
  (* [strengthening] between two operations every live box still holds its value: [into_inner] takes the value and
     releases the box within the same operation *)
  inv_boxes_some : forall r c, In (r, c) (reps s) -> exists v, c = RSome v;
  inv_free_fresh : forall i, In i (freeh s) -> ~ In i (keys (tbl s));
  inv_free_nodup : NoDup (freeh s);
  inv_idx_range : forall i, In i (keys (tbl s)) \/ In i (freeh s) -> 0 < i < nexth s;
  inv_nexth : 1 <= nexth s <= TABLE_MAX;
  inv_wid_range : forall w, In w (keys (ws s)) -> w < nextw s;
  inv_rep_range : forall r, In r (keys (reps s)) \/ In r (hostown s) -> r < nextrep s
}.

(** counting over the event log *)
Definition cnt (p : event -> bool) (s : st) : nat := length (filter p (log s)).
Definition is_new (own : bool) (e : event) : bool := match e with EvNewHandle _ o => Bool.eqb o own | _ => false end.
Definition is_drop (own : bool) (e : event) : bool := match e with EvDropCall _ o => Bool.eqb o own | _ => false end.
Definition is_took (e : event) : bool := match e with EvHostTook _ _ => true | _ => false end.
Definition is_newbox (e : event) : bool := match e with EvNewBox _ _ => true | _ => false end.
Definition is_dtor (e : event) : bool := match e with EvDtor _ => true | _ => false end.
Definition is_destroyed (e : event) : bool := match e with EvValDestroyed _ => true | _ => false end.
Definition is_touser (e : event) : bool := match e with EvValToUser _ => true | _ => false end.
Definition dtor_reps (s : st) : list N := flat_map (fun e => match e with EvDtor r => [r] | _ => [] end) (log s).
Definition some_boxes (s : st) : nat := length (filter (fun p => match snd p with RSome _ => true | RNone => false end) (reps s)).

(** the ledger: what "exactly once" means in counting form, for every reachable state *)
Record Ledger (s : st) : Prop := {
  (* every own handle ever put into the table was dropped by the guest, or transferred to the host, exactly once, or is still there *)
  led_own : cnt (is_new true) s = (cnt (is_drop true) s + cnt is_took s + length (own_entries s))%nat;
  (* every borrow handle ever lent was dropped exactly once or is still outstanding (in the current export activation) *)
  led_borrow : cnt (is_new false) s = (cnt (is_drop false) s + length (borrow_entries s))%nat;
  (* every box ever created was released by the destructor exactly once or is still alive; a released box is never alive *)
  led_box : cnt is_newbox s = (cnt is_dtor s + length (reps s))%nat;
  led_dtor_once : NoDup (dtor_reps s);
  led_dtor_dead : forall r, In r (dtor_reps s) -> ~ In r (keys (reps s));
  (* [strengthening needed for the induction] a released box address is never handed out again by [UNew] *)
  led_dtor_range : forall r, In r (dtor_reps s) -> r < nextrep s;
  (* every Rust value ever boxed was destroyed exactly once, or moved out to the user exactly once, or is still boxed *)
  led_val : cnt is_newbox s = (cnt is_destroyed s + cnt is_touser s + some_boxes s)%nat
}.

Definition not_api (s : st) : Prop := match err s with Some (EApi _) => False | _ => True end.

(** * The statements *)
(** (1) whatever the host and the user code do within their contracts, the guest is never trapped by the host (drop of a
    stale/lent/absent handle, own handle used after transfer, borrow outstanding at return) and never panics (rep used
    after take or free, destructor run twice) *)
Definition no_trap_no_panic_stmt : Prop := forall ops, not_api (run ops) -> err (run ops) = None.
(** (2) the bookkeeping invariant and the exactly-once ledger hold in every reachable state *)
Definition invariant_stmt : Prop := forall ops, err (run ops) = None -> Inv (run ops) /\ Ledger (run ops).
(** (3) borrows never release or transfer what they borrow: lending a handle to an import changes neither the table nor
    any wrapper nor any box; returning from an export drops exactly the borrow entries it was lent, no own entry *)
Definition borrow_stmt : Prop :=
  (forall ops w, err (run ops) = None -> let s' := step (run ops) (UPassBorrow w) in
      tbl s' = tbl (run ops) /\ ws s' = ws (run ops) /\ reps s' = reps (run ops) /\ hostown s' = hostown (run ops)) /\
  (forall ops, err (run ops) = None -> let s' := step (run ops) HExportEnd in err s' = None ->
      own_entries s' = own_entries (run ops) /\ borrow_entries s' = [] /\ reps s' = reps (run ops) /\
      filter (fun p => negb (w_temp (snd p))) (ws s') = filter (fun p => negb (w_temp (snd p))) (ws (run ops))).
(** (4) quiescence: when no export is active and the user holds no wrapper, nothing this component owns is left in the
    table, and the only live boxes are those whose own handle is held outside *)
Definition quiescent_stmt : Prop := forall ops, err (run ops) = None -> in_export (run ops) = false -> ws (run ops) = [] ->
      tbl (run ops) = [] /\ Permutation (keys (reps (run ops))) (hostown (run ops)).
