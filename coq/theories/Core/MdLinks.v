(** Model of the event pass in [Markdown::finish] (crates/markdown/src/lib.rs): the generator parses
    its own markdown with pulldown-cmark and, before rendering HTML, wraps every inline code span whose
    text is a key of [hrefs] (names of worlds, interfaces, functions, types, fields) in a link, except
    inside a link (tracked by one boolean [in_link]).  Events are abstracted to what the loop
    inspects.  Definitions only; proofs in Core/MdLinksProofs.v. *)
From Coq Require Import List String Bool NArith.
Import ListNotations.
Local Open Scope string_scope.

Inductive ev :=
| StartLink (dst : string)     (* Event::Start(Tag::Link { dest_url, .. }) *)
| EndLink                      (* Event::End(TagEnd::Link) *)
| Code (c : string)            (* Event::Code(c) *)
| Other (n : N).               (* any other event (identified by its position) *)

(** [hrefs : HashMap<String, String>] *)
Definition hrefs := list (string * string).

Fixpoint lookup (k : string) (l : hrefs) : option string :=
  match l with
  | [] => None
  | (k', v) :: r => if String.eqb k k' then Some v else lookup k r
  end.

(** The decision the loop takes for each event: [None] = push the event unchanged,
    [Some dst] = push Start(Link dst), the event, End(Link).   [in_link] is the loop's variable. *)
Fixpoint plan (h : hrefs) (in_link : bool) (evs : list ev) : list (option string) :=
  match evs with
  | [] => []
  | StartLink _ :: r => None :: plan h true r
  | EndLink :: r => None :: plan h false r
  | Code c :: r => (if in_link then None else lookup c h) :: plan h in_link r
  | Other _ :: r => None :: plan h in_link r
  end.

Fixpoint apply_plan (evs : list ev) (p : list (option string)) : list ev :=
  match evs, p with
  | e :: r, Some dst :: p' => StartLink dst :: e :: EndLink :: apply_plan r p'
  | e :: r, None :: p' => e :: apply_plan r p'
  | _, _ => []
  end.

(** the event list handed to [html::push_html] *)
Definition pass (h : hrefs) (in_link : bool) (evs : list ev) : list ev :=
  apply_plan evs (plan h in_link evs).

(** Links are never nested and every End closes a Start: the shape pulldown-cmark guarantees for its
    own event streams ([b] = "inside a link" at the start of the list). *)
Fixpoint well_nested (b : bool) (evs : list ev) : bool :=
  match evs with
  | [] => true
  | StartLink _ :: r => negb b && well_nested true r
  | EndLink :: r => b && well_nested false r
  | _ :: r => well_nested b r
  end.

(** position-wise: is the loop's [in_link] true when it looks at event number [i]? *)
Fixpoint in_link_at (b : bool) (evs : list ev) (i : nat) : bool :=
  match evs, i with
  | [], _ => b
  | _ :: _, O => b
  | StartLink _ :: r, S j => in_link_at true r j
  | EndLink :: r, S j => in_link_at false r j
  | _ :: r, S j => in_link_at b r j
  end.

(** true nesting depth of links in front of event number [i] (a counter, unlike the loop's boolean) *)
Fixpoint depth_at (d : nat) (evs : list ev) (i : nat) : nat :=
  match evs, i with
  | [], _ => d
  | _ :: _, O => d
  | StartLink _ :: r, S j => depth_at (S d) r j
  | EndLink :: r, S j => depth_at (pred d) r j
  | _ :: r, S j => depth_at d r j
  end.

(** every End(Link) closes a Start(Link) and all are closed at the end (nesting allowed) *)
Fixpoint balanced (d : nat) (evs : list ev) : bool :=
  match evs with
  | [] => Nat.eqb d 0
  | StartLink _ :: r => balanced (S d) r
  | EndLink :: r => match d with O => false | S d' => balanced d' r end
  | _ :: r => balanced d r
  end.
