(** Proofs about WB.Core.CLayout: the C representation the C backend declares has the canonical-ABI layout. *)
From Coq Require Import List NArith ZArith Bool Lia.
From WB Require Import Wit.Ty Canon.Spec Core.CLayout.
Import ListNotations.
Local Open Scope N_scope.

Ltac Zify.zify_post_hook ::= Z.div_mod_to_equations.

Definition pow2set (a : N) : Prop := a = 1 \/ a = 2 \/ a = 4 \/ a = 8.

Lemma pow2set_max : forall a b, pow2set a -> pow2set b -> pow2set (N.max a b).
Proof. unfold pow2set; intros a b [|[|[|]]] [|[|[|]]]; subst; vm_compute; tauto. Qed.

Lemma fold_max_pow2 : forall l a, pow2set a -> Forall pow2set l -> pow2set (fold_left N.max l a).
Proof.
  induction l as [|x l IH]; intros a Ha Hl; cbn; auto.
  inversion Hl; subst. apply IH; auto using pow2set_max.
Qed.

Lemma disc_size_cases : forall n, disc_size n = 1 \/ disc_size n = 2 \/ disc_size n = 4.
Proof. intro n; unfold disc_size; destruct (n <=? 256); auto; destruct (n <=? 65536); auto. Qed.

Lemma disc_size_pow2 : forall n, pow2set (disc_size n).
Proof. intro n; unfold pow2set; destruct (disc_size_cases n) as [|[|]]; auto. Qed.

Lemma flags_align_pow2 : forall n, pow2set (flags_align n).
Proof.
  intro n; unfold pow2set, flags_align.
  destruct (n =? 0); auto. destruct (n <=? 8); auto. destruct (n <=? 16); auto.
Qed.

Lemma omap_pow2 : forall pw (o : option ty),
  OptP (fun t => pow2set (alignment pw t)) o -> pow2set (omap (alignment pw) 1 o).
Proof. intros pw [t|] H; cbn in *; auto. left; reflexivity. Qed.

Lemma alignment_pow2 : forall pw t, pw = 4 \/ pw = 8 -> pow2set (alignment pw t).
Proof.
  intros pw t Hpw.
  assert (P1 : pow2set 1) by (left; reflexivity).
  assert (Ppw : pow2set pw) by (destruct Hpw; subst; unfold pow2set; auto).
  induction t using ty_ind'; cbn [alignment]; auto;
    try (unfold pow2set; tauto).
  - (* record *) apply fold_max_pow2; auto. rewrite Forall_map; auto.
  - (* tuple *) apply fold_max_pow2; auto. rewrite Forall_map; auto.
  - (* variant *) apply pow2set_max; [apply disc_size_pow2|].
    apply fold_max_pow2; auto. rewrite Forall_map.
    eapply Forall_impl; [|exact H]. intros o Ho; apply omap_pow2; exact Ho.
  - apply disc_size_pow2.
  - apply pow2set_max; auto.
  - apply pow2set_max; auto. apply pow2set_max; apply omap_pow2; auto.
  - apply flags_align_pow2.
Qed.

Lemma max_case_alignment_pow2 : forall pw cs, pw = 4 \/ pw = 8 -> pow2set (max_case_alignment pw cs).
Proof.
  intros pw cs Hpw. unfold max_case_alignment. apply fold_max_pow2; [left; reflexivity|].
  rewrite Forall_map. apply Forall_forall. intros [t|] _; cbn; [apply alignment_pow2; auto|left; reflexivity].
Qed.

(** * fold helpers *)
Lemma fold_left_max_ge : forall l a, a <= fold_left N.max l a.
Proof. induction l as [|x l IH]; intro a; cbn; [lia|]. specialize (IH (N.max a x)). lia. Qed.

Lemma fold_left_ext_in {A B} : forall (f g : A -> B -> A) (l : list B) (a : A),
  (forall a x, In x l -> f a x = g a x) -> fold_left f l a = fold_left g l a.
Proof.
  induction l as [|x l IH]; intros a H; cbn; auto.
  rewrite H by (left; reflexivity). apply IH. intros; apply H; right; auto.
Qed.

(** The property proved by induction. *)
Definition layout_ok (pw : N) (t : ty) : Prop :=
  c_supported t = true ->
  c_align pw (c_repr t) = alignment pw t /\ c_size pw (c_repr t) = elem_size pw t.

Lemma payload_aligns : forall pw cs a, 1 <= a ->
  Forall (OptP (layout_ok pw)) cs ->
  forallb (fun o => match o with Some t => c_supported t | None => true end) cs = true ->
  fold_left N.max (map (c_align pw) (payloads c_repr cs)) a
  = fold_left N.max (map (omap (alignment pw) 1) cs) a.
Proof.
  induction cs as [|[t|] cs IH]; intros a Ha HF Hs; cbn in *; auto.
  - inversion HF; subst. apply andb_true_iff in Hs as [Hs1 Hs2].
    destruct (H1 Hs1) as [E _]. rewrite E. apply IH; auto. lia.
  - inversion HF; subst. replace (N.max a 1) with a by lia. apply IH; auto.
Qed.

Lemma payload_sizes : forall pw cs a,
  Forall (OptP (layout_ok pw)) cs ->
  forallb (fun o => match o with Some t => c_supported t | None => true end) cs = true ->
  fold_left N.max (map (c_size pw) (payloads c_repr cs)) a
  = fold_left N.max (map (omap (elem_size pw) 0) cs) a.
Proof.
  induction cs as [|[t|] cs IH]; intros a HF Hs; cbn in *; auto.
  - inversion HF; subst. apply andb_true_iff in Hs as [Hs1 Hs2].
    destruct (H1 Hs1) as [_ E]. rewrite E. apply IH; auto.
  - inversion HF; subst. replace (N.max a 0) with a by lia. apply IH; auto.
Qed.

(** Arithmetic core: a struct { tag; union val } has the canonical variant layout. *)
Lemma tagged_arith : forall ds A S,
  (ds = 1 \/ ds = 2 \/ ds = 4) -> pow2set A ->
  align_to (align_to (align_to 0 ds + ds) A + align_to S A) (N.max (N.max 1 ds) A)
  = align_to (align_to ds A + S) (N.max ds A).
Proof.
  intros ds A S Hd HA. unfold align_to.
  destruct Hd as [|[|]]; destruct HA as [|[|[|]]]; subst;
    repeat match goal with
           | |- context [N.max ?a ?b] => let v := eval vm_compute in (N.max a b) in change (N.max a b) with v
           end; lia.
Qed.

Lemma tagged_layout : forall pw ds ps,
  (ds = 1 \/ ds = 2 \/ ds = 4) ->
  pow2set (fold_left N.max (map (c_align pw) ps) 1) ->
  let A := fold_left N.max (map (c_align pw) ps) 1 in
  let S := fold_left N.max (map (c_size pw) ps) 0 in
  (ps = [] -> S = 0) ->
  c_align pw (c_tagged ds ps) = N.max ds A /\
  c_size pw (c_tagged ds ps) = align_to (align_to ds A + S) (N.max ds A).
Proof.
  intros pw ds ps Hd HA A S Hnil.
  destruct ps as [|p ps].
  - subst A S. cbn. split; [lia|].
    destruct Hd as [|[|]]; subst; vm_compute; reflexivity.
  - assert (EA : c_align pw (CUnion (p :: ps)) = A) by reflexivity.
    assert (ES : c_size pw (CUnion (p :: ps)) = align_to S A) by reflexivity.
    unfold c_tagged. split.
    + change (c_align pw (CStruct [CInt ds; CUnion (p :: ps)]))
        with (N.max (N.max 1 ds) (c_align pw (CUnion (p :: ps)))).
      rewrite EA. destruct Hd as [|[|]]; subst ds; lia.
    + change (c_size pw (CStruct [CInt ds; CUnion (p :: ps)]))
        with (align_to (align_to (align_to 0 ds + ds) (c_align pw (CUnion (p :: ps))) + c_size pw (CUnion (p :: ps)))
                       (N.max (N.max 1 ds) (c_align pw (CUnion (p :: ps))))).
      rewrite EA, ES. apply tagged_arith; assumption.
Qed.

Lemma payloads_nil_sizes : forall pw cs,
  payloads c_repr cs = [] -> fold_left N.max (map (c_size pw) (payloads c_repr cs)) 0 = 0.
Proof. intros pw cs E; rewrite E; reflexivity. Qed.

Lemma variant_layout : forall pw ds cs, pw = 4 \/ pw = 8 ->
  (ds = 1 \/ ds = 2 \/ ds = 4) ->
  Forall (OptP (layout_ok pw)) cs ->
  forallb (fun o => match o with Some t => c_supported t | None => true end) cs = true ->
  c_align pw (c_tagged ds (payloads c_repr cs)) = N.max ds (max_case_alignment pw cs) /\
  c_size pw (c_tagged ds (payloads c_repr cs))
  = align_to (align_to ds (max_case_alignment pw cs) + fold_left N.max (map (omap (elem_size pw) 0) cs) 0)
             (N.max ds (max_case_alignment pw cs)).
Proof.
  intros pw ds cs Hpw Hd HF Hs.
  pose proof (payload_aligns pw cs 1 ltac:(lia) HF Hs) as EA.
  pose proof (payload_sizes pw cs 0 HF Hs) as ES.
  pose proof (tagged_layout pw ds (payloads c_repr cs) Hd) as T.
  rewrite EA in T. fold (max_case_alignment pw cs) in T.
  specialize (T (max_case_alignment_pow2 pw cs Hpw)). cbv zeta in T.
  rewrite ES in T. apply T. intro E. rewrite <- ES, E. reflexivity.
Qed.

Lemma record_layout : forall pw fs,
  Forall (layout_ok pw) fs -> forallb c_supported fs = true ->
  map (c_align pw) (map c_repr fs) = map (alignment pw) fs /\
  forall s, fold_left (fun s m => align_to s (c_align pw m) + c_size pw m) (map c_repr fs) s
          = fold_left (fun s f => align_to s (alignment pw f) + elem_size pw f) fs s.
Proof.
  induction fs as [|f fs IH]; intros HF Hs; cbn in *; auto.
  inversion HF; subst. apply andb_true_iff in Hs as [Hs1 Hs2].
  destruct (H1 Hs1) as [EA ES]. destruct (IH H2 Hs2) as [IA IS].
  split; [rewrite EA, IA; reflexivity|]. intro s. rewrite EA, ES. apply IS.
Qed.

Lemma flags_layout : forall n, 0 < n -> n <= 32 ->
  c_flags_bytes n = flags_align n /\ c_flags_bytes n = flags_size n.
Proof.
  intros n H0 H32. unfold c_flags_bytes, flags_align, flags_size.
  destruct (N.eqb_spec n 0); [lia|].
  destruct (N.leb_spec n 8); auto. destruct (N.leb_spec n 16); auto.
  destruct (N.leb_spec n 32); [|lia]. split; auto.
  assert ((n + 31) / 32 = 1) by lia. lia.
Qed.

Theorem c_layout_is_canonical : forall pw t, pw = 4 \/ pw = 8 -> layout_ok pw t.
Proof.
  intros pw t Hpw. unfold layout_ok.
  induction t using ty_ind'; intro Hs; cbn [c_supported] in Hs; try discriminate Hs.
  (* scalars: bool u8 s8 u16 s16 u32 s32 u64 s64 f32 f64 char *)
  1-12: (split; reflexivity).
  (* string, list, map: { pointer; size_t } *)
  1-3: (destruct Hpw; subst pw; split; vm_compute; reflexivity).
  - (* record *)
    destruct (record_layout pw fs H Hs) as [EA ES].
    cbn [c_repr c_align c_size alignment elem_size]. rewrite EA. split; [reflexivity|]. rewrite ES. reflexivity.
  - (* tuple *)
    destruct (record_layout pw ts H Hs) as [EA ES].
    cbn [c_repr c_align c_size alignment elem_size]. rewrite EA. split; [reflexivity|]. rewrite ES. reflexivity.
  - (* variant *)
    apply andb_true_iff in Hs as [_ Hs].
    destruct (variant_layout pw (disc_size (N.of_nat (length cs))) cs Hpw (disc_size_cases _) H Hs) as [EA ES].
    cbn [c_repr alignment elem_size]. split; [exact EA|exact ES].
  - (* enum *) cbn. split; reflexivity.
  - (* option *)
    destruct (IHt Hs) as [EA ES].
    cbn [c_repr c_align c_size alignment elem_size map fold_left].
    unfold cases_of_option, max_case_alignment. cbn [map fold_left omap].
    rewrite EA, ES. change (N.max 0 0) with 0. rewrite N.max_0_l.
    pose proof (alignment_pow2 pw t Hpw) as [E|[E|[E|E]]]; rewrite E; split; reflexivity.
  - (* result *)
    apply andb_true_iff in Hs as [Hs1 Hs2].
    assert (HF : Forall (OptP (layout_ok pw)) [ok; err]) by (repeat constructor; assumption).
    assert (HS : forallb (fun o => match o with Some t => c_supported t | None => true end) [ok; err] = true)
      by (cbn; rewrite Hs1, Hs2; reflexivity).
    destruct (variant_layout pw 1 [ok; err] Hpw ltac:(auto) HF HS) as [EA ES].
    cbn [c_repr alignment elem_size cases_of_result]. split; [|exact ES].
    rewrite EA. unfold max_case_alignment. cbn [map fold_left].
    assert (1 <= omap (alignment pw) 1 ok).
    { destruct ok; cbn; [|lia]. destruct (alignment_pow2 pw t Hpw) as [E|[E|[E|E]]]; rewrite E; lia. }
    lia.
  - (* flags *)
    apply andb_true_iff in Hs as [H0 H32]. apply N.ltb_lt in H0. apply N.leb_le in H32.
    destruct (flags_layout n H0 H32) as [EA ES]. cbn. rewrite <- EA. split; [reflexivity|exact ES].
  - (* own *) split; vm_compute; reflexivity.
  - (* borrow *) split; vm_compute; reflexivity.
  - (* future *) split; reflexivity.
  - (* stream *) split; reflexivity.
Qed.

(** Offsets of record fields. *)
Lemma c_offsets_from_canonical : forall pw fs s, pw = 4 \/ pw = 8 -> forallb c_supported fs = true ->
  c_offsets_from pw s (map c_repr fs) = map fst (field_offsets_from pw s fs).
Proof.
  induction fs as [|f fs IH]; intros s Hpw Hs; cbn in *; auto.
  apply andb_true_iff in Hs as [Hs1 Hs2].
  destruct (c_layout_is_canonical pw f Hpw Hs1) as [EA ES]. rewrite EA, ES. f_equal. apply IH; auto.
Qed.

Theorem c_field_offsets_are_canonical : forall pw fs, pw = 4 \/ pw = 8 -> forallb c_supported fs = true ->
  c_offsets pw (map c_repr fs) = map fst (field_offsets pw fs).
Proof. intros; apply c_offsets_from_canonical; auto. Qed.

(** Offset of the `val` union inside a variant/option/result struct = the canonical payload offset. *)
Theorem c_payload_offset_is_canonical : forall pw ds cs p ps, pw = 4 \/ pw = 8 ->
  forallb (fun o => match o with Some t => c_supported t | None => true end) cs = true ->
  payloads c_repr cs = p :: ps ->
  c_offsets pw [CInt ds; CUnion (p :: ps)] = [0; payload_offset pw ds cs].
Proof.
  intros pw ds cs p ps Hpw Hs E. unfold c_offsets, payload_offset. cbn [c_offsets_from c_size c_align].
  assert (HF : Forall (OptP (layout_ok pw)) cs).
  { apply Forall_forall. intros [t|] _; cbn; auto. apply c_layout_is_canonical; auto. }
  pose proof (payload_aligns pw cs 1 ltac:(lia) HF Hs) as EA. rewrite E in EA. rewrite EA.
  fold (max_case_alignment pw cs).
  assert (Z0 : align_to 0 ds = 0).
  { unfold align_to. destruct (N.eq_dec ds 0) as [->|Hd]; [reflexivity|].
    assert ((0 + ds - 1) / ds = 0) by (apply N.div_small; lia). lia. }
  rewrite !Z0. reflexivity.
Qed.

(** The C representation of flags with 33..64 members (uint64_t) does NOT have the canonical layout: the canonical
    ABI aligns them to 4.  (Such flags cannot occur in a component — wasmparser rejects them — so this is latent.) *)
Lemma wide_flags_layout_refuted : exists t, c_align 4 (c_repr t) <> alignment 4 t.
Proof. exists (TFlags 33). vm_compute. discriminate. Qed.

(** Non-vacuity. *)
Example c_layout_example :
  let t := TRecord [TU8; TList TString; TOption TU64; TVariant [None; Some TString; Some (TTuple [TU8; TF32])]; TFlags 17] in
  c_supported t = true /\ c_size 4 (c_repr t) = 48 /\ c_size 8 (c_repr t) = 72 /\ elem_size 8 t = 72
  /\ c_offsets 8 (map c_repr [TU8; TList TString; TOption TU64]) = [0; 8; 24].
Proof. vm_compute. repeat split; reflexivity. Qed.
