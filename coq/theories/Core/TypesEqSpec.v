(** C28 — the SPECIFICATION side, written without looking at how types.rs computes anything:
    - well-founded tables (a definition mentions smaller ids only; no [Unknown]);
    - structural equality = equality of the full expansions of two types ([expand]: aliases
      erased, type names dropped, field/case/flag names and their order kept, resources by
      identity);
    - content facts = structural predicates on the expansion;
    - usage facts = reachability from function parameters / results.
    Executable twins (used by the search leg on the REAL outputs) are defined next to each
    notion; TypesEqSpecProofs links them. *)
From Coq Require Import List String Bool Arith NArith.
From WB Require Import Core.TypesEq.
Import ListNotations.

(* ------------------------------------------------------------------------------------------ *)
(** * Well-founded tables *)

Definition ty_ids (t : ty) : list tid := match t with TId i => [i] | TPrim _ => [] end.
Definition kind_refs (k : kind) : list tid := flat_map ty_ids (kind_tys k).

Definition wf_def (i : tid) (d : tdef) : Prop :=
  tkind d <> KUnknown /\ Forall (fun j => j < i) (kind_refs (tkind d)).
Definition wf_table (T : table) : Prop := forall i d, lookup T i = Some d -> wf_def i d.

Definition is_unknown (k : kind) : bool := match k with KUnknown => true | _ => false end.
Definition wf_defb (i : tid) (d : tdef) : bool :=
  negb (is_unknown (tkind d)) && forallb (fun j => j <? i) (kind_refs (tkind d)).
Fixpoint wf_from (i : nat) (l : list tdef) : bool :=
  match l with [] => true | d :: r => wf_defb i d && wf_from (S i) r end.
Definition wf_tableb (T : table) : bool := wf_from 0 T.

(* ------------------------------------------------------------------------------------------ *)
(** * Expansion trees and structural equality *)

Inductive tree :=
| XPrim (p : prim)
| XRecord (fs : list (string * tree))
| XResource (i : tid)                        (* a resource is only itself *)
| XOwn (r : tree) | XBorrow (r : tree)
| XFlags (ns : list string)
| XTuple (ts : list tree)
| XVariant (cs : list (string * option tree))
| XEnum (ns : list string)
| XOption (t : tree)
| XResult (a b : option tree)
| XList (t : tree)
| XFixed (t : tree) (len : N)
| XMap (k v : tree)
| XFuture (o : option tree)
| XStream (o : option tree)
| XBad.                                      (* dangling id / Unknown / out of fuel: never on wf tables *)

(** one level of expansion: the node for a definition of kind [k] with id [i], given the
    expansion [ex] of the types it mentions *)
Definition knode (ex : ty -> tree) (i : tid) (k : kind) : tree :=
  match k with
  | KType t' => ex t'                               (* aliases are transparent *)
  | KRecord fs => XRecord (map (fun p => (fst p, ex (snd p))) fs)
  | KResource => XResource i
  | KOwn r => XOwn (ex (TId r))
  | KBorrow r => XBorrow (ex (TId r))
  | KFlags ns => XFlags ns
  | KTuple ts => XTuple (map ex ts)
  | KVariant cs => XVariant (map (fun p => (fst p, option_map ex (snd p))) cs)
  | KEnum ns => XEnum ns
  | KOption t' => XOption (ex t')
  | KResult a b => XResult (option_map ex a) (option_map ex b)
  | KList t' => XList (ex t')
  | KFixed t' n => XFixed (ex t') n
  | KMap k v => XMap (ex k) (ex v)
  | KFuture o => XFuture (option_map ex o)
  | KStream o => XStream (option_map ex o)
  | KUnknown => XBad
  end.

Fixpoint expand (T : table) (fuel : nat) (t : ty) : tree :=
  match t with
  | TPrim p => XPrim p
  | TId i =>
      match fuel with
      | O => XBad
      | S f => match lookup T i with
               | None => XBad
               | Some d => knode (expand T f) i (tkind d)
               end
      end
  end.

Definition tyw (t : ty) : nat := match t with TPrim _ => 0 | TId i => S i end.
Definition xp (T : table) (t : ty) : tree := expand T (tyw t) t.

(** THE definition of "structurally equal" *)
Definition struct_eq (T : table) (a b : tid) : Prop := xp T (TId a) = xp T (TId b).
Definition ty_eq (T : table) (a b : ty) : Prop := xp T a = xp T b.

(** decidable equality of trees, executable *)
Fixpoint list_eqb {A} (e : A -> A -> bool) (l1 l2 : list A) : bool :=
  match l1, l2 with
  | [], [] => true
  | x :: r1, y :: r2 => e x y && list_eqb e r1 r2
  | _, _ => false
  end.
Definition opt_eqb {A} (e : A -> A -> bool) (a b : option A) : bool :=
  match a, b with Some x, Some y => e x y | None, None => true | _, _ => false end.

Fixpoint tree_eqb (x y : tree) {struct x} : bool :=
  match x, y with
  | XPrim p, XPrim q => prim_eqb p q
  | XRecord f1, XRecord f2 =>
      (fix go (l1 : list (string * tree)) (l2 : list (string * tree)) : bool :=
         match l1, l2 with
         | [], [] => true
         | p :: r1, q :: r2 => String.eqb (fst p) (fst q) && tree_eqb (snd p) (snd q) && go r1 r2
         | _, _ => false
         end) f1 f2
  | XResource i, XResource j => i =? j
  | XOwn a, XOwn b => tree_eqb a b
  | XBorrow a, XBorrow b => tree_eqb a b
  | XFlags a, XFlags b => list_eqb String.eqb a b
  | XTuple t1, XTuple t2 =>
      (fix go (l1 l2 : list tree) : bool :=
         match l1, l2 with
         | [], [] => true
         | p :: r1, q :: r2 => tree_eqb p q && go r1 r2
         | _, _ => false
         end) t1 t2
  | XVariant c1, XVariant c2 =>
      (fix go (l1 : list (string * option tree)) (l2 : list (string * option tree)) : bool :=
         match l1, l2 with
         | [], [] => true
         | p :: r1, q :: r2 =>
             String.eqb (fst p) (fst q)
             && match snd p, snd q with
                | Some a, Some b => tree_eqb a b
                | None, None => true
                | _, _ => false
                end
             && go r1 r2
         | _, _ => false
         end) c1 c2
  | XEnum a, XEnum b => list_eqb String.eqb a b
  | XOption a, XOption b => tree_eqb a b
  | XResult a1 b1, XResult a2 b2 =>
      match a1, a2 with Some a, Some b => tree_eqb a b | None, None => true | _, _ => false end
      && match b1, b2 with Some a, Some b => tree_eqb a b | None, None => true | _, _ => false end
  | XList a, XList b => tree_eqb a b
  | XFixed a n, XFixed b m => tree_eqb a b && N.eqb n m
  | XMap k1 v1, XMap k2 v2 => tree_eqb k1 k2 && tree_eqb v1 v2
  | XFuture a1, XFuture a2 =>
      match a1, a2 with Some a, Some b => tree_eqb a b | None, None => true | _, _ => false end
  | XStream a1, XStream a2 =>
      match a1, a2 with Some a, Some b => tree_eqb a b | None, None => true | _, _ => false end
  | XBad, XBad => true
  | _, _ => false
  end.

Definition struct_eqb (T : table) (a b : tid) : bool := tree_eqb (xp T (TId a)) (xp T (TId b)).

(* ------------------------------------------------------------------------------------------ *)
(** * Content facts: predicates on the expansion.
    [x_anyb P x]: [P] holds of [x] or of a value component of [x], transitively.  The payload of a
    future/stream and the resource behind a handle are NOT value components (the value holds an
    index, not the payload). *)

Fixpoint x_anyb (P : tree -> bool) (x : tree) {struct x} : bool :=
  P x ||
  match x with
  | XRecord fs =>
      (fix go (l : list (string * tree)) : bool :=
         match l with [] => false | p :: r => x_anyb P (snd p) || go r end) fs
  | XTuple ts =>
      (fix go (l : list tree) : bool :=
         match l with [] => false | t :: r => x_anyb P t || go r end) ts
  | XVariant cs =>
      (fix go (l : list (string * option tree)) : bool :=
         match l with
         | [] => false
         | p :: r => match snd p with Some t => x_anyb P t | None => false end || go r
         end) cs
  | XOption t | XList t | XFixed t _ => x_anyb P t
  | XResult a b =>
      match a with Some t => x_anyb P t | None => false end
      || match b with Some t => x_anyb P t | None => false end
  | XMap k v => x_anyb P k || x_anyb P v
  | _ => false
  end.

Definition is_listlike (x : tree) : bool :=      (* string, list, map *)
  match x with XPrim PString | XList _ | XMap _ _ => true | _ => false end.
Definition is_tuple (x : tree) : bool := match x with XTuple _ => true | _ => false end.
Definition is_resourcelike (x : tree) : bool :=  (* resource, handle, future, stream, error-context *)
  match x with
  | XPrim PErrCtx | XResource _ | XOwn _ | XBorrow _ | XFuture _ | XStream _ => true
  | _ => false
  end.
Definition is_borrow (x : tree) : bool := match x with XBorrow _ => true | _ => false end.
Definition is_ownlike (x : tree) : bool :=       (* own handle; futures/streams are owned handles *)
  match x with XOwn _ | XFuture _ | XStream _ => true | _ => false end.

Definition spec_has_list (T : table) (i : tid) := x_anyb is_listlike (xp T (TId i)).
Definition spec_has_tuple (T : table) (i : tid) := x_anyb is_tuple (xp T (TId i)).
Definition spec_has_resource (T : table) (i : tid) := x_anyb is_resourcelike (xp T (TId i)).
Definition spec_has_borrow (T : table) (i : tid) := x_anyb is_borrow (xp T (TId i)).
Definition spec_has_own (T : table) (i : tid) := x_anyb is_ownlike (xp T (TId i)).

(* ------------------------------------------------------------------------------------------ *)
(** * Usage facts: reachability through definitions *)

Inductive reaches (T : table) : tid -> tid -> Prop :=
| reach_refl i : reaches T i i
| reach_step i d j k :
    lookup T i = Some d -> In j (kind_refs (tkind d)) -> reaches T j k -> reaches T i k.

Definition ty_reaches (T : table) (t : ty) (k : tid) : Prop :=
  exists i, t = TId i /\ reaches T i k.

Definition named (T : table) (i : tid) : Prop :=
  exists d, lookup T i = Some d /\ tnamed d = true.

(** used (transitively) in a parameter of an imported function — recorded for named types *)
Definition spec_borrowed (T : table) (ws : list world) (i : tid) : Prop :=
  named T i /\
  exists f p, In (true, f) (all_funcs ws) /\ In p (fparams f) /\ ty_reaches T p i.

(** used in a parameter or result of an export, or the result of an import *)
Definition spec_owned (T : table) (ws : list world) (i : tid) : Prop :=
  named T i /\
  exists imp f t, In (imp, f) (all_funcs ws) /\
                  ((imp = false /\ In t (fparams f)) \/ fresult f = Some t) /\ ty_reaches T t i.

(** follow `type a = b` links between ids down to the last id *)
Inductive chases (T : table) : tid -> tid -> Prop :=
| chase_stop i d : lookup T i = Some d -> (forall j, tkind d <> KType (TId j)) -> chases T i i
| chase_step i d j k : lookup T i = Some d -> tkind d = KType (TId j) -> chases T j k -> chases T i k.

(** the type is the error type of a function: the function's result type is, possibly through
    aliases / `use`, a [result<_, E>] and the type is the definition behind [E] *)
Definition spec_error (T : table) (ws : list world) (i : tid) : Prop :=
  exists imp f r0 rid d ok e0,
    In (imp, f) (all_funcs ws) /\ fresult f = Some (TId r0) /\ chases T r0 rid /\
    lookup T rid = Some d /\ tkind d = KResult ok (Some (TId e0)) /\ chases T e0 i.

(** what types.rs implements instead: the result type must be a [result] *directly* *)
Definition spec_error_direct (T : table) (ws : list world) (i : tid) : Prop :=
  exists imp f rid d ok e0,
    In (imp, f) (all_funcs ws) /\ fresult f = Some (TId rid) /\
    lookup T rid = Some d /\ tkind d = KResult ok (Some (TId e0)) /\ chases T e0 i.

(** the known class: some function returns an alias (a `use`d or `type x = y` name) of a result
    type with a named error type *)
Definition aliased_error_result (T : table) (ws : list world) : Prop :=
  exists imp f r0 d0 r1 rid d ok e0,
    In (imp, f) (all_funcs ws) /\ fresult f = Some (TId r0) /\
    lookup T r0 = Some d0 /\ tkind d0 = KType (TId r1) /\ chases T r1 rid /\
    lookup T rid = Some d /\ tkind d = KResult ok (Some (TId e0)).

(* ---- executable twins -------------------------------------------------------------------- *)

Fixpoint dedup (l : list tid) : list tid :=
  match l with [] => [] | x :: r => if mem x r then dedup r else x :: dedup r end.

(** descendant sets by dynamic programming over the table in id order (a definition mentions
    smaller ids only): [nth i (desc_table T) []] = the ids reachable from [i] *)
Definition desc_step (acc : list (list tid)) (i : tid) (d : tdef) : list tid :=
  i :: dedup (flat_map (fun j => nth j acc []) (kind_refs (tkind d))).
Fixpoint desc_aux (i : nat) (l : list tdef) (acc : list (list tid)) : list (list tid) :=
  match l with [] => acc | d :: r => desc_aux (S i) r (acc ++ [desc_step acc i d]) end.
Definition desc_table (T : table) : list (list tid) := desc_aux 0 T [].

Definition ty_reachesb (D : list (list tid)) (t : ty) (k : tid) : bool :=
  match t with TId i => mem k (nth i D []) | TPrim _ => false end.

Definition namedb (T : table) (i : tid) : bool :=
  match lookup T i with Some d => tnamed d | None => false end.

Definition spec_borrowedb (T : table) (D : list (list tid)) (fs : list (bool * func)) (i : tid) : bool :=
  namedb T i &&
  existsb (fun bf => fst bf && existsb (fun p => ty_reachesb D p i) (fparams (snd bf))) fs.

Definition spec_ownedb (T : table) (D : list (list tid)) (fs : list (bool * func)) (i : tid) : bool :=
  namedb T i &&
  existsb (fun bf =>
             (negb (fst bf) && existsb (fun p => ty_reachesb D p i) (fparams (snd bf)))
             || match fresult (snd bf) with Some t => ty_reachesb D t i | None => false end) fs.

Fixpoint chaseb (T : table) (fuel : nat) (i : tid) : option tid :=
  match fuel with
  | O => None
  | S f => match lookup T i with
           | None => None
           | Some d => match tkind d with KType (TId j) => chaseb T f j | _ => Some i end
           end
  end.

Definition error_via (T : table) (through_alias : bool) (f : func) (i : tid) : bool :=
  match fresult f with
  | Some (TId r0) =>
      match (if through_alias then chaseb T (S r0) r0 else Some r0) with
      | Some rid =>
          match lookup T rid with
          | Some d => match tkind d with
                      | KResult _ (Some (TId e0)) =>
                          match chaseb T (S e0) e0 with Some x => x =? i | None => false end
                      | _ => false
                      end
          | None => false
          end
      | None => false
      end
  | _ => false
  end.

Definition spec_errorb (T : table) (fs : list (bool * func)) (i : tid) : bool :=
  existsb (fun bf => error_via T true (snd bf) i) fs.
Definition spec_error_directb (T : table) (fs : list (bool * func)) (i : tid) : bool :=
  existsb (fun bf => error_via T false (snd bf) i) fs.

Definition aliased_error_resultb (T : table) (fs : list (bool * func)) : bool :=
  existsb (fun bf =>
             match fresult (snd bf) with
             | Some (TId r0) =>
                 match lookup T r0 with
                 | Some d0 =>
                     match tkind d0 with
                     | KType (TId r1) =>
                         match chaseb T (S r1) r1 with
                         | Some rid =>
                             match lookup T rid with
                             | Some d => match tkind d with
                                         | KResult _ (Some (TId _)) => true
                                         | _ => false
                                         end
                             | None => false
                             end
                         | None => false
                         end
                     | _ => false
                     end
                 | None => false
                 end
             | _ => false
             end) fs.

(** all eight facts of one type, as the specification has them ([direct] selects
    [spec_error_direct] for the error flag — the restriction types.rs implements) *)
Definition spec_info (T : table) (D : list (list tid)) (fs : list (bool * func)) (direct : bool)
           (i : tid) : info :=
  let x := xp T (TId i) in
  {| borrowed := spec_borrowedb T D fs i;
     owned := spec_ownedb T D fs i;
     error := if direct then spec_error_directb T fs i else spec_errorb T fs i;
     has_list := x_anyb is_listlike x;
     has_tuple := x_anyb is_tuple x;
     has_resource := x_anyb is_resourcelike x;
     has_borrow_handle := x_anyb is_borrow x;
     has_own_handle := x_anyb is_ownlike x |}.

(* ------------------------------------------------------------------------------------------ *)
(** * The property's statement as executable checks on OBSERVED answers (search leg).
    [rep] = the representatives the real code returned, [xs] = the expansions of all ids. *)

Definition expansions (T : table) : list tree := map (fun i => xp T (TId i)) (seq 0 (List.length T)).
Definition seqb (xs : list tree) (a b : tid) : bool := tree_eqb (nth a xs XBad) (nth b xs XBad).
Definition repf (reps : list tid) (i : tid) : tid := nth i reps i.

(** soundness: same representative ⇒ structurally equal (pairs a < b over all ids) *)
Definition check_sound (xs : list tree) (reps : list tid) : list (tid * tid) :=
  let ids := seq 0 (List.length xs) in
  flat_map (fun a => flat_map (fun b =>
     if (a <? b) && (repf reps a =? repf reps b) && negb (seqb xs a b) then [(a, b)] else []) ids) ids.

(** completeness on the live types (may_alias ≡ true): structurally equal ⇒ same representative *)
Definition check_complete (xs : list tree) (live : list tid) (reps : list tid) : list (tid * tid) :=
  flat_map (fun a => flat_map (fun b =>
     if (a <? b) && seqb xs a b && negb (repf reps a =? repf reps b) then [(a, b)] else []) live) live.

(** every aliasable live type is in the class of the first earlier structurally equal live type *)
Fixpoint check_first (xs : list tree) (may : tid -> bool) (reps : list tid) (done todo : list tid)
  : list (tid * tid) :=
  match todo with
  | [] => []
  | t :: rest =>
      (if may t then
         match find (fun e => seqb xs t e) done with
         | Some e0 => if repf reps t =? repf reps e0 then [] else [(t, e0)]
         | None => []
         end
       else [])
      ++ check_first xs may reps (done ++ [t]) rest
  end.

(** equal types share the union: the merged info of [i] is the OR of the pre-merge infos of its class *)
Definition info_eqb (a b : info) : bool :=
  Bool.eqb (borrowed a) (borrowed b) && Bool.eqb (owned a) (owned b) && Bool.eqb (error a) (error b)
  && Bool.eqb (has_list a) (has_list b) && Bool.eqb (has_tuple a) (has_tuple b)
  && Bool.eqb (has_resource a) (has_resource b)
  && Bool.eqb (has_borrow_handle a) (has_borrow_handle b)
  && Bool.eqb (has_own_handle a) (has_own_handle b).

Definition class_union (reps : list tid) (i0 : list info) (i : tid) : info :=
  fold_left (fun acc j => if repf reps j =? repf reps i then info_or acc (nth j i0 info0) else acc)
            (seq 0 (List.length i0)) info0.

Definition check_merge (reps : list tid) (i0 i1 : list info) : list tid :=
  filter (fun i => negb (info_eqb (nth i i1 info0) (class_union reps i0 i))) (seq 0 (List.length i0)).

(** the live list is a post-order: everything a live type mentions occurs earlier *)
Fixpoint check_postorder (T : table) (done todo : list tid) : list tid :=
  match todo with
  | [] => []
  | t :: rest =>
      (match lookup T t with
       | Some d => if forallb (fun j => mem j done) (kind_refs (tkind d)) then [] else [t]
       | None => [t]
       end) ++ check_postorder T (done ++ [t]) rest
  end.
