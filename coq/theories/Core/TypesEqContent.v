(** Content facts: the memoised [type_id_info] computes, for every type, exactly the predicates
    of the specification on its expansion ([x_anyb] of list-like / tuple / resource-like /
    borrow / own-like nodes), with the three usage flags false; it never fails on a well-founded
    table and its memo table only ever holds correct entries. *)
From Coq Require Import List String Bool Arith NArith Lia.
From WB Require Import Core.TypesEq Core.TypesEqSpec Core.TypesEqWf Core.TypesEqEq.
Import ListNotations.

(** the content facts of a tree, as the specification defines them *)
Definition x_info (x : tree) : info :=
  Build_info false false false (x_anyb is_listlike x) (x_anyb is_tuple x) (x_anyb is_resourcelike x)
             (x_anyb is_borrow x) (x_anyb is_ownlike x).
Definition cinfo_ty (T : table) (t : ty) : info := x_info (xp T t).
Definition cinfo (T : table) (i : tid) : info := cinfo_ty T (TId i).
Definition ocinfo (T : table) (o : option ty) : info :=
  match o with Some t => cinfo_ty T t | None => info0 end.
Definition ox_info (o : option tree) : info := match o with Some t => x_info t | None => info0 end.
Definition ors (l : list info) : info := fold_left info_or l info0.

Lemma info_ext a b :
  borrowed a = borrowed b -> owned a = owned b -> error a = error b -> has_list a = has_list b ->
  has_tuple a = has_tuple b -> has_resource a = has_resource b ->
  has_borrow_handle a = has_borrow_handle b -> has_own_handle a = has_own_handle b -> a = b.
Proof. destruct a, b; cbn; intros; subst; reflexivity. Qed.

Lemma fold_or_fld (fld : info -> bool) :
  (forall a b, fld (info_or a b) = fld a || fld b) ->
  forall l acc, fld (fold_left info_or l acc) = fld acc || existsb fld l.
Proof.
  intros H. induction l as [|x l IH]; intros acc; cbn [fold_left existsb].
  - rewrite orb_false_r. auto.
  - rewrite IH, H, orb_assoc. auto.
Qed.

Lemma existsb_map {A B} (f : B -> bool) (g : A -> B) l : existsb f (map g l) = existsb (fun x => f (g x)) l.
Proof. induction l; cbn; auto. rewrite IHl. auto. Qed.

Lemma existsb_ext' {A} (f g : A -> bool) l : (forall x, f x = g x) -> existsb f l = existsb g l.
Proof. intros H. induction l; cbn; auto. rewrite H, IHl. auto. Qed.

Lemma existsb_false {A} (l : list A) : existsb (fun _ => false) l = false.
Proof. induction l; cbn; auto. Qed.

Lemma x_anyb_record P fs :
  x_anyb P (XRecord fs) = P (XRecord fs) || existsb (fun p => x_anyb P (snd p)) fs.
Proof. reflexivity. Qed.

Lemma x_anyb_tuple P ts : x_anyb P (XTuple ts) = P (XTuple ts) || existsb (x_anyb P) ts.
Proof. reflexivity. Qed.

Lemma x_anyb_variant P cs :
  x_anyb P (XVariant cs) =
  P (XVariant cs) || existsb (fun p => match snd p with Some t => x_anyb P t | None => false end) cs.
Proof. reflexivity. Qed.

Ltac fld_hom := intros [] []; reflexivity.

Lemma ors_fields l :
  ors l = Build_info (existsb borrowed l) (existsb owned l) (existsb error l) (existsb has_list l)
                     (existsb has_tuple l) (existsb has_resource l) (existsb has_borrow_handle l)
                     (existsb has_own_handle l).
Proof.
  unfold ors. apply info_ext; cbn [borrowed owned error has_list has_tuple has_resource has_borrow_handle has_own_handle];
    rewrite fold_or_fld by fld_hom; reflexivity.
Qed.

Lemma x_info_record fs : x_info (XRecord fs) = ors (map (fun p => x_info (snd p)) fs).
Proof.
  rewrite ors_fields. unfold x_info at 1. rewrite !existsb_map. cbn [x_info borrowed owned error has_list has_tuple has_resource has_borrow_handle has_own_handle].
  rewrite !existsb_false, !x_anyb_record. reflexivity.
Qed.

Lemma x_info_tuple ts : x_info (XTuple ts) = set_has_tuple (ors (map x_info ts)).
Proof.
  rewrite ors_fields. unfold x_info at 1. rewrite !existsb_map. cbn [x_info borrowed owned error has_list has_tuple has_resource has_borrow_handle has_own_handle].
  rewrite !existsb_false, !x_anyb_tuple. reflexivity.
Qed.

Lemma x_info_variant cs : x_info (XVariant cs) = ors (map (fun p => ox_info (snd p)) cs).
Proof.
  rewrite ors_fields. unfold x_info at 1. rewrite !existsb_map, !x_anyb_variant.
  apply info_ext; cbn [borrowed owned error has_list has_tuple has_resource has_borrow_handle has_own_handle
                       is_listlike is_tuple is_resourcelike is_borrow is_ownlike orb].
  1-3: symmetry; rewrite <- (existsb_false cs); apply existsb_ext'; intros p; destruct (snd p); reflexivity.
  all: apply existsb_ext'; intros p; destruct (snd p); reflexivity.
Qed.

(** what [type_id_info] should compute from the infos of the mentioned types *)
Definition kinfo_pure (T : table) (k : kind) : info :=
  match k with
  | KRecord fs => ors (map (fun p => cinfo_ty T (snd p)) fs)
  | KResource => set_has_resource info0
  | KBorrow _ => set_has_resource (set_has_borrow info0)
  | KOwn _ => set_has_resource (set_has_own info0)
  | KTuple ts => set_has_tuple (ors (map (cinfo_ty T) ts))
  | KFlags _ | KEnum _ => info0
  | KVariant cs => ors (map (fun p => ocinfo T (snd p)) cs)
  | KList t => set_has_list (cinfo_ty T t)
  | KType t | KOption t | KFixed t _ => cinfo_ty T t
  | KResult a b => info_or (ocinfo T a) (ocinfo T b)
  | KFuture _ | KStream _ => set_has_own (set_has_resource info0)
  | KMap k v => set_has_list (info_or (cinfo_ty T k) (cinfo_ty T v))
  | KUnknown => info0
  end.

Lemma info_or_0_l x : info_or info0 x = x.
Proof. destruct x; reflexivity. Qed.

Ltac kcase :=
  unfold ocinfo, cinfo_ty, x_info, set_has_list, set_has_tuple, info_or, info0; apply info_ext;
  cbn [option_map x_anyb is_listlike is_tuple is_resourcelike is_borrow is_ownlike orb
       borrowed owned error has_list has_tuple has_resource has_borrow_handle has_own_handle];
  rewrite ?orb_false_r; reflexivity.

Lemma x_info_knode T i k : x_info (knode (xp T) i k) = kinfo_pure T k.
Proof.
  destruct k; cbn [knode kinfo_pure]; try reflexivity.
  - rewrite x_info_record, map_map. reflexivity.
  - rewrite x_info_tuple, map_map. reflexivity.
  - rewrite x_info_variant, map_map. f_equal. apply map_ext. intros p. cbn [snd]. destruct (snd p); reflexivity.
  - destruct ok, err; try reflexivity; kcase.
Qed.

Lemma cinfo_unfold T i d : wf_table T -> lookup T i = Some d -> cinfo T i = kinfo_pure T (tkind d).
Proof. intros W L. unfold cinfo, cinfo_ty. rewrite (xp_unfold T i d W L). apply x_info_knode. Qed.

(* ------------------------------------------------------------------------------------------ *)
(** * The memoised computation *)

Definition memo_ok (T : table) (m : imap) : Prop := forall j v, im_get m j = Some v -> v = cinfo T j.

(** [m'] extends [m] with correct entries for ids below [n] only *)
Definition Step (T : table) (n : nat) (m m' : imap) : Prop :=
  memo_ok T m' /\ (forall j v, im_get m j = Some v -> im_get m' j = Some v) /\
  (forall j, im_get m' j <> None -> im_get m j <> None \/ j < n).

Lemma Step_refl T n m : memo_ok T m -> Step T n m m.
Proof. intros H. split; [exact H|]. split; [auto|]. intros j Hj. left. exact Hj. Qed.
Lemma Step_trans T n m1 m2 m3 : Step T n m1 m2 -> Step T n m2 m3 -> Step T n m1 m3.
Proof.
  intros (A1 & B1 & C1) (A2 & B2 & C2). split; auto. split; auto.
  intros j H. destruct (C2 j H) as [H2|H2]; auto.
Qed.
Lemma Step_weaken T n n' m m' : n <= n' -> Step T n m m' -> Step T n' m m'.
Proof. intros L (A & B & C). split; auto. split; auto. intros j H. destruct (C j H); auto. right. lia. Qed.

Definition tinfo_ (T : table) (f : nat) (t : ty) (m : imap) : res (info * imap) :=
  match t with
  | TPrim PString => ROk (set_has_list info0, m)
  | TPrim PErrCtx => ROk (set_has_resource info0, m)
  | TPrim _ => ROk (info0, m)
  | TId j => type_id_info T f m j
  end.
Definition oinfo_ (T : table) (f : nat) (o : option ty) (m : imap) : res (info * imap) :=
  match o with Some t => tinfo_ T f t m | None => ROk (info0, m) end.

Definition kind_info (T : table) (f : nat) (k : kind) (m : imap) : res (info * imap) :=
  match k with
  | KRecord fs => or_infos (fun p => tinfo_ T f (snd p)) fs info0 m
  | KResource => ROk (set_has_resource info0, m)
  | KBorrow _ => ROk (set_has_resource (set_has_borrow info0), m)
  | KOwn _ => ROk (set_has_resource (set_has_own info0), m)
  | KTuple ts => '(x, m') <- or_infos (tinfo_ T f) ts info0 m ;; ROk (set_has_tuple x, m')
  | KFlags _ | KEnum _ => ROk (info0, m)
  | KVariant cs => or_infos (fun p => oinfo_ T f (snd p)) cs info0 m
  | KList t => '(x, m') <- tinfo_ T f t m ;; ROk (set_has_list x, m')
  | KType t | KOption t | KFixed t _ => tinfo_ T f t m
  | KResult a b =>
      '(x, m1) <- oinfo_ T f a m ;; '(y, m2) <- oinfo_ T f b m1 ;; ROk (info_or x y, m2)
  | KFuture _ | KStream _ => ROk (set_has_own (set_has_resource info0), m)
  | KMap k v =>
      '(x, m1) <- tinfo_ T f k m ;; '(y, m2) <- tinfo_ T f v m1 ;; ROk (set_has_list (info_or x y), m2)
  | KUnknown => RErr EUnreachable
  end.

Lemma type_id_info_S T f m i :
  type_id_info T (S f) m i =
  match im_get m i with
  | Some inf => ROk (inf, m)
  | None =>
      k <- lookup_kind T i ;;
      '(inf, m') <- kind_info T f k m ;;
      match im_get m' i with
      | Some _ => RErr EAssert
      | None => ROk (inf, (i, inf) :: m')
      end
  end.
Proof. reflexivity. Qed.

Section Memo.
  Variable T : table.
  Hypothesis W : wf_table T.

  (** the induction hypothesis packaged: calls with fuel [f] are correct for ids below [f] *)
  Definition rec_ok (f : nat) : Prop :=
    forall i m, i < f -> has T i -> memo_ok T m ->
      exists m', type_id_info T f m i = ROk (cinfo T i, m') /\ Step T (S i) m m' /\ im_get m' i = Some (cinfo T i).

  Lemma tinfo_ok f n t m : rec_ok f -> ty_ok T t -> tyw t <= n -> n <= f -> memo_ok T m ->
    exists m', tinfo_ T f t m = ROk (cinfo_ty T t, m') /\ Step T n m m'.
  Proof.
    intros R Ht Hn Hf M. destruct t as [p|j]; cbn [tinfo_].
    - exists m. split; [|apply Step_refl; auto]. destruct p; reflexivity.
    - cbn in Hn. destruct (R j m) as (m' & E & S & _); auto; try lia.
      exists m'. split; auto. eapply Step_weaken; [|exact S]. lia.
  Qed.

  Lemma oinfo_ok f n o m : rec_ok f -> (forall t, o = Some t -> ty_ok T t /\ tyw t <= n) -> n <= f -> memo_ok T m ->
    exists m', oinfo_ T f o m = ROk (ocinfo T o, m') /\ Step T n m m'.
  Proof.
    intros R Ho Hf M. destruct o as [t|]; cbn [oinfo_ ocinfo].
    - destruct (Ho t eq_refl). apply tinfo_ok; auto.
    - exists m. split; auto. apply Step_refl; auto.
  Qed.

  Lemma or_infos_ok {A} n (g : A -> imap -> res (info * imap)) (c : A -> info) l :
    (forall x, In x l -> forall m, memo_ok T m -> exists m', g x m = ROk (c x, m') /\ Step T n m m') ->
    forall acc m, memo_ok T m ->
      exists m', or_infos g l acc m = ROk (fold_left info_or (map c l) acc, m') /\ Step T n m m'.
  Proof.
    induction l as [|x l IH]; intros H acc m M; cbn [or_infos map fold_left].
    - exists m. split; auto. apply Step_refl; auto.
    - destruct (H x (or_introl eq_refl) m M) as (m1 & E1 & S1). rewrite E1. cbn [bind].
      destruct (IH (fun y Hy => H y (or_intror Hy)) (info_or acc (c x)) m1 (proj1 S1)) as (m2 & E2 & S2).
      exists m2. split; auto. eapply Step_trans; eauto.
  Qed.

  Lemma kind_info_ok f i d m : rec_ok f -> i <= f -> lookup T i = Some d -> memo_ok T m ->
    exists m', kind_info T f (tkind d) m = ROk (kinfo_pure T (tkind d), m') /\ Step T i m m'.
  Proof.
    intros R Hf L M.
    assert (C : forall c, In c (kind_tys (tkind d)) -> ty_ok T c /\ tyw c <= i).
    { intros c Hc. split; [apply (wf_child_ok T i d c); auto | apply (wf_child_tyw T i d c); auto]. }
    destruct (W i d L) as [U _].
    assert (ID : forall x : info, exists m', @ROk (info * imap) (x, m) = ROk (x, m') /\ Step T i m m').
    { intros x. exists m. split; auto. apply Step_refl; auto. }
    destruct (tkind d) as [fs| |h|h|ns|ts|cs|ns|t|a b|t|t n|k v|o|o|t|] eqn:K; cbn [kind_info kinfo_pure]; try apply ID; try congruence.
    - apply (or_infos_ok i (fun p => tinfo_ T f (snd p)) (fun p => cinfo_ty T (snd p)) fs); auto.
      intros p Hp m0 M0. destruct (C (snd p)); [cbn; apply in_map; auto|]. apply tinfo_ok; auto.
    - destruct (or_infos_ok i (tinfo_ T f) (cinfo_ty T) ts) with (acc := info0) (m := m) as (m' & E & S); auto.
      { intros p Hp m0 M0. destruct (C p); [cbn; auto|]. apply tinfo_ok; auto. }
      rewrite E. cbn [bind]. exists m'. split; auto.
    - apply (or_infos_ok i (fun p => oinfo_ T f (snd p)) (fun p => ocinfo T (snd p)) cs); auto.
      intros p Hp m0 M0. apply oinfo_ok; auto. intros t Ht. apply C. cbn [kind_tys]. apply in_somes.
      rewrite <- Ht. apply in_map. auto.
    - destruct (C t); [cbn; auto|]. apply tinfo_ok; auto.
    - destruct (oinfo_ok f i a m) as (m1 & E1 & S1); auto.
      { intros t Ht. apply C. cbn [kind_tys]. apply in_somes. subst. cbn. auto. }
      rewrite E1. cbn [bind].
      destruct (oinfo_ok f i b m1) as (m2 & E2 & S2); auto; [|apply S1|].
      { intros t Ht. apply C. cbn [kind_tys]. apply in_somes. subst. cbn. auto. }
      rewrite E2. cbn [bind]. exists m2. split; auto. eapply Step_trans; eauto.
    - destruct (C t); [cbn; auto|]. destruct (tinfo_ok f i t m) as (m' & E & S); auto.
      rewrite E. cbn [bind]. exists m'. split; auto.
    - destruct (C t); [cbn; auto|]. apply tinfo_ok; auto.
    - destruct (C k); [cbn; auto|]. destruct (C v); [cbn; auto|].
      destruct (tinfo_ok f i k m) as (m1 & E1 & S1); auto. rewrite E1. cbn [bind].
      destruct (tinfo_ok f i v m1) as (m2 & E2 & S2); auto; [apply S1|].
      rewrite E2. cbn [bind]. exists m2. split; auto. eapply Step_trans; eauto.
    - destruct (C t); [cbn; auto|]. apply tinfo_ok; auto.
  Qed.

  Theorem type_id_info_ok : forall f, rec_ok f.
  Proof.
    induction f as [|f IH]; intros i m Hi [d L] M; [lia|].
    rewrite type_id_info_S. destruct (im_get m i) as [inf|] eqn:G.
    - exists m. rewrite (M i inf G). split; auto. split; [apply Step_refl; auto|]. rewrite G, (M i inf G). auto.
    - unfold lookup_kind. rewrite L. cbn [bind].
      destruct (kind_info_ok f i d m IH) as (m1 & E1 & S1); auto; [lia|].
      rewrite E1. cbn [bind]. destruct S1 as (M1 & X1 & D1).
      destruct (im_get m1 i) as [x|] eqn:G1.
      + exfalso. destruct (D1 i); [congruence | congruence | lia].
      + rewrite <- (cinfo_unfold T i d W L).
        eexists. split; [reflexivity|]. split; [|cbn [im_get]; rewrite Nat.eqb_refl; auto].
        split; [|split].
        * intros j v. cbn [im_get]. destruct (i =? j) eqn:Eij.
          -- apply Nat.eqb_eq in Eij. subst j. intros [= <-]. auto.
          -- apply M1.
        * intros j v Hj. cbn [im_get]. destruct (i =? j) eqn:Eij.
          -- apply Nat.eqb_eq in Eij. subst j. congruence.
          -- apply X1. auto.
        * intros j. cbn [im_get]. destruct (i =? j) eqn:Eij.
          -- apply Nat.eqb_eq in Eij. subst j. intros _. right. lia.
          -- intros Hj. destruct (D1 j Hj) as [H1|H1]; [left; exact H1 | right; lia].
  Qed.
End Memo.

(** first loop of [analyze]: afterwards every type has its content facts, nothing else *)
Definition all_content (T : table) (m : imap) : Prop :=
  memo_ok T m /\ (forall i, has T i -> im_get m i = Some (cinfo T i)) /\
  (forall i, im_get m i <> None -> has T i).

Lemma has_lt T i : has T i <-> i < List.length T.
Proof.
  unfold has, lookup. split.
  - intros [d H]. apply nth_error_Some. congruence.
  - intros H. destruct (nth_error T i) eqn:E; eauto. apply nth_error_None in E. lia.
Qed.

Lemma analyze_phase1_ok T : wf_table T ->
  exists m, fold_res (fun m i => '(_, m') <- type_id_info T (S i) m i ;; ROk m') (seq 0 (List.length T)) [] = ROk m
            /\ all_content T m.
Proof.
  intros W.
  assert (G : forall n k m, k + n = List.length T -> memo_ok T m ->
              (forall i, i < k -> im_get m i = Some (cinfo T i)) -> (forall i, im_get m i <> None -> i < k) ->
              exists m', fold_res (fun m i => '(_, m') <- type_id_info T (S i) m i ;; ROk m') (seq k n) m = ROk m'
                         /\ memo_ok T m' /\ (forall i, i < k + n -> im_get m' i = Some (cinfo T i))
                         /\ (forall i, im_get m' i <> None -> i < k + n)).
  { induction n as [|n IH]; intros k m Hk M A B; cbn [seq fold_res].
    - exists m. rewrite Nat.add_0_r. auto.
    - destruct (type_id_info_ok T W (S k) k m) as (m1 & E1 & (M1 & X1 & D1) & G1); auto.
      { apply has_lt. lia. }
      rewrite E1. cbn [bind].
      destruct (IH (S k) m1) as (m' & E & M' & A' & B'); auto; try lia.
      + intros i Hi. destruct (Nat.eq_dec i k) as [->|Ne]; auto. apply X1. apply A. lia.
      + intros i Hi. destruct (D1 i Hi) as [H|H]; [apply B in H; lia | lia].
      + exists m'. split; auto. split; auto. split.
        * intros i Hi. apply A'. lia.
        * intros i Hi. apply B' in Hi. lia. }
  destruct (G (List.length T) 0 []) as (m & E & M & A & B); auto.
  - intros j v H. discriminate.
  - intros i Hi. lia.
  - intros i H. cbn in H. congruence.
  - exists m. split; auto. split; auto. split.
    + intros i Hi. apply A. apply has_lt in Hi. lia.
    + intros i Hi. apply has_lt. apply B in Hi. lia.
Qed.

(* ------------------------------------------------------------------------------------------ *)
(** * The keys of the memo table stay pairwise distinct (it is a HashMap) *)

Lemma bind_ok {A B} (r : res A) (k : A -> res B) b : bind r k = ROk b -> exists a, r = ROk a /\ k a = ROk b.
Proof. destruct r; cbn; intros H; [eauto | discriminate]. Qed.

Definition keys (m : imap) : list tid := map fst m.

Lemma im_get_none_keys m i : im_get m i = None <-> ~ In i (keys m).
Proof.
  induction m as [|[k v] m IH]; cbn [im_get keys map fst In]; [tauto|].
  destruct (k =? i) eqn:E.
  - apply Nat.eqb_eq in E. split; [discriminate | intros H; exfalso; apply H; auto].
  - apply Nat.eqb_neq in E. unfold keys in IH. rewrite IH. tauto.
Qed.

Lemma keys_update m i f : keys (im_update m i f) = keys m.
Proof.
  unfold keys. induction m as [|[k v] m IH]; cbn [im_update map fst]; auto.
  destruct (k =? i); cbn [map fst]; congruence.
Qed.

Section Inv.
  Variable T : table.
  Variable Q : imap -> Prop.
  Hypothesis Qcons : forall m i inf, Q m -> im_get m i = None -> Q ((i, inf) :: m).

  Definition inv_at (f : nat) : Prop :=
    forall i m r m', Q m -> type_id_info T f m i = ROk (r, m') -> Q m'.

  Lemma tinfo_inv f : inv_at f -> forall t m r m', Q m -> tinfo_ T f t m = ROk (r, m') -> Q m'.
  Proof.
    intros I t m r m' H E. destruct t as [p|j]; cbn [tinfo_] in E.
    - destruct p; injection E as _ <-; auto.
    - eapply I; eauto.
  Qed.

  Lemma oinfo_inv f : inv_at f -> forall o m r m', Q m -> oinfo_ T f o m = ROk (r, m') -> Q m'.
  Proof.
    intros I o m r m' H E. destruct o; cbn [oinfo_] in E; [eapply tinfo_inv; eauto|]. injection E as _ <-. auto.
  Qed.

  Lemma or_infos_inv {A} (g : A -> imap -> res (info * imap)) :
    (forall x m r m', Q m -> g x m = ROk (r, m') -> Q m') ->
    forall l acc m r m', Q m -> or_infos g l acc m = ROk (r, m') -> Q m'.
  Proof.
    intros G. induction l as [|x l IH]; intros acc m r m' H E; cbn [or_infos] in E.
    - injection E as _ <-. auto.
    - apply bind_ok in E. destruct E as ([i m1] & E1 & E2). eapply IH; [|exact E2]. eapply G; eauto.
  Qed.

  Lemma kind_info_inv f : inv_at f -> forall k m r m', Q m -> kind_info T f k m = ROk (r, m') -> Q m'.
  Proof.
    intros I k m r m' H E.
    destruct k; cbn [kind_info] in E;
      try (injection E as _ <-; exact H); try discriminate;
      try (eapply tinfo_inv; eauto; fail).
    - eapply (or_infos_inv (fun p => tinfo_ T f (snd p))); [|exact H|exact E].
      intros x m0 r0 m0' H0 E0. eapply tinfo_inv; eauto.
    - apply bind_ok in E. destruct E as ([x m1] & E1 & E2). injection E2 as _ <-.
      eapply (or_infos_inv (tinfo_ T f)); [|exact H|exact E1]. intros. eapply tinfo_inv; eauto.
    - eapply (or_infos_inv (fun p => oinfo_ T f (snd p))); [|exact H|exact E].
      intros x m0 r0 m0' H0 E0. eapply oinfo_inv; eauto.
    - apply bind_ok in E. destruct E as ([x m1] & E1 & E2). apply bind_ok in E2. destruct E2 as ([y m2] & E2 & E3).
      injection E3 as _ <-. eapply oinfo_inv; [exact I| |exact E2]. eapply oinfo_inv; eauto.
    - apply bind_ok in E. destruct E as ([x m1] & E1 & E2). injection E2 as _ <-. eapply tinfo_inv; eauto.
    - apply bind_ok in E. destruct E as ([x m1] & E1 & E2). apply bind_ok in E2. destruct E2 as ([y m2] & E2 & E3).
      injection E3 as _ <-. eapply tinfo_inv; [exact I| |exact E2]. eapply tinfo_inv; eauto.
  Qed.

  Lemma type_id_info_inv : forall f, inv_at f.
  Proof.
    induction f as [|f IH]; intros i m r m' H E; [discriminate|].
    rewrite type_id_info_S in E. destruct (im_get m i).
    - injection E as _ <-. auto.
    - apply bind_ok in E. destruct E as (k & E1 & E2). apply bind_ok in E2. destruct E2 as ([inf m1] & E2 & E3).
      pose proof (kind_info_inv f IH k m inf m1 H E2) as Q1.
      destruct (im_get m1 i) eqn:G; [discriminate|]. injection E3 as _ <-. apply Qcons; auto.
  Qed.
End Inv.

Lemma analyze_phase1_nodup T m :
  fold_res (fun m i => '(_, m') <- type_id_info T (S i) m i ;; ROk m') (seq 0 (List.length T)) [] = ROk m ->
  NoDup (keys m).
Proof.
  assert (G : forall l m0 m1, NoDup (keys m0) ->
              fold_res (fun m i => '(_, m') <- type_id_info T (S i) m i ;; ROk m') l m0 = ROk m1 -> NoDup (keys m1)).
  { induction l as [|i l IH]; intros m0 m1 H E; cbn [fold_res] in E.
    - injection E as <-. auto.
    - apply bind_ok in E. destruct E as (m2 & E1 & E2). apply bind_ok in E1. destruct E1 as ([r m3] & E1 & E3).
      injection E3 as <-. eapply IH; [|exact E2].
      eapply (type_id_info_inv T (fun m => NoDup (keys m))); [|exact H|exact E1].
      intros m4 j inf H4 G4. cbn [keys map fst]. constructor; auto. apply im_get_none_keys. auto. }
  intros E. eapply G; [|exact E]. constructor.
Qed.
