(** Model of crates/core/src/async_.rs : [AsyncFilterSet], [Async::parse], the two [Display] impls,
    [is_async] (with the [used_options] set), [ensure_all_used], [debug_opts], [any_enabled].
    Strings are [list ascii] ([str] of Core/PkgName.v).  [used_options : HashSet<usize>] is a list of
    indices with set semantics.  Definitions only; proofs are in AsyncFilterProofs.v. *)
From Coq Require Import List Ascii String Bool Arith.
From WB Require Import Core.PkgName.
Import ListNotations.

Inductive afilter :=
| FAll
| FFunction (s : str)
| FImport (s : str)
| FExport (s : str).

Record directive := { enabled : bool; filt : afilter }.

(** [str::strip_prefix] *)
Fixpoint strip_prefix (p s : str) : option str :=
  match p, s with
  | [], _ => Some s
  | a :: p', b :: s' => if Ascii.eqb a b then strip_prefix p' s' else None
  | _ :: _, [] => None
  end.

Definition lit (x : string) : str := list_ascii_of_string x.
Definition s_all : str := lit "all".
Definition s_import : str := lit "import:".
Definition s_export : str := lit "export:".
Definition s_dash : str := lit "-".

(** [Async::parse]: the [let filter = match s { "all" => .., other => .. }] part *)
Definition parse_filter (s : str) : afilter :=
  if str_eqb s s_all then FAll
  else match strip_prefix s_import s with
       | Some r => FImport r
       | None => match strip_prefix s_export s with
                 | Some r => FExport r
                 | None => FFunction s
                 end
       end.
Definition parse (s : str) : directive :=
  match strip_prefix s_dash s with
  | Some r => {| enabled := false; filt := parse_filter r |}
  | None => {| enabled := true; filt := parse_filter s |}
  end.

(** [impl Display for AsyncFilter] / [impl Display for Async] *)
Definition display_filter (f : afilter) : str :=
  match f with
  | FAll => s_all
  | FFunction s => s
  | FImport s => s_import ++ s
  | FExport s => s_export ++ s
  end.
Definition display (d : directive) : str :=
  (if enabled d then [] else s_dash) ++ display_filter (filt d).

(** * The set *)
Record fset := { opts : list directive; used : list nat }.

(** [AsyncFilterSet::default()] followed by [push] of every directive text *)
Definition fset_of (texts : list str) : fset := {| opts := map parse texts; used := [] |}.
(** [AsyncFilterSet::all(b)] *)
Definition fset_all (b : bool) : fset := {| opts := [{| enabled := b; filt := FAll |}]; used := [] |}.

(** one query of [is_async]: the function's interface key as printed by [Resolve::name_world_key]
    ([None] for a world-level function), [func.name], the direction, and whether the WIT declares it async
    (the [FunctionKind::Async*] kinds) *)
Record query := { qkey : option str; qname : str; qimport : bool; qasync : bool }.

Definition ch_hash : ascii := "#"%char.
(** [format!("{}#{}", resolve.name_world_key(key), func.name)] or [func.name.clone()] *)
Definition name_to_test (q : query) : str :=
  match qkey q with
  | Some k => k ++ ch_hash :: qname q
  | None => qname q
  end.

(** the [for (i, opt) in self.async_.iter().enumerate()] loop; [i] = index of the head of [ds].
    Returns the index of the option that decided and its [enabled] flag, or [None] when the loop falls
    through to the [match &func.kind]. *)
Fixpoint scan (ds : list directive) (i : nat) (name : str) (is_import : bool) : option (nat * bool) :=
  match ds with
  | [] => None
  | opt :: rest =>
    match filt opt with
    | FAll => Some (i, enabled opt)
    | FFunction s =>
      if str_eqb s name then Some (i, enabled opt) else scan rest (S i) name is_import
    | FImport s =>
      if negb is_import then scan rest (S i) name is_import
      else if str_eqb s name then Some (i, enabled opt) else scan rest (S i) name is_import
    | FExport s =>
      if is_import then scan rest (S i) name is_import
      else if str_eqb s name then Some (i, enabled opt) else scan rest (S i) name is_import
    end
  end.

Definition insert_used (i : nat) (u : list nat) : list nat :=
  if existsb (Nat.eqb i) u then u else i :: u.

Definition is_async (st : fset) (q : query) : fset * bool :=
  match scan (opts st) 0 (name_to_test q) (qimport q) with
  | Some (i, b) => ({| opts := opts st; used := insert_used i (used st) |}, b)
  | None => (st, qasync q)
  end.

(** a whole run: the answers to a sequence of queries, and the final state *)
Fixpoint run (st : fset) (qs : list query) : fset * list bool :=
  match qs with
  | [] => (st, [])
  | q :: rest => let '(st1, b) := is_async st q in
                 let '(st2, bs) := run st1 rest in (st2, b :: bs)
  end.

(** [ensure_all_used]: [None] = Ok(()), [Some text] = Err("unused async option: <text>") *)
Fixpoint ensure_loop (ds : list directive) (i : nat) (u : list nat) : option str :=
  match ds with
  | [] => None
  | opt :: rest =>
    if existsb (Nat.eqb i) u then ensure_loop rest (S i) u
    else match filt opt with
         | FAll => ensure_loop rest (S i) u
         | _ => Some (display opt)
         end
  end.
Definition ensure_all_used (st : fset) : option str := ensure_loop (opts st) 0 (used st).

Definition debug_opts (st : fset) : list str := map display (opts st).
Definition any_enabled (st : fset) : bool := existsb enabled (opts st).

(** * Specification vocabulary *)
(** a directive matches a (name, direction) *)
Definition matches (d : directive) (name : str) (is_import : bool) : bool :=
  match filt d with
  | FAll => true
  | FFunction s => str_eqb s name
  | FImport s => is_import && str_eqb s name
  | FExport s => negb is_import && str_eqb s name
  end.
Definition qmatches (d : directive) (q : query) : bool := matches d (name_to_test q) (qimport q).

Definition is_all (d : directive) : bool := match filt d with FAll => true | _ => false end.

(** everything the driver needs in one call: answers, verdict, printed options *)
Definition run_texts (texts : list str) (qs : list query) : list bool * option str * list str :=
  let st0 := fset_of texts in
  let '(st, bs) := run st0 qs in
  (bs, ensure_all_used st, debug_opts st0).
