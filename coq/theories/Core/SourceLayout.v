(** C25: for whole-line fragments the fragment-wise layout [spec_run] is the layout of the concatenated
    text ([layout]), i.e. indentation follows the lines of the text, not the call boundaries. *)
From Coq Require Import List Ascii Bool Arith Lia.
From WB Require Import Core.Source Core.SourceSpec Core.SourceLemmas Core.SourceProofs Core.SourceLiteral Core.SourceIndent.
Import ListNotations.

Lemma split_nl_lf g h : split_nl (g ++ LF :: h) = split_nl g ++ split_nl h.
Proof.
  induction g as [|c g' IH]; simpl.
  - reflexivity.
  - destruct (Ascii.eqb c LF). { rewrite IH. reflexivity. }
    rewrite IH. destruct (split_nl g') as [|l0 ls0] eqn:S. { exfalso. eapply split_nl_nonempty; eauto. }
    reflexivity.
Qed.

Lemma rust_lines_of_app A B : B <> [] -> rust_lines_of (A ++ B) = map strip_cr A ++ rust_lines_of B.
Proof.
  intro HB. induction A as [|a A' IH]; auto.
  simpl app. destruct (A' ++ B) as [|x xs] eqn:E.
  - destruct A'; simpl in E; [congruence | discriminate].
  - change (rust_lines_of (a :: x :: xs)) with (strip_cr a :: rust_lines_of (x :: xs)).
    rewrite IH. reflexivity.
Qed.

Lemma ends_with_lf_inv f : ends_with_lf f = true -> exists g, f = g ++ [LF].
Proof.
  unfold ends_with_lf, ends_with_c. intro H. destruct (rev f) as [|c r] eqn:E; [discriminate|].
  simpl in H. apply Ascii.eqb_eq in H. subst c. exists (rev r).
  rewrite <- (rev_involutive f), E. reflexivity.
Qed.

Lemma rust_lines_app f1 f2 : ends_with_lf f1 = true -> rust_lines (f1 ++ f2) = rust_lines f1 ++ rust_lines f2.
Proof.
  intro H. destruct (ends_with_lf_inv f1 H) as [g ->]. unfold rust_lines.
  rewrite <- app_assoc. simpl app. rewrite split_nl_lf.
  rewrite rust_lines_of_app by apply split_nl_nonempty.
  replace (g ++ [LF]) with (g ++ LF :: []) by reflexivity. rewrite split_nl_lf.
  rewrite rust_lines_of_app by discriminate. simpl. rewrite app_nil_r. reflexivity.
Qed.

Lemma ends_with_lf_app f1 f2 : f2 <> [] -> ends_with_lf (f1 ++ f2) = ends_with_lf f2.
Proof.
  intro H. induction f1 as [|c r IH]; auto. simpl app. rewrite ends_with_lf_cons.
  destruct (r ++ f2) eqn:E; auto. destruct r; simpl in E; [congruence | discriminate].
Qed.

Lemma whole_concat frags : forallb whole_lines frags = true ->
  rust_lines (concat frags) = concat (map rust_lines frags)
  /\ (concat frags = [] \/ ends_with_lf (concat frags) = true).
Proof.
  induction frags as [|f r IH]; intro H; simpl in *. { auto. }
  apply andb_true_iff in H as [Hf Hr]. destruct (IH Hr) as [IH1 IH2].
  destruct (whole_lines_cases f Hf) as [[-> _] | [He _]].
  - simpl. auto.
  - rewrite rust_lines_app, IH1 by auto. split; auto. right.
    destruct IH2 as [-> | IH2]. { rewrite app_nil_r. auto. }
    rewrite ends_with_lf_app; auto. intro Hn. rewrite Hn in IH2. discriminate.
Qed.

Lemma render_app single A : forall d B,
  render single true d (A ++ B) =
  match render single true d A with
  | Some (t1, d1) => match render single true d1 B with Some (t2, d2) => Some (t1 ++ t2, d2) | None => None end
  | None => None
  end.
Proof.
  induction A as [|l rest IH]; intros d B.
  - simpl. destruct (render single true d B) as [[t2 d2]|]; auto.
  - simpl. destruct (line_depths d l) as [[dl d']|]; auto. rewrite IH.
    destruct (render single true d' rest) as [[t1 d1]|]; auto.
    destruct (render single true d1 B) as [[t2 d2]|]; auto.
    rewrite !andb_false_r. rewrite <- !app_assoc. reflexivity.
Qed.

Lemma render_col0 f d : col0_single f = true ->
  render (frag_single f) true d (rust_lines f) = render false true d (rust_lines f).
Proof.
  unfold col0_single, frag_single. destruct (rust_lines f) as [|l [|l2 rest]]; auto.
  intro Hn. simpl. destruct (line_depths d l) as [[dl d']|]; auto.
  unfold out_line. unfold trim_start. rewrite (drop_ws_no_lead l Hn). reflexivity.
Qed.

Lemma spec_run_layout frags : forall d,
  forallb col0_single frags = true ->
  spec_run d (map Push frags) = render false true d (concat (map rust_lines frags)).
Proof.
  induction frags as [|f r IH]; intros d Hc; simpl in *. { reflexivity. }
  apply andb_true_iff in Hc as [Hf Hr]. rewrite render_app, (render_col0 f d Hf).
  destruct (render false true d (rust_lines f)) as [[t1 d1]|]; auto.
  rewrite IH by auto. reflexivity.
Qed.

(** indent_follows_braces, restricted: call sequences of whole-line fragments whose one-line fragments
    start in column 0 produce exactly the layout of the concatenated text. *)
Theorem indent_layout_whole_lines : forall frags t d,
  forallb whole_lines frags = true -> forallb col0_single frags = true ->
  layout (concat frags) = Some (t, d) ->
  exists st outs, run_b source_default (map Push frags) = Some (st, outs) /\ as_str st = t /\ ind st = d.
Proof.
  intros frags t d Hw Hc Hl. apply indent_whole_lines.
  - clear -Hw. induction frags as [|f r IH]; simpl in *; auto.
    apply andb_true_iff in Hw as [H1 H2]. rewrite H1. auto.
  - rewrite spec_run_layout by auto. unfold layout in Hl.
    destruct (whole_concat frags Hw) as [H1 [H2 | H2]].
    + rewrite H2 in Hl. simpl in Hl. rewrite <- H1, H2. exact Hl.
    + rewrite H2, H1 in Hl. exact Hl.
Qed.

(** [erase_lead] is "trim_start every line and join with '\n'" *)
Definition join_nl (ls : list text) : text :=
  match ls with [] => [] | l :: rest => l ++ concat (map (fun x => LF :: x) rest) end.

Lemma strip_lead_lines t : forall b,
  strip_lead b t = match split_nl t with
                   | l :: ls => (if b then drop_ws l else l) ++ concat (map (fun x => LF :: drop_ws x) ls)
                   | [] => []
                   end.
Proof.
  induction t as [|c r IH]; intro b.
  - simpl. destruct b; reflexivity.
  - simpl. destruct (Ascii.eqb c LF) eqn:E.
    + rewrite (IH true). destruct (split_nl r) as [|l0 ls0] eqn:S. { exfalso. eapply split_nl_nonempty; eauto. }
      destruct b; reflexivity.
    + rewrite (IH true), (IH false). destruct (split_nl r) as [|l0 ls0] eqn:S. { exfalso. eapply split_nl_nonempty; eauto. }
      destruct b; simpl; [destruct (is_ws c)|]; reflexivity.
Qed.

Theorem erase_lead_lines t : erase_lead t = join_nl (norm_lines t).
Proof.
  unfold erase_lead, norm_lines, join_nl. rewrite strip_lead_lines.
  destruct (split_nl t) as [|l ls]; auto. simpl. f_equal. rewrite map_map. reflexivity.
Qed.
