(** C25: the statements' vocabulary (definitions only): what "the appended text", "only the white space at
    the start of lines changed", "indentation follows the nesting of braces" and "brace-balanced" mean,
    and the executable well-formedness predicates under which the restricted theorems hold. *)
From Coq Require Import List Ascii Bool Arith.
From WB Require Import Core.Source.
Import ListNotations.

(** ** The appended text *)
Definition bop_text (b : bop) : text :=
  match b with
  | Push f | Lit f => f
  | Write ps => concat ps
  | _ => []
  end.
Definition ops_text (ops : list bop) : text := concat (map bop_text ops).

(** ** Erasing the white space at the start of every line (a stream function: [bol] = "only white space
    since the last '\n'") *)
Fixpoint strip_lead (bol : bool) (t : text) : text :=
  match t with
  | [] => []
  | c :: r =>
      if Ascii.eqb c LF then LF :: strip_lead true r
      else if bol && is_ws c then strip_lead true r
      else c :: strip_lead false r
  end.
Fixpoint bol_after (bol : bool) (t : text) : bool :=
  match t with
  | [] => bol
  | c :: r => if Ascii.eqb c LF then bol_after true r else bol_after (bol && is_ws c) r
  end.
Definition erase_lead (t : text) : text := strip_lead true t.
(** the same thing line by line (proved equal in SourceProofs: [erase_lead_lines]) *)
Definition norm_lines (t : text) : list text := map trim_start (split_nl t).

Definition has_cr (f : text) : bool := existsb (fun c => Ascii.eqb c CR) f.
Definition has_lf (f : text) : bool := existsb (fun c => Ascii.eqb c LF) f.
Definition all_ws (l : text) : bool := forallb is_ws l.
Definition no_lead_ws (l : text) : bool := match l with c :: _ => negb (is_ws c) | [] => true end.

(** ** text_preserved: the well-formedness predicate of the restricted theorem.
    A fragment is unsafe only through its FIRST line, and only when it is appended to a line that already
    holds something other than white space:
    (A) a multi-line fragment whose first line starts with white space (or is blank) — [push_str_impl]
        applies [trim_start] to every line of a multi-line fragment, also to the one continuing a line;
    (B) an interpreted fragment starting (after white space) with '}' outside a line comment while the
        buffer ends in two spaces — the two [pop]s meant to undo one indentation level. *)
Definition piece_safe (interp single : bool) (st : source) (line : text) : bool :=
  bol_after true (as_str st)
  || ((single || no_lead_ws line)
      && negb (interp && negb (in_comment st) && starts_with_c RBRACE (trim line) && ends2sp (rbuf st))).

Definition frag_safe (interp : bool) (st : source) (f : text) : bool :=
  negb (has_cr f)
  && match rust_lines f with
     | [] => true
     | l :: rest => piece_safe interp (is_nil rest) st l
     end.

Fixpoint parts_safe (st : source) (ps : list text) : bool :=
  match ps with
  | [] => true
  | p :: r => frag_safe true st p && parts_safe (push_str st p) r
  end.

Definition bop_safe (st : source) (b : bop) : bool :=
  match b with
  | Push f => frag_safe true st f
  | Lit f => frag_safe false st f
  | Write ps => parts_safe st ps
  | _ => true
  end.

Fixpoint run_safe (st : source) (ops : list bop) : bool :=
  match ops with
  | [] => true
  | b :: r => bop_safe st b && match step_b st b with Some (st', _) => run_safe st' r | None => true end
  end.

(** Whole-line fragments (what [uwriteln!] and multi-line format strings ending in '\n' append): empty, or
    ending in '\n'; no '\r'. *)
Definition whole_lines (f : text) : bool := negb (has_cr f) && (is_nil f || ends_with_lf f).
Definition bop_aligned (b : bop) : bool :=
  match b with
  | Push f | Lit f => whole_lines f
  | Write ps => forallb whole_lines ps
  | _ => true
  end.

(** ** indent_follows_braces: brace events of a complete line *)
Definition is_comment_line (l : text) : bool := starts_with_slashes (trim l).
Definition closes (l : text) : bool := negb (is_comment_line l) && starts_with_c RBRACE (trim l).
Definition opens (l : text) : bool := negb (is_comment_line l) && ends_with_c LBRACE (trim l).

(** (nesting depth the line is printed at, depth after the line); [None]: a closer with nothing open *)
Definition line_depths (d : nat) (l : text) : option (nat * nat) :=
  if closes l then
    match d with
    | 0 => None
    | S d' => Some (d', if opens l then S d' else d')
    end
  else Some (d, if opens l then S d else d).

(** an output line at depth [d]: empty lines stay empty, otherwise two spaces per level.  [single]: the
    fragment is one line, whose own leading white space [push_str_impl] keeps. *)
Definition out_line (single : bool) (d : nat) (l : text) : text :=
  if is_nil l then [] else spaces (2 * d) ++ (if single then l else trim_start l).

Fixpoint render (single endnl : bool) (d : nat) (ls : list text) : option (text * nat) :=
  match ls with
  | [] => Some ([], d)
  | l :: rest =>
      match line_depths d l with
      | None => None
      | Some (dl, d') =>
          match render single endnl d' rest with
          | None => None
          | Some (t, dn) =>
              Some (out_line single dl l ++ (if is_nil rest && negb endnl then [] else [LF]) ++ t, dn)
          end
      end
  end.

(** literal lines: printed at the current depth, no brace events *)
Fixpoint render_lit (single endnl : bool) (d : nat) (ls : list text) : text :=
  match ls with
  | [] => []
  | l :: rest => out_line single d l ++ (if is_nil rest && negb endnl then [] else [LF]) ++ render_lit single endnl d rest
  end.

Definition frag_single (f : text) : bool := Nat.eqb (List.length (rust_lines f)) 1.

(** The declarative layout of a sequence of whole-line fragments: [Some (text, final depth)] *)
Fixpoint spec_parts (d : nat) (ps : list text) : option (text * nat) :=
  match ps with
  | [] => Some ([], d)
  | f :: r =>
      match render (frag_single f) true d (rust_lines f) with
      | None => None
      | Some (t, d') => match spec_parts d' r with None => None | Some (t2, d2) => Some (t ++ t2, d2) end
      end
  end.

Fixpoint spec_run (d : nat) (ops : list bop) : option (text * nat) :=
  match ops with
  | [] => Some ([], d)
  | b :: r =>
      let k := fun (t : text) (d' : nat) =>
                 match spec_run d' r with None => None | Some (t2, d2) => Some (t ++ t2, d2) end in
      match b with
      | Push f => match render (frag_single f) true d (rust_lines f) with None => None | Some (t, d') => k t d' end
      | Lit f => k (render_lit (frag_single f) true d (rust_lines f)) d
      | Write ps => match spec_parts d ps with None => None | Some (t, d') => k t d' end
      | Indent n => k [] (d + n)
      | Deindent n => if n <=? d then k [] (d - n) else None
      | SetIndent n => k [] n
      | Query => k [] d
      end
  end.

(** every single-line fragment starts in column 0 (then "indentation = 2 * depth" is literally true) *)
Definition col0_single (f : text) : bool :=
  match rust_lines f with [l] => no_lead_ws l | _ => true end.

(** ** balanced_restores_indent *)
(** line-structure balance: the open/close events of the lines form a balanced bracket word *)
Fixpoint dyck (d : nat) (ls : list text) : option nat :=
  match ls with
  | [] => Some d
  | l :: rest => match line_depths d l with None => None | Some (_, d') => dyck d' rest end
  end.
Definition balanced_lines (ls : list text) : bool :=
  match dyck 0 ls with Some 0 => true | _ => false end.

(** character-level balance (the reading under which the statement is false) *)
Fixpoint char_bal (d : nat) (t : text) : option nat :=
  match t with
  | [] => Some d
  | c :: r =>
      if Ascii.eqb c LBRACE then char_bal (S d) r
      else if Ascii.eqb c RBRACE then match d with 0 => None | S d' => char_bal d' r end
      else char_bal d r
  end.
Definition char_balanced (t : text) : bool := match char_bal 0 t with Some 0 => true | _ => false end.

(** the interpreted lines of a call sequence (literal text and the other calls contribute none) *)
Fixpoint ops_code_lines (ops : list bop) : list text :=
  match ops with
  | [] => []
  | Push f :: r => rust_lines f ++ ops_code_lines r
  | Write ps :: r => concat (map rust_lines ps) ++ ops_code_lines r
  | _ :: r => ops_code_lines r
  end.
Definition text_only (b : bop) : bool :=
  match b with Push _ | Lit _ | Write _ | Query => true | _ => false end.

(** The declarative layout of a text as a whole (independent of how it is cut into fragments): every
    non-empty line is its white-space-trimmed content behind two spaces per nesting level. *)
Definition layout (t : text) : option (text * nat) := render false (ends_with_lf t) 0 (rust_lines t).

(** ** classification used by the check's search leg (why a sequence is outside [run_safe]):
    0 safe, 1 '\r', 2 (A) trimmed continuation, 3 (B) popped spaces, 4 both *)
Definition frag_reason (interp : bool) (st : source) (f : text) : nat :=
  if has_cr f then 1 else
  match rust_lines f with
  | [] => 0
  | l :: rest =>
      if bol_after true (as_str st) then 0 else
      let a := negb (is_nil rest || no_lead_ws l) in
      let b := interp && negb (in_comment st) && starts_with_c RBRACE (trim l) && ends2sp (rbuf st) in
      if a then (if b then 4 else 2) else if b then 3 else 0
  end.
Fixpoint parts_reason (st : source) (ps : list text) : nat :=
  match ps with
  | [] => 0
  | p :: r => match frag_reason true st p with 0 => parts_reason (push_str st p) r | n => n end
  end.
Definition bop_reason (st : source) (b : bop) : nat :=
  match b with
  | Push f => frag_reason true st f
  | Lit f => frag_reason false st f
  | Write ps => parts_reason st ps
  | _ => 0
  end.
Fixpoint run_reason (st : source) (ops : list bop) : nat :=
  match ops with
  | [] => 0
  | b :: r => match bop_reason st b with
              | 0 => match step_b st b with Some (st', _) => run_reason st' r | None => 0 end
              | n => n
              end
  end.

Definition start_state_b (st : source) : bool := negb (continuing st) && negb (in_comment st).

(** (run_reason, all fragments whole lines, declarative layout if defined) *)
Definition classify (ops : list bop) : nat * bool * option (text * nat) :=
  (run_reason source_default ops, forallb bop_aligned ops, spec_run 0 ops).

(** for "pre-ops ; push_str(block)": (line start outside comment after pre?, line balance, char balance) *)
Definition classify_block (pre : list bop) (block : text) : option (bool * bool * bool) :=
  match run_b source_default pre with
  | None => None
  | Some (st, _) => Some (start_state_b st, balanced_lines (rust_lines block), char_balanced block)
  end.

(** a brace-neutral one-line piece: no '\n', and after trimming it neither starts with '}' or "//" nor ends
    with '{' (what [uwrite!] appends in the middle of a line most of the time) *)
Definition inert (p : text) : bool :=
  negb (has_lf p) && negb (starts_with_c RBRACE (trim p)) && negb (starts_with_slashes (trim p))
  && negb (ends_with_c LBRACE (trim p)).
