(** Basic facts about well-founded tables and expansions: the fuel of [expand] is irrelevant once
    it covers the id, and [xp] satisfies the one-level unfolding equation. *)
From Coq Require Import List String Bool Arith Lia.
From WB Require Import Core.TypesEq Core.TypesEqSpec.
Import ListNotations.

Lemma in_kind_refs k j : In j (kind_refs k) <-> In (TId j) (kind_tys k).
Proof.
  unfold kind_refs. rewrite in_flat_map. split.
  - intros (t & Ht & Hj). destruct t; cbn in Hj; [tauto|]. destruct Hj as [<-|[]]. auto.
  - intros H. exists (TId j). split; auto. cbn. auto.
Qed.

Lemma wf_ref_lt T i d j : wf_table T -> lookup T i = Some d -> In (TId j) (kind_tys (tkind d)) -> j < i.
Proof.
  intros W L H. destruct (W i d L) as [_ F]. rewrite Forall_forall in F. apply F.
  apply in_kind_refs. auto.
Qed.

Lemma wf_child_tyw T i d c : wf_table T -> lookup T i = Some d -> In c (kind_tys (tkind d)) -> tyw c <= i.
Proof.
  intros W L H. destruct c as [p|j]; cbn; [lia|]. pose proof (wf_ref_lt T i d j W L H). lia.
Qed.

Lemma lookup_lt T i d : lookup T i = Some d -> i < List.length T.
Proof. unfold lookup. intros H. apply nth_error_Some. congruence. Qed.

Lemma option_map_ext_in {A B} (f g : A -> B) (o : option A) :
  (forall x, o = Some x -> f x = g x) -> option_map f o = option_map g o.
Proof. destruct o; cbn; intros H; [f_equal; auto | auto]. Qed.

Lemma in_somes {A} (l : list (option A)) x : In x (somes l) <-> In (Some x) l.
Proof.
  unfold somes. rewrite in_flat_map. split.
  - intros (o & Ho & Hx). destruct o; cbn in Hx; [|tauto]. destruct Hx as [<-|[]]. auto.
  - intros H. exists (Some x). split; auto. cbn. auto.
Qed.

(** [knode] only looks at the expansion of the types the kind mentions *)
Lemma knode_ext (ex ex' : ty -> tree) i k :
  (forall c, In c (kind_tys k) -> ex c = ex' c) -> knode ex i k = knode ex' i k.
Proof.
  intros H. destruct k; cbn [knode kind_tys] in *; try reflexivity.
  - f_equal. apply map_ext_in. intros p Hp. f_equal. apply H. apply in_map. auto.
  - f_equal. apply H. cbn. auto.
  - f_equal. apply H. cbn. auto.
  - f_equal. apply map_ext_in. intros p Hp. apply H. auto.
  - f_equal. apply map_ext_in. intros p Hp. f_equal. apply option_map_ext_in.
    intros x Hx. apply H. apply in_somes. rewrite <- Hx. apply in_map. auto.
  - f_equal. apply H. cbn. auto.
  - f_equal; apply option_map_ext_in; intros x Hx; apply H; apply in_somes; subst; cbn; auto.
  - f_equal. apply H. cbn. auto.
  - f_equal. apply H. cbn. auto.
  - f_equal; apply H; cbn; auto.
  - f_equal; apply option_map_ext_in; intros x Hx; apply H; apply in_somes; subst; cbn; auto.
  - f_equal; apply option_map_ext_in; intros x Hx; apply H; apply in_somes; subst; cbn; auto.
  - apply H. cbn. auto.
Qed.

Lemma expand_indep T : wf_table T ->
  forall f f' t, tyw t <= f -> tyw t <= f' -> expand T f t = expand T f' t.
Proof.
  intros W. induction f as [|f IH]; intros f' t H1 H2.
  - destruct t; cbn in *; [destruct f'; reflexivity | lia].
  - destruct t as [p|i]; [destruct f'; reflexivity|].
    destruct f' as [|f']; [cbn in H2; lia|]. cbn [expand].
    destruct (lookup T i) as [d|] eqn:L; [|reflexivity].
    apply knode_ext. intros c Hc. pose proof (wf_child_tyw T i d c W L Hc). cbn in H1, H2.
    apply IH; lia.
Qed.

Lemma expand_xp T f t : wf_table T -> tyw t <= f -> expand T f t = xp T t.
Proof. intros W H. unfold xp. apply expand_indep; auto. Qed.

(** the recursive equation the specification satisfies *)
Lemma xp_unfold T i d : wf_table T -> lookup T i = Some d ->
  xp T (TId i) = knode (xp T) i (tkind d).
Proof.
  intros W L. unfold xp at 1. cbn [tyw expand]. rewrite L.
  apply knode_ext. intros c Hc. apply expand_xp; auto. eapply wf_child_tyw; eauto.
Qed.

Lemma xp_prim T p : xp T (TPrim p) = XPrim p.
Proof. reflexivity. Qed.

Lemma xp_none T i : lookup T i = None -> xp T (TId i) = XBad.
Proof. intros L. unfold xp. cbn. rewrite L. auto. Qed.

(** structural equality is an equivalence (it is the kernel of [xp]) *)
Lemma struct_eq_refl T a : struct_eq T a a.
Proof. reflexivity. Qed.
Lemma struct_eq_sym T a b : struct_eq T a b -> struct_eq T b a.
Proof. unfold struct_eq. congruence. Qed.
Lemma struct_eq_trans T a b c : struct_eq T a b -> struct_eq T b c -> struct_eq T a c.
Proof. unfold struct_eq. congruence. Qed.

(** [wf_tableb] decides [wf_table] *)
Lemma wf_defb_ok i d : wf_defb i d = true <-> wf_def i d.
Proof.
  unfold wf_defb, wf_def. rewrite andb_true_iff, negb_true_iff, forallb_forall, Forall_forall.
  split; intros [A B]; split.
  - intros E. rewrite E in A. discriminate.
  - intros x Hx. apply Nat.ltb_lt. auto.
  - destruct (tkind d); auto. congruence.
  - intros x Hx. apply Nat.ltb_lt. auto.
Qed.

Lemma wf_from_ok l : forall n, wf_from n l = true <->
  (forall i d, nth_error l i = Some d -> wf_def (n + i) d).
Proof.
  induction l as [|d l IH]; intros n; cbn [wf_from].
  - split; auto. intros _ i d H. destruct i; discriminate.
  - rewrite andb_true_iff, wf_defb_ok, IH. split.
    + intros [A B] i d' H. destruct i; cbn in H.
      * injection H as <-. rewrite Nat.add_0_r. auto.
      * replace (n + S i) with (S n + i) by lia. auto.
    + intros H. split.
      * specialize (H 0 d eq_refl). rewrite Nat.add_0_r in H. auto.
      * intros i d' Hi. replace (S n + i) with (n + S i) by lia. apply H. auto.
Qed.

Lemma wf_tableb_ok T : wf_tableb T = true <-> wf_table T.
Proof. unfold wf_tableb, wf_table, lookup. rewrite wf_from_ok. cbn. tauto. Qed.
