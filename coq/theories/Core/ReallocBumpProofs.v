(** The bump allocator of ReallocBump.v meets the GlobalAlloc contract assumed by the C24 theorems
    (so the hypothesis [contract A] is satisfiable and the theorems are not vacuous). *)
From Coq Require Import List Arith NArith Bool Permutation Lia.
From WB Require Import Core.Realloc Core.ReallocSpec Core.ReallocProofs Core.ReallocBump.
Import ListNotations.
Local Open Scope N_scope.

Lemma top_ge : forall l b, In b l -> b_ptr b + b_size b <= top l.
Proof.
  induction l as [|x r IH]; cbn; [tauto|]. intros b [->|H]; [lia|].
  specialize (IH _ H). lia.
Qed.

Lemma top_pos : forall l, 1 <= top l.
Proof. induction l; cbn; lia. Qed.

Lemma round_up_ge : forall x a, a <> 0 -> x <= round_up x a.
Proof.
  intros x a Ha. unfold round_up.
  pose proof (N.div_mod (x + a - 1) a Ha) as E.
  pose proof (N.mod_lt (x + a - 1) a Ha) as L.
  rewrite N.mul_comm. lia.
Qed.

Lemma round_up_mod : forall x a, a <> 0 -> round_up x a mod a = 0.
Proof. intros; unfold round_up. apply N.mod_mul; assumption. Qed.

Lemma tick_cases : forall f, exists f', tick f = (true, f') \/ tick f = (false, f').
Proof. intros [[|p]|]; cbn; eauto. Qed.

Theorem bump_contract : contract bump.
Proof.
  constructor.
  - (* alloc *)
    intros h size align h' p Hs Hp2 E. pose proof (is_pow2_nz _ Hp2) as Ha.
    cbn in E. unfold bump_alloc in E. destruct (tick (bh_fail h)) as [[|] f'].
    + inversion E; subst; clear E. split; [intros b x _ _; reflexivity|]. left; auto.
    + inversion E; subst; clear E. split; [intros b x _ _; reflexivity|]. right.
      pose proof (round_up_ge (top (bh_live h)) align Ha). pose proof (top_pos (bh_live h)).
      split; [lia|]. split; [apply round_up_mod; assumption|]. split; [reflexivity|].
      intros b Hb. right. cbn. pose proof (top_ge _ _ Hb). cbn in *. lia.
  - (* realloc *)
    intros h ptr old align new h' q Hl Hn Hp2 E rest. pose proof (is_pow2_nz _ Hp2) as Ha.
    cbn in E. unfold bump_realloc in E. destruct (tick (bh_fail h)) as [[|] f'].
    + inversion E; subst; clear E. split; [intros b x _ _; reflexivity|]. left.
      split; [reflexivity|]. split; [reflexivity|]. intros b x _ _; reflexivity.
    + inversion E; subst; clear E.
      pose proof (round_up_ge (top (bh_live h)) align Ha) as Hge. pose proof (top_pos (bh_live h)).
      set (q := round_up (top (bh_live h)) align) in *.
      assert (HK : forall b x, In b (bh_live h) -> inb x b ->
                (if (q <=? x) && (x <? q + N.min old new) then bh_mem h (ptr + (x - q)) else bh_mem h x) = bh_mem h x).
      { intros b x Hb [_ Hx]. pose proof (top_ge _ _ Hb).
        destruct (N.leb_spec q x); [lia|reflexivity]. }
      split.
      * intros b x Hb Hx. cbn. apply (HK b); [|assumption]. eapply remove_block_In; exact Hb.
      * right. split; [lia|]. split; [apply round_up_mod; assumption|]. split; [reflexivity|].
        split.
        -- intros b Hb. right. cbn. apply remove_block_In in Hb. pose proof (top_ge _ _ Hb). cbn in *. lia.
        -- intros i Hi. cbn.
           destruct (N.leb_spec q (q + i)); [|lia]. destruct (N.ltb_spec (q + i) (q + N.min old new)); [|lia].
           cbn. f_equal. lia.
  - (* dealloc *)
    intros h ptr size align Hl rest. cbn. split; [reflexivity|]. intros b x _ _; reflexivity.
  - (* fill *)
    intros h p n v. cbn. split; reflexivity.
Qed.

(** * Witnesses on the executable instance *)

Definition outs (debug : bool) (fail : option N) (ops : list op) : list out :=
  map (fun e => match e with (_, _, x, _) => x end) (bump_run debug fail ops).

(** A history that exercises every kind of request: allocate, store, grow (moves the block), load
    through the new pointer, a (0,0) request, scratch allocations dropped / empty / forgotten and then
    released through cabi_dealloc, a no-op cabi_dealloc, shrink. *)
Definition demo_ops : list op :=
  [ ORealloc (PLit 0) 0 8 16; OWrite 0 3 77; ORealloc (PBlk 0) 16 8 40; ORead 1 3;
    ORealloc (PLit 5) 0 4 0; ONew 24 8; ODrop 0; ONew 0 1; ONew 8 4; OForget 2;
    ODealloc (PBlk 3) 8 4; ODealloc (PLit 9) 0 2; ORealloc (PBlk 1) 40 8 7 ].

Lemma demo_consistent : forall debug,
  history_consistent bump debug (init bump (bump_init None)) demo_ops.
Proof. intros []; apply history_consistentb_sound; vm_compute; reflexivity. Qed.

Lemma demo_outs : forall debug, outs debug None demo_ops =
  [XRet 8 [ACalloc 16 8 8]; XUnit []; XRet 24 [ACrealloc 8 16 8 40 24]; XByte 77; XRet 4 [];
   XNew 64 true [ACalloc 24 8 64]; XUnit [ACdealloc 64 24 8]; XNew 0 false [];
   XNew 64 true [ACalloc 8 4 64]; XUnit []; XUnit [ACdealloc 64 8 4]; XUnit [];
   XRet 64 [ACrealloc 24 40 8 7 64]].
Proof. intros []; vm_compute; reflexivity. Qed.

(** The same history with the 2nd allocator call failing: the grow request does not return. *)
Lemma demo_fail_outs :
  outs true (Some 1) demo_ops = [XRet 8 [ACalloc 16 8 8]; XUnit []; XTrap (TAllocError 16 8) [ACrealloc 8 16 8 40 0]]
  /\ outs false (Some 1) demo_ops = [XRet 8 [ACalloc 16 8 8]; XUnit []; XTrap TUnreachable [ACrealloc 8 16 8 40 0]].
Proof. split; vm_compute; reflexivity. Qed.

(** ** The class of consistent requests the code does not serve: shrink to zero *)
Definition shrink_ops : list op := [ORealloc (PLit 0) 0 1 1; ORealloc (PBlk 0) 1 1 0].

Lemma shrink_outs :
  outs true None shrink_ops = [XRet 1 [ACalloc 1 1 1]; XTrap TDebugAssert []] /\
  outs false None shrink_ops = [XRet 1 [ACalloc 1 1 1]; XTrap (TUB UBZeroSize) []].
Proof. split; vm_compute; reflexivity. Qed.

Theorem shrink_to_zero_refuted : forall debug,
  exists ops s pr old_len align new_len x s',
    In (s, ORealloc pr old_len align new_len, x, s') (trace bump debug (init bump (bump_init None)) ops) /\
    req_consistent bump s pr old_len align new_len /\
    shrink_to_zero old_len new_len /\
    ~ realloc_post bump debug s pr old_len align new_len x s'.
Proof.
  intros debug.
  exists shrink_ops.
  destruct debug.
  - eexists _, (PBlk 0), 1, 1, 0, (XTrap TDebugAssert []), _.
    split; [cbn; right; left; reflexivity|].
    split; [split; [reflexivity|right; split; [discriminate|exists 0%nat, 1; split; reflexivity]]|].
    split; [split; [discriminate|reflexivity]|].
    cbn. intros [H _]. discriminate.
  - eexists _, (PBlk 0), 1, 1, 0, (XTrap (TUB UBZeroSize) []), _.
    split; [cbn; right; left; reflexivity|].
    split; [split; [reflexivity|right; split; [discriminate|exists 0%nat, 1; split; reflexivity]]|].
    split; [split; [discriminate|reflexivity]|].
    cbn. intros [H _]. discriminate.
Qed.
