(** Usage facts: [type_info_func] / the second loop of [analyze] set [borrowed] / [owned] /
    [error] exactly on the types the specification names (reachability from parameters and
    results of the functions of all worlds; the error type of a function whose result is
    DIRECTLY a result type), leave the content facts alone, and never fail. *)
From Coq Require Import List String Bool Arith NArith Lia.
From WB Require Import Core.TypesEq Core.TypesEqSpec Core.TypesEqUF Core.TypesEqWf Core.TypesEqEq
     Core.TypesEqSpecProofs Core.TypesEqLive Core.TypesEqMerge Core.TypesEqContent.
Import ListNotations.

(** the specification's predicates, over an arbitrary list of (import?, function) *)
Definition borrowed_in (T : table) (fs : list (bool * func)) (i : tid) : Prop :=
  named T i /\ exists f p, In (true, f) fs /\ In p (fparams f) /\ ty_reaches T p i.
Definition owned_in (T : table) (fs : list (bool * func)) (i : tid) : Prop :=
  named T i /\
  exists imp f t, In (imp, f) fs /\ ((imp = false /\ In t (fparams f)) \/ fresult f = Some t) /\ ty_reaches T t i.
Definition error_in (T : table) (fs : list (bool * func)) (i : tid) : Prop :=
  exists imp f rid d ok e0,
    In (imp, f) fs /\ fresult f = Some (TId rid) /\
    lookup T rid = Some d /\ tkind d = KResult ok (Some (TId e0)) /\ chases T e0 i.

Lemma spec_borrowed_in T ws i : spec_borrowed T ws i <-> borrowed_in T (all_funcs ws) i.
Proof. reflexivity. Qed.
Lemma spec_owned_in T ws i : spec_owned T ws i <-> owned_in T (all_funcs ws) i.
Proof. reflexivity. Qed.
Lemma spec_error_direct_in T ws i : spec_error_direct T ws i <-> error_in T (all_funcs ws) i.
Proof. reflexivity. Qed.

Definition content_eq (v c : info) : Prop :=
  has_list v = has_list c /\ has_tuple v = has_tuple c /\ has_resource v = has_resource c /\
  has_borrow_handle v = has_borrow_handle c /\ has_own_handle v = has_own_handle c.

(** what one id's entry looks like once the functions [fs] have been processed *)
Definition entry_ok (T : table) (fs : list (bool * func)) (i : tid) (v : info) : Prop :=
  content_eq v (cinfo T i) /\
  (borrowed v = true <-> borrowed_in T fs i) /\
  (owned v = true <-> owned_in T fs i) /\
  (error v = true <-> error_in T fs i).

Definition usage_ok (T : table) (fs : list (bool * func)) (m : imap) : Prop :=
  forall i, has T i -> exists v, im_get m i = Some v /\ entry_ok T fs i v.

Definition funcs_wf (T : table) (fs : list (bool * func)) : Prop :=
  forall imp f, In (imp, f) fs -> func_ok T f.

Definition present (T : table) (m : imap) : Prop := forall i, has T i -> im_get m i <> None.

(* ------------------------------------------------------------------------------------------ *)

Lemma type_info_cached T m t : ty_ok T t -> present T m -> exists inf, type_info T m t = ROk (inf, m).
Proof.
  intros Ht P. destruct t as [p|j]; cbn [type_info].
  - destruct p; eauto.
  - rewrite type_id_info_S. destruct (im_get m j) eqn:E; eauto. exfalso. apply (P j Ht). exact E.
Qed.

Lemma chase_ok T : wf_table T -> forall f i, i < f -> has T i ->
  exists k, chase T f i = ROk k /\ chases T i k /\ has T k.
Proof.
  intros W. induction f as [|f IH]; intros i Hi [d L]; [lia|].
  cbn [chase]. unfold lookup_kind. rewrite L. cbn [bind].
  assert (Stop : (forall j, tkind d <> KType (TId j)) -> exists k, ROk i = ROk k /\ chases T i k /\ has T k).
  { intros N. exists i. split; auto. split; [eapply chase_stop; eauto | exists d; auto]. }
  destruct (tkind d) as [| | | | | | | | | | | | | | |t|] eqn:K; try (apply Stop; intros j; discriminate).
  destruct t as [p|j]; [apply Stop; intros j; discriminate|].
  assert (Hj : j < i). { apply (wf_ref_lt T i d j W L). rewrite K. cbn. auto. }
  assert (Oj : ty_ok T (TId j)). { apply (wf_child_ok T i d (TId j) W L). rewrite K. cbn. auto. }
  destruct (IH j) as (k & E & C & H); [lia | exact Oj |].
  exists k. split; auto. split; auto. eapply chase_step; eauto.
Qed.

Section Mark.
  Variable T : table.
  Variable setf : info -> info.
  Hypothesis idem : forall v, setf (setf v) = setf v.

  Lemma mark_named_ok live : (forall x, In x live -> has T x) -> forall m, present T m ->
    exists m', mark_named T setf live m = ROk m' /\ keys m' = keys m /\
      forall j, im_get m' j = option_map (fun v => if mem j live && namedb T j then setf v else v) (im_get m j).
  Proof.
    unfold mark_named. induction live as [|x live IH]; intros H m P; cbn [fold_res].
    - exists m. split; auto. split; auto. intros j. cbn [mem andb]. destruct (im_get m j); reflexivity.
    - destruct (H x (or_introl eq_refl)) as [d L]. unfold is_named at 1. rewrite L. cbn [bind].
      assert (Hl : forall y, In y live -> has T y) by (intros; apply H; right; auto).
      destruct (tnamed d) eqn:N.
      + unfold im_modify. destruct (im_get m x) as [vx|] eqn:G; [|exfalso; apply (P x); [exists d; auto | exact G]].
        destruct (IH Hl (im_update m x setf)) as (m' & E & K & R).
        { intros i Hi. rewrite im_get_update. destruct (x =? i) eqn:Exi.
          - rewrite G. discriminate.
          - apply P. auto. }
        exists m'. split; auto. split; [rewrite K; apply keys_update|]. intros j. rewrite R, im_get_update. cbn [mem].
        destruct (x =? j) eqn:Exj.
        * apply Nat.eqb_eq in Exj. subst j. rewrite Nat.eqb_refl. cbn [orb]. rewrite G. cbn [option_map].
          unfold namedb. rewrite L, N. cbn [andb]. destruct (mem x live); cbn [andb]; rewrite ?idem; reflexivity.
        * rewrite Nat.eqb_sym, Exj. cbn [orb]. reflexivity.
      + destruct (IH Hl m P) as (m' & E & K & R). exists m'. split; auto. split; auto. intros j. rewrite R. cbn [mem].
        destruct (j =? x) eqn:Ejx; cbn [orb]; auto.
        apply Nat.eqb_eq in Ejx. subst j. unfold namedb. rewrite L, N. rewrite !andb_false_r. reflexivity.
  Qed.
End Mark.

Lemma params_fold_ok T : wf_table T -> forall ps m, present T m -> (forall p, In p ps -> ty_ok T p) ->
  forall live0, closed T live0 -> (forall x, In x live0 -> has T x) ->
  exists live,
    fold_res (fun '(m, live) t => '(_, m') <- type_info T m t ;; live' <- visit_ty T live t ;; ROk (m', live'))
             ps (m, live0) = ROk (m, live) /\
    closed T live /\ (forall x, In x live -> has T x) /\
    (forall y, In y live <-> In y live0 \/ exists p, In p ps /\ ty_reaches T p y).
Proof.
  intros W. induction ps as [|p ps IH]; intros m P Hp live0 C H; cbn [fold_res].
  - exists live0. split; auto. split; auto. split; auto. intros y. split; auto. intros [A|(p & [] & _)]. auto.
  - destruct (type_info_cached T m p) as (inf & E); auto. { apply Hp. left. auto. }
    rewrite E. cbn [bind].
    destruct (visit_ty_ok T W p live0) as (s' & E' & C' & I' & H'); auto. { apply Hp. left. auto. }
    rewrite E'. cbn [bind].
    destruct (IH m P (fun q Hq => Hp q (or_intror Hq)) s' C' H') as (live & E2 & C2 & H2 & I2).
    exists live. split; auto. split; auto. split; auto.
    intros y. rewrite I2, I'. split.
    + intros [[A|A]|(q & Hq & R)]; auto.
      * right. exists p. split; auto. left. auto.
      * right. exists q. split; auto. right. auto.
    + intros [A|(q & [<-|Hq] & R)]; auto. right. exists q. auto.
Qed.

Lemma closed_nil T : closed T []. Proof. intros x y []. Qed.

Lemma idem_borrowed v : set_borrowed (set_borrowed v) = set_borrowed v. Proof. reflexivity. Qed.
Lemma idem_owned v : set_owned (set_owned v) = set_owned v. Proof. reflexivity. Qed.

(** one call of [type_info_func] *)
Lemma type_info_func_ok T m f imp : wf_table T -> func_ok T f -> present T m ->
  exists m', type_info_func T m f imp = ROk m' /\ present T m' /\ keys m' = keys m /\
    forall j v, im_get m j = Some v ->
      exists v', im_get m' j = Some v' /\ content_eq v' v /\
        (borrowed v' = true <-> borrowed v = true \/
           (imp = true /\ named T j /\ exists p, In p (fparams f) /\ ty_reaches T p j)) /\
        (owned v' = true <-> owned v = true \/
           (named T j /\ ((imp = false /\ exists p, In p (fparams f) /\ ty_reaches T p j) \/
                          exists t, fresult f = Some t /\ ty_reaches T t j))) /\
        (error v' = true <-> error v = true \/
           exists rid d ok e0, fresult f = Some (TId rid) /\ lookup T rid = Some d /\
                               tkind d = KResult ok (Some (TId e0)) /\ chases T e0 j).
Proof.
  intros W (Fs & Fp & Fr) P. unfold type_info_func.
  destruct (params_fold_ok T W (fparams f) m P Fp [] (closed_nil T)) as (live & E1 & C1 & H1 & I1).
  { intros x []. }
  rewrite E1. cbn [bind].
  set (setf := if imp then set_borrowed else set_owned).
  assert (idem : forall v, setf (setf v) = setf v) by (intros v; unfold setf; destruct imp; reflexivity).
  destruct (mark_named_ok T setf idem live H1 m P) as (m2 & E2 & K2 & R2). rewrite E2. cbn [bind].
  assert (P2 : present T m2).
  { intros i Hi. rewrite R2. specialize (P i Hi). destruct (im_get m i); [discriminate|congruence]. }
  (* the result *)
  assert (RES : exists live2,
     match fresult f with
     | Some t => '(_, m') <- type_info T m2 t ;; live' <- visit_ty T [] t ;; ROk (m', live')
     | None => ROk (m2, [])
     end = ROk (m2, live2) /\ (forall x, In x live2 -> has T x) /\
     (forall y, In y live2 <-> exists t, fresult f = Some t /\ ty_reaches T t y)).
  { destruct (fresult f) as [t|] eqn:Er.
    - destruct (type_info_cached T m2 t) as (inf & E); auto. rewrite E. cbn [bind].
      destruct (visit_ty_ok T W t [] (Fr t eq_refl) (closed_nil T)) as (s' & E' & C' & I' & H'). { intros x []. }
      rewrite E'. cbn [bind]. exists s'. split; auto. split; auto. intros y. rewrite I'. split.
      + intros [[]|R]. exists t. auto.
      + intros (t' & [= <-] & R). auto.
    - exists []. split; auto. split; [intros x []|]. intros y. split; [intros [] | intros (t & Ht & _); discriminate]. }
  destruct RES as (live2 & E3 & H3 & I3). rewrite E3. cbn [bind].
  destruct (mark_named_ok T set_owned idem_owned live2 H3 m2 P2) as (m4 & E4 & K4 & R4). rewrite E4. cbn [bind].
  assert (P4 : present T m4).
  { intros i Hi. rewrite R4. specialize (P2 i Hi). destruct (im_get m2 i); [discriminate|congruence]. }
  (* everything up to here, per entry *)
  assert (UP : forall j v, im_get m j = Some v ->
     exists v4, im_get m4 j = Some v4 /\ content_eq v4 v /\ error v4 = error v /\
       (borrowed v4 = true <-> borrowed v = true \/
           (imp = true /\ named T j /\ exists p, In p (fparams f) /\ ty_reaches T p j)) /\
       (owned v4 = true <-> owned v = true \/
           (named T j /\ ((imp = false /\ exists p, In p (fparams f) /\ ty_reaches T p j) \/
                          exists t, fresult f = Some t /\ ty_reaches T t j)))).
  { intros j v G. rewrite R4, R2, G. cbn [option_map]. eexists. split; [reflexivity|].
    assert (L1 : mem j live = true <-> exists p, In p (fparams f) /\ ty_reaches T p j).
    { rewrite TypesEqLive.mem_iff, I1. split; [intros [[]|A]; auto | auto]. }
    assert (L2 : mem j live2 = true <-> exists t, fresult f = Some t /\ ty_reaches T t j).
    { rewrite TypesEqLive.mem_iff, I3. tauto. }
    pose proof (namedb_ok T j) as N.
    destruct (mem j live) eqn:M1; destruct (mem j live2) eqn:M2; destruct (namedb T j) eqn:Nb; cbn [andb];
      unfold setf; destruct imp;
      (split; [repeat split; reflexivity|]); (split; [reflexivity|]);
      cbn [borrowed owned set_borrowed set_owned]; split; split;
      try (intros _; tauto); try tauto;
      intros; intuition (try discriminate; try congruence; auto).
  }
  (* the error flag *)
  assert (NOERR : (forall rid d ok e0, fresult f = Some (TId rid) -> lookup T rid = Some d ->
                                      tkind d = KResult ok (Some (TId e0)) -> False) ->
    exists m', ROk m4 = ROk m' /\ present T m' /\ keys m' = keys m /\
    forall j v, im_get m j = Some v -> exists v', im_get m' j = Some v' /\ content_eq v' v /\
        (borrowed v' = true <-> borrowed v = true \/
           (imp = true /\ named T j /\ exists p, In p (fparams f) /\ ty_reaches T p j)) /\
        (owned v' = true <-> owned v = true \/
           (named T j /\ ((imp = false /\ exists p, In p (fparams f) /\ ty_reaches T p j) \/
                          exists t, fresult f = Some t /\ ty_reaches T t j))) /\
        (error v' = true <-> error v = true \/
           exists rid d ok e0, fresult f = Some (TId rid) /\ lookup T rid = Some d /\
                               tkind d = KResult ok (Some (TId e0)) /\ chases T e0 j)).
  { intros NE. exists m4. split; auto. split; auto. split; [congruence|]. intros j v G.
    destruct (UP j v G) as (v4 & G4 & Ce & Ee & Be & Oe). exists v4. split; auto. split; auto. split; auto. split; auto.
    rewrite Ee. split; auto. intros [A|(rid & d & ok & e0 & A1 & A2 & A3 & _)]; auto. exfalso. eapply NE; eauto. }
  destruct (fresult f) as [[p|r]|] eqn:Er;
    try (apply NOERR; intros; discriminate).
  destruct (Fr (TId r) eq_refl) as [dr Lr]. unfold lookup_kind. rewrite Lr. cbn [bind].
  destruct (tkind dr) as [| | | | | | | | |ok er| | | | | | |] eqn:Kr;
    try (apply NOERR; intros rid d ok0 e0 [= <-] L K; rewrite Lr in L; injection L as <-; rewrite Kr in K; discriminate).
  destruct er as [[p|e]|];
    try (apply NOERR; intros rid d ok0 e0 [= <-] L K; rewrite Lr in L; injection L as <-; rewrite Kr in K; discriminate).
  assert (He : has T e).
  { apply (wf_child_ok T r dr (TId e) W Lr). rewrite Kr. cbn [kind_tys]. apply in_somes. cbn. auto. }
  destruct (chase_ok T W (S e) e) as (k & Ek & Ck & Hk); auto. rewrite Ek. cbn [bind].
  unfold im_modify. destruct (im_get m4 k) as [vk|] eqn:Gk; [|exfalso; exact (P4 k Hk Gk)].
  eexists. split; [reflexivity|]. split.
  { intros i Hi. rewrite im_get_update. destruct (k =? i); [rewrite Gk; discriminate | apply P4; auto]. }
  split; [rewrite keys_update; congruence|].
  intros j v G. destruct (UP j v G) as (v4 & G4 & Ce & Ee & Be & Oe).
  rewrite im_get_update. destruct (k =? j) eqn:Ekj.
  - apply Nat.eqb_eq in Ekj. subst j. rewrite G4. cbn [option_map]. eexists. split; [reflexivity|].
    split; [exact Ce|]. split; [exact Be|]. split; [exact Oe|].
    cbn [error set_error]. split; auto. intros _. right. exists r, dr, ok, e. auto.
  - exists v4. split; auto. split; auto. split; auto. split; auto. rewrite Ee. split; auto.
    intros [A|(rid & d & ok0 & e0 & [= <-] & L & K & C)]; auto.
    rewrite Lr in L. injection L as <-. rewrite Kr in K. injection K as <- <-.
    apply Nat.eqb_neq in Ekj. exfalso. apply Ekj. eapply chases_fun; eauto.
Qed.

Lemma content_eq_trans a b c : content_eq a b -> content_eq b c -> content_eq a c.
Proof. unfold content_eq. intuition congruence. Qed.

(** the second loop of [analyze] *)
Lemma analyze_phase2_ok T : wf_table T -> forall fs pre m,
  funcs_wf T fs -> usage_ok T pre m ->
  exists m', fold_res (fun m '(imp, f) => type_info_func T m f imp) fs m = ROk m' /\ usage_ok T (pre ++ fs) m' /\ keys m' = keys m.
Proof.
  intros W. induction fs as [|[imp f] fs IH]; intros pre m Fw U; cbn [fold_res].
  - exists m. rewrite app_nil_r. auto.
  - assert (P : present T m). { intros i Hi. destruct (U i Hi) as (v & G & _). congruence. }
    destruct (type_info_func_ok T m f imp W (Fw imp f (or_introl eq_refl)) P) as (m1 & E1 & P1 & K1 & R1).
    rewrite E1. cbn [bind].
    destruct (IH (pre ++ [(imp, f)]) m1) as (m' & E & U' & K').
    { intros i g Hg. apply (Fw i g). right. auto. }
    { intros i Hi. destruct (U i Hi) as (v & G & Ce & Be & Oe & Ee).
      destruct (R1 i v G) as (v' & G' & Ce' & Be' & Oe' & Ee'). exists v'. split; auto.
      split; [eapply content_eq_trans; eauto|]. split; [|split].
      - rewrite Be', Be. unfold borrowed_in. split.
        + intros [(N & g & p & Hg & Hp & R)|(-> & N & p & Hp & R)].
          * split; auto. exists g, p. split; auto. apply in_or_app. auto.
          * split; auto. exists f, p. split; auto. apply in_or_app. right. left. auto.
        + intros (N & g & p & Hg & Hp & R). apply in_app_or in Hg. destruct Hg as [Hg|[[= <- <-]|[]]].
          * left. split; auto. exists g, p. auto.
          * right. split; auto. split; auto. exists p. auto.
      - rewrite Oe', Oe. unfold owned_in. split.
        + intros [(N & i0 & g & t & Hg & Ht & R)|(N & [(-> & p & Hp & R)|(t & Ht & R)])].
          * split; auto. exists i0, g, t. split; auto. apply in_or_app. auto.
          * split; auto. exists false, f, p. split; [apply in_or_app; right; left; auto|]. split; auto.
          * split; auto. exists imp, f, t. split; [apply in_or_app; right; left; auto|]. split; auto.
        + intros (N & i0 & g & t & Hg & Ht & R). apply in_app_or in Hg. destruct Hg as [Hg|[[= <- <-]|[]]].
          * left. split; auto. exists i0, g, t. auto.
          * right. split; auto. destruct Ht as [[-> Hp]|Ht]; [left; split; auto; exists t; auto | right; exists t; auto].
      - rewrite Ee', Ee. unfold error_in. split.
        + intros [(i0 & g & rid & d & ok & e0 & Hg & A)|(rid & d & ok & e0 & A)].
          * exists i0, g, rid, d, ok, e0. split; auto. apply in_or_app. auto.
          * exists imp, f, rid, d, ok, e0. split; auto. apply in_or_app. right. left. auto.
        + intros (i0 & g & rid & d & ok & e0 & Hg & A). apply in_app_or in Hg. destruct Hg as [Hg|[[= <- <-]|[]]].
          * left. exists i0, g, rid, d, ok, e0. auto.
          * right. exists rid, d, ok, e0. auto. }
    exists m'. split; auto. split; [rewrite <- app_assoc in U'; exact U' | congruence].
Qed.

Definition worlds_ok (T : table) (ws : list world) : Prop := forall w, In w ws -> world_ok T w.

Lemma worlds_funcs_wf T ws : worlds_ok T ws -> funcs_wf T (all_funcs ws).
Proof.
  intros H imp f Hin. unfold all_funcs in Hin. apply in_flat_map in Hin. destruct Hin as (w & Hw & Hf).
  specialize (H w Hw). unfold world_funcs in Hf.
  assert (G : forall its, (forall it, In it its -> item_ok T it) -> forall g, In g (flat_map item_funcs its) -> func_ok T g).
  { intros its Hi g Hg. apply in_flat_map in Hg. destruct Hg as (it & Hit & Hg). specialize (Hi it Hit).
    destruct it as [tys fs|f0|i0]; cbn in Hg, Hi.
    - apply Hi. auto.
    - destruct Hg as [<-|[]]. auto.
    - destruct Hg. }
  apply in_app_or in Hf. destruct Hf as [Hf|Hf]; apply in_map_iff in Hf; destruct Hf as (g & [= _ <-] & Hg).
  - apply (G (wimports w)); auto. intros it Hit. apply H. apply in_or_app. auto.
  - apply (G (wexports w)); auto. intros it Hit. apply H. apply in_or_app. auto.
Qed.

(** [Types::analyze]: never fails; afterwards every type's entry is its specification *)
Theorem analyze_ok T ws : wf_table T -> worlds_ok T ws ->
  exists m, analyze T ws = ROk m /\ usage_ok T (all_funcs ws) m /\ NoDup (keys m).
Proof.
  intros W Hw. unfold analyze. destruct (analyze_phase1_ok T W) as (m1 & E1 & M1 & A1 & B1).
  pose proof (analyze_phase1_nodup T m1 E1) as ND.
  rewrite E1. cbn [bind].
  destruct (analyze_phase2_ok T W (all_funcs ws) [] m1 (worlds_funcs_wf T ws Hw)) as (m & E & U & K).
  - intros i Hi. exists (cinfo T i). split; auto. split; [repeat split|].
    unfold cinfo, cinfo_ty, x_info. cbn [borrowed owned error]. split; [|split].
    + split; [discriminate|]. intros (_ & f & p & [] & _).
    + split; [discriminate|]. intros (_ & i0 & f & t & [] & _).
    + split; [discriminate|]. intros (i0 & f & rid & d & ok & e0 & [] & _).
  - exists m. split; auto. split; auto. rewrite K. exact ND.
Qed.
