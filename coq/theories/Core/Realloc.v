(** Model of the guest allocation entry points of wit-bindgen's Rust guest runtime:
      crates/guest-rust/src/rt/mod.rs      [cabi_realloc], [Cleanup::{new, forget}], [impl Drop for Cleanup]
      crates/rust/src/lib.rs               the [cabi_dealloc] text emitted for RuntimeItem::CabiDealloc
    over an ABSTRACT global allocator (record [allocator]; its GlobalAlloc contract is the Prop
    [contract] in ReallocSpec.v and is a hypothesis of every theorem, never an axiom).

    Definitions only.  usize is modelled as unbounded [N] (sizes in the property's range are far below
    isize::MAX, so [Layout]'s overflow precondition is never in play); a pointer is an [N], null = 0;
    memory is a byte store read with [rd] and written with [fill] (memset).

    Every precondition of an `unsafe` function the code calls is made explicit as a [TUB] outcome, every
    way the code can stop without returning ([handle_alloc_error], [debug_assert_ne!], [unreachable!()])
    is a [trap], so "returns a non-null aligned pointer" is a statement about [Ret]. *)
From Coq Require Import List NArith Bool.
Import ListNotations.
Local Open Scope N_scope.

(** * Blocks and the abstract allocator *)

Record block := mkblock { b_ptr : N; b_size : N; b_align : N }.

Definition block_eqb (a b : block) : bool :=
  (b_ptr a =? b_ptr b) && (b_size a =? b_size b) && (b_align a =? b_align b).

Definition mem_block (b : block) (l : list block) : bool := existsb (block_eqb b) l.

Fixpoint remove_block (b : block) (l : list block) : list block :=
  match l with
  | [] => []
  | x :: r => if block_eqb b x then r else x :: remove_block b r
  end.

(** [Layout]'s alignment invariant: a power of two (in particular non-zero). *)
Definition is_pow2 (a : N) : bool := a =? 2 ^ N.log2 a.

(** The global allocator and the memory it lives in.  [live] is a ghost view: the blocks currently
    allocated (pointer, size, alignment they were allocated with). *)
Record allocator : Type := {
  heap : Type;
  live : heap -> list block;
  rd : heap -> N -> N;
  fill : heap -> N -> N -> N -> heap;                 (* memset: ptr, len, byte *)
  h_alloc : heap -> N -> N -> heap * N;               (* GlobalAlloc::alloc(Layout{size, align}) *)
  h_realloc : heap -> N -> N -> N -> N -> heap * N;   (* GlobalAlloc::realloc(ptr, Layout{old, align}, new) *)
  h_dealloc : heap -> N -> N -> N -> heap             (* GlobalAlloc::dealloc(ptr, Layout{size, align}) *)
}.

(** Calls the modelled code makes to the global allocator (what the checking allocator of the
    harness records on the real side). *)
Inductive acall :=
| ACalloc (size align res : N)
| ACrealloc (ptr old align new res : N)
| ACdealloc (ptr size align : N).

Inductive ub :=
| UBAlign      (* Layout::from_size_align_unchecked with an alignment that is not a power of two *)
| UBNotLive    (* realloc/dealloc of something that is not a live block with exactly that layout *)
| UBZeroSize.  (* GlobalAlloc::realloc with new_size = 0 *)

Inductive trap :=
| TAllocError (size align : N)   (* alloc::handle_alloc_error(layout): the process/instance aborts *)
| TDebugAssert                    (* debug_assert_ne!(new_len, 0, "non-zero old_len requires non-zero new_len!") *)
| TUnreachable                    (* release build: wasm `unreachable` / unreachable!() *)
| TUB (why : ub).

Inductive outcome := Ret (p : N) | Trap (t : trap).

(** * Histories

    A history is a list of requests made by the host (through the exported allocation entry point),
    by generated bindings (scratch allocations, deallocation after lifting / in post-return) and of
    plain stores/loads into blocks.  Pointers are never written down in a history: a request names
    an earlier result by its index in the table of results ([PBlk k]); [PLit] is a literal address,
    meaningful only where the code ignores the pointer ([old_len = 0], [size = 0]). *)

Inductive pref := PBlk (k : nat) | PLit (p : N).

Inductive op :=
| ORealloc (p : pref) (old_len align new_len : N)   (* cabi_realloc *)
| OWrite (k : nat) (off v : N)                      (* store one byte into block k *)
| ORead (k : nat) (off : N)                         (* load one byte from block k *)
| ONew (size align : N)                             (* Cleanup::new(Layout{size,align}) *)
| ODrop (i : nat)                                   (* drop of the i-th Cleanup *)
| OForget (i : nat)                                 (* i-th Cleanup .forget(): block handed over, joins the table *)
| ODealloc (p : pref) (size align : N).             (* cabi_dealloc *)

Inductive out :=
| XRet (p : N) (calls : list acall)
| XTrap (t : trap) (calls : list acall)
| XByte (v : N)
| XNew (p : N) (some : bool) (calls : list acall)
| XUnit (calls : list acall)
| XInvalid.   (* the op names a table entry / Cleanup that does not exist (any more): not a history *)


Section Model.
  Variable A : allocator.
  (** [cfg!(debug_assertions)] of the crate that contains the function. *)
  Variable debug : bool.

  (** What the code does with a null pointer from the allocator.  NB: it reports [layout], which on the
      realloc path is the OLD layout. *)
  Definition null_trap (size align : N) : trap :=
    if debug then TAllocError size align else TUnreachable.

  (** [pub unsafe fn cabi_realloc(old_ptr, old_len, align, new_len) -> *mut u8] *)
  Definition cabi_realloc (h : heap A) (old_ptr old_len align new_len : N)
    : heap A * outcome * list acall :=
    if old_len =? 0 then
      if new_len =? 0 then (h, Ret align, [])                            (* return align as *mut u8 *)
      else if negb (is_pow2 align) then (h, Trap (TUB UBAlign), [])      (* from_size_align_unchecked(new_len, align) *)
      else
        let '(h', p) := h_alloc A h new_len align in                     (* allocate(layout) *)
        let calls := [ACalloc new_len align p] in
        if p =? 0 then (h', Trap (null_trap new_len align), calls) else (h', Ret p, calls)
    else
      if (new_len =? 0) && debug then (h, Trap TDebugAssert, [])         (* debug_assert_ne!(new_len, 0) *)
      else if negb (is_pow2 align) then (h, Trap (TUB UBAlign), [])      (* from_size_align_unchecked(old_len, align) *)
      else if negb (mem_block (mkblock old_ptr old_len align) (live A h))
           then (h, Trap (TUB UBNotLive), [])                            (* realloc's safety contract *)
      else if new_len =? 0 then (h, Trap (TUB UBZeroSize), [])           (* realloc's safety contract *)
      else
        let '(h', p) := h_realloc A h old_ptr old_len align new_len in   (* realloc(old_ptr, layout, new_len) *)
        let calls := [ACrealloc old_ptr old_len align new_len p] in
        if p =? 0 then (h', Trap (null_trap old_len align), calls) else (h', Ret p, calls).

  (** [pub unsafe fn cabi_dealloc(ptr, size, align)] as emitted into generated bindings. *)
  Definition cabi_dealloc (h : heap A) (ptr size align : N) : heap A * option trap * list acall :=
    if size =? 0 then (h, None, [])
    else if negb (is_pow2 align) then (h, Some (TUB UBAlign), [])
    else if negb (mem_block (mkblock ptr size align) (live A h)) then (h, Some (TUB UBNotLive), [])
    else (h_dealloc A h ptr size align, None, [ACdealloc ptr size align]).

  (** [Cleanup::new(layout) -> (ptr, Option<Cleanup>)]; a [Cleanup] is the block it owns.
      [layout] is a safe [Layout], so its alignment is a power of two by type invariant
      (callers of the model supply that; see [op_valid]). *)
  Definition cleanup_new (h : heap A) (size align : N)
    : heap A * (N * option block + trap) * list acall :=
    if size =? 0 then (h, inl (0, None), [])                             (* (ptr::null_mut(), None) *)
    else
      let '(h', p) := h_alloc A h size align in
      let calls := [ACalloc size align p] in
      if p =? 0 then (h', inr (TAllocError size align), calls)           (* handle_alloc_error(layout) *)
      else (h', inl (p, Some (mkblock p size align)), calls).

  (** [impl Drop for Cleanup]: overwrite the block with 0xff, then dealloc(ptr, layout). *)
  Definition cleanup_drop (h : heap A) (c : block) : heap A * list acall :=
    let h1 := fill A h (b_ptr c) (b_size c) 255 in
    (h_dealloc A h1 (b_ptr c) (b_size c) (b_align c), [ACdealloc (b_ptr c) (b_size c) (b_align c)]).

  (** [Cleanup::forget(self)] = core::mem::forget: no allocator call, the block stays allocated. *)
  Definition cleanup_forget (h : heap A) (c : block) : heap A * list acall := (h, []).

  Record state := mkstate {
    st_heap : heap A;
    st_tab : list (option block);   (* k-th result block; None once it has been reallocated/deallocated *)
    st_hs : list (option block)     (* i-th Cleanup::new: Some while the Cleanup value exists *)
  }.

  Fixpoint set_none (k : nat) (l : list (option block)) : list (option block) :=
    match l, k with
    | [], _ => []
    | _ :: r, O => None :: r
    | x :: r, S k' => x :: set_none k' r
    end.

  Definition entry (l : list (option block)) (k : nat) : option block :=
    match nth_error l k with Some (Some b) => Some b | _ => None end.

  Definition resolve (tab : list (option block)) (p : pref) : option N :=
    match p with
    | PLit v => Some v
    | PBlk k => option_map b_ptr (entry tab k)
    end.

  Definition retire (tab : list (option block)) (p : pref) : list (option block) :=
    match p with PBlk k => set_none k tab | PLit _ => tab end.

  Definition is_lit (p : pref) : bool := match p with PLit _ => true | PBlk _ => false end.

  Definition step (s : state) (o : op) : state * out :=
    let h := st_heap s in
    let tab := st_tab s in
    let hs := st_hs s in
    match o with
    | ORealloc pr old_len align new_len =>
        if is_lit pr && negb (old_len =? 0) then (s, XInvalid) else
        match resolve tab pr with
        | None => (s, XInvalid)
        | Some ptr =>
            let '(h', res, calls) := cabi_realloc h ptr old_len align new_len in
            match res with
            | Trap t => (mkstate h' tab hs, XTrap t calls)
            | Ret p =>
                let tab1 := if old_len =? 0 then tab else retire tab pr in
                (mkstate h' (tab1 ++ [Some (mkblock p new_len align)]) hs, XRet p calls)
            end
        end
    | OWrite k off v =>
        match entry tab k with
        | Some b => if off <? b_size b
                    then (mkstate (fill A h (b_ptr b + off) 1 v) tab hs, XUnit [])
                    else (s, XInvalid)
        | None => (s, XInvalid)
        end
    | ORead k off =>
        match entry tab k with
        | Some b => if off <? b_size b then (s, XByte (rd A h (b_ptr b + off))) else (s, XInvalid)
        | None => (s, XInvalid)
        end
    | ONew size align =>
        if negb (is_pow2 align) then (s, XInvalid) else
        let '(h', res, calls) := cleanup_new h size align in
        match res with
        | inr t => (mkstate h' tab hs, XTrap t calls)
        | inl (p, c) => (mkstate h' tab (hs ++ [c]), XNew p (match c with Some _ => true | None => false end) calls)
        end
    | ODrop i =>
        match entry hs i with
        | Some c => let '(h', calls) := cleanup_drop h c in (mkstate h' tab (set_none i hs), XUnit calls)
        | None => (s, XInvalid)
        end
    | OForget i =>
        match entry hs i with
        | Some c => let '(h', calls) := cleanup_forget h c in
                    (mkstate h' (tab ++ [Some c]) (set_none i hs), XUnit calls)
        | None => (s, XInvalid)
        end
    | ODealloc pr size align =>
        if is_lit pr && negb (size =? 0) then (s, XInvalid) else
        match resolve tab pr with
        | None => (s, XInvalid)
        | Some ptr =>
            let '(h', t, calls) := cabi_dealloc h ptr size align in
            match t with
            | Some t => (mkstate h' tab hs, XTrap t calls)
            | None => (mkstate h' (if size =? 0 then tab else retire tab pr) hs, XUnit calls)
            end
        end
    end.

  Definition stops (x : out) : bool :=
    match x with XTrap _ _ => true | XInvalid => true | _ => false end.

  (** The run of a history: every step with its pre- and post-state; a trap (the instance is gone)
      or an ill-formed op ends it. *)
  Fixpoint trace (s : state) (ops : list op) : list (state * op * out * state) :=
    match ops with
    | [] => []
    | o :: r => let '(s', x) := step s o in
                (s, o, x, s') :: (if stops x then [] else trace s' r)
    end.

  (** The state the history ends in. *)
  Fixpoint final (s : state) (ops : list op) : state :=
    match ops with
    | [] => s
    | o :: r => let '(s', x) := step s o in if stops x then s' else final s' r
    end.

  Definition init (h : heap A) : state := mkstate h [] [].
End Model.


Arguments st_heap {A} s.
Arguments st_tab {A} s.
Arguments st_hs {A} s.
Arguments mkstate {A} _ _ _.
