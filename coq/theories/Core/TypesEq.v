(** Model of crates/core/src/types.rs ([Types], [TypeInfo], [UnionFind]) and of the part of
    wit-parser's [LiveTypes] it calls.  DEFINITIONS ONLY (proofs are in TypesEqUF/Eq/Collect/Facts).

    A [Resolve] is seen as a type *table*: position = [TypeId] (arena index), entry = is the type
    named + its [TypeDefKind]; plus the worlds' items (interfaces with their types and functions,
    freestanding functions, types).  Names of types, docs, owners, stability are not consulted by
    types.rs and are not in the table; field / case / flag names are.

    Every site where the Rust code can panic or loop is an explicit [RErr]:
      EFuel (recursion did not end within the fuel — proved impossible on well-founded tables),
      EBadId ([resolve.types[id]] out of bounds), EUnreachable ([unreachable!()] on
      [TypeDefKind::Unknown]), EAssert ([assert!(prev.is_none())], [assert!(set.insert(id))]),
      EUnwrap ([type_info.get_mut(&id).unwrap()], [self.type_info[&id]]). *)
From Coq Require Import List String Bool Arith NArith.
Import ListNotations.

(* ------------------------------------------------------------------------------------------ *)
(** * Type tables *)

Inductive prim := PBool | PU8 | PU16 | PU32 | PU64 | PS8 | PS16 | PS32 | PS64
                | PF32 | PF64 | PChar | PString | PErrCtx.

Definition tid := nat.

Inductive ty := TPrim (p : prim) | TId (i : tid).

Inductive kind :=
| KRecord (fields : list (string * ty))
| KResource
| KOwn (r : tid) | KBorrow (r : tid)                  (* Handle(Own r) / Handle(Borrow r) *)
| KFlags (names : list string)
| KTuple (ts : list ty)
| KVariant (cases : list (string * option ty))
| KEnum (names : list string)
| KOption (t : ty)
| KResult (ok err : option ty)
| KList (t : ty)
| KFixed (t : ty) (len : N)
| KMap (k v : ty)
| KFuture (t : option ty)
| KStream (t : option ty)
| KType (t : ty)                                     (* `type a = b`, `use i.{b}` *)
| KUnknown.

Record tdef := { tnamed : bool; tkind : kind }.
Definition table := list tdef.

Inductive err := EFuel | EBadId | EUnreachable | EAssert | EUnwrap.
Inductive res (A : Type) := ROk (a : A) | RErr (e : err).
Arguments ROk {A} a.
Arguments RErr {A} e.

Definition bind {A B} (r : res A) (f : A -> res B) : res B :=
  match r with ROk a => f a | RErr e => RErr e end.
Notation "x <- r ;; k" := (bind r (fun x => k)) (at level 61, r at next level, right associativity).
Notation "' p <- r ;; k" := (bind r (fun p => k))
  (at level 61, p pattern, r at next level, right associativity).

Definition lookup (T : table) (i : tid) : option tdef := nth_error T i.
Definition lookup_kind (T : table) (i : tid) : res kind :=
  match lookup T i with Some d => ROk (tkind d) | None => RErr EBadId end.

Definition prim_eqb (p q : prim) : bool :=
  match p, q with
  | PBool, PBool | PU8, PU8 | PU16, PU16 | PU32, PU32 | PU64, PU64 | PS8, PS8 | PS16, PS16
  | PS32, PS32 | PS64, PS64 | PF32, PF32 | PF64, PF64 | PChar, PChar | PString, PString
  | PErrCtx, PErrCtx => true
  | _, _ => false
  end.

Definition alias_of (k : kind) : option ty := match k with KType t => Some t | _ => None end.

Fixpoint mem (x : tid) (l : list tid) : bool :=
  match l with [] => false | y :: r => (x =? y) || mem x r end.

(* ------------------------------------------------------------------------------------------ *)
(** * UnionFind { parent: HashMap<TypeId, TypeId> }
    The map is an association list, newest binding first ([insert] shadows). *)

Definition uf := list (tid * tid).
Definition uf_empty : uf := [].

Fixpoint uf_get (u : uf) (x : tid) : option tid :=
  match u with
  | [] => None
  | (k, v) :: r => if k =? x then Some v else uf_get r x
  end.

(** [self.parent.get(&id).copied().unwrap_or(id)] *)
Definition uf_parent (u : uf) (x : tid) : tid :=
  match uf_get u x with Some p => p | None => x end.

(** [find] with its path compression; every binding ever inserted has parent < child, so the
    recursion depth from [x] is at most [x]: [uf_find] runs it with fuel [S x]. *)
Fixpoint uf_find_f (fuel : nat) (u : uf) (x : tid) : res (tid * uf) :=
  match fuel with
  | O => RErr EFuel
  | S f =>
      let p := uf_parent u x in
      if p =? x then ROk (x, u)
      else '(root, u') <- uf_find_f f u p ;; ROk (root, (x, root) :: u')
  end.
Definition uf_find (u : uf) (x : tid) : res (tid * uf) := uf_find_f (S x) u x.

Definition uf_union (u : uf) (a b : tid) : res uf :=
  '(ra, u1) <- uf_find u a ;;
  '(rb, u2) <- uf_find u1 b ;;
  if ra =? rb then ROk u2
  else if ra <? rb then ROk ((rb, ra) :: u2)       (* smaller id becomes the root *)
  else ROk ((ra, rb) :: u2).

(* ------------------------------------------------------------------------------------------ *)
(** * is_structurally_equal / types_equal / type_id_equal_to_type / optional_types_equal
    One fuelled function over a query type instead of four mutually recursive methods; every call
    threads the union-find (each [find] compresses paths).  [Iterator::all] and [&&] stop at the
    first [false]. *)

Inductive query :=
| QIds (a b : tid)            (* is_structurally_equal(a, b) *)
| QTys (a b : ty)             (* types_equal(a, b) *)
| QIdTy (a : tid) (b : ty).   (* type_id_equal_to_type(a, b) *)

Fixpoint all_st {A} (f : A -> uf -> res (bool * uf)) (l : list A) (u : uf) : res (bool * uf) :=
  match l with
  | [] => ROk (true, u)
  | x :: r => '(b, u') <- f x u ;; if b then all_st f r u' else ROk (false, u')
  end.

Definition and_st (f g : uf -> res (bool * uf)) (u : uf) : res (bool * uf) :=
  '(b, u') <- f u ;; if b then g u' else ROk (false, u').

Fixpoint code_eq (T : table) (fuel : nat) (u : uf) (q : query) {struct fuel} : res (bool * uf) :=
  match fuel with
  | O => RErr EFuel
  | S f =>
    let tys (a b : ty) (u : uf) := code_eq T f u (QTys a b) in
    let otys (a b : option ty) (u : uf) :=            (* optional_types_equal *)
      match a, b with
      | Some a, Some b => tys a b u
      | None, None => ROk (true, u)
      | _, _ => ROk (false, u)
      end in
    match q with
    | QTys a b =>
        match a, b with
        | TId a, b => code_eq T f u (QIdTy a b)
        | a, TId b => code_eq T f u (QIdTy b a)
        | TPrim p, TPrim q => ROk (prim_eqb p q, u)
        end
    | QIdTy a b =>
        ka <- lookup_kind T a ;;
        match alias_of ka with
        | Some ta => tys ta b u
        | None => match b with
                  | TId b => code_eq T f u (QIds a b)
                  | TPrim _ => ROk (false, u)
                  end
        end
    | QIds a b =>
        ka <- lookup_kind T a ;;
        kb <- lookup_kind T b ;;
        '(ra, u1) <- uf_find u a ;;
        '(rb, u2) <- uf_find u1 b ;;
        if ra =? rb then ROk (true, u2) else
        match alias_of ka with
        | Some ta => code_eq T f u2 (QIdTy b ta)      (* (TypeDefKind::Type(a), _) *)
        | None =>
        match alias_of kb with
        | Some tb => code_eq T f u2 (QIdTy a tb)      (* (_, TypeDefKind::Type(b)) *)
        | None =>
        match ka with
        | KRecord fa =>
            match kb with
            | KRecord fb =>
                if List.length fa =? List.length fb then
                  all_st (fun p u => if String.eqb (fst (fst p)) (fst (snd p))
                                     then tys (snd (fst p)) (snd (snd p)) u else ROk (false, u))
                         (combine fa fb) u2
                else ROk (false, u2)
            | _ => ROk (false, u2)
            end
        | KVariant ca =>
            match kb with
            | KVariant cb =>
                if List.length ca =? List.length cb then
                  all_st (fun p u => if String.eqb (fst (fst p)) (fst (snd p))
                                     then otys (snd (fst p)) (snd (snd p)) u else ROk (false, u))
                         (combine ca cb) u2
                else ROk (false, u2)
            | _ => ROk (false, u2)
            end
        | KEnum na =>
            match kb with
            | KEnum nb =>
                ROk ((List.length na =? List.length nb)
                     && forallb (fun p => String.eqb (fst p) (snd p)) (combine na nb), u2)
            | _ => ROk (false, u2)
            end
        | KFlags na =>
            match kb with
            | KFlags nb =>
                ROk ((List.length na =? List.length nb)
                     && forallb (fun p => String.eqb (fst p) (snd p)) (combine na nb), u2)
            | _ => ROk (false, u2)
            end
        | KTuple ta =>
            match kb with
            | KTuple tb =>
                if List.length ta =? List.length tb then
                  all_st (fun p u => tys (fst p) (snd p) u) (combine ta tb) u2
                else ROk (false, u2)
            | _ => ROk (false, u2)
            end
        | KList la => match kb with KList lb => tys la lb u2 | _ => ROk (false, u2) end
        | KFixed ta sa =>
            match kb with
            | KFixed tb sb => if N.eqb sa sb then tys ta tb u2 else ROk (false, u2)
            | _ => ROk (false, u2)
            end
        | KOption oa => match kb with KOption ob => tys oa ob u2 | _ => ROk (false, u2) end
        | KResult oka era =>
            match kb with
            | KResult okb erb => and_st (otys oka okb) (otys era erb) u2
            | _ => ROk (false, u2)
            end
        | KMap ak av =>
            match kb with
            | KMap bk bv => and_st (tys ak bk) (tys av bv) u2
            | _ => ROk (false, u2)
            end
        | KFuture pa => match kb with KFuture pb => otys pa pb u2 | _ => ROk (false, u2) end
        | KStream pa => match kb with KStream pb => otys pa pb u2 | _ => ROk (false, u2) end
        | KOwn ha => match kb with KOwn hb => code_eq T f u2 (QIds ha hb) | _ => ROk (false, u2) end
        | KBorrow ha =>
            match kb with KBorrow hb => code_eq T f u2 (QIds ha hb) | _ => ROk (false, u2) end
        | KUnknown => RErr EUnreachable
        | KResource => match kb with KResource => ROk (a =? b, u2) | _ => ROk (false, u2) end
        | KType _ => RErr EUnreachable (* not reachable: handled above *)
        end end end
    end
  end.

(** Fuel that is enough for [is_structurally_equal(a, b)] on a table whose definitions refer to
    smaller ids only (TypesEqEq.code_eq_correct): three call stages per unit of weight. *)
Definition eq_fuel (a b : tid) : nat := 3 * (a + b + 2) + 1.

Definition is_structurally_equal (T : table) (u : uf) (a b : tid) : res (bool * uf) :=
  code_eq T (eq_fuel a b) u (QIds a b).

(* ------------------------------------------------------------------------------------------ *)
(** * collect_equal_types: the two nested loops over the live-type list *)

(** [for earlier in live_types.iter().take(i)] for one [ty]; [break] after the first union. *)
Fixpoint earlier_loop (T : table) (u : uf) (t : tid) (earlier : list tid) : res uf :=
  match earlier with
  | [] => ROk u
  | e :: rest =>
      '(rt, u1) <- uf_find u t ;;
      '(re, u2) <- uf_find u1 e ;;
      if rt =? re then earlier_loop T u2 t rest
      else
        '(b, u3) <- is_structurally_equal T u2 t e ;;
        if b then uf_union u3 t e else earlier_loop T u3 t rest
  end.

(** outer loop; [done] = the types already visited (= [live.iter().take(i)]), in order. *)
Fixpoint collect_loop (T : table) (may : tid -> bool) (u : uf) (done todo : list tid) : res uf :=
  match todo with
  | [] => ROk u
  | t :: rest =>
      u' <- (if may t then earlier_loop T u t done else ROk u) ;;
      collect_loop T may u' (done ++ [t]) rest
  end.

Definition collect_unions (T : table) (may : tid -> bool) (u : uf) (live : list tid) : res uf :=
  collect_loop T may u [] live.

(* ------------------------------------------------------------------------------------------ *)
(** * wit_parser::LiveTypes (IndexSet in insertion order; post-order DFS with a visited check) *)

Fixpoint fold_res {A S} (f : S -> A -> res S) (l : list A) (s : S) : res S :=
  match l with [] => ROk s | x :: r => s' <- f s x ;; fold_res f r s' end.

Definition somes {A} (l : list (option A)) : list A :=
  flat_map (fun o => match o with Some a => [a] | None => [] end) l.

(** the [Type]s a definition mentions, in the order [visit_type_def] walks them (handles: the
    resource id) *)
Definition kind_tys (k : kind) : list ty :=
  match k with
  | KRecord fs => map snd fs
  | KResource | KFlags _ | KEnum _ | KUnknown => []
  | KOwn r | KBorrow r => [TId r]
  | KTuple ts => ts
  | KVariant cs => somes (map snd cs)
  | KOption t | KList t | KFixed t _ | KType t => [t]
  | KResult a b => somes [a; b]
  | KMap k v => [k; v]
  | KFuture o | KStream o => somes [o]
  end.

Fixpoint visit_id (T : table) (fuel : nat) (s : list tid) (i : tid) : res (list tid) :=
  match fuel with
  | O => RErr EFuel
  | S f =>
      if mem i s then ROk s                              (* before_visit_type_id *)
      else
        k <- lookup_kind T i ;;
        match k with
        | KUnknown => RErr EUnreachable
        | _ =>
          s' <- fold_res (fun s t => match t with TId j => visit_id T f s j | TPrim _ => ROk s end)
                         (kind_tys k) s ;;
          if mem i s' then RErr EAssert else ROk (s' ++ [i])   (* assert!(self.set.insert(id)) *)
        end
  end.

Definition visit_ty (T : table) (s : list tid) (t : ty) : res (list tid) :=
  match t with TId j => visit_id T (S j) s j | TPrim _ => ROk s end.

Record func := { fstatic : option tid;        (* Static / AsyncStatic: the resource *)
                 fparams : list ty;
                 fresult : option ty }.

Inductive witem :=
| IInterface (types : list tid) (funcs : list func)
| IFunc (f : func)
| IType (i : tid).

Record world := { wimports : list witem; wexports : list witem }.

Definition visit_func (T : table) (s : list tid) (f : func) : res (list tid) :=
  s1 <- match fstatic f with Some r => visit_ty T s (TId r) | None => ROk s end ;;
  s2 <- fold_res (visit_ty T) (fparams f) s1 ;;
  match fresult f with Some t => visit_ty T s2 t | None => ROk s2 end.

Definition visit_item (T : table) (s : list tid) (it : witem) : res (list tid) :=
  match it with
  | IInterface tys fs =>
      s1 <- fold_res (fun s i => visit_ty T s (TId i)) tys s ;;
      fold_res (visit_func T) fs s1
  | IFunc f => visit_func T s f
  | IType i => visit_ty T s (TId i)
  end.

(** [LiveTypes::default().add_world(resolve, world)] then [iter()] *)
Definition live_world (T : table) (w : world) : res (list tid) :=
  fold_res (visit_item T) (wimports w ++ wexports w) [].

(* ------------------------------------------------------------------------------------------ *)
(** * TypeInfo and Types::analyze *)

Record info := { borrowed : bool; owned : bool; error : bool; has_list : bool; has_tuple : bool;
                 has_resource : bool; has_borrow_handle : bool; has_own_handle : bool }.

Definition info0 : info := Build_info false false false false false false false false.

Definition info_or (a b : info) : info :=           (* BitOrAssign *)
  {| borrowed := borrowed a || borrowed b; owned := owned a || owned b; error := error a || error b;
     has_list := has_list a || has_list b; has_tuple := has_tuple a || has_tuple b;
     has_resource := has_resource a || has_resource b;
     has_borrow_handle := has_borrow_handle a || has_borrow_handle b;
     has_own_handle := has_own_handle a || has_own_handle b |}.

Definition set_borrowed (i : info) : info :=
  Build_info true (owned i) (error i) (has_list i) (has_tuple i) (has_resource i)
             (has_borrow_handle i) (has_own_handle i).
Definition set_owned (i : info) : info :=
  Build_info (borrowed i) true (error i) (has_list i) (has_tuple i) (has_resource i)
             (has_borrow_handle i) (has_own_handle i).
Definition set_error (i : info) : info :=
  Build_info (borrowed i) (owned i) true (has_list i) (has_tuple i) (has_resource i)
             (has_borrow_handle i) (has_own_handle i).
Definition set_has_list (i : info) : info :=
  Build_info (borrowed i) (owned i) (error i) true (has_tuple i) (has_resource i)
             (has_borrow_handle i) (has_own_handle i).
Definition set_has_tuple (i : info) : info :=
  Build_info (borrowed i) (owned i) (error i) (has_list i) true (has_resource i)
             (has_borrow_handle i) (has_own_handle i).
Definition set_has_resource (i : info) : info :=
  Build_info (borrowed i) (owned i) (error i) (has_list i) (has_tuple i) true
             (has_borrow_handle i) (has_own_handle i).
Definition set_has_borrow (i : info) : info :=
  Build_info (borrowed i) (owned i) (error i) (has_list i) (has_tuple i) (has_resource i)
             true (has_own_handle i).
Definition set_has_own (i : info) : info :=
  Build_info (borrowed i) (owned i) (error i) (has_list i) (has_tuple i) (has_resource i)
             (has_borrow_handle i) true.

(** [type_info: HashMap<TypeId, TypeInfo>]: association list with unique keys ([insert] happens
    only after a failed [get] and is asserted fresh; [get_mut] updates in place). *)
Definition imap := list (tid * info).

Fixpoint im_get (m : imap) (i : tid) : option info :=
  match m with [] => None | (k, v) :: r => if k =? i then Some v else im_get r i end.

Fixpoint im_update (m : imap) (i : tid) (f : info -> info) : imap :=
  match m with
  | [] => []
  | (k, v) :: r => if k =? i then (k, f v) :: r else (k, v) :: im_update r i f
  end.

(** [self.type_info.get_mut(&id).unwrap()] followed by a field assignment *)
Definition im_modify (m : imap) (i : tid) (f : info -> info) : res imap :=
  match im_get m i with Some _ => ROk (im_update m i f) | None => RErr EUnwrap end.

(** [info |= g(x)] for each x, threading the memo table *)
Fixpoint or_infos {A} (g : A -> imap -> res (info * imap)) (l : list A) (acc : info) (m : imap)
  : res (info * imap) :=
  match l with
  | [] => ROk (acc, m)
  | x :: r => '(i, m') <- g x m ;; or_infos g r (info_or acc i) m'
  end.

(** [type_id_info] (memoised) with [type_info] / [optional_type_info] inlined as [tinfo]/[oinfo]. *)
Fixpoint type_id_info (T : table) (fuel : nat) (m : imap) (i : tid) : res (info * imap) :=
  match fuel with
  | O => RErr EFuel
  | S f =>
      match im_get m i with
      | Some inf => ROk (inf, m)
      | None =>
          let tinfo (t : ty) (m : imap) : res (info * imap) :=
            match t with
            | TPrim PString => ROk (set_has_list info0, m)
            | TPrim PErrCtx => ROk (set_has_resource info0, m)
            | TPrim _ => ROk (info0, m)
            | TId j => type_id_info T f m j
            end in
          let oinfo (o : option ty) (m : imap) : res (info * imap) :=
            match o with Some t => tinfo t m | None => ROk (info0, m) end in
          k <- lookup_kind T i ;;
          '(inf, m') <-
            match k with
            | KRecord fs => or_infos (fun p => tinfo (snd p)) fs info0 m
            | KResource => ROk (set_has_resource info0, m)
            | KBorrow _ => ROk (set_has_resource (set_has_borrow info0), m)
            | KOwn _ => ROk (set_has_resource (set_has_own info0), m)
            | KTuple ts => '(x, m') <- or_infos tinfo ts info0 m ;; ROk (set_has_tuple x, m')
            | KFlags _ | KEnum _ => ROk (info0, m)
            | KVariant cs => or_infos (fun p => oinfo (snd p)) cs info0 m
            | KList t => '(x, m') <- tinfo t m ;; ROk (set_has_list x, m')
            | KType t | KOption t | KFixed t _ => tinfo t m
            | KResult a b =>
                '(x, m1) <- oinfo a m ;; '(y, m2) <- oinfo b m1 ;; ROk (info_or x y, m2)
            | KFuture _ | KStream _ => ROk (set_has_own (set_has_resource info0), m)
            | KMap k v =>
                '(x, m1) <- tinfo k m ;; '(y, m2) <- tinfo v m1 ;; ROk (set_has_list (info_or x y), m2)
            | KUnknown => RErr EUnreachable
            end ;;
          match im_get m' i with                  (* let prev = insert(..); assert!(prev.is_none()) *)
          | Some _ => RErr EAssert
          | None => ROk (inf, (i, inf) :: m')
          end
      end
  end.

(** [type_info(&Type)] as called from outside the recursion *)
Definition type_info (T : table) (m : imap) (t : ty) : res (info * imap) :=
  match t with
  | TPrim PString => ROk (set_has_list info0, m)
  | TPrim PErrCtx => ROk (set_has_resource info0, m)
  | TPrim _ => ROk (info0, m)
  | TId j => type_id_info T (S j) m j
  end.

(** [resolve_type_definition_id]: chase [TypeDefKind::Type(Type::Id(_))] links *)
Fixpoint chase (T : table) (fuel : nat) (i : tid) : res tid :=
  match fuel with
  | O => RErr EFuel
  | S f =>
      k <- lookup_kind T i ;;
      match k with KType (TId d) => chase T f d | _ => ROk i end
  end.

Definition is_named (T : table) (i : tid) : res bool :=
  match lookup T i with Some d => ROk (tnamed d) | None => RErr EBadId end.

(** the two [for id in live.iter() { if name.is_some() { get_mut(id).unwrap().X = true } }] loops *)
Definition mark_named (T : table) (setf : info -> info) (live : list tid) (m : imap) : res imap :=
  fold_res (fun m i => n <- is_named T i ;; if n then im_modify m i setf else ROk m) live m.

Definition type_info_func (T : table) (m : imap) (f : func) (import : bool) : res imap :=
  '(m1, live) <- fold_res (fun '(m, live) t =>
                             '(_, m') <- type_info T m t ;;
                             live' <- visit_ty T live t ;; ROk (m', live'))
                          (fparams f) (m, []) ;;
  m2 <- mark_named T (if import then set_borrowed else set_owned) live m1 ;;
  '(m3, live2) <- match fresult f with
                  | Some t => '(_, m') <- type_info T m2 t ;;
                              live' <- visit_ty T [] t ;; ROk (m', live')
                  | None => ROk (m2, [])
                  end ;;
  m4 <- mark_named T set_owned live2 m3 ;;
  match fresult f with
  | Some (TId r) =>
      k <- lookup_kind T r ;;
      match k with
      | KResult _ (Some (TId e)) => d <- chase T (S e) e ;; im_modify m4 d set_error
      | _ => ROk m4
      end
  | _ => ROk m4
  end.

Definition item_funcs (it : witem) : list func :=
  match it with IInterface _ fs => fs | IFunc f => [f] | IType _ => [] end.

(** the functions [analyze] looks at, with their direction, in its order: for every world, the
    imports (import = true) then the exports (import = false) *)
Definition world_funcs (w : world) : list (bool * func) :=
  map (fun f => (true, f)) (flat_map item_funcs (wimports w))
  ++ map (fun f => (false, f)) (flat_map item_funcs (wexports w)).

Definition all_funcs (ws : list world) : list (bool * func) := flat_map world_funcs ws.

Definition analyze (T : table) (ws : list world) : res imap :=
  m1 <- fold_res (fun m i => '(_, m') <- type_id_info T (S i) m i ;; ROk m') (seq 0 (List.length T)) [] ;;
  fold_res (fun m '(imp, f) => type_info_func T m f imp) (all_funcs ws) m1.

(** [Types::get] *)
Definition get_info (m : imap) (i : tid) : res info :=
  match im_get m i with Some x => ROk x | None => RErr EUnwrap end.

(* ------------------------------------------------------------------------------------------ *)
(** * The merge of TypeInfo at the end of collect_equal_types.
    [merged: HashMap<TypeId, TypeInfo>] keyed by representative; the HashMap iteration order over
    [self.type_info] is unspecified in Rust — here the association-list order; the result does not
    depend on it (TypesEqFacts.merge_spec). *)

Definition mg_or (mg : imap) (rep : tid) (inf : info) : imap :=   (* *entry(rep).or_default() |= inf *)
  match im_get mg rep with
  | Some _ => im_update mg rep (fun x => info_or x inf)
  | None => (rep, info_or info0 inf) :: mg
  end.

Fixpoint merge_pass1 (u : uf) (m : imap) (mg : imap) : res (imap * uf) :=
  match m with
  | [] => ROk (mg, u)
  | (i, inf) :: r => '(rep, u') <- uf_find u i ;; merge_pass1 u' r (mg_or mg rep inf)
  end.

Fixpoint merge_pass2 (u : uf) (m : imap) (mg : imap) : res (imap * uf) :=
  match m with
  | [] => ROk ([], u)
  | (i, inf) :: r =>
      '(rep, u') <- uf_find u i ;;
      '(r', u'') <- merge_pass2 u' r mg ;;
      ROk ((i, match im_get mg rep with Some x => x | None => inf end) :: r', u'')
  end.

Definition merge_infos (u : uf) (m : imap) : res (imap * uf) :=
  '(mg, u1) <- merge_pass1 u m [] ;; merge_pass2 u1 m mg.

(** [collect_equal_types(resolve, world, may_alias)] on a [Types] whose state is [(m, u)] *)
Definition collect_equal_types (T : table) (w : world) (may : tid -> bool) (m : imap) (u : uf)
  : res (imap * uf) :=
  live <- live_world T w ;;
  u1 <- collect_unions T may u live ;;
  merge_infos u1 m.

(* ------------------------------------------------------------------------------------------ *)
(** * What the harness observes through the public API *)

Record answers := { a_live : list tid; a_rep : list tid; a_i0 : list info; a_i1 : list info }.

Fixpoint reps_of (u : uf) (ids : list tid) : res (list tid * uf) :=   (* get_representative_type *)
  match ids with
  | [] => ROk ([], u)
  | i :: r => '(x, u') <- uf_find u i ;; '(xs, u'') <- reps_of u' r ;; ROk (x :: xs, u'')
  end.

Fixpoint infos_of (m : imap) (ids : list tid) : res (list info) :=
  match ids with
  | [] => ROk []
  | i :: r => x <- get_info m i ;; xs <- infos_of m r ;; ROk (x :: xs)
  end.

Definition run_types (T : table) (ws : list world) (sel : nat) (may : tid -> bool) : res answers :=
  match nth_error ws sel with
  | None => RErr EBadId
  | Some w =>
      let ids := seq 0 (List.length T) in
      live <- live_world T w ;;
      m0 <- analyze T ws ;;
      i0 <- infos_of m0 ids ;;
      '(m1, u1) <- collect_equal_types T w may m0 uf_empty ;;
      '(reps, _) <- reps_of u1 ids ;;
      i1 <- infos_of m1 ids ;;
      ROk {| a_live := live; a_rep := reps; a_i0 := i0; a_i1 := i1 |}
  end.
