(** Statements used by property C24: the GlobalAlloc contract assumed of the abstract allocator,
    what "a request consistent with earlier results" means, and the post-condition of each kind of
    request.  Definitions only; the proofs are in ReallocProofs.v, the executable allocator instance
    (which shows the contract is satisfiable) in ReallocBump.v. *)
From Coq Require Import List NArith Bool Permutation.
From WB Require Import Core.Realloc.
Import ListNotations.
Local Open Scope N_scope.

Definition disj (a b : block) : Prop :=
  b_ptr a + b_size a <= b_ptr b \/ b_ptr b + b_size b <= b_ptr a.

Definition inb (x : N) (b : block) : Prop := b_ptr b <= x /\ x < b_ptr b + b_size b.

(** Blocks of a list are pairwise disjoint. *)
Fixpoint wf_blocks (l : list block) : Prop :=
  match l with
  | [] => True
  | b :: r => (forall c, In c r -> disj b c) /\ wf_blocks r
  end.

Definition call_res (c : acall) : option N :=
  match c with ACalloc _ _ r => Some r | ACrealloc _ _ _ _ r => Some r | ACdealloc _ _ _ => None end.

Section Spec.
  Variable A : allocator.
  Variable debug : bool.

  (** [h'] has the same bytes as [h] inside every block of [l]. *)
  Definition keeps (h h' : heap A) (l : list block) : Prop :=
    forall b x, In b l -> inb x b -> rd A h' x = rd A h x.

  (** The contract of [core::alloc::GlobalAlloc] (for requests that meet its safety preconditions:
      non-zero sizes, power-of-two alignment, realloc/dealloc only of live blocks with their layout),
      plus: memory is a byte store ([fill] = memset). *)
  Record contract : Prop := {
    c_alloc : forall h size align h' p,
      size <> 0 -> is_pow2 align = true -> h_alloc A h size align = (h', p) ->
      keeps h h' (live A h) /\
      ((p = 0 /\ live A h' = live A h) \/
       (p <> 0 /\ p mod align = 0 /\ live A h' = mkblock p size align :: live A h /\
        forall b, In b (live A h) -> disj (mkblock p size align) b));
    c_realloc : forall h ptr old align new h' q,
      In (mkblock ptr old align) (live A h) -> new <> 0 -> is_pow2 align = true ->
      h_realloc A h ptr old align new = (h', q) ->
      let rest := remove_block (mkblock ptr old align) (live A h) in
      keeps h h' rest /\
      ((q = 0 /\ live A h' = live A h /\ keeps h h' (live A h)) \/
       (q <> 0 /\ q mod align = 0 /\ live A h' = mkblock q new align :: rest /\
        (forall b, In b rest -> disj (mkblock q new align) b) /\
        (forall i, i < N.min old new -> rd A h' (q + i) = rd A h (ptr + i))));
    c_dealloc : forall h ptr size align,
      In (mkblock ptr size align) (live A h) ->
      let rest := remove_block (mkblock ptr size align) (live A h) in
      live A (h_dealloc A h ptr size align) = rest /\ keeps h (h_dealloc A h ptr size align) rest;
    c_fill : forall h p n v,
      live A (fill A h p n v) = live A h /\
      forall x, rd A (fill A h p n v) x = if (p <=? x) && (x <? p + n) then v else rd A h x
  }.

  (** Blocks of non-zero size held in a table (zero-sized results are dangling pointers, not blocks). *)
  Fixpoint blocks_of (l : list (option block)) : list block :=
    match l with
    | [] => []
    | Some b :: r => if b_size b =? 0 then blocks_of r else b :: blocks_of r
    | None :: r => blocks_of r
    end.

  Definition owned (s : state A) : list block := blocks_of (st_tab s) ++ blocks_of (st_hs s).

  (** ** Consistency of requests with earlier results *)

  (** A [cabi_realloc] request: the alignment is a power of two, the pointer is known, and either
      [old_len = 0] (pointer ignored) or (pointer, old_len, align) is exactly an earlier result that has
      not been reallocated or freed since. *)
  Definition req_consistent (s : state A) (pr : pref) (old_len align new_len : N) : Prop :=
    is_pow2 align = true /\
    ((old_len = 0 /\ resolve (st_tab s) pr <> None) \/
     (old_len <> 0 /\ exists k ptr, pr = PBlk k /\ entry (st_tab s) k = Some (mkblock ptr old_len align))).

  (** The one class of consistent requests the code does not serve (known finding; see C24.v). *)
  Definition shrink_to_zero (old_len new_len : N) : Prop := old_len <> 0 /\ new_len = 0.

  Definition dealloc_consistent (s : state A) (pr : pref) (size align : N) : Prop :=
    (size = 0 /\ resolve (st_tab s) pr <> None) \/
    (size <> 0 /\ is_pow2 align = true /\
     exists k ptr, pr = PBlk k /\ entry (st_tab s) k = Some (mkblock ptr size align)).

  Definition op_consistent (s : state A) (o : op) : Prop :=
    match o with
    | ORealloc pr old_len align new_len =>
        req_consistent s pr old_len align new_len /\ ~ shrink_to_zero old_len new_len
    | ONew size align => is_pow2 align = true
    | ODealloc pr size align => dealloc_consistent s pr size align
    | ODrop i | OForget i => entry (st_hs s) i <> None
    | OWrite k off _ | ORead k off => exists b, entry (st_tab s) k = Some b /\ off < b_size b
    end.

  (** ** Post-conditions *)

  (** Every other result block stays in the table with its bytes. *)
  Definition frame (s s' : state A) (except : option nat) : Prop :=
    (forall k b, entry (st_tab s) k = Some b -> except <> Some k ->
       entry (st_tab s') k = Some b /\
       forall x, inb x b -> rd A (st_heap s') x = rd A (st_heap s) x) /\
    (forall i c, entry (st_hs s) i = Some c -> entry (st_hs s') i = Some c).

  Definition realloc_post (s : state A) (pr : pref) (old_len align new_len : N) (x : out) (s' : state A) : Prop :=
    match x with
    | XRet p calls =>
        p <> 0 /\ p mod align = 0 /\
        (old_len = 0 -> new_len = 0 -> p = align /\ calls = []) /\
        (old_len <> 0 -> forall ptr, resolve (st_tab s) pr = Some ptr ->
           forall i, i < N.min old_len new_len -> rd A (st_heap s') (p + i) = rd A (st_heap s) (ptr + i)) /\
        entry (st_tab s') (length (st_tab s)) = Some (mkblock p new_len align) /\
        (new_len <> 0 -> In (mkblock p new_len align) (live A (st_heap s'))) /\
        frame s s' (if old_len =? 0 then None else match pr with PBlk k => Some k | PLit _ => None end)
    | XTrap t calls =>
        (* the only way not to return: the underlying allocator itself reported exhaustion *)
        t = null_trap debug (if old_len =? 0 then new_len else old_len) align /\
        exists c, calls = [c] /\ call_res c = Some 0
    | _ => False
    end.

  Definition new_post (s : state A) (size align : N) (x : out) (s' : state A) : Prop :=
    match x with
    | XNew p some calls =>
        (p = 0 <-> size = 0) /\ (some = false <-> size = 0) /\ p mod align = 0 /\
        calls = (if size =? 0 then [] else [ACalloc size align p]) /\
        entry (st_hs s') (length (st_hs s)) = (if some then Some (mkblock p size align) else None) /\
        (size <> 0 -> In (mkblock p size align) (live A (st_heap s'))) /\
        frame s s' None
    | XTrap t calls => size <> 0 /\ t = TAllocError size align /\ calls = [ACalloc size align 0]
    | _ => False
    end.

  (** Drop of a [Cleanup]: exactly one dealloc, of a block that is live with exactly that layout
      (so it was not freed before), which is not live afterwards; the [Cleanup] is gone. *)
  Definition drop_post (s : state A) (i : nat) (c : block) (x : out) (s' : state A) : Prop :=
    x = XUnit [ACdealloc (b_ptr c) (b_size c) (b_align c)] /\
    In c (live A (st_heap s)) /\
    live A (st_heap s') = remove_block c (live A (st_heap s)) /\
    ~ In c (live A (st_heap s')) /\
    entry (st_hs s') i = None /\
    (forall k b, entry (st_tab s) k = Some b ->
       entry (st_tab s') k = Some b /\ forall y, inb y b -> rd A (st_heap s') y = rd A (st_heap s) y) /\
    (forall j d, j <> i -> entry (st_hs s) j = Some d -> entry (st_hs s') j = Some d).

  (** [forget]: no allocator call at all; the block stays live and joins the table. *)
  Definition forget_post (s : state A) (i : nat) (c : block) (x : out) (s' : state A) : Prop :=
    x = XUnit [] /\ st_heap s' = st_heap s /\ entry (st_hs s') i = None /\
    entry (st_tab s') (length (st_tab s)) = Some c /\ In c (live A (st_heap s')).

  Definition dealloc_post (s : state A) (pr : pref) (size align : N) (x : out) (s' : state A) : Prop :=
    forall ptr, resolve (st_tab s) pr = Some ptr ->
    x = XUnit (if size =? 0 then [] else [ACdealloc ptr size align]) /\
    (size = 0 -> s' = s) /\
    (size <> 0 -> In (mkblock ptr size align) (live A (st_heap s)) /\
                  live A (st_heap s') = remove_block (mkblock ptr size align) (live A (st_heap s)) /\
                  ~ In (mkblock ptr size align) (live A (st_heap s'))).

  Definition step_ok (s : state A) (o : op) (x : out) (s' : state A) : Prop :=
    match o with
    | ORealloc pr old_len align new_len => realloc_post s pr old_len align new_len x s'
    | ONew size align => new_post s size align x s'
    | ODrop i => exists c, entry (st_hs s) i = Some c /\ drop_post s i c x s'
    | OForget i => exists c, entry (st_hs s) i = Some c /\ forget_post s i c x s'
    | ODealloc pr size align => dealloc_post s pr size align x s'
    | OWrite k off v =>
        exists b, entry (st_tab s) k = Some b /\ x = XUnit [] /\
                  rd A (st_heap s') (b_ptr b + off) = v /\
                  forall y, y <> b_ptr b + off -> rd A (st_heap s') y = rd A (st_heap s) y
    | ORead k off => exists b, entry (st_tab s) k = Some b /\ x = XByte (rd A (st_heap s) (b_ptr b + off)) /\ s' = s
    end.

  (** A history all of whose requests are consistent with the results before them. *)
  Definition history_consistent (s : state A) (ops : list op) : Prop :=
    Forall (fun e => match e with (s1, o, _, _) => op_consistent s1 o end) (trace A debug s ops).

  (** Executable twins of the consistency predicates (sound: ReallocProofs.history_consistentb_sound);
      used for the non-vacuity examples and by the extracted driver to classify generated histories. *)
  Definition has_layout (e : option block) (size align : N) : bool :=
    match e with Some b => block_eqb b (mkblock (b_ptr b) size align) | None => false end.

  Definition is_some {T : Type} (x : option T) : bool := match x with Some _ => true | None => false end.

  Definition op_consistentb (s : state A) (o : op) : bool :=
    match o with
    | ORealloc pr old_len align new_len =>
        is_pow2 align &&
        (if old_len =? 0 then is_some (resolve (st_tab s) pr)
         else match pr with PBlk k => has_layout (entry (st_tab s) k) old_len align | PLit _ => false end) &&
        negb (negb (old_len =? 0) && (new_len =? 0))
    | ONew size align => is_pow2 align
    | ODealloc pr size align =>
        if size =? 0 then is_some (resolve (st_tab s) pr)
        else is_pow2 align &&
             match pr with PBlk k => has_layout (entry (st_tab s) k) size align | PLit _ => false end
    | ODrop i | OForget i => is_some (entry (st_hs s) i)
    | OWrite k off _ | ORead k off =>
        match entry (st_tab s) k with Some b => off <? b_size b | None => false end
    end.

  Fixpoint history_consistentb (s : state A) (ops : list op) : bool :=
    match ops with
    | [] => true
    | o :: r => op_consistentb s o &&
                (let '(s', x) := step A debug s o in if stops x then true else history_consistentb s' r)
    end.

  (** The accounting invariant: what the allocator has live is exactly what the table and the
      Cleanups own plus what was live before the history started. *)
  Definition Inv (base : list block) (s : state A) : Prop :=
    Permutation (live A (st_heap s)) (owned s ++ base) /\
    wf_blocks (live A (st_heap s)) /\
    (forall i c, entry (st_hs s) i = Some c -> b_size c <> 0).
End Spec.
