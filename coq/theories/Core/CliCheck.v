(** Model of src/bin/wit-bindgen.rs, the loop [for (name, contents) in files.iter()] of [main]
    ([--check] and write mode).

    The file system is what the loop can observe of it: [fs p = Some bytes] when [std::fs::read]
    of the destination succeeds, [None] when it fails (missing, a directory, unreadable).  [files] is
    the generator's output in iteration order ([Files] is a [BTreeMap<String, Vec<u8>>]: sorted,
    distinct names).  Bytes and chars are [N]; [lines] is the model of [str::lines] of Core/Config.v.

    Definitions only. *)
From Coq Require Import List NArith Bool.
From WB Require Import Core.Config.
Import ListNotations.
Local Open Scope N_scope.

Definition bytes := list N.
Definition path := list N.

(** * [str::from_utf8] followed by [chars()] : well-formed UTF-8 only (Unicode table 3-7: no
    overlong forms, no surrogates, nothing above U+10FFFF). *)
Definition in_range (lo hi b : N) : bool := (lo <=? b) && (b <=? hi).
Definition cont (b : N) : bool := in_range 128 191 b.

Fixpoint utf8_decode (bs : bytes) : option str :=
  match bs with
  | [] => Some []
  | b0 :: r0 =>
    if b0 <? 128 then option_map (cons b0) (utf8_decode r0)
    else if in_range 194 223 b0 then
      match r0 with
      | b1 :: r1 =>
        if cont b1 then option_map (cons ((b0 - 192) * 64 + (b1 - 128))) (utf8_decode r1) else None
      | _ => None
      end
    else if in_range 224 239 b0 then
      match r0 with
      | b1 :: b2 :: r2 =>
        if (if b0 =? 224 then in_range 160 191 b1
            else if b0 =? 237 then in_range 128 159 b1
            else cont b1) && cont b2
        then option_map (cons ((b0 - 224) * 4096 + (b1 - 128) * 64 + (b2 - 128))) (utf8_decode r2)
        else None
      | _ => None
      end
    else if in_range 240 244 b0 then
      match r0 with
      | b1 :: b2 :: b3 :: r3 =>
        if (if b0 =? 240 then in_range 144 191 b1
            else if b0 =? 244 then in_range 128 143 b1
            else cont b1) && cont b2 && cont b3
        then option_map (cons ((b0 - 240) * 262144 + (b1 - 128) * 4096 + (b2 - 128) * 64 + (b3 - 128)))
                        (utf8_decode r3)
        else None
      | _ => None
      end
    else None
  end.

(** [char::is_control]: general category Cc. *)
Definition is_control (c : char) : bool := (c <=? 31) || in_range 127 159 c.

(** [c.is_control() && !matches!(c, '\n' | '\r' | '\t')] *)
Definition bad_control (c : char) : bool :=
  is_control c && negb ((c =? 10) || (c =? 13) || (c =? 9)).

Fixpoint lines_eqb (a b : list str) : bool :=
  match a, b with
  | [], [] => true
  | x :: a', y :: b' => str_eqb x y && lines_eqb a' b'
  | _, _ => false
  end.

(** The condition under which the "differs only in line endings" message is chosen. *)
Definition line_endings_only (prev contents : bytes) : bool :=
  match utf8_decode prev, utf8_decode contents with
  | Some up, Some uc => negb (existsb bad_control up) && lines_eqb (lines up) (lines uc)
  | _, _ => false
  end.

Inductive outcome :=
| Ok
| ReadFailed (p : path)          (* "failed to read {dst}" *)
| LineEndingsOnly (p : path)     (* "{dst} differs only in line endings (CRLF vs. LF). ..." *)
| NotUpToDate (p : path).        (* "not up to date: {dst}" *)

Definition fsys := path -> option bytes.

Definition fs_write (fs : fsys) (p : path) (c : bytes) : fsys :=
  fun q => if str_eqb q p then Some c else fs q.

(** One pass of the loop; returns the file system afterwards and how [main] ends.  Write mode is an
    idealisation ([create_dir_all] + [write] always succeed) — it is there so that "check mode does
    not write" is a statement about the same function that does write without [--check]. *)
Fixpoint run (check : bool) (fs : fsys) (files : list (path * bytes)) : fsys * outcome :=
  match files with
  | [] => (fs, Ok)
  | (name, contents) :: rest =>
    if check then
      match fs name with
      | None => (fs, ReadFailed name)
      | Some prev =>
        if str_eqb prev contents then run check fs rest
        else if line_endings_only prev contents then (fs, LineEndingsOnly name)
        else (fs, NotUpToDate name)
      end
    else run check (fs_write fs name contents) rest
  end.

Definition run_check (fs : fsys) (files : list (path * bytes)) : outcome := snd (run true fs files).

(** File system given by an association list (first entry wins) — used by the extracted driver. *)
Fixpoint fs_of_list (l : list (path * bytes)) : fsys :=
  fun q => match l with
           | [] => None
           | (p, c) :: r => if str_eqb q p then Some c else fs_of_list r q
           end.

Definition run_check_list (dir files : list (path * bytes)) : outcome := run_check (fs_of_list dir) files.
