(** Proofs about WB.Core.CliCheck (model of the --check loop of src/bin/wit-bindgen.rs). *)
From Coq Require Import List NArith Bool Lia.
From WB Require Import Core.Config Core.ConfigSpec Core.ConfigProofs Core.CliCheck.
Import ListNotations.
Local Open Scope N_scope.

(** A generated file is up to date: it exists with identical bytes. *)
Definition identical (fs : fsys) (f : path * bytes) : Prop := fs (fst f) = Some (snd f).

Lemma str_eqb_eq : forall a b, str_eqb a b = true <-> a = b.
Proof.
  induction a as [|x a IH]; destruct b as [|y b]; cbn; split; intros H; try discriminate; auto.
  - apply andb_true_iff in H as [E H]. apply N.eqb_eq in E. apply IH in H. now subst.
  - inversion H; subst. rewrite N.eqb_refl. now apply IH.
Qed.

Lemma str_eqb_refl : forall a, str_eqb a a = true.
Proof. intros a. now apply str_eqb_eq. Qed.

Lemma str_eqb_neq : forall a b, str_eqb a b = false <-> a <> b.
Proof.
  intros a b. split.
  - intros H E. apply str_eqb_eq in E. congruence.
  - intros H. destruct (str_eqb a b) eqn:E; [|reflexivity]. apply str_eqb_eq in E. contradiction.
Qed.

Lemma lines_eqb_eq : forall a b, lines_eqb a b = true <-> a = b.
Proof.
  induction a as [|x a IH]; destruct b as [|y b]; cbn; split; intros H; try discriminate; auto.
  - apply andb_true_iff in H as [E H]. apply str_eqb_eq in E. apply IH in H. now subst.
  - inversion H; subst. rewrite str_eqb_refl. now apply IH.
Qed.

(** * Check mode never writes *)
Theorem check_never_writes : forall fs files, fst (run true fs files) = fs.
Proof.
  intros fs files. induction files as [|[name contents] rest IH]; [reflexivity|].
  cbn [run]. destruct (fs name) as [prev|]; [|reflexivity].
  destruct (str_eqb prev contents); [exact IH|].
  now destruct (line_endings_only prev contents).
Qed.

(** * Unfolding one step *)
Lemma run_check_nil : forall fs, run_check fs [] = Ok.
Proof. reflexivity. Qed.

Lemma run_check_cons : forall fs p c rest,
  run_check fs ((p, c) :: rest) =
  match fs p with
  | None => ReadFailed p
  | Some prev => if str_eqb prev c then run_check fs rest
                 else if line_endings_only prev c then LineEndingsOnly p else NotUpToDate p
  end.
Proof.
  intros. unfold run_check. cbn [run]. destruct (fs p) as [prev|]; [|reflexivity].
  destruct (str_eqb prev c); [reflexivity|]. now destruct (line_endings_only prev c).
Qed.

Lemma run_check_skip_identical : forall fs pre rest, Forall (identical fs) pre ->
  run_check fs (pre ++ rest) = run_check fs rest.
Proof.
  induction pre as [|[p c] pre IH]; intros rest H; [reflexivity|].
  inversion H as [|? ? Hid Hpre]; subst. unfold identical in Hid. cbn [fst snd] in Hid.
  cbn [app]. rewrite run_check_cons, Hid, str_eqb_refl. now apply IH.
Qed.

(** First mismatch wins. *)
Theorem first_mismatch_wins : forall fs pre p c post, Forall (identical fs) pre ->
  run_check fs (pre ++ (p, c) :: post) =
  match fs p with
  | None => ReadFailed p
  | Some prev => if str_eqb prev c then run_check fs post
                 else if line_endings_only prev c then LineEndingsOnly p else NotUpToDate p
  end.
Proof. intros. rewrite run_check_skip_identical by assumption. apply run_check_cons. Qed.

(** * What every outcome means *)
Theorem check_outcome_spec : forall fs files,
  match run_check fs files with
  | Ok => Forall (identical fs) files
  | ReadFailed p => exists pre c post, files = pre ++ (p, c) :: post /\ Forall (identical fs) pre /\
                                       fs p = None
  | LineEndingsOnly p => exists pre c post prev, files = pre ++ (p, c) :: post /\
        Forall (identical fs) pre /\ fs p = Some prev /\ prev <> c /\ line_endings_only prev c = true
  | NotUpToDate p => exists pre c post prev, files = pre ++ (p, c) :: post /\
        Forall (identical fs) pre /\ fs p = Some prev /\ prev <> c /\ line_endings_only prev c = false
  end.
Proof.
  intros fs files. induction files as [|[p c] rest IH]; [constructor|].
  rewrite run_check_cons. destruct (fs p) as [prev|] eqn:Hp.
  - destruct (str_eqb prev c) eqn:E.
    + apply str_eqb_eq in E. subst prev.
      assert (Hid : identical fs (p, c)) by exact Hp.
      destruct (run_check fs rest) as [|q|q|q].
      * now constructor.
      * destruct IH as (pre & c' & post & -> & Hpre & Hq).
        exists ((p, c) :: pre), c', post. repeat split; auto.
      * destruct IH as (pre & c' & post & prev & -> & Hpre & Hq).
        exists ((p, c) :: pre), c', post, prev. repeat split; try tauto. now constructor.
      * destruct IH as (pre & c' & post & prev & -> & Hpre & Hq).
        exists ((p, c) :: pre), c', post, prev. repeat split; try tauto. now constructor.
    + apply str_eqb_neq in E. destruct (line_endings_only prev c) eqn:L.
      * exists [], c, rest, prev. repeat split; auto.
      * exists [], c, rest, prev. repeat split; auto.
  - exists [], c, rest. repeat split; auto.
Qed.

Theorem check_ok_iff : forall fs files, run_check fs files = Ok <-> Forall (identical fs) files.
Proof.
  intros fs files. split.
  - intros H. pose proof (check_outcome_spec fs files) as S. now rewrite H in S.
  - intros H. rewrite <- (app_nil_r files). now rewrite run_check_skip_identical.
Qed.

(** * The line-endings message *)
Lemma existsb_false_forall : forall {A} (f : A -> bool) l,
  existsb f l = false <-> (forall x, In x l -> f x = false).
Proof.
  intros A f l. split.
  - intros H x Hin. destruct (f x) eqn:E; [|reflexivity].
    assert (existsb f l = true) by (apply existsb_exists; eauto). congruence.
  - intros H. destruct (existsb f l) eqn:E; [|reflexivity].
    apply existsb_exists in E as (x & Hin & Hx). rewrite H in Hx by assumption. discriminate.
Qed.

Theorem line_endings_only_iff : forall prev c,
  line_endings_only prev c = true <->
  exists up uc, utf8_decode prev = Some up /\ utf8_decode c = Some uc /\
                (forall ch, In ch up -> bad_control ch = false) /\ lines up = lines uc.
Proof.
  intros prev c. unfold line_endings_only. split.
  - destruct (utf8_decode prev) as [up|]; [|discriminate].
    destruct (utf8_decode c) as [uc|]; [|discriminate].
    intros H. apply andb_true_iff in H as [H1 H2]. apply negb_true_iff in H1.
    exists up, uc. repeat split; [now apply existsb_false_forall|now apply lines_eqb_eq].
  - intros (up & uc & -> & -> & H1 & H2).
    apply existsb_false_forall in H1. rewrite H1. cbn. now apply lines_eqb_eq.
Qed.

(** Two texts with the same lines, whatever terminator (LF / CRLF) each line has, and the same
    unterminated last line. *)
Lemma same_lines_render : forall ls1 ls2 tail,
  Forall ok_line ls1 -> Forall ok_line ls2 -> map fst ls1 = map fst ls2 ->
  lines (render ls1 ++ tail) = lines (render ls2 ++ tail).
Proof. intros. rewrite !lines_render by assumption. congruence. Qed.

Theorem crlf_only_difference_reported : forall fs pre p c post prev ls1 ls2 tail,
  Forall (identical fs) pre -> fs p = Some prev -> prev <> c ->
  utf8_decode prev = Some (render ls1 ++ tail) -> utf8_decode c = Some (render ls2 ++ tail) ->
  Forall ok_line ls1 -> Forall ok_line ls2 -> map fst ls1 = map fst ls2 ->
  (forall ch, In ch (render ls1 ++ tail) -> bad_control ch = false) ->
  run_check fs (pre ++ (p, c) :: post) = LineEndingsOnly p.
Proof.
  intros fs pre p c post prev ls1 ls2 tail Hpre Hp Hne D1 D2 O1 O2 Hm Hctl.
  rewrite first_mismatch_wins by assumption. rewrite Hp.
  apply str_eqb_neq in Hne. rewrite Hne.
  assert (L : line_endings_only prev c = true).
  { apply line_endings_only_iff. exists (render ls1 ++ tail), (render ls2 ++ tail).
    repeat split; auto. now apply same_lines_render. }
  now rewrite L.
Qed.

(** ASCII text is its own decoding. *)
Lemma utf8_decode_ascii : forall bs, Forall (fun b => b < 128) bs -> utf8_decode bs = Some bs.
Proof.
  induction bs as [|b bs IH]; intros H; [reflexivity|].
  inversion H as [|? ? Hb Hbs]; subst. cbn [utf8_decode].
  apply N.ltb_lt in Hb. rewrite Hb. now rewrite IH.
Qed.

Theorem crlf_only_difference_reported_ascii : forall fs pre p post ls1 ls2 tail,
  Forall (identical fs) pre ->
  fs p = Some (render ls1 ++ tail) -> render ls1 ++ tail <> render ls2 ++ tail ->
  Forall (fun b => b < 128) (render ls1 ++ tail) -> Forall (fun b => b < 128) (render ls2 ++ tail) ->
  Forall ok_line ls1 -> Forall ok_line ls2 -> map fst ls1 = map fst ls2 ->
  (forall ch, In ch (render ls1 ++ tail) -> bad_control ch = false) ->
  run_check fs (pre ++ (p, render ls2 ++ tail) :: post) = LineEndingsOnly p.
Proof.
  intros. eapply crlf_only_difference_reported; eauto using utf8_decode_ascii.
Qed.

(** A missing (unreadable) file is reported as such, if everything before it is up to date. *)
Theorem missing_file_reported : forall fs pre p c post,
  Forall (identical fs) pre -> fs p = None -> run_check fs (pre ++ (p, c) :: post) = ReadFailed p.
Proof. intros. rewrite first_mismatch_wins by assumption. now rewrite H0. Qed.
