(** C10 — the data representation of WIT values in the C bindings (crates/c/src/lib.rs) and its layout under
    the C ABI of the two targets that matter (wasm32: pointers of 4 bytes; x86-64 / memory64: 8 bytes; scalar
    types naturally aligned in both).

    Why it matters: the C backend never re-encodes list elements.  [Instruction::ListLower], [ListCanonLower],
    [StringLower], [MapLower] hand the user's `ptr` member (cast to a byte pointer) to the host and [ListLift]/[MapLift] cast the host's
    pointer to a pointer to the C element type - for EVERY element type, not only the "canonical" scalar ones.  The bindings are right
    only if the C struct the header declares for a type has exactly the canonical-ABI size, alignment and field
    offsets.  This file transcribes the declarations ([type_record], [type_variant], [type_option], [type_result],
    [type_tuple], [type_list], [type_map], [type_flags] + [flags_repr], [type_enum] + [int_repr], [type_resource],
    [type_future]/[type_stream], [push_type_name]) into a small C-type language and gives that language the
    layout rules of the C ABI.  Definitions only; proofs are in CLayoutProofs.v.

    Tie (checks/c10.py): sizeof/_Alignof of the generated typedefs as compiled by clang are compared, on every run,
    with [c_size 8]/[c_align 8] of [c_repr] evaluated by coqc on the same types. *)
From Coq Require Import List NArith Bool.
From WB Require Import Wit.Ty Canon.Spec.
Import ListNotations.
Local Open Scope N_scope.

Inductive cty : Type :=
| CInt (bytes : N)               (* bool, (u)intN_t, float, double *)
| CPtr                           (* pointers and size_t *)
| CStruct (ms : list cty)
| CUnion (ms : list cty).

(** [flags_repr] + [int_repr]: u8 / u16 / u32 / u64 (more than 64 flags: the generator panics; modelled as u64). *)
Definition c_flags_bytes (n : N) : N :=
  if n <=? 8 then 1 else if n <=? 16 then 2 else if n <=? 32 then 4 else 8.

(** Members of the `val` union: one per case that has a payload, in order. *)
Definition payloads (f : ty -> cty) (cs : list (option ty)) : list cty :=
  flat_map (fun c => match c with Some t => [f t] | None => [] end) cs.

(** `struct { <tag>; union { … } val; }` — the union is omitted when no case has a payload. *)
Definition c_tagged (tag : N) (ps : list cty) : cty :=
  match ps with
  | [] => CStruct [CInt tag]
  | _ => CStruct [CInt tag; CUnion ps]
  end.

Fixpoint c_repr (t : ty) : cty :=
  match t with
  | TBool | TU8 | TS8 => CInt 1
  | TU16 | TS16 => CInt 2
  | TU32 | TS32 | TF32 | TChar => CInt 4
  | TU64 | TS64 | TF64 => CInt 8
  | TString | TList _ | TMap _ _ => CStruct [CPtr; CPtr]          (* { T-pointer ptr; size_t len; } *)
  | TFixed t _ => c_repr t                                        (* unsupported by the backend (todo!) *)
  | TRecord fs | TTuple fs => CStruct (map c_repr fs)
  | TVariant cs => c_tagged (disc_size (N.of_nat (length cs))) (payloads c_repr cs)
  | TEnum n => CInt (disc_size n)
  | TOption t => CStruct [CInt 1; c_repr t]                       (* { bool is_some; T val; } *)
  | TResult a b => c_tagged 1 (payloads c_repr [a; b])            (* { bool is_err; union { ok; err; } val; } *)
  | TFlags n => CInt (c_flags_bytes n)
  | TOwn | TBorrow => CStruct [CInt 4]                            (* { int32_t __handle; } *)
  | TFuture _ | TStream _ | TErrCtx => CInt 4                     (* typedef uint32_t *)
  end.

(** The element type of a map's buffer: `struct { K key; V value; }`. *)
Definition c_map_entry (k v : ty) : cty := CStruct [c_repr k; c_repr v].

(** * Layout under the C ABI (natural alignment; [pw] = size of a pointer = size of size_t) *)
Fixpoint c_align (pw : N) (c : cty) : N :=
  match c with
  | CInt b => b
  | CPtr => pw
  | CStruct ms | CUnion ms => fold_left N.max (map (c_align pw) ms) 1
  end.

Fixpoint c_size (pw : N) (c : cty) : N :=
  match c with
  | CInt b => b
  | CPtr => pw
  | CStruct ms =>
      align_to (fold_left (fun s m => align_to s (c_align pw m) + c_size pw m) ms 0)
               (fold_left N.max (map (c_align pw) ms) 1)
  | CUnion ms =>
      align_to (fold_left N.max (map (c_size pw) ms) 0) (fold_left N.max (map (c_align pw) ms) 1)
  end.

(** Offsets of the members of a struct, in order. *)
Fixpoint c_offsets_from (pw : N) (s : N) (ms : list cty) : list N :=
  match ms with
  | [] => []
  | m :: ms' => let o := align_to s (c_align pw m) in o :: c_offsets_from pw (o + c_size pw m) ms'
  end.
Definition c_offsets (pw : N) (ms : list cty) : list N := c_offsets_from pw 0 ms.

(** * What the backend supports and a component can contain *)
Fixpoint c_supported (t : ty) : bool :=
  let opt (o : option ty) := match o with Some t => c_supported t | None => true end in
  match t with
  | TFixed _ _ | TErrCtx => false                      (* crates/test/src/c.rs: should_fail_verify *)
  | TFlags n => (0 <? n) && (n <=? 32)                 (* wasmparser: "cannot have more than 32 flags" *)
  | TEnum n => 0 <? n
  | TList t | TOption t => c_supported t
  | TMap k v => c_supported k && c_supported v
  | TRecord fs | TTuple fs => forallb c_supported fs
  | TVariant cs => negb (match cs with [] => true | _ => false end) && forallb opt cs
  | TResult a b => opt a && opt b
  | TFuture p | TStream p => opt p
  | _ => true
  end.
