(** * Core/ResourceOwnProofsDrop.v — C07, steps that take an entry out of the handle table: [Drop for Resource<T>]
    ([UDrop], the temporaries of [HExportEnd]), transfer of an own handle to the host ([UPassOwn]), [into_inner], and the
    host dropping an own handle it holds ([HDropOwnExported]). *)
From Coq Require Import List NArith Bool Permutation Lia.
From WB Require Import Core.ResourceOwn Core.ResourceOwnSpec Core.ResourceOwnProofsList Core.ResourceOwnProofsInv
  Core.ResourceOwnProofsLedger Core.ResourceOwnProofsAlloc.
Import ListNotations.
Local Open Scope N_scope.

(** what a live wrapper gives us *)
Lemma wrapper_entry s w x :
  Inv s -> lookup w (ws s) = Some x ->
  w_handle x <> MAXH /\
  exists e, lookup (w_handle x) (tbl s) = Some e /\ e_own e = negb (w_temp x) /\ e_kind e = w_kind x /\ e_lends e = 0.
Proof.
  intros HI Hw. apply lookup_In in Hw.
  assert (Hne : w_handle x <> MAXH) by (eapply inv_no_sentinel; eauto).
  split; auto. destruct (inv_agree _ HI w x Hw Hne) as [e [Hl [Ho Hk]]].
  exists e. repeat split; auto. eapply inv_lends; eauto. eapply lookup_In, Hl.
Qed.

Lemma own_exported_box s h e :
  Inv s -> lookup h (tbl s) = Some e -> e_own e = true -> e_kind e = Exported ->
  exists v, lookup (e_rep e) (reps s) = Some (RSome v).
Proof.
  intros HI Hl Ho Hk. apply Inv_iff in HI as (_ & _ & _ & HB).
  destruct (box_in_reps _ _ _ _ (e_rep e) HB) as [c Hc].
  - left. pose proof (eor_remove _ _ _ Hl) as Hp. unfold is_eo in Hp; cbn in Hp. rewrite Ho, Hk in Hp. cbn in Hp.
    eapply Permutation_in; [apply Permutation_sym, Hp|]. now left.
  - destruct (bi_some _ _ _ _ HB _ _ (lookup_In _ _ _ Hc)) as [v ->]. eauto.
Qed.

(** [Drop for Resource<T>] on a live wrapper *)
Lemma drop_wrapper_ok s w x :
  Inv s -> err s = None -> lookup w (ws s) = Some x ->
  let s' := drop_wrapper s w in
  err s' = None /\ Inv s' /\ (Ledger s -> Ledger s') /\ ws s' = remove w (ws s) /\ in_export s' = in_export s /\
  (w_temp x = true -> reps s' = reps s /\ filter is_own (tbl s') = filter is_own (tbl s)).
Proof.
  intros HI He Hw.
  destruct (wrapper_entry s w x HI Hw) as [Hne [e [Hl [Ho [Hk Hle]]]]].
  pose proof HI as HI0. apply Inv_iff in HI0 as (HT & HW & HX & HB).
  assert (HT' : TblInv (remove (w_handle x) (tbl s)) (w_handle x :: freeh s) (nexth s))
    by (apply tbl_remove; auto; eapply lookup_In_keys, Hl).
  assert (HW' : WsInv (remove (w_handle x) (tbl s)) (remove w (ws s)) (nextw s))
    by (apply ws_drop; auto; apply (ti_nodup _ _ _ HT)).
  pose proof (exp_drop _ _ _ _ _ _ _ _ Hl Hw Ho HX) as HX'.
  pose proof (eor_remove _ _ _ Hl) as Hp.
  unfold drop_wrapper. rewrite Hw. destruct (N.eqb_spec (w_handle x) MAXH) as [|_]; [contradiction|].
  unfold host_resource_drop. proj. rewrite Hl, Hle. cbn [N.eqb negb].
  destruct (e_own e) eqn:Eo.
  - destruct (e_kind e) eqn:Ek.
    + (* own, imported *)
      unfold is_eo in Hp; cbn in Hp. rewrite Eo, Ek in Hp. cbn in Hp.
      proj. repeat apply conj; auto.
      * apply Inv_iff. proj. repeat apply conj; auto. eapply box_perm; eauto.
      * intros HL. apply Ledger_iff in HL. apply Ledger_iff. proj. rewrite <- Eo. now apply led_drop.
      * intros Ht. rewrite Ht in Ho. discriminate.
    + (* own, exported: the destructor runs *)
      unfold is_eo in Hp; cbn in Hp. rewrite Eo, Ek in Hp. cbn in Hp.
      destruct (own_exported_box s _ e HI Hl Eo Ek) as [v Hc].
      unfold box_dtor. proj. rewrite Hc. proj. repeat apply conj; auto.
      * apply Inv_iff. proj. repeat apply conj; auto. eapply box_release; eauto.
      * intros HL. apply Ledger_iff in HL. apply Ledger_iff. proj.
        apply (led_dtor _ _ _ _ _ (RSome v)); auto.
        -- apply (bi_nodup _ _ _ _ HB).
        -- intros a Ha. apply (bi_range _ _ _ _ HB). now left.
        -- rewrite <- Eo. now apply led_drop.
      * intros Ht. rewrite Ht in Ho. discriminate.
  - (* borrow *)
    unfold is_eo in Hp; cbn in Hp. rewrite Eo in Hp. cbn in Hp.
    proj. repeat apply conj; auto.
    + apply Inv_iff. proj. repeat apply conj; auto. eapply box_perm; eauto.
    + intros HL. apply Ledger_iff in HL. apply Ledger_iff. proj. rewrite <- Eo. now apply led_drop.
    + intros _. split; [reflexivity|]. apply (filter_remove_false is_own _ _ _ Hl). unfold is_own; cbn. exact Eo.
Qed.

Lemma step_drop s w : Inv s -> err s = None -> good_after s (step s (UDrop w)).
Proof.
  intros HI He. unfold step, good_after. rewrite He.
  destruct (user_owned s w) as [x|] eqn:Hu; [|exact I].
  apply user_owned_Some in Hu as [Hw _].
  destruct (drop_wrapper_ok s w x HI He Hw) as (He' & HI' & HL' & _). rewrite He'. auto.
Qed.

Lemma step_host_drop_own_exported s rep : Inv s -> err s = None -> good_after s (step s (HDropOwnExported rep)).
Proof.
  intros HI He. unfold step, good_after. rewrite He.
  destruct (memN rep (hostown s)) eqn:Hm; cbn [negb]; [|exact I].
  apply memN_In in Hm.
  pose proof HI as HI0. apply Inv_iff in HI0 as (HT & HW & HX & HB).
  destruct (box_in_reps _ _ _ _ rep HB (or_intror Hm)) as [c Hc].
  destruct (bi_some _ _ _ _ HB _ _ (lookup_In _ _ _ Hc)) as [v ->].
  unfold box_dtor. proj. rewrite Hc. proj. rewrite He. split.
  - apply Inv_iff. proj. repeat apply conj; auto. eapply box_hdrop; eauto.
  - intros HL. apply Ledger_iff in HL. apply Ledger_iff. proj.
    apply (led_dtor _ _ _ _ _ (RSome v)); auto.
    + apply (bi_nodup _ _ _ _ HB).
    + intros a Ha. apply (bi_range _ _ _ _ HB). now left.
Qed.

(** [UPassOwn]: take_handle, the host lifts the own handle out of the table, the emptied wrapper is dropped *)
Lemma step_pass_own s w : Inv s -> err s = None -> good_after s (step s (UPassOwn w)).
Proof.
  intros HI He. unfold step, good_after. rewrite He.
  destruct (user_owned s w) as [x|] eqn:Hu; [|exact I].
  apply user_owned_Some in Hu as [Hw Htmp].
  destruct (wrapper_entry s w x HI Hw) as [Hne [e [Hl [Ho [Hk Hle]]]]].
  rewrite Htmp in Ho. cbn in Ho.
  pose proof HI as HI0. apply Inv_iff in HI0 as (HT & HW & HX & HB).
  assert (HT' : TblInv (remove (w_handle x) (tbl s)) (w_handle x :: freeh s) (nexth s))
    by (apply tbl_remove; auto; eapply lookup_In_keys, Hl).
  assert (HW' : WsInv (remove (w_handle x) (tbl s)) (remove w (ws s)) (nextw s))
    by (apply ws_drop; auto; apply (ti_nodup _ _ _ HT)).
  assert (Ho' : e_own e = negb (w_temp x)) by (rewrite Htmp; exact Ho).
  pose proof (exp_drop _ _ _ _ _ _ _ _ Hl Hw Ho' HX) as HX'. rewrite Ho in HX'.
  pose proof (eor_remove _ _ _ Hl) as Hp. unfold is_eo in Hp; cbn in Hp. rewrite Ho in Hp.
  unfold take_handle. rewrite Hw. proj. rewrite Hl, Ho, Hle. cbn [N.eqb negb].
  destruct (e_kind e) eqn:Ek; cbn in Hp; proj; rewrite He;
    unfold drop_wrapper; proj; rewrite lookup_cons_same; cbn [w_handle]; rewrite N.eqb_refl; proj;
    rewrite remove_cons_same, He; split.
  - apply Inv_iff. proj. repeat apply conj; auto. eapply box_perm; eauto.
  - intros HL. apply Ledger_iff in HL. apply Ledger_iff. proj. eapply led_took; eauto.
  - apply Inv_iff. proj. repeat apply conj; auto. eapply box_take; eauto.
  - intros HL. apply Ledger_iff in HL. apply Ledger_iff. proj. eapply led_took; eauto.
Qed.

(** [into_inner]: the value moves out to the user, then the wrapper is dropped and the destructor frees the emptied box *)
Lemma step_into_inner s w : Inv s -> err s = None -> good_after s (step s (UIntoInner w)).
Proof.
  intros HI He. unfold step, good_after. rewrite He.
  destruct (user_owned s w) as [x|] eqn:Hu; [|exact I].
  apply user_owned_Some in Hu as [Hw Htmp].
  destruct (w_kind x) eqn:Ekx; [exact I|].
  destruct (wrapper_entry s w x HI Hw) as [Hne [e [Hl [Ho [Hk Hle]]]]].
  rewrite Htmp in Ho. cbn in Ho. rewrite Ekx in Hk.
  destruct (own_exported_box s _ e HI Hl Ho Hk) as [v Hc].
  pose proof HI as HI0. apply Inv_iff in HI0 as (HT & HW & HX & HB).
  assert (HT' : TblInv (remove (w_handle x) (tbl s)) (w_handle x :: freeh s) (nexth s))
    by (apply tbl_remove; auto; eapply lookup_In_keys, Hl).
  assert (HW' : WsInv (remove (w_handle x) (tbl s)) (remove w (ws s)) (nextw s))
    by (apply ws_drop; auto; apply (ti_nodup _ _ _ HT)).
  assert (Ho' : e_own e = negb (w_temp x)) by (rewrite Htmp; exact Ho).
  pose proof (exp_drop _ _ _ _ _ _ _ _ Hl Hw Ho' HX) as HX'. rewrite Ho in HX'.
  pose proof (eor_remove _ _ _ Hl) as Hp. unfold is_eo in Hp; cbn in Hp. rewrite Ho, Hk in Hp. cbn in Hp.
  rewrite Hl, Hc.
  unfold drop_wrapper. proj. rewrite Hw. destruct (N.eqb_spec (w_handle x) MAXH) as [|_]; [contradiction|].
  unfold host_resource_drop. proj. rewrite Hl, Hle, Ho, Hk. cbn [N.eqb negb].
  unfold box_dtor. proj. rewrite lookup_cons_same. proj. rewrite He. split.
  - apply Inv_iff. proj. rewrite remove_cons_same. repeat apply conj; auto. eapply box_release; eauto.
  - intros HL. apply Ledger_iff in HL. apply Ledger_iff. proj.
    assert (Hnd : NoDup (keys ((e_rep e, RNone) :: remove (e_rep e) (reps s)))).
    { cbn. constructor; [apply notin_keys_remove|apply NoDup_keys_remove]; apply (bi_nodup _ _ _ _ HB). }
    apply (led_dtor _ _ _ _ _ RNone Hnd).
    + intros a [<-|Ha]; apply (bi_range _ _ _ _ HB); left.
      * eapply lookup_In_keys, Hc.
      * eapply In_keys_remove, Ha.
    + apply lookup_cons_same.
    + rewrite <- Ho. apply led_drop; auto. now apply led_touser.
Qed.

(** ** [HExportEnd]: the glue drops its borrow temporaries one after the other *)
Lemma NoDup_keys_filter {A} (p : N * A -> bool) (l : list (N * A)) : NoDup (keys l) -> NoDup (keys (filter p l)).
Proof.
  induction l as [|[k v] r IH]; cbn; auto.
  intros H. inversion H; subst. destruct (p (k, v)); auto. cbn. constructor; auto.
  intros Hin. apply H2. unfold keys in *. rewrite in_map_iff in *. destruct Hin as [q [Hq Hin]].
  exists q. split; auto. apply filter_In in Hin. tauto.
Qed.

Lemma fold_drop_temps l : forall s,
  Inv s -> err s = None -> NoDup l ->
  (forall w, In w l -> exists x, lookup w (ws s) = Some x /\ w_temp x = true) ->
  let s' := fold_left drop_wrapper l s in
  err s' = None /\ Inv s' /\ (Ledger s -> Ledger s') /\ in_export s' = in_export s /\ reps s' = reps s /\
  filter is_own (tbl s') = filter is_own (tbl s) /\
  (forall w x, In (w, x) (ws s') -> In (w, x) (ws s) /\ ~ In w l) /\
  filter (fun p => negb (w_temp (snd p))) (ws s') = filter (fun p => negb (w_temp (snd p))) (ws s).
Proof.
  induction l as [|w l IH]; intros s HI He Hnd Hall; cbn [fold_left].
  - repeat apply conj; auto.
  - destruct (Hall w (or_introl eq_refl)) as [x [Hw Ht]].
    destruct (drop_wrapper_ok s w x HI He Hw) as (He1 & HI1 & HL1 & Hws1 & Hie1 & Hrest). destruct (Hrest Ht) as [Hr1 Ho1].
    inversion Hnd; subst.
    assert (Hall1 : forall w', In w' l -> exists x', lookup w' (ws (drop_wrapper s w)) = Some x' /\ w_temp x' = true).
    { intros w' Hin. destruct (Hall w' (or_intror Hin)) as [x' [Hw' Ht']]. exists x'. split; auto.
      rewrite Hws1, lookup_remove_other; auto. intros ->. contradiction. }
    destruct (IH _ HI1 He1 H2 Hall1) as (He' & HI' & HL' & Hie' & Hr' & Ho' & Hin' & Hf').
    repeat apply conj; auto; try congruence.
    + intros w' x' Hi. destruct (Hin' w' x' Hi) as [Hi1 Hn1]. rewrite Hws1 in Hi1. split.
      * eapply In_remove, Hi1.
      * intros [<-|Hc]; [|contradiction].
        apply (notin_keys_remove w (ws s) (inv_ws_nodup _ HI)). eapply In_keys, Hi1.
    + rewrite Hf', Hws1. apply (filter_remove_false _ _ _ _ Hw). cbn. now rewrite Ht.
Qed.

Lemma export_end_ok s :
  Inv s -> err s = None -> in_export s = true ->
  let s' := step s HExportEnd in
  err s' = None /\ Inv s' /\ (Ledger s -> Ledger s') /\
  own_entries s' = own_entries s /\ borrow_entries s' = [] /\ reps s' = reps s /\
  filter (fun p => negb (w_temp (snd p))) (ws s') = filter (fun p => negb (w_temp (snd p))) (ws s).
Proof.
  intros HI He Hie. unfold step. rewrite He, Hie. cbn [negb].
  set (l := map fst (filter (fun p => w_temp (snd p)) (ws s))).
  assert (Hnd : NoDup l) by (apply (NoDup_keys_filter _ _ (inv_ws_nodup _ HI))).
  assert (Hall : forall w, In w l -> exists x, lookup w (ws s) = Some x /\ w_temp x = true).
  { intros w Hin. unfold l in Hin. apply in_map_iff in Hin as [[w' x] [E Hin]]. cbn in E; subst w'.
    apply filter_In in Hin as [Hin Ht]. exists x. split; auto.
    apply In_lookup_nodup; auto. apply (inv_ws_nodup _ HI). }
  destruct (fold_drop_temps l s HI He Hnd Hall) as (He' & HI' & HL' & Hie' & Hr' & Ho' & Hin' & Hf').
  set (s1 := fold_left drop_wrapper l s) in *.
  rewrite He'.
  pose proof HI' as HI0. apply Inv_iff in HI0 as (HT & HW & HX & HB).
  assert (Htemps : filter is_temp (ws s1) = []).
  { apply filter_nil_iff. intros [w x] Hin. destruct (Hin' w x Hin) as [Hin0 Hnl].
    unfold is_temp; cbn. destruct (w_temp x) eqn:Et; auto. exfalso. apply Hnl. unfold l.
    apply in_map_iff. exists (w, x). split; auto. apply filter_In. auto. }
  pose proof (no_temps_no_borrows _ _ _ (ti_nodup _ _ _ HT) HW Htemps) as Hbor.
  assert (Hz : need_drop s1 = 0) by (rewrite (ei_need _ _ _ _ HX), Hbor; reflexivity).
  rewrite Hz. cbn [N.eqb]. proj. repeat apply conj; auto.
  - apply Inv_iff. proj. repeat apply conj; auto. apply exp_end; auto.
  - intros HL. apply HL' in HL. apply Ledger_iff in HL. apply Ledger_iff. proj. exact HL.
Qed.

Lemma step_export_end s : Inv s -> err s = None -> good_after s (step s HExportEnd).
Proof.
  intros HI He. destruct (in_export s) eqn:Hie.
  - destruct (export_end_ok s HI He Hie) as (He' & HI' & HL' & _). unfold good_after. rewrite He'. auto.
  - unfold step, good_after. rewrite He, Hie. exact I.
Qed.
