(** C25: the unit tests of crates/core/src/source.rs as [Example]s of the model, the full-strength
    statements that are FALSE with their witnesses (each is replayed on the real [Source] by checks/c25.py),
    and non-vacuity examples for the restricted theorems. *)
From Coq Require Import List Ascii String Bool Arith.
From WB Require Import Core.Source Core.SourceSpec Core.SourceIndent.
Import ListNotations.
Local Open Scope string_scope.

Definition buf_of (ops : list bop) : option text :=
  match run_b source_default ops with Some (st, _) => Some (as_str st) | None => None end.
Definition ind_of (ops : list bop) : option nat :=
  match run_b source_default ops with Some (st, _) => Some (ind st) | None => None end.

(** ** the five unit tests *)
Example simple_append :
  map buf_of [[Push (tx "x")]; [Push (tx "x"); Push (tx "y")]; [Push (tx "x"); Push (tx "y"); Push (tx "z ")];
              [Push (tx "x"); Push (tx "y"); Push (tx "z "); Push (tx " a ")];
              [Push (tx "x"); Push (tx "y"); Push (tx "z "); Push (tx " a "); Push (tx "\na")]]
  = map (fun s => Some (tx s)) ["x"; "xy"; "xyz "; "xyz  a "; "xyz  a \na"].
Proof. vm_compute. reflexivity. Qed.

Example newline_remap :
  buf_of [Push (tx "function() {\n"); Push (tx "y\n"); Push (tx "}\n")] = Some (tx "function() {\n  y\n}\n").
Proof. vm_compute. reflexivity. Qed.

Example if_else :
  buf_of [Push (tx "if() {\n"); Push (tx "y\n"); Push (tx "} else if () {\n"); Push (tx "z\n"); Push (tx "}\n")]
  = Some (tx "if() {\n  y\n} else if () {\n  z\n}\n").
Proof. vm_compute. reflexivity. Qed.

Example trim_ws :
  buf_of [Push (tx "function() {\n                x\n        }")] = Some (tx "function() {\n  x\n}").
Proof. vm_compute. reflexivity. Qed.

Example literal_text_does_not_change_indentation :
  buf_of [Indent 1; Lit (tx "}\n{"); Deindent 1] = Some (tx "  }\n  {").
Proof. vm_compute. reflexivity. Qed.

(** ** text_preserved at full strength is false *)
Definition text_preserved_full : Prop := forall ops st outs,
  run_b source_default ops = Some (st, outs) -> erase_lead (as_str st) = erase_lead (ops_text ops).

(** (B) [push_str("x  "); push_str("}")] gives "x}": the two [pop]s remove spaces that are not indentation *)
Definition wit_pop : list bop := [Push (tx "x  "); Push (tx "}")].
Definition wit_pop_out : text := tx "x}".
Lemma text_preserved_refuted_pop :
  buf_of wit_pop = Some wit_pop_out /\ erase_lead wit_pop_out <> erase_lead (ops_text wit_pop).
Proof. split; [vm_compute; reflexivity | vm_compute; discriminate]. Qed.

(** (A) [push_str("a"); push_str(" b\nc")] gives "ab\nc": [trim_start] is applied to the first line of a
    multi-line fragment although it continues a line *)
Definition wit_trim : list bop := [Push (tx "a"); Push (tx " b\nc")].
Definition wit_trim_out : text := tx "ab\nc".
Lemma text_preserved_refuted_trim :
  buf_of wit_trim = Some wit_trim_out /\ erase_lead wit_trim_out <> erase_lead (ops_text wit_trim).
Proof. split; [vm_compute; reflexivity | vm_compute; discriminate]. Qed.

Lemma text_preserved_full_false : ~ text_preserved_full.
Proof.
  intro H. destruct text_preserved_refuted_pop as [_ Hne]. apply Hne.
  refine (H wit_pop (mkSource (rev (tx "x}")) 0 false true) [] _). vm_compute. reflexivity.
Qed.

(** both witnesses are outside the restricted theorem's domain, and only because of (B) resp. (A) *)
Example wit_pop_unsafe : run_safe source_default wit_pop = false. Proof. vm_compute. reflexivity. Qed.
Example wit_trim_unsafe : run_safe source_default wit_trim = false. Proof. vm_compute. reflexivity. Qed.
(** non-vacuity of [text_preserved_safe]: a safe sequence that splits lines, closes a brace after two
    spaces of indentation, continues a line with a multi-line fragment and changes leading white space *)
Definition safe_demo : list bop :=
  [Push (tx "if c {"); Push (tx "\n"); Push (tx "    "); Push (tx "}"); Push (tx " "); Push (tx "else {\n\t x;\n}"); Lit (tx "\n{")].
Example safe_demo_safe :
  run_safe source_default safe_demo = true
  /\ buf_of safe_demo = Some (tx "if c {\n    } else {\n  x;\n}\n{")
  /\ buf_of safe_demo <> Some (ops_text safe_demo).
Proof. split; [|split]; [vm_compute; reflexivity | vm_compute; reflexivity | vm_compute; discriminate]. Qed.

(** ** indent_follows_braces at full strength is false *)
Definition indent_follows_braces_full : Prop := forall frags st outs t d,
  forallb (fun f => negb (has_cr f)) frags = true ->
  run_b source_default (map Push frags) = Some (st, outs) ->
  layout (List.concat frags) = Some (t, d) -> as_str st = t.

Definition indent_witness (frags : list string) (actual expected : string) : Prop :=
  buf_of (map (fun f => Push (tx f)) frags) = Some (tx actual)
  /\ option_map fst (layout (List.concat (map tx frags))) = Some (tx expected)
  /\ tx actual <> tx expected.
Ltac wit := split; [|split]; [vm_compute; reflexivity | vm_compute; reflexivity | vm_compute; discriminate].

(** '{' at the end of a fragment that does not end the line opens a level *)
Lemma indent_refuted_open_midline : indent_witness ["a {"; " b\n"; "c\n"] "a { b\n  c\n" "a { b\nc\n".
Proof. wit. Qed.
(** '}' at the start of a fragment that does not start the line closes a level *)
Lemma indent_refuted_close_midline : indent_witness ["{\n"; "a"; "} b\n"; "c\n"] "{\n  a} b\nc\n" "{\n  a} b\n  c\n".
Proof. wit. Qed.
(** a one-line fragment keeps its own leading white space behind the indentation *)
Lemma indent_refuted_single_lead_ws : indent_witness ["{\n"; " x\n"] "{\n   x\n" "{\n  x\n".
Proof. wit. Qed.
(** "//" at the start of a fragment inside a line switches brace tracking off for the rest of the line *)
Lemma indent_refuted_comment_midline : indent_witness ["x"; "// c {\n"; "y\n"] "x// c {\ny\n" "x// c {\n  y\n".
Proof. wit. Qed.
(** "//" split over two fragments is not seen as a comment *)
Lemma indent_refuted_comment_split : indent_witness ["/"; "/ c {\n"; "y\n"] "// c {\n  y\n" "// c {\ny\n".
Proof. wit. Qed.

Lemma indent_follows_braces_full_false : ~ indent_follows_braces_full.
Proof.
  intro H. destruct indent_refuted_open_midline as (_ & _ & Hne). apply Hne.
  refine (H (map tx ["a {"; " b\n"; "c\n"]) (mkSource (rev (tx "a { b\n  c\n")) 1 false false) [] _ 0 _ _ _);
    vm_compute; reflexivity.
Qed.

(** reading note: a brace behind a trailing comment counts (the code only knows whole-line comments, and
    [is_comment_line] follows it) *)
Example trailing_comment_brace_counts :
  buf_of [Push (tx "x // t {\n"); Push (tx "y\n")] = Some (tx "x // t {\n  y\n").
Proof. vm_compute. reflexivity. Qed.

(** saturating close: at depth 0 the code handles "} else {" as open-then-close (depth stays 0); the
    declarative nesting has no answer there ([layout] = None) *)
Example underflow_no_spec :
  buf_of [Push (tx "} else {\nx\n")] = Some (tx "} else {\nx\n") /\ layout (tx "} else {\nx\n") = None.
Proof. split; vm_compute; reflexivity. Qed.

(** non-vacuity of [indent_whole_lines]: whole-line fragments with blank lines, comments holding braces,
    a literal block, explicit indent/deindent and a [write!] *)
Definition whole_demo : list bop :=
  [Push (tx "fn f() {\n"); Push (tx "// {\n\n    if c {\n"); Lit (tx "}\n{\n"); Indent 1;
   Write [tx "x;\n"; tx "} else {\n"]; Deindent 1; Push (tx "y;\n}\n}\n")].
Example whole_demo_ok :
  forallb bop_aligned whole_demo = true
  /\ spec_run 0 whole_demo = Some (tx "fn f() {\n  // {\n\n  if c {\n    }\n    {\n      x;\n    } else {\n    y;\n  }\n}\n", 0)
  /\ buf_of whole_demo = option_map fst (spec_run 0 whole_demo).
Proof. split; [|split]; vm_compute; reflexivity. Qed.

(** ** balanced_restores_indent with character-level balance is false *)
Definition balanced_restores_indent_full : Prop := forall st f,
  start_state st -> char_balanced f = true -> ind (push_str st f) = ind st.

Definition wit_bal : text := tx "a {\nb }\n".
Lemma balanced_refuted :
  char_balanced wit_bal = true /\ ind (push_str source_default wit_bal) = 1
  /\ balanced_lines (rust_lines wit_bal) = false.
Proof. repeat split; vm_compute; reflexivity. Qed.
(** the other direction: a closer on its own line for a brace that was opened mid-line *)
Definition wit_bal2 : text := tx "if c { y\n}\n".
Lemma balanced_refuted_close :
  char_balanced wit_bal2 = true /\ ind (push_str (indent source_default 1) wit_bal2) = 0.
Proof. split; vm_compute; reflexivity. Qed.

Lemma balanced_restores_indent_full_false : ~ balanced_restores_indent_full.
Proof.
  intro H. specialize (H source_default wit_bal (conj eq_refl eq_refl)).
  destruct balanced_refuted as (Hc & Hi & _). rewrite Hi in H. specialize (H Hc). discriminate.
Qed.

(** non-vacuity of the restricted theorems *)
Example balanced_demo :
  balanced_lines (rust_lines (tx "if c {\n  x { y }\n} else {\n// }\n}\n")) = true
  /\ ind (push_str (indent source_default 2) (tx "if c {\n  x { y }\n} else {\n// }\n}\n")) = 2.
Proof. split; vm_compute; reflexivity. Qed.
Example balanced_seq_demo :
  let ops := [Push (tx "if c {\n"); Lit (tx "}}}\n"); Write [tx "x;\n"; tx "}\n"]; Query] in
  forallb bop_aligned ops = true /\ forallb text_only ops = true
  /\ balanced_lines (ops_code_lines ops) = true /\ ind_of (Indent 3 :: ops) = Some 3.
Proof. repeat split; vm_compute; reflexivity. Qed.

(** ** literal_transparent: non-vacuity (a literal full of braces and slashes, inside a comment line) *)
Example literal_demo :
  let st := push_str (indent source_default 1) (tx "// c") in
  in_comment st = true
  /\ ind (push_str_literal st (tx " }{ // {")) = 1 /\ in_comment (push_str_literal st (tx " }{ // {")) = true
  /\ ind (push_str_literal st (tx "{\n}{")) = 1 /\ in_comment (push_str_literal st (tx "{\n}{")) = false.
Proof. repeat split; vm_compute; reflexivity. Qed.

(** non-vacuity of [push_inert_piece]: a brace-neutral piece with braces in the middle, mid-line in a comment *)
Example inert_demo :
  inert (tx "let x = f({ a }) // {}; ") = true
  /\ buf_of [Indent 2; Push (tx "a {"); Push (tx "let x = f({ a }) // {}; "); Query] = Some (tx "    a {let x = f({ a }) // {}; ")
  /\ ind_of [Indent 2; Push (tx "a {"); Push (tx "let x = f({ a }) // {}; ")] = Some 3.
Proof. repeat split; vm_compute; reflexivity. Qed.

(** ** append_src does not update [continuing_line] (outside the property's quantifier; recorded) *)
Example append_src_midline_indent :
  observe [B (Indent 1); Append [Push (tx "x")]; B (Push (tx "y\n"))] = Some (tx "x  y\n", []).
Proof. vm_compute. reflexivity. Qed.

(** [deindent] below zero panics (debug build) *)
Example deindent_underflow : observe [B (Indent 1); B (Deindent 2)] = None.
Proof. vm_compute. reflexivity. Qed.
