(** The model of wit-parser's [LiveTypes] never fails on a well-founded table and computes a set of
    ids closed under reachability (exactly: what was there plus everything reachable from the
    visited id). *)
From Coq Require Import List Bool Arith Lia.
From WB Require Import Core.TypesEq Core.TypesEqSpec Core.TypesEqUF Core.TypesEqWf Core.TypesEqEq.
Import ListNotations.

Definition closed (T : table) (s : list tid) : Prop := forall x y, In x s -> reaches T x y -> In y s.

Lemma mem_iff : forall x l, mem x l = true <-> In x l.
Proof.
  intros x l. induction l as [|y l IH]; cbn [mem In].
  - split; [discriminate | tauto].
  - rewrite orb_true_iff, Nat.eqb_eq, IH. split; intros [H|H]; auto.
Qed.

Lemma mem_false_iff x l : mem x l = false <-> ~ In x l.
Proof.
  rewrite <- mem_iff. destruct (mem x l); split; intros H; try reflexivity; try discriminate.
  - exfalso. apply H. reflexivity.
Qed.

Lemma reaches_le : forall T, wf_table T -> forall i k, reaches T i k -> k <= i.
Proof.
  intros T W i k H. induction H as [i|i d j k L Hj _ IH]; [lia|].
  destruct (W i d L) as [_ F]. rewrite Forall_forall in F. specialize (F j Hj). lia.
Qed.

Lemma reaches_inv : forall T i k, reaches T i k <-> i = k \/ exists d j, lookup T i = Some d /\ In j (kind_refs (tkind d)) /\ reaches T j k.
Proof.
  intros T i k. split.
  - intros H. destruct H as [i|i d j k L Hj R]; [left; reflexivity|].
    right. exists d, j. auto.
  - intros [<-|(d & j & L & Hj & R)]; [apply reach_refl|].
    exact (reach_step T i d j k L Hj R).
Qed.

Lemma reaches_trans : forall T i j k, reaches T i j -> reaches T j k -> reaches T i k.
Proof.
  intros T i j k H. induction H as [i|i d j0 j L Hj _ IH]; intros R; [exact R|].
  exact (reach_step T i d j0 k L Hj (IH R)).
Qed.

Lemma ref_has T i d j : wf_table T -> lookup T i = Some d -> In j (kind_refs (tkind d)) -> has T j.
Proof.
  intros W L Hj. apply in_kind_refs in Hj. exact (wf_child_ok T i d (TId j) W L Hj).
Qed.

Lemma reaches_has : forall T, wf_table T -> forall i k, has T i -> reaches T i k -> has T k.
Proof.
  intros T W i k Hi R. induction R as [i|i d j k L Hj _ IH]; [exact Hi|].
  apply IH. exact (ref_has T i d j W L Hj).
Qed.

(* ------------------------------------------------------------------------------------------ *)
(** * Folding a visitor over a list *)

Definition allhas (T : table) (s : list tid) : Prop := forall x, In x s -> has T x.

(** a step that adds exactly what [t] reaches *)
Definition step_ok (T : table) (g : list tid -> ty -> res (list tid)) (t : ty) : Prop :=
  forall s, closed T s -> allhas T s ->
    exists s', g s t = ROk s' /\ closed T s' /\
               (forall y, In y s' <-> In y s \/ ty_reaches T t y) /\ allhas T s'.

Lemma fold_tys_ok T g : forall l, (forall t, In t l -> step_ok T g t) ->
  forall s, closed T s -> allhas T s ->
    exists s', fold_res g l s = ROk s' /\ closed T s' /\
               (forall y, In y s' <-> In y s \/ exists t, In t l /\ ty_reaches T t y) /\ allhas T s'.
Proof.
  induction l as [|t l IH]; intros Hl s C A; cbn [fold_res].
  - exists s. split; [reflexivity|]. split; [exact C|]. split; [|exact A].
    intros y. split; [auto|]. intros [H|(t & [] & _)]. exact H.
  - destruct (Hl t (or_introl eq_refl) s C A) as (s1 & E1 & C1 & I1 & A1).
    rewrite E1. cbn [bind].
    destruct (IH (fun t' Ht' => Hl t' (or_intror Ht')) s1 C1 A1) as (s2 & E2 & C2 & I2 & A2).
    exists s2. split; [exact E2|]. split; [exact C2|]. split; [|exact A2].
    intros y. rewrite I2, I1. split.
    + intros [[H|H]|(t' & Ht' & R)].
      * left. exact H.
      * right. exists t. split; [left; reflexivity | exact H].
      * right. exists t'. split; [right; exact Ht' | exact R].
    + intros [H|(t' & [<-|Ht'] & R)].
      * left. left. exact H.
      * left. right. exact R.
      * right. exists t'. split; [exact Ht' | exact R].
Qed.

(** a generic invariant for [fold_res] *)
Lemma fold_res_inv {A S} (P : S -> Prop) (f : S -> A -> res S) : forall l,
  (forall x, In x l -> forall s, P s -> exists s', f s x = ROk s' /\ P s') ->
  forall s, P s -> exists s', fold_res f l s = ROk s' /\ P s'.
Proof.
  induction l as [|x l IH]; intros Hl s Hs; cbn [fold_res].
  - exists s. split; [reflexivity | exact Hs].
  - destruct (Hl x (or_introl eq_refl) s Hs) as (s1 & E1 & P1). rewrite E1. cbn [bind].
    exact (IH (fun x' Hx' => Hl x' (or_intror Hx')) s1 P1).
Qed.

(* ------------------------------------------------------------------------------------------ *)
(** * visit_id *)

Definition vstep (T : table) (f : nat) (s : list tid) (t : ty) : res (list tid) :=
  match t with TId j => visit_id T f s j | TPrim _ => ROk s end.

Lemma visit_id_S T f s i d : lookup T i = Some d -> tkind d <> KUnknown -> mem i s = false ->
  visit_id T (S f) s i =
  (s' <- fold_res (vstep T f) (kind_tys (tkind d)) s ;;
   if mem i s' then RErr EAssert else ROk (s' ++ [i])).
Proof.
  intros L U M. cbn [visit_id]. rewrite M. unfold lookup_kind. rewrite L. cbn [bind].
  unfold vstep. destruct (tkind d); try reflexivity. congruence.
Qed.

Lemma ty_reaches_prim T p y : ~ ty_reaches T (TPrim p) y.
Proof. intros (i & E & _). discriminate. Qed.

Lemma ty_reaches_id T j y : ty_reaches T (TId j) y <-> reaches T j y.
Proof.
  split.
  - intros (i & E & R). injection E as ->. exact R.
  - intros R. exists j. split; [reflexivity | exact R].
Qed.

Lemma visit_id_ok : forall T, wf_table T -> forall f i s, i < f -> has T i -> closed T s -> (forall x, In x s -> has T x) ->
  exists s', visit_id T f s i = ROk s' /\ closed T s' /\ (forall y, In y s' <-> In y s \/ reaches T i y) /\ (forall x, In x s' -> has T x).
Proof.
  intros T W. induction f as [|f IH]; intros i s Hf Hi C A; [lia|].
  destruct (mem i s) eqn:M.
  - cbn [visit_id]. rewrite M. exists s. split; [reflexivity|]. split; [exact C|]. split; [|exact A].
    apply mem_iff in M. intros y. split; [auto|]. intros [H|H]; [exact H|].
    exact (C i y M H).
  - destruct Hi as [d L]. destruct (W i d L) as [U _].
    rewrite (visit_id_S T f s i d L U M).
    assert (Hl : forall t, In t (kind_tys (tkind d)) -> step_ok T (vstep T f) t).
    { intros t Ht s0 C0 A0. destruct t as [p|j]; cbn [vstep].
      - exists s0. split; [reflexivity|]. split; [exact C0|]. split; [|exact A0].
        intros y. split; [auto|]. intros [H|H]; [exact H|]. destruct (ty_reaches_prim T p y H).
      - pose proof (wf_ref_lt T i d j W L Ht) as Hlt.
        pose proof (wf_child_ok T i d (TId j) W L Ht) as Hj. cbn [ty_ok] in Hj.
        assert (Hjf : j < f) by lia.
        destruct (IH j s0 Hjf Hj C0 A0) as (s1 & E1 & C1 & I1 & A1).
        exists s1. split; [exact E1|]. split; [exact C1|]. split; [|exact A1].
        intros y. rewrite I1, ty_reaches_id. tauto. }
    destruct (fold_tys_ok T (vstep T f) (kind_tys (tkind d)) Hl s C A) as (s1 & E1 & C1 & I1 & A1).
    rewrite E1. cbn [bind].
    (* what the children added is exactly what [i] reaches in at least one step *)
    assert (I1' : forall y, In y s1 <-> In y s \/ exists j, In j (kind_refs (tkind d)) /\ reaches T j y).
    { intros y. rewrite I1. split; (intros [H|H]; [left; exact H|right]).
      - destruct H as (t & Ht & (j & -> & R)). exists j. split; [|exact R].
        apply in_kind_refs. exact Ht.
      - destruct H as (j & Hj & R). exists (TId j). split; [apply in_kind_refs; exact Hj|].
        apply ty_reaches_id. exact R. }
    assert (M1 : mem i s1 = false).
    { apply mem_false_iff. intros H. apply I1' in H. destruct H as [H|(j & Hj & R)].
      - apply mem_false_iff in M. exact (M H).
      - pose proof (reaches_le T W j i R). destruct (W i d L) as [_ F].
        rewrite Forall_forall in F. specialize (F j Hj). lia. }
    rewrite M1. exists (s1 ++ [i]). split; [reflexivity|].
    assert (I2 : forall y, In y (s1 ++ [i]) <-> In y s \/ reaches T i y).
    { intros y. rewrite in_app_iff, I1'. cbn [In]. split.
      - intros [[H|(j & Hj & R)]|[<-|[]]].
        + left. exact H.
        + right. exact (reach_step T i d j y L Hj R).
        + right. apply reach_refl.
      - intros [H|H]; [left; left; exact H|].
        apply reaches_inv in H. destruct H as [<-|(d' & j & L' & Hj & R)].
        + right. left. reflexivity.
        + rewrite L in L'. injection L' as <-. left. right. exists j. split; [exact Hj | exact R]. }
    split; [|split; [exact I2|]].
    + intros x y Hx R. apply I2. apply I2 in Hx. destruct Hx as [Hx|Hx].
      * left. exact (C x y Hx R).
      * right. exact (reaches_trans T i x y Hx R).
    + intros x Hx. apply in_app_iff in Hx. destruct Hx as [Hx|[<-|[]]].
      * exact (A1 x Hx).
      * exists d. exact L.
Qed.

Lemma visit_ty_ok : forall T, wf_table T -> forall t s, ty_ok T t -> closed T s -> (forall x, In x s -> has T x) ->
  exists s', visit_ty T s t = ROk s' /\ closed T s' /\ (forall y, In y s' <-> In y s \/ ty_reaches T t y) /\ (forall x, In x s' -> has T x).
Proof.
  intros T W t s Ht C A. destruct t as [p|j]; cbn [visit_ty].
  - exists s. split; [reflexivity|]. split; [exact C|]. split; [|exact A].
    intros y. split; [auto|]. intros [H|H]; [exact H|]. destruct (ty_reaches_prim T p y H).
  - cbn [ty_ok] in Ht.
    destruct (visit_id_ok T W (S j) j s (Nat.lt_succ_diag_r j) Ht C A) as (s1 & E1 & C1 & I1 & A1).
    exists s1. split; [exact E1|]. split; [exact C1|]. split; [|exact A1].
    intros y. rewrite I1, ty_reaches_id. tauto.
Qed.

(* ------------------------------------------------------------------------------------------ *)
(** * Functions, items, worlds *)

Definition func_ok (T : table) (f : func) : Prop := (forall r, fstatic f = Some r -> has T r) /\ (forall p, In p (fparams f) -> ty_ok T p) /\ (forall t, fresult f = Some t -> ty_ok T t).
Definition item_ok (T : table) (it : witem) : Prop := match it with IInterface tys fs => (forall i, In i tys -> has T i) /\ (forall f, In f fs -> func_ok T f) | IFunc f => func_ok T f | IType i => has T i end.
Definition world_ok (T : table) (w : world) : Prop := forall it, In it (wimports w ++ wexports w) -> item_ok T it.

(** the invariant of the live set *)
Definition live_inv (T : table) (s : list tid) : Prop := closed T s /\ allhas T s.

Lemma visit_ty_inv T t s : wf_table T -> ty_ok T t -> live_inv T s ->
  exists s', visit_ty T s t = ROk s' /\ live_inv T s'.
Proof.
  intros W Ht [C A]. destruct (visit_ty_ok T W t s Ht C A) as (s1 & E1 & C1 & _ & A1).
  exists s1. split; [exact E1|]. split; [exact C1 | exact A1].
Qed.

Lemma visit_func_inv T f s : wf_table T -> func_ok T f -> live_inv T s ->
  exists s', visit_func T s f = ROk s' /\ live_inv T s'.
Proof.
  intros W (Hs & Hp & Hr) P. unfold visit_func.
  assert (H1 : exists s1, match fstatic f with Some r => visit_ty T s (TId r) | None => ROk s end = ROk s1
                          /\ live_inv T s1).
  { destruct (fstatic f) as [r|].
    - apply (visit_ty_inv T (TId r) s W); [|exact P]. cbn [ty_ok]. apply Hs. reflexivity.
    - exists s. split; [reflexivity | exact P]. }
  destruct H1 as (s1 & E1 & P1). rewrite E1. cbn [bind].
  destruct (fold_res_inv (live_inv T) (visit_ty T) (fparams f)
              (fun t Ht s0 P0 => visit_ty_inv T t s0 W (Hp t Ht) P0) s1 P1) as (s2 & E2 & P2).
  rewrite E2. cbn [bind].
  destruct (fresult f) as [t|].
  - apply (visit_ty_inv T t s2 W); [|exact P2]. apply Hr. reflexivity.
  - exists s2. split; [reflexivity | exact P2].
Qed.

Lemma visit_item_inv T it s : wf_table T -> item_ok T it -> live_inv T s ->
  exists s', visit_item T s it = ROk s' /\ live_inv T s'.
Proof.
  intros W Hit P. destruct it as [tys fs|f|i]; cbn [visit_item item_ok] in *.
  - destruct Hit as [Ht Hf].
    destruct (fold_res_inv (live_inv T) (fun s i => visit_ty T s (TId i)) tys
                (fun i Hi s0 P0 => visit_ty_inv T (TId i) s0 W (Ht i Hi) P0) s P) as (s1 & E1 & P1).
    rewrite E1. cbn [bind].
    exact (fold_res_inv (live_inv T) (visit_func T) fs
             (fun f Hf' s0 P0 => visit_func_inv T f s0 W (Hf f Hf') P0) s1 P1).
  - exact (visit_func_inv T f s W Hit P).
  - exact (visit_ty_inv T (TId i) s W Hit P).
Qed.

Lemma live_world_ok : forall T w, wf_table T -> world_ok T w -> exists live, live_world T w = ROk live /\ closed T live /\ (forall x, In x live -> has T x).
Proof.
  intros T w W Hw. unfold live_world.
  assert (P0 : live_inv T []).
  { split; intros x; intros; contradiction. }
  destruct (fold_res_inv (live_inv T) (visit_item T) (wimports w ++ wexports w)
              (fun it Hit s0 P => visit_item_inv T it s0 W (Hw it Hit) P) [] P0) as (live & E & C & A).
  exists live. split; [exact E|]. split; [exact C | exact A].
Qed.
