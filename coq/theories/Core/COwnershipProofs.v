(** Proofs about WB.Core.COwnership: the generated free helpers release only blocks the value owns, each at most
    once, and — when every member type that owns memory has its helper registered — exactly all of them. *)
From Coq Require Import List NArith ZArith Bool Lia Arith.
From WB Require Import Wit.Ty Canon.Spec Core.CLayoutProofs Core.COwnership.
Import ListNotations.
Local Open Scope N_scope.

(** * Sizes of list elements are positive *)
Lemma align_to_ge : forall x a, a <> 0 -> x <= align_to x a.
Proof.
  intros x a Ha. unfold align_to.
  pose proof (N.mul_succ_div_gt (x + a - 1) a Ha) as H.
  rewrite N.mul_succ_r in H. rewrite (N.mul_comm a) in H. lia.
Qed.

Lemma pow2set_pos : forall a, pow2set a -> a <> 0.
Proof. intros a [|[|[|]]]; subst; discriminate. Qed.

Lemma fold_step_ge : forall pw fs s, pw = 4 \/ pw = 8 ->
  s <= fold_left (fun s f => align_to s (alignment pw f) + elem_size pw f) fs s.
Proof.
  intros pw fs. induction fs as [|f fs IH]; intros s Hpw; cbn; [lia|].
  specialize (IH (align_to s (alignment pw f) + elem_size pw f) Hpw).
  pose proof (align_to_ge s (alignment pw f) (pow2set_pos _ (alignment_pow2 pw f Hpw))).
  lia.
Qed.

Lemma fold_max_pos : forall l a, a <> 0 -> fold_left N.max l a <> 0.
Proof. intros l a Ha. pose proof (fold_left_max_ge l a). lia. Qed.

Lemma disc_size_pos : forall n, 0 < disc_size n.
Proof. intro n. destruct (disc_size_cases n) as [E|[E|E]]; rewrite E; lia. Qed.

Lemma variant_size_pos : forall pw ds cs, 0 < ds ->
  0 < align_to (align_to ds (max_case_alignment pw cs) + fold_left N.max (map (omap (elem_size pw) 0) cs) 0)
               (N.max ds (max_case_alignment pw cs)).
Proof.
  intros pw ds cs Hd.
  assert (Hm : max_case_alignment pw cs <> 0) by (unfold max_case_alignment; apply fold_max_pos; discriminate).
  pose proof (align_to_ge ds _ Hm).
  pose proof (align_to_ge (align_to ds (max_case_alignment pw cs) + fold_left N.max (map (omap (elem_size pw) 0) cs) 0)
                (N.max ds (max_case_alignment pw cs)) ltac:(lia)).
  lia.
Qed.

Lemma elem_size_pos : forall pw t, pw = 4 \/ pw = 8 -> c_own_ok t = true -> 0 < elem_size pw t.
Proof.
  intros pw t Hpw.
  induction t using ty_ind'; intro Hs; cbn [c_own_ok] in Hs; try discriminate Hs;
    try (cbn; lia); try (destruct Hpw; subst; cbn; lia).
  - (* record *)
    apply andb_true_iff in Hs as [Hne Hs]. destruct fs as [|f fs]; [discriminate|].
    cbn [elem_size]. inversion H; subst. cbn in Hs. apply andb_true_iff in Hs as [Hf _].
    specialize (H2 Hf).
    assert (A : fold_left N.max (map (alignment pw) (f :: fs)) 1 <> 0) by (apply fold_max_pos; discriminate).
    pose proof (align_to_ge (fold_left (fun s f0 => align_to s (alignment pw f0) + elem_size pw f0) (f :: fs) 0) _ A).
    cbn [fold_left] in *.
    pose proof (fold_step_ge pw fs (align_to 0 (alignment pw f) + elem_size pw f) Hpw). lia.
  - (* tuple *)
    apply andb_true_iff in Hs as [Hne Hs]. destruct ts as [|f fs]; [discriminate|].
    cbn [elem_size]. inversion H; subst. cbn in Hs. apply andb_true_iff in Hs as [Hf _].
    specialize (H2 Hf).
    assert (A : fold_left N.max (map (alignment pw) (f :: fs)) 1 <> 0) by (apply fold_max_pos; discriminate).
    pose proof (align_to_ge (fold_left (fun s f0 => align_to s (alignment pw f0) + elem_size pw f0) (f :: fs) 0) _ A).
    cbn [fold_left] in *.
    pose proof (fold_step_ge pw fs (align_to 0 (alignment pw f) + elem_size pw f) Hpw). lia.
  - (* variant *) cbn [elem_size]. apply variant_size_pos. apply disc_size_pos.
  - (* enum *) cbn. apply disc_size_pos.
  - (* option *) cbn [elem_size]. apply variant_size_pos. lia.
  - (* result *) cbn [elem_size]. apply variant_size_pos. lia.
  - (* flags *) apply N.ltb_lt in Hs. cbn. unfold flags_size.
    destruct (N.eqb_spec n 0); [lia|]. destruct (n <=? 8); [lia|]. destruct (n <=? 16); [lia|].
    assert (1 <= (n + 31) / 32) by (apply N.div_le_lower_bound; lia). lia.
Qed.

Lemma map_entry_ok : forall k e, c_own_ok k = true -> c_own_ok e = true -> c_own_ok (map_entry k e) = true.
Proof. intros k e Hk He. unfold map_entry. cbn. rewrite Hk, He. reflexivity. Qed.

(** * Multisets of blocks as counting functions *)
Definition block_dec : forall a b : block, {a = b} + {a <> b}.
Proof. decide equality; apply N.eq_dec. Defined.
Definition cnt (b : block) (l : list block) : nat := count_occ block_dec l b.

Lemma cnt_app : forall b l1 l2, cnt b (l1 ++ l2) = (cnt b l1 + cnt b l2)%nat.
Proof. intros; unfold cnt; apply count_occ_app. Qed.

(** [Rel true] = equality (used when every helper is registered), [Rel false] = "at most". *)
Definition Rel (c : bool) (x y : nat) : Prop := if c then x = y else (x <= y)%nat.
Lemma Rel_refl : forall c x, Rel c x x.
Proof. destruct c; cbn; auto. Qed.
Lemma Rel_plus : forall c a b a' b', Rel c a a' -> Rel c b b' -> Rel c (a + b) (a' + b').
Proof. destruct c; cbn; intros; lia. Qed.
Lemma Rel_zero : forall y, Rel false 0 y.
Proof. cbn; intros; lia. Qed.

Section proofs.
  Variable pw : N.
  Hypothesis Hpw : pw = 4 \/ pw = 8.
  Variable reg : ty -> bool.
  Variable c : bool.
  Hypothesis Hreg : c = true -> forall t, reg t = true.

  Definition member (t' : ty) (x : val) : list block :=
    match t', x with
    | TString, VStr bs => if N.of_nat (length bs) =? 0 then [] else [(N.of_nat (length bs), 1)]
    | TString, _ => []
    | _, _ => if reg t' then body pw reg t' x else []
    end.

  (* (a string is released by <world>_string_free, not by a [body]: see [member] / [release]) *)
  Definition P (t : ty) : Prop :=
    c_own_ok t = true -> t <> TString -> forall v b, Rel c (cnt b (body pw reg t v)) (cnt b (owned pw t v)).

  Lemma member_ok : forall t, P t -> c_own_ok t = true ->
    forall v b, Rel c (cnt b (member t v)) (cnt b (owned pw t v)).
  Proof.
    intros t HP Hok v b. unfold member.
    destruct t;
      try (match goal with
           | |- Rel _ (cnt _ (if reg ?t then _ else _)) _ =>
               destruct (reg t) eqn:E;
               [apply HP; [auto|discriminate]
               |destruct c eqn:Ec; [rewrite Hreg in E by reflexivity; discriminate|apply Rel_zero]]
           end).
    destruct v; cbn; try apply Rel_refl.
    all: unfold blk; destruct (N.of_nat (length bytes) =? 0); apply Rel_refl.
  Qed.

  Lemma flat_map_rel : forall (f g : val -> list block) vs b,
    (forall v, Rel c (cnt b (f v)) (cnt b (g v))) ->
    Rel c (cnt b (flat_map f vs)) (cnt b (flat_map g vs)).
  Proof.
    intros f g vs b H. induction vs as [|v vs IH]; cbn [flat_map]; [apply Rel_refl|].
    rewrite !cnt_app. apply Rel_plus; auto.
  Qed.

  Lemma cnt_single_comm : forall b x l, cnt b (l ++ [x]) = cnt b ([x] ++ l).
  Proof. intros. rewrite !cnt_app. lia. Qed.

  Theorem body_ok : forall t, P t.
  Proof.
    induction t using ty_ind'; unfold P; intros Hok Hns v b; cbn [c_own_ok] in Hok; try discriminate Hok;
      try (destruct v; cbn; apply Rel_refl).
    - (* string *) congruence.
    - (* list *)
      destruct v; try (cbn; apply Rel_refl).
      cbn [body owned]. fold (member t).
      pose proof (elem_size_pos pw t Hpw Hok) as Hpos.
      destruct (N.eqb_spec (N.of_nat (length vs)) 0) as [E|E].
      + destruct vs; [cbn; apply Rel_refl|cbn in E; lia].
      + unfold blk. destruct (N.eqb_spec (N.of_nat (length vs) * elem_size pw t) 0) as [E2|E2]; [lia|].
        rewrite cnt_single_comm. rewrite !cnt_app. apply Rel_plus; [apply Rel_refl|].
        apply flat_map_rel. intro x. apply member_ok; auto.
    - (* map *)
      apply andb_true_iff in Hok as [Hk He].
      destruct v; try (cbn; apply Rel_refl).
      cbn [body owned]. fold (member t1). fold (member t2).
      pose proof (elem_size_pos pw (map_entry t1 t2) Hpw (map_entry_ok _ _ Hk He)) as Hpos.
      destruct (N.eqb_spec (N.of_nat (length vs)) 0) as [E|E].
      + destruct vs; [cbn; apply Rel_refl|cbn in E; lia].
      + unfold blk. destruct (N.eqb_spec (N.of_nat (length vs) * elem_size pw (map_entry t1 t2)) 0) as [E2|E2]; [lia|].
        rewrite cnt_single_comm. rewrite !cnt_app. apply Rel_plus; [apply Rel_refl|].
        apply flat_map_rel. intro x.
        destruct x; try apply Rel_refl. destruct vs0 as [|a [|b' [|? ?]]]; try apply Rel_refl.
        rewrite !cnt_app. apply Rel_plus; apply member_ok; auto.
    - (* record *)
      clear Hns. apply andb_true_iff in Hok as [_ Hok].
      destruct v; try (cbn; apply Rel_refl).
      cbn [body owned]. revert vs. induction H as [|f fs Hf HF IH]; intros [|x vs]; try (cbn; apply Rel_refl).
      cbn in Hok. apply andb_true_iff in Hok as [Hf1 Hfs].
      cbn. fold (member f). rewrite !cnt_app. apply Rel_plus; [apply member_ok; auto|]. apply IH; auto.
    - (* tuple *)
      clear Hns. apply andb_true_iff in Hok as [_ Hok].
      destruct v; try (cbn; apply Rel_refl).
      cbn [body owned]. revert vs. induction H as [|f fs Hf HF IH]; intros [|x vs]; try (cbn; apply Rel_refl).
      cbn in Hok. apply andb_true_iff in Hok as [Hf1 Hfs].
      cbn. fold (member f). rewrite !cnt_app. apply Rel_plus; [apply member_ok; auto|]. apply IH; auto.
    - (* variant *)
      clear Hns. apply andb_true_iff in Hok as [_ Hok].
      destruct v; try (cbn; apply Rel_refl).
      cbn [body owned]. generalize (N.to_nat case). clear case.
      induction H as [|o cs Ho HF IH]; intros i; [destruct i; cbn; apply Rel_refl|].
      cbn in Hok. apply andb_true_iff in Hok as [Ho1 Hcs].
      destruct i as [|j]; [|cbn; apply IH; auto].
      cbn. destruct o as [t'|]; destruct payload as [x|]; try apply Rel_refl.
      fold (member t'). apply member_ok; auto.
    - (* option *)
      destruct v; try (cbn; apply Rel_refl).
      cbn [body owned cases_of_option]. destruct (N.to_nat case) as [|[|j]]; cbn; try apply Rel_refl.
      destruct payload as [x|]; try apply Rel_refl. fold (member t). apply member_ok; auto.
    - (* result *)
      apply andb_true_iff in Hok as [Ha Hb].
      destruct v; try (cbn; apply Rel_refl).
      cbn [body owned cases_of_result]. destruct (N.to_nat case) as [|[|j]]; cbn; try apply Rel_refl.
      + destruct ok as [t'|]; destruct payload as [x|]; try apply Rel_refl. fold (member t'). apply member_ok; auto.
      + destruct err as [t'|]; destruct payload as [x|]; try apply Rel_refl. fold (member t'). apply member_ok; auto.
  Qed.

  Theorem release_ok : forall t, c_own_ok t = true ->
    forall v b, Rel c (cnt b (release pw reg t v)) (cnt b (owned pw t v)).
  Proof.
    intros t Hok v b. unfold release.
    destruct t; try (apply body_ok; [auto|discriminate]).
    destruct v; cbn; try apply Rel_refl.
    all: unfold blk; destruct (N.of_nat (length bytes) =? 0); apply Rel_refl.
  Qed.
End proofs.

(** With an incomplete helper table the helper leaks (the mechanism behind known finding
    c:free-helper:member-helper-not-called): a record with a list<string> field whose helper is not registered. *)
Lemma release_leaks_when_member_unregistered :
  exists reg t v b, c_own_ok t = true /\ (cnt b (release 4 reg t v) < cnt b (owned 4 t v))%nat.
Proof.
  exists (fun t => match t with TList TString => false | _ => true end),
         (TRecord [TU8; TList TString]), (VRec [VNum 1%Z; VList [VStr [104; 105]]]), (8, 4).
  vm_compute. split; [reflexivity|lia].
Qed.
