(** C15 (proved part) — proofs: each modelled emission is invariant under permutation of the hash collection's
    iteration order; an emission loop without an ordering step is not. *)
From Coq Require Import List String Ascii NArith Bool Permutation Sorted Lia.
From WB Require Import Core.Determinism.
Import ListNotations.

(** * Sorting: the sorted permutation is unique *)
Section SortFacts.
  Context {A : Type} (leb : A -> A -> bool).
  Hypothesis leb_total : forall x y, leb x y = true \/ leb y x = true.
  Hypothesis leb_trans : forall x y z, leb x y = true -> leb y z = true -> leb x z = true.
  Hypothesis leb_antisym : forall x y, leb x y = true -> leb y x = true -> x = y.

  Let R := fun x y => leb x y = true.

  Lemma insert_perm : forall x l, Permutation (insert leb x l) (x :: l).
  Proof.
    induction l as [|y r IH]; simpl; [reflexivity|].
    destruct (leb x y); [reflexivity|].
    rewrite IH. apply perm_swap.
  Qed.

  Lemma isort_perm : forall l, Permutation (isort leb l) l.
  Proof.
    induction l as [|x r IH]; simpl; [reflexivity|].
    rewrite insert_perm. constructor. exact IH.
  Qed.

  Lemma insert_sorted : forall x l, StronglySorted R l -> StronglySorted R (insert leb x l).
  Proof.
    induction l as [|y r IH]; simpl; intros S.
    - repeat constructor.
    - inversion S as [|? ? Sr Fy]; subst. destruct (leb x y) eqn:E.
      + constructor; [exact S|]. constructor; [exact E|].
        eapply Forall_impl; [|exact Fy]. intros z Hz. eapply leb_trans; eauto.
      + constructor; [apply IH, Sr|].
        assert (Hyx : leb y x = true) by (destruct (leb_total x y); congruence).
        eapply Permutation_Forall; [symmetry; apply insert_perm|]. constructor; assumption.
  Qed.

  Lemma isort_sorted : forall l, StronglySorted R (isort leb l).
  Proof. induction l; simpl; [constructor | apply insert_sorted; assumption]. Qed.

  Lemma sorted_perm_eq : forall l l', StronglySorted R l -> StronglySorted R l' -> Permutation l l' -> l = l'.
  Proof.
    induction l as [|x r IH]; intros l' S S' P.
    - apply Permutation_nil in P. subst; reflexivity.
    - destruct l' as [|y r']; [apply Permutation_sym, Permutation_nil in P; discriminate|].
      inversion S as [|? ? Sr Fx]; subst. inversion S' as [|? ? Sr' Fy]; subst.
      assert (x = y) as ->.
      { assert (Hx : In x (y :: r')) by (eapply Permutation_in; [exact P | left; reflexivity]).
        assert (Hy : In y (x :: r)) by (eapply Permutation_in; [symmetry; exact P | left; reflexivity]).
        destruct Hx as [->|Hx]; [reflexivity|]. destruct Hy as [->|Hy]; [reflexivity|].
        rewrite Forall_forall in Fx, Fy. apply leb_antisym; [apply Fx, Hy | apply Fy, Hx]. }
      f_equal. apply IH; try assumption. eapply Permutation_cons_inv; exact P.
  Qed.

  Theorem isort_canon : forall l l', Permutation l l' -> isort leb l = isort leb l'.
  Proof.
    intros l l' P. apply sorted_perm_eq; try apply isort_sorted.
    rewrite !isort_perm. exact P.
  Qed.
End SortFacts.

(** * The byte-lexicographic order on strings is a total antisymmetric order *)
Lemma N_of_ascii_inj : forall a b, N_of_ascii a = N_of_ascii b -> a = b.
Proof. intros a b H. rewrite <- (ascii_N_embedding a), <- (ascii_N_embedding b), H. reflexivity. Qed.

Lemma sleb_total : forall a b, sleb a b = true \/ sleb b a = true.
Proof.
  induction a as [|c1 s1 IH]; intros [|c2 s2]; simpl; auto.
  destruct (N.ltb_spec (N_of_ascii c1) (N_of_ascii c2)); auto.
  destruct (N.ltb_spec (N_of_ascii c2) (N_of_ascii c1)); auto.
  assert (E : N_of_ascii c1 = N_of_ascii c2) by lia.
  rewrite E, N.eqb_refl. apply IH.
Qed.

Lemma sleb_trans : forall a b c, sleb a b = true -> sleb b c = true -> sleb a c = true.
Proof.
  induction a as [|c1 s1 IH]; intros [|c2 s2] [|c3 s3]; simpl; auto; try discriminate.
  destruct (N.ltb_spec (N_of_ascii c1) (N_of_ascii c2)) as [L12|L12];
  destruct (N.ltb_spec (N_of_ascii c2) (N_of_ascii c3)) as [L23|L23];
  destruct (N.ltb_spec (N_of_ascii c1) (N_of_ascii c3)) as [L13|L13]; auto; try lia;
  destruct (N.eqb_spec (N_of_ascii c1) (N_of_ascii c2)); destruct (N.eqb_spec (N_of_ascii c2) (N_of_ascii c3));
  destruct (N.eqb_spec (N_of_ascii c1) (N_of_ascii c3)); try discriminate; try lia; auto.
  apply IH.
Qed.

Lemma sleb_antisym : forall a b, sleb a b = true -> sleb b a = true -> a = b.
Proof.
  induction a as [|c1 s1 IH]; intros [|c2 s2]; simpl; auto; try discriminate.
  destruct (N.ltb_spec (N_of_ascii c1) (N_of_ascii c2)) as [L12|L12];
  destruct (N.ltb_spec (N_of_ascii c2) (N_of_ascii c1)) as [L21|L21]; try lia;
  destruct (N.eqb_spec (N_of_ascii c1) (N_of_ascii c2)); destruct (N.eqb_spec (N_of_ascii c2) (N_of_ascii c1));
  try discriminate; try lia.
  intros H1 H2. f_equal; [apply N_of_ascii_inj; assumption | apply IH; assumption].
Qed.

Lemma pair_leb_total : forall a b, pair_leb a b = true \/ pair_leb b a = true.
Proof.
  intros [a1 a2] [b1 b2]. unfold pair_leb; simpl.
  destruct (sleb a1 b1) eqn:E1, (sleb b1 a1) eqn:E2; auto.
  - apply sleb_total.
  - destruct (sleb_total a1 b1); congruence.
Qed.

Lemma pair_leb_antisym : forall a b, pair_leb a b = true -> pair_leb b a = true -> a = b.
Proof.
  intros [a1 a2] [b1 b2]. unfold pair_leb; simpl.
  destruct (sleb a1 b1) eqn:E1, (sleb b1 a1) eqn:E2; try discriminate.
  intros H1 H2. f_equal; apply sleb_antisym; assumption.
Qed.

Lemma pair_leb_trans : forall a b c, pair_leb a b = true -> pair_leb b c = true -> pair_leb a c = true.
Proof.
  intros [a1 a2] [b1 b2] [c1 c2]. unfold pair_leb; simpl.
  destruct (sleb a1 b1) eqn:Eab; [|discriminate]. destruct (sleb b1 c1) eqn:Ebc; [|intros _; discriminate].
  rewrite (sleb_trans _ _ _ Eab Ebc).
  destruct (sleb c1 a1) eqn:Eca; [|auto].
  assert (Ecb : sleb c1 b1 = true) by (eapply sleb_trans; eauto).
  assert (Eba : sleb b1 a1 = true) by (eapply sleb_trans; eauto).
  rewrite Eba, Ecb. apply sleb_trans.
Qed.

(** * MoonBit package files *)
Theorem render_moon_deps_perm : forall project es es',
  Permutation es es' -> render_moon_deps project es = render_moon_deps project es'.
Proof.
  intros project es es' P. unfold render_moon_deps. f_equal.
  apply (isort_canon sleb sleb_total sleb_trans sleb_antisym). apply Permutation_map. exact P.
Qed.

Theorem render_moon_exports_perm : forall realloc es es',
  Permutation es es' -> render_moon_exports realloc es = render_moon_exports realloc es'.
Proof.
  intros realloc es es' P. unfold render_moon_exports. f_equal.
  apply (isort_canon sleb sleb_total sleb_trans sleb_antisym). apply Permutation_app_tail, Permutation_map. exact P.
Qed.

Theorem files_iter_perm : forall ps ps', Permutation ps ps' -> files_iter ps = files_iter ps'.
Proof. intros. apply (isort_canon pair_leb pair_leb_total pair_leb_trans pair_leb_antisym). assumption. Qed.

(** With distinct names the result is ordered by NAME alone, i.e. it is the BTreeMap iteration order. *)
Theorem files_iter_name_sorted : forall ps,
  StronglySorted (fun a b => sleb (fst a) (fst b) = true) (files_iter ps).
Proof.
  intros ps. unfold files_iter.
  pose proof (isort_sorted pair_leb pair_leb_total pair_leb_trans ps) as S.
  induction S as [|a l S IH F]; constructor; [exact IH|].
  eapply Forall_impl; [|exact F]. intros b. unfold pair_leb. destruct (sleb (fst a) (fst b)); [reflexivity | discriminate].
Qed.

(** * The merge loop of [collect_equal_types] *)
Definition lor_all (l : list N) : N := fold_right N.lor 0%N l.

Definition class_infos (find : N -> N) (k : N) (es : list (N * N)) : list N :=
  map snd (filter (fun e => N.eqb (find (fst e)) k) es).

Lemma merged_from : forall find es m k,
  fold_left (merge_step find) es m k = N.lor (m k) (lor_all (class_infos find k es)).
Proof.
  induction es as [|[id info] r IH]; intros m k; simpl.
  - rewrite N.lor_0_r. reflexivity.
  - rewrite IH. unfold merge_step, nupd, class_infos. simpl.
    destruct (N.eqb_spec k (find id)) as [->|Hne].
    + rewrite N.eqb_refl. simpl. rewrite N.lor_assoc. reflexivity.
    + destruct (N.eqb_spec (find id) k); [congruence|]. reflexivity.
Qed.

Theorem merged_spec : forall find es k, merged find es k = lor_all (class_infos find k es).
Proof. intros. unfold merged. rewrite merged_from. reflexivity. Qed.

Lemma lor_all_perm : forall l l', Permutation l l' -> lor_all l = lor_all l'.
Proof.
  induction 1; simpl; try congruence.
  rewrite !N.lor_assoc, (N.lor_comm y x). reflexivity.
Qed.

Lemma class_infos_perm : forall find k es es', Permutation es es' -> Permutation (class_infos find k es) (class_infos find k es').
Proof.
  intros find k es es' P. unfold class_infos. apply Permutation_map.
  induction P; simpl.
  - constructor.
  - destruct (N.eqb (find (fst x)) k); [constructor|]; assumption.
  - destruct (N.eqb (find (fst x)) k), (N.eqb (find (fst y)) k); try reflexivity. apply perm_swap.
  - etransitivity; eassumption.
Qed.

Theorem merged_perm : forall find es es', Permutation es es' -> forall k, merged find es k = merged find es' k.
Proof. intros. rewrite !merged_spec. apply lor_all_perm, class_infos_perm. assumption. Qed.

Lemma existsb_perm : forall A (p : A -> bool) l l', Permutation l l' -> existsb p l = existsb p l'.
Proof.
  induction 1; simpl; try congruence.
  destruct (p x), (p y); reflexivity.
Qed.

Theorem type_info_after_perm : forall find es es', Permutation es es' ->
  forall id, type_info_after find es id = type_info_after find es' id.
Proof.
  intros find es es' P id. unfold type_info_after.
  rewrite (existsb_perm _ _ _ _ P), (merged_perm _ _ _ P). reflexivity.
Qed.

(** Every member of a class ends up with the union of the class's flags (what the comment in the code promises). *)
Theorem type_info_after_class_union : forall find es id info, In (id, info) es ->
  exists v, type_info_after find es id = Some v /\ N.lor v info = v.
Proof.
  intros find es id info Hin. unfold type_info_after.
  assert (E : existsb (fun e => N.eqb (fst e) id) es = true).
  { apply existsb_exists. exists (id, info). split; [assumption | apply N.eqb_refl]. }
  rewrite E. eexists; split; [reflexivity|]. rewrite merged_spec. unfold class_infos.
  induction es as [|[i2 f2] r IH]; [destruct Hin|]. simpl in *.
  destruct Hin as [H|H].
  - inversion H; subst. rewrite N.eqb_refl. simpl. rewrite (N.lor_comm info), <- N.lor_assoc, N.lor_diag. reflexivity.
  - assert (E' : existsb (fun e => N.eqb (fst e) id) r = true).
    { apply existsb_exists. exists (id, info). split; [assumption | apply N.eqb_refl]. }
    specialize (IH H E'). destruct (N.eqb (find i2) (find id)); simpl; [|exact IH].
    rewrite <- N.lor_assoc, IH. reflexivity.
Qed.

(** * No ordering step: the output depends on the iteration order *)
Theorem render_lines_refuted : exists es es', Permutation es es' /\ render_lines es <> render_lines es'.
Proof.
  exists ["a"%string; "b"%string], ["b"%string; "a"%string]. split; [apply perm_swap|]. vm_compute. discriminate.
Qed.

(** … but the SET of lines does not (the content is the same up to block order). *)
Theorem render_lines_same_lines : forall (es es' : list string), Permutation es es' -> forall x, In x es <-> In x es'.
Proof. intros es es' P x; split; apply Permutation_in; [assumption | symmetry; assumption]. Qed.

(** Non-vacuity examples *)
Example deps_example :
  render_moon_deps "p" [("b.c", "x"); ("a", "y")]%string = render_moon_deps "p" [("a", "y"); ("b.c", "x")]%string
  /\ render_moon_deps "p" [("b.c", "x"); ("a", "y")]%string =
     ("{ ""path"" : ""p/a"", ""alias"" : ""y"" }," ++ nl ++ "{ ""path"" : ""p/b/c"", ""alias"" : ""x"" }")%string.
Proof. split; vm_compute; reflexivity. Qed.

Example merged_example :
  let find := fun x => if N.eqb x 3 then 1%N else x in
  type_info_after find [(1, 1); (3, 4); (2, 2)]%N 3%N = Some 5%N /\
  type_info_after find [(2, 2); (3, 4); (1, 1)]%N 1%N = Some 5%N.
Proof. split; vm_compute; reflexivity. Qed.
