(** collect_equal_types' two loops: the union-find invariant is kept (soundness), classes only
    grow, every aliasable type ends in the class of the FIRST earlier structurally equal type, and
    with may_alias = true the classes on the live list are exactly the structural-equality classes. *)
From Coq Require Import List String Bool Arith Lia.
From WB Require Import Core.TypesEq Core.TypesEqSpec Core.TypesEqUF Core.TypesEqWf Core.TypesEqEq.
Import ListNotations.

Definition mono (u u' : uf) : Prop := forall x y, rep u x = rep u y -> rep u' x = rep u' y.

Lemma mono_refl u : mono u u. Proof. intros x y H; auto. Qed.
Lemma mono_trans u1 u2 u3 : mono u1 u2 -> mono u2 u3 -> mono u1 u3.
Proof. intros A B x y H. auto. Qed.
Lemma mono_same u u' : (forall y, rep u' y = rep u y) -> mono u u'.
Proof. intros R x y H. rewrite !R. auto. Qed.

Lemma uf_ok_sound T u a b : uf_ok T u -> rep u a = rep u b -> struct_eq T a b.
Proof. intros [_ X] H. unfold struct_eq. rewrite <- (X a), <- (X b), H. auto. Qed.

Lemma uf_ok_same T u u' : uf_ok T u -> uf_wf u' -> (forall y, rep u' y = rep u y) -> uf_ok T u'.
Proof. intros [_ X] W R. split; auto. intros x. rewrite R. auto. Qed.

(** a union of two structurally equal types keeps the invariant *)
Lemma union_ok T u a b : uf_ok T u -> struct_eq T a b ->
  exists u', uf_union u a b = ROk u' /\ uf_ok T u' /\ mono u u' /\ rep u' a = rep u' b.
Proof.
  intros [W X] E. destruct (union_spec u a b W) as (u' & H & W' & R).
  exists u'. split; auto. split; [|split].
  - split; auto. intros x. rewrite R.
    destruct ((rep u x =? rep u a) || (rep u x =? rep u b)) eqn:B; auto.
    assert (Hx : xp T (TId x) = xp T (TId a)).
    { apply orb_true_iff in B. destruct B as [B|B]; apply Nat.eqb_eq in B.
      - rewrite <- (X x), B. auto.
      - rewrite <- (X x), B, X. symmetry. exact E. }
    rewrite Hx. destruct (Nat.min_spec (rep u a) (rep u b)) as [[_ ->]|[_ ->]]; auto.
    rewrite X. symmetry. exact E.
  - intros x y Hxy. exact (union_mono u a b u' W H x y Hxy).
  - exact (union_joins u a b u' W H).
Qed.

Lemma earlier_loop_ok T : wf_table T -> forall t, has T t -> forall earlier u,
  uf_ok T u -> (forall e, In e earlier -> has T e) ->
  exists u', earlier_loop T u t earlier = ROk u' /\ uf_ok T u' /\ mono u u' /\
    (forall pre e0 post, earlier = pre ++ e0 :: post -> struct_eq T t e0 ->
                         (forall x, In x pre -> ~ struct_eq T t x) -> rep u' t = rep u' e0) /\
    ((forall x y, In x earlier -> In y earlier -> struct_eq T x y -> rep u x = rep u y) ->
     forall e, In e earlier -> struct_eq T t e -> rep u' t = rep u' e).
Proof.
  intros W t Ht. induction earlier as [|e rest IH]; intros u OK Hin; cbn [earlier_loop].
  - exists u. split; auto. split; auto. split; [apply mono_refl|]. split.
    + intros pre e0 post E. destruct pre; discriminate.
    + intros _ e [].
  - destruct OK as [Wu X].
    destruct (find_spec u t Wu) as (u1 & E1 & W1 & R1). rewrite E1. cbn [bind].
    destruct (find_spec u1 e W1) as (u2 & E2 & W2 & R2). rewrite E2. cbn [bind]. rewrite R1.
    assert (R12 : forall y, rep u2 y = rep u y) by (intros; rewrite R2, R1; auto).
    assert (OK2 : uf_ok T u2) by (apply (uf_ok_same T u); auto; split; auto).
    assert (M2 : mono u u2) by (apply mono_same; auto).
    assert (Hrest : forall e', In e' rest -> has T e') by (intros; apply Hin; right; auto).
    destruct (rep u t =? rep u e) eqn:ER.
    + apply Nat.eqb_eq in ER.
      destruct (IH u2 OK2 Hrest) as (u' & E & OK' & M' & F' & C').
      exists u'. split; auto. split; auto. split; [eapply mono_trans; eauto|].
      assert (Je : rep u' t = rep u' e) by (apply M', M2; auto).
      split.
      * intros pre e0 post Eq Se Hpre. destruct pre as [|p pre]; cbn in Eq; injection Eq as Ee Er.
        -- subst e0. auto.
        -- subst p. apply (F' pre e0 post Er Se). intros x Hx. apply Hpre. right. auto.
      * intros Hc e' [<-|He'] Se; auto. apply C'; auto.
        intros x y Hx Hy S. rewrite !R12. apply Hc; auto; right; auto.
    + apply Nat.eqb_neq in ER.
      destruct (is_structurally_equal_correct T u2 t e W OK2 Ht (Hin e (or_introl eq_refl)))
        as (b & u3 & E3 & Hb & OK3 & R3).
      rewrite E3. cbn [bind].
      assert (R13 : forall y, rep u3 y = rep u y) by (intros; rewrite R3, R12; auto).
      assert (M3 : mono u u3) by (apply mono_same; auto).
      destruct b.
      * assert (Se : struct_eq T t e) by (apply Hb; auto).
        destruct (union_ok T u3 t e OK3 Se) as (u' & E & OK' & M' & J').
        exists u'. split; auto. split; auto. split; [eapply mono_trans; eauto|]. split.
        -- intros pre e0 post Eq Se0 Hpre. destruct pre as [|p pre]; cbn in Eq; injection Eq as Ee Er.
           ++ subst e0. auto.
           ++ subst p. exfalso. apply (Hpre e); [left; auto | auto].
        -- intros Hc e' [<-|He'] Se'; auto.
           rewrite J'. apply M', M3. apply Hc; [left; auto | right; auto |].
           eapply struct_eq_trans; [apply struct_eq_sym; exact Se | exact Se'].
      * assert (NSe : ~ struct_eq T t e) by (intros S; apply Hb in S; discriminate).
        destruct (IH u3 OK3 Hrest) as (u' & E & OK' & M' & F' & C').
        exists u'. split; auto. split; auto. split; [eapply mono_trans; eauto|]. split.
        -- intros pre e0 post Eq Se0 Hpre. destruct pre as [|p pre]; cbn in Eq; injection Eq as Ee Er.
           ++ subst e0. contradiction.
           ++ subst p. apply (F' pre e0 post Er Se0). intros x Hx. apply Hpre. right. auto.
        -- intros Hc e' [<-|He'] Se'; [contradiction|]. apply C'; auto.
           intros x y Hx Hy S. rewrite !R13. apply Hc; auto; right; auto.
Qed.

Lemma collect_loop_ok T may : wf_table T -> forall todo done u,
  uf_ok T u -> (forall x, In x (done ++ todo) -> has T x) ->
  exists u', collect_loop T may u done todo = ROk u' /\ uf_ok T u' /\ mono u u' /\
    (forall l1 t l2, todo = l1 ++ t :: l2 -> may t = true ->
       forall pre e0 post, done ++ l1 = pre ++ e0 :: post -> struct_eq T t e0 ->
                           (forall x, In x pre -> ~ struct_eq T t x) -> rep u' t = rep u' e0) /\
    ((forall t, In t todo -> may t = true) ->
     (forall x y, In x done -> In y done -> struct_eq T x y -> rep u x = rep u y) ->
     forall x y, In x (done ++ todo) -> In y (done ++ todo) -> struct_eq T x y -> rep u' x = rep u' y).
Proof.
  intros W. induction todo as [|t rest IH]; intros done u OK Hin; cbn [collect_loop].
  - exists u. split; auto. split; auto. split; [apply mono_refl|]. split.
    + intros l1 t l2 E. destruct l1; discriminate.
    + intros _ Hc x y. rewrite app_nil_r. auto.
  - assert (Ht : has T t) by (apply Hin; apply in_or_app; right; left; auto).
    assert (Hd : forall e, In e done -> has T e) by (intros; apply Hin; apply in_or_app; auto).
    assert (Step : exists u1, (if may t then earlier_loop T u t done else ROk u) = ROk u1 /\ uf_ok T u1 /\ mono u u1 /\
              (may t = true -> forall pre e0 post, done = pre ++ e0 :: post -> struct_eq T t e0 ->
                           (forall x, In x pre -> ~ struct_eq T t x) -> rep u1 t = rep u1 e0) /\
              (may t = true -> (forall x y, In x done -> In y done -> struct_eq T x y -> rep u x = rep u y) ->
                  forall e, In e done -> struct_eq T t e -> rep u1 t = rep u1 e)).
    { destruct (may t).
      - destruct (earlier_loop_ok T W t Ht done u OK Hd) as (u1 & E & OK1 & M1 & F1 & C1).
        exists u1. split; [exact E|]. split; [exact OK1|]. split; [exact M1|]. split; intros _; [exact F1 | exact C1].
      - exists u. split; auto. split; auto. split; [apply mono_refl|]. split; discriminate. }
    destruct Step as (u1 & E1 & OK1 & M1 & F1 & C1). rewrite E1. cbn [bind].
    destruct (IH (done ++ [t]) u1 OK1) as (u' & E & OK' & M' & F' & C').
    { intros x Hx. apply Hin. rewrite <- app_assoc in Hx. exact Hx. }
    exists u'. split; auto. split; auto. split; [eapply mono_trans; eauto|]. split.
    + intros l1 t' l2 Eq Hm pre e0 post Ed Se Hpre. destruct l1 as [|p l1]; cbn in Eq; injection Eq as Ee Er.
      * subst t'. rewrite app_nil_r in Ed. apply M'. apply (F1 Hm pre e0 post Ed Se Hpre).
      * subst p. apply (F' l1 t' l2 Er Hm pre e0 post); auto. rewrite <- app_assoc. exact Ed.
    + intros Hm Hc x y Hx Hy S.
      apply C'.
      * intros t' Ht'. apply Hm. right. auto.
      * intros x' y' Hx' Hy' S'.
        apply in_app_or in Hx'. apply in_app_or in Hy'.
        assert (Mt : may t = true) by (apply Hm; left; auto).
        destruct Hx' as [Hx'|[<-|[]]]; destruct Hy' as [Hy'|[<-|[]]].
        -- apply M1. apply Hc; assumption.
        -- symmetry. apply C1; try assumption. apply struct_eq_sym. assumption.
        -- apply C1; assumption.
        -- reflexivity.
      * rewrite <- app_assoc. exact Hx.
      * rewrite <- app_assoc. exact Hy.
      * exact S.
Qed.

(* ------------------------------------------------------------------------------------------ *)
(** * Theorems about [collect_unions] started from the empty union-find *)

Section Collect.
  Variable T : table.
  Hypothesis W : wf_table T.
  Variable live : list tid.
  Hypothesis Hlive : forall x, In x live -> has T x.
  Variable may : tid -> bool.

  (** soundness, for every may_alias predicate: the run succeeds and types with the same
      representative are structurally equal *)
  Theorem collect_sound :
    exists u, collect_unions T may uf_empty live = ROk u /\ uf_ok T u /\
              (forall a b, rep u a = rep u b -> struct_eq T a b).
  Proof.
    destruct (collect_loop_ok T may W live [] uf_empty (uf_ok_empty T) Hlive) as (u & E & OK & _).
    exists u. split; auto. split; auto. intros a b. apply uf_ok_sound. auto.
  Qed.

  (** every aliasable live type is in the class of the first earlier structurally equal one *)
  Theorem collect_first : forall u, collect_unions T may uf_empty live = ROk u ->
    forall l1 t l2, live = l1 ++ t :: l2 -> may t = true ->
    forall pre e0 post, l1 = pre ++ e0 :: post -> struct_eq T t e0 ->
      (forall x, In x pre -> ~ struct_eq T t x) -> rep u t = rep u e0.
  Proof.
    intros u Hu. destruct (collect_loop_ok T may W live [] uf_empty (uf_ok_empty T) Hlive) as (u' & E & _ & _ & F & _).
    unfold collect_unions in Hu. rewrite Hu in E. injection E as <-.
    intros l1 t l2 El Hm pre e0 post Ep. eapply F; eauto.
  Qed.

  (** exactness when everything may alias (the merge option) *)
  Theorem collect_exact : (forall t, may t = true) ->
    forall u, collect_unions T may uf_empty live = ROk u ->
    forall a b, In a live -> In b live -> (rep u a = rep u b <-> struct_eq T a b).
  Proof.
    intros Hm u Hu a b Ha Hb.
    destruct (collect_loop_ok T may W live [] uf_empty (uf_ok_empty T) Hlive) as (u' & E & OK & _ & _ & C).
    unfold collect_unions in Hu. rewrite Hu in E. injection E as <-.
    split; [apply uf_ok_sound; auto|]. intros S. apply C; auto. intros x y [].
  Qed.
End Collect.
