(** C11 — which heap blocks of a value the C bindings own, and what the generated `*_free` helpers release.

    Documented rules (crates/c/README.md, "Memory Ownership"): a value's strings and lists (and maps) are separately
    allocated buffers; whoever owns the value owns all of them, nested ones included.  The owner releases them with
    the generated `<type>_free` helper; for an export's return value the generated `*_post_return` does it.

    [owned]  : the blocks a value owns — written from the canonical ABI's point of view (one block per non-empty
               string / list / map buffer, `len * elem_size` bytes, exactly what Spec.store / Spec.lower_flat
               request from realloc; zero-sized requests are not blocks).
    [member] / [body] : a transcription of crates/c/src/lib.rs `define_dtor` + `free`.  `free(ty, expr)` emits a call
               only when `self.gen.dtor_funcs` has an entry for the member's type ([reg]); strings are always freed
               (`<world>_string_free`, guarded by `len > 0`); a list helper loops over the elements and frees the buffer
               when `len > 0`; variant/option/result helpers switch on the discriminant.
    Definitions only; proofs in COwnershipProofs.v. *)
From Coq Require Import List NArith ZArith Bool.
From WB Require Import Wit.Ty Canon.Spec.
Import ListNotations.
Local Open Scope N_scope.

Definition block : Type := (N * N)%type.       (* size in bytes, alignment *)

Definition blk (size align : N) : list block := if size =? 0 then [] else [(size, align)].

Section ownership.
  Variable pw : N.

  Definition nth_case (cs : list (option ty)) (i : N) : option (option ty) := nth_error cs (N.to_nat i).

  (** Blocks owned by [v : t], in allocation order (buffer first, then what its elements own). *)
  Fixpoint owned (t : ty) (v : val) {struct t} : list block :=
    let fix fields (fs : list ty) (vs : list val) {struct fs} : list block :=
      match fs, vs with
      | f :: fs', x :: vs' => owned f x ++ fields fs' vs'
      | _, _ => []
      end in
    let opt (o : option ty) (p : option val) : list block :=
      match o, p with Some t', Some x => owned t' x | _, _ => [] end in
    let fix case (cs : list (option ty)) (i : nat) (p : option val) {struct cs} : list block :=
      match cs, i with
      | [], _ => []
      | c :: _, O => opt c p
      | _ :: cs', S j => case cs' j p
      end in
    match t, v with
    | TString, VStr bs => blk (N.of_nat (length bs)) 1
    | TList et, VList vs =>
        blk (N.of_nat (length vs) * elem_size pw et) (alignment pw et) ++ flat_map (owned et) vs
    | TMap k e, VList vs =>
        blk (N.of_nat (length vs) * elem_size pw (map_entry k e)) (alignment pw (map_entry k e))
        ++ flat_map (fun x => match x with VRec [a; b] => owned k a ++ owned e b | _ => [] end) vs
    | TFixed et _, VList vs => flat_map (owned et) vs
    | TRecord fs, VRec vs => fields fs vs
    | TTuple fs, VRec vs => fields fs vs
    | TVariant cs, VVar i p => case cs (N.to_nat i) p
    | TOption t', VVar i p => case (cases_of_option t') (N.to_nat i) p
    | TResult a b, VVar i p => case (cases_of_result a b) (N.to_nat i) p
    | _, _ => []
    end.

  (** The generated helpers.  [reg t] = "dtor_funcs has a helper registered for t" at the time the enclosing helper
      is generated. *)
  Variable reg : ty -> bool.

  Fixpoint body (t : ty) (v : val) {struct t} : list block :=
    let member (t' : ty) (rec : val -> list block) (x : val) : list block :=
      match t', x with
      | TString, VStr bs => if N.of_nat (length bs) =? 0 then [] else [(N.of_nat (length bs), 1)]
      | TString, _ => []
      | _, _ => if reg t' then rec x else []
      end in
    let fix fields (fs : list ty) (vs : list val) {struct fs} : list block :=
      match fs, vs with
      | f :: fs', x :: vs' => member f (body f) x ++ fields fs' vs'
      | _, _ => []
      end in
    let opt (o : option ty) (p : option val) : list block :=
      match o, p with Some t', Some x => member t' (body t') x | _, _ => [] end in
    let fix case (cs : list (option ty)) (i : nat) (p : option val) {struct cs} : list block :=
      match cs, i with
      | [], _ => []
      | c :: _, O => opt c p
      | _ :: cs', S j => case cs' j p
      end in
    match t, v with
    | TList et, VList vs =>
        if N.of_nat (length vs) =? 0 then []
        else flat_map (member et (body et)) vs ++ [(N.of_nat (length vs) * elem_size pw et, alignment pw et)]
    | TMap k e, VList vs =>
        if N.of_nat (length vs) =? 0 then []
        else flat_map (fun x => match x with
                                | VRec [a; b] => member k (body k) a ++ member e (body e) b
                                | _ => []
                                end) vs
             ++ [(N.of_nat (length vs) * elem_size pw (map_entry k e), alignment pw (map_entry k e))]
    | TRecord fs, VRec vs => fields fs vs
    | TTuple fs, VRec vs => fields fs vs
    | TVariant cs, VVar i p => case cs (N.to_nat i) p
    | TOption t', VVar i p => case (cases_of_option t') (N.to_nat i) p
    | TResult a b, VVar i p => case (cases_of_result a b) (N.to_nat i) p
    | _, _ => []
    end.

  (** What `<T>_free(&v)` — or, for a string, `<world>_string_free(&v)` — releases. *)
  Definition release (t : ty) (v : val) : list block :=
    match t, v with
    | TString, VStr bs => if N.of_nat (length bs) =? 0 then [] else [(N.of_nat (length bs), 1)]
    | TString, _ => []
    | _, _ => body t v
    end.
End ownership.

(** Types whose values the C backend can carry (no fixed-length lists: named ones are rejected by the backend,
    anonymous ones hit todo!()); sizes of list elements are then positive. *)
Fixpoint c_own_ok (t : ty) : bool :=
  let opt (o : option ty) := match o with Some t => c_own_ok t | None => true end in
  match t with
  | TFixed _ _ => false
  | TList t | TOption t => c_own_ok t
  | TMap k v => c_own_ok k && c_own_ok v
  | TRecord fs | TTuple fs => negb (match fs with [] => true | _ => false end) && forallb c_own_ok fs
  | TVariant cs => negb (match cs with [] => true | _ => false end) && forallb opt cs
  | TEnum n | TFlags n => 0 <? n
  | TResult a b => opt a && opt b
  | _ => true
  end.
