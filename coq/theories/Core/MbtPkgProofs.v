(** Proofs about the model of MoonBit's [qualify_package] (property C30, proved part). *)
From Coq Require Import List String Ascii NArith Bool Lia.
From WB Require Import Core.Ns Core.NsProofs Core.MbtPkg.
Import ListNotations.
Local Open Scope string_scope.

(** * Association lists *)

Lemma assoc_upsert_same {A} k (v : A) l : assoc k (upsert k v l) = Some v.
Proof.
  induction l as [|[k' v'] l IH]; cbn [upsert assoc].
  - rewrite String.eqb_refl. reflexivity.
  - destruct (String.eqb k k') eqn:E; cbn [assoc].
    + rewrite String.eqb_refl. reflexivity.
    + rewrite E. exact IH.
Qed.

Lemma assoc_upsert_other {A} k k' (v : A) l : k <> k' -> assoc k' (upsert k v l) = assoc k' l.
Proof.
  intros Hne. induction l as [|[k0 v0] l IH]; cbn [upsert assoc].
  - destruct (String.eqb k' k) eqn:E; [apply String.eqb_eq in E; congruence | reflexivity].
  - destruct (String.eqb k k0) eqn:E; cbn [assoc].
    + apply String.eqb_eq in E. subst k0.
      destruct (String.eqb k' k) eqn:E2; [apply String.eqb_eq in E2; congruence | reflexivity].
    + destruct (String.eqb k' k0); [reflexivity | exact IH].
Qed.

Lemma assoc_In {A} k (v : A) l : assoc k l = Some v -> In (k, v) l.
Proof.
  induction l as [|[k' v'] l IH]; cbn [assoc]; [discriminate|].
  destruct (String.eqb k k') eqn:E.
  - apply String.eqb_eq in E. subst. intros H. injection H as ->. left. reflexivity.
  - intros H. right. auto.
Qed.

Lemma assoc_None_not_In {A} k (l : list (string * A)) : assoc k l = None -> ~ In k (map fst l).
Proof.
  induction l as [|[k' v'] l IH]; cbn [assoc map fst]; [intros _ []|].
  destruct (String.eqb k k') eqn:E; [discriminate|].
  intros H [Hk|Hk]; [subst; rewrite String.eqb_refl in E; discriminate | exact (IH H Hk)].
Qed.

Lemma In_snd_same_key {A} (l : list (A * string)) x y a :
  NoDup (map snd l) -> In (x, a) l -> In (y, a) l -> x = y.
Proof.
  induction l as [|[k v] l IH]; cbn [map snd]; intros Hnd Hx Hy; [destruct Hx|].
  inversion Hnd as [|? ? Hnotin Hnd']; subst.
  destruct Hx as [Hx|Hx], Hy as [Hy|Hy].
  - congruence.
  - injection Hx as -> ->. exfalso. apply Hnotin. apply (in_map snd) in Hy. exact Hy.
  - injection Hy as -> ->. exfalso. apply Hnotin. apply (in_map snd) in Hx. exact Hx.
  - eauto.
Qed.

(** * Ns facts re-packaged for the total wrapper *)

Lemma ns_tmp_tot_fresh s name s' a :
  ns_tmp_tot s name = (s', a) -> ~ In a (defined s) /\ defined s' = a :: defined s.
Proof.
  unfold ns_tmp_tot. destruct (ns_tmp s name) as [[s0 a0]|] eqn:E.
  - intros H. injection H as <- <-. eapply ns_tmp_fresh; eauto.
  - exfalso. exact (ns_tmp_total s name E).
Qed.

(** the name handed out is the requested base, or the base followed by a decimal counter *)
Definition alias_shape (base a : string) : Prop := a = base \/ exists t, a = base ++ dec t.

Lemma tmp_loop_shape fuel name d t ret r t' :
  tmp_loop fuel name d t ret = Some (r, t') -> alias_shape name ret -> alias_shape name r.
Proof.
  revert t ret. induction fuel as [|f IH]; cbn [tmp_loop]; intros t ret H Hs; [discriminate|].
  destruct (smem ret d).
  - eapply IH; [exact H|]. right. exists t. reflexivity.
  - injection H as <- <-. exact Hs.
Qed.

Lemma ns_tmp_tot_shape s name s' a : ns_tmp_tot s name = (s', a) -> alias_shape name a.
Proof.
  unfold ns_tmp_tot, ns_tmp.
  destruct (tmp_loop _ _ _ _ _) as [[r t]|] eqn:E.
  - intros H. injection H as <- <-. eapply tmp_loop_shape; [exact E|]. left. reflexivity.
  - intros H. injection H as <- <-. left. reflexivity.
Qed.

(** * [last_seg] and [dots_to_slashes] *)

Lemma last_seg_no_dot s : has_dot (last_seg s) = false.
Proof.
  induction s as [|c r IH]; cbn [last_seg]; [reflexivity|].
  destruct (has_dot r) eqn:E; [exact IH|].
  destruct (Ascii.eqb c dot) eqn:Ec; [exact E|].
  cbn [has_dot]. rewrite Ec. exact E.
Qed.

Lemma last_seg_suffix s : exists pre, s = pre ++ last_seg s.
Proof.
  induction s as [|c r [pre IH]]; cbn [last_seg]; [exists ""; reflexivity|].
  destruct (has_dot r).
  - exists (String c pre). cbn [append]. f_equal. exact IH.
  - destruct (Ascii.eqb c dot).
    + exists (String c ""). reflexivity.
    + exists "". reflexivity.
Qed.

(** the text before the last segment is empty or ends in '.' *)
Lemma last_seg_after_dot s :
  s = last_seg s \/ exists pre, s = pre ++ String dot (last_seg s).
Proof.
  induction s as [|c r IH]; cbn [last_seg]; [left; reflexivity|].
  destruct (has_dot r) eqn:E.
  - right. destruct IH as [IH|[pre IH]].
    + rewrite IH in E. rewrite last_seg_no_dot in E. discriminate.
    + exists (String c pre). cbn [append]. f_equal. exact IH.
  - destruct (Ascii.eqb c dot) eqn:Ec.
    + right. apply Ascii.eqb_eq in Ec. subst c. exists "". reflexivity.
    + left. reflexivity.
Qed.

Lemma dots_to_slashes_app a b :
  dots_to_slashes (a ++ b) = dots_to_slashes a ++ dots_to_slashes b.
Proof. induction a as [|c a IH]; cbn [append dots_to_slashes]; [reflexivity | f_equal; exact IH]. Qed.

Lemma dots_to_slashes_no_dot s : has_dot s = false -> dots_to_slashes s = s.
Proof.
  induction s as [|c r IH]; cbn [has_dot dots_to_slashes]; [reflexivity|].
  destruct (Ascii.eqb c dot); [discriminate|]. intros H. f_equal. auto.
Qed.

(** The directory derived from a package name ends with the name's last segment, verbatim (so a
    kebab-case interface name is preserved, whatever it contains besides '.'). *)
Lemma path_keeps_last_seg name :
  dots_to_slashes name = last_seg name \/
  exists pre, dots_to_slashes name = pre ++ String "/"%char (last_seg name).
Proof.
  destruct (last_seg_after_dot name) as [H|[pre H]].
  - left. rewrite H at 1. apply dots_to_slashes_no_dot, last_seg_no_dot.
  - right. exists (dots_to_slashes pre). rewrite H at 1. rewrite dots_to_slashes_app.
    cbn [dots_to_slashes]. rewrite Ascii.eqb_refl. f_equal. f_equal.
    apply dots_to_slashes_no_dot, last_seg_no_dot.
Qed.

(** * Invariant of one [Imports] value and of the resolver *)

Record imp_inv (i : imports) : Prop := {
  inv_keys : NoDup (map fst (packages i));
  inv_aliases : NoDup (map snd (packages i));
  inv_defined : forall n a, In (n, a) (packages i) -> In a (defined (ins i));
  inv_shape : forall n a, In (n, a) (packages i) -> alias_shape (last_seg n) a;
}.

Definition res_inv (r : resolver) : Prop := forall this i, assoc this r = Some i -> imp_inv i.

Lemma imp_inv_default : imp_inv imports_default.
Proof. constructor; cbn; try apply NoDup_nil; intros ? ? []. Qed.

Lemma res_inv_nil : res_inv [].
Proof. intros this i H. discriminate. Qed.

Definition cur (r : resolver) (this : string) : imports :=
  match assoc this r with Some i => i | None => imports_default end.

Lemma cur_inv r this : res_inv r -> imp_inv (cur r this).
Proof.
  intros H. unfold cur. destruct (assoc this r) eqn:E; [eapply H; eauto | apply imp_inv_default].
Qed.

Lemma res_inv_upsert r this i : res_inv r -> imp_inv i -> res_inv (upsert this i r).
Proof.
  intros Hr Hi this' i' H.
  destruct (String.eqb this this') eqn:E.
  - apply String.eqb_eq in E. subst this'. rewrite assoc_upsert_same in H. injection H as <-. exact Hi.
  - apply String.eqb_neq in E. rewrite assoc_upsert_other in H by exact E. eapply Hr; eauto.
Qed.

(** What one call does, in terms of the entry of [this]. *)
Lemma qualify_spec r this name r' out :
  qualify_package r this name = (r', out) ->
  (name = this /\ r' = r /\ out = "") \/
  (name <> this /\ exists i' a,
      r' = upsert this i' r /\ out = at_alias a /\ assoc name (packages i') = Some a /\
      ((packages i' = packages (cur r this) /\ ins i' = ins (cur r this)) \/
       (assoc name (packages (cur r this)) = None /\
        packages i' = (name, a) :: packages (cur r this) /\
        ns_tmp_tot (ins (cur r this)) (last_seg name) = (ins i', a)))).
Proof.
  unfold qualify_package. fold (cur r this).
  destruct (String.eqb name this) eqn:E.
  - apply String.eqb_eq in E. intros H. injection H as <- <-. left. auto.
  - apply String.eqb_neq in E. right. split; [exact E|].
    destruct (assoc name (packages (cur r this))) as [alias|] eqn:Ea.
    + injection H as <- <-. exists (cur r this), alias. repeat split; auto.
    + destruct (ns_tmp_tot (ins (cur r this)) (last_seg name)) as [ns' alias] eqn:Et.
      injection H as <- <-.
      eexists; exists alias. split; [reflexivity|]. split; [reflexivity|]. cbn [packages ins].
      split; [cbn [assoc]; rewrite String.eqb_refl; reflexivity|].
      right. auto.
Qed.

Lemma qualify_inv r this name r' out :
  res_inv r -> qualify_package r this name = (r', out) -> res_inv r'.
Proof.
  intros Hr H. apply qualify_spec in H.
  destruct H as [(_ & -> & _) | (_ & i' & a & -> & _ & _ & Hcase)]; [exact Hr|].
  apply res_inv_upsert; [exact Hr|].
  pose proof (cur_inv r this Hr) as Hc.
  destruct Hcase as [[Hp Hn] | (Hnone & Hp & Ht)].
  - destruct Hc as [H1 H2 H3 H4]. constructor; rewrite ?Hp, ?Hn; auto.
  - apply ns_tmp_tot_fresh in Ht as Hf. destruct Hf as [Hfresh Hdef].
    apply ns_tmp_tot_shape in Ht as Hsh.
    destruct Hc as [H1 H2 H3 H4]. constructor; rewrite Hp; cbn [map fst snd].
    + constructor; [apply assoc_None_not_In; exact Hnone | exact H1].
    + constructor; [|exact H2]. intros Hin. apply in_map_iff in Hin.
      destruct Hin as [[n0 a0] [Hs Hin]]. cbn in Hs. subst a0. apply Hfresh. eapply H3; eauto.
    + intros n0 a0 [Heq|Hin]; rewrite Hdef.
      * injection Heq as <- <-. left. reflexivity.
      * right. eapply H3; eauto.
    + intros n0 a0 [Heq|Hin].
      * injection Heq as <- <-. exact Hsh.
      * eapply H4; eauto.
Qed.

(** * Monotonicity: a recorded (package, alias) pair is never changed or dropped *)

Definition recorded (r : resolver) (this name a : string) : Prop :=
  exists i, assoc this r = Some i /\ assoc name (packages i) = Some a.

Lemma qualify_mono r this name r' out this0 n0 a0 :
  qualify_package r this name = (r', out) ->
  recorded r this0 n0 a0 -> recorded r' this0 n0 a0.
Proof.
  intros H [i0 [Hi0 Hn0]]. apply qualify_spec in H.
  destruct H as [(_ & -> & _) | (_ & i' & a & -> & _ & Ha & Hcase)]; [exists i0; auto|].
  destruct (String.eqb this this0) eqn:E.
  - apply String.eqb_eq in E. subst this0. exists i'. rewrite assoc_upsert_same. split; [reflexivity|].
    assert (Hc : cur r this = i0) by (unfold cur; rewrite Hi0; reflexivity).
    destruct Hcase as [[Hp _] | (Hnone & Hp & _)]; rewrite Hp, Hc.
    + exact Hn0.
    + cbn [assoc]. destruct (String.eqb n0 name) eqn:En; [|exact Hn0].
      apply String.eqb_eq in En. subst n0. rewrite Hc in Hnone. congruence.
  - apply String.eqb_neq in E. exists i0. rewrite assoc_upsert_other by exact E. auto.
Qed.

Lemma run_inv calls : forall r outs rf,
  res_inv r -> run r calls = (outs, rf) -> res_inv rf.
Proof.
  induction calls as [|[this name] rest IH]; cbn [run]; intros r outs rf Hr H.
  - injection H as _ <-. exact Hr.
  - destruct (qualify_package r this name) as [r' out] eqn:Eq.
    destruct (run r' rest) as [outs' rf'] eqn:Er. injection H as _ <-.
    eapply IH; [|exact Er]. eapply qualify_inv; eauto.
Qed.

Lemma run_mono calls : forall r outs rf this0 n0 a0,
  run r calls = (outs, rf) -> recorded r this0 n0 a0 -> recorded rf this0 n0 a0.
Proof.
  induction calls as [|[this name] rest IH]; cbn [run]; intros r outs rf this0 n0 a0 H Hrec.
  - injection H as _ <-. exact Hrec.
  - destruct (qualify_package r this name) as [r' out] eqn:Eq.
    destruct (run r' rest) as [outs' rf'] eqn:Er. injection H as _ <-.
    eapply IH; [exact Er|]. eapply qualify_mono; eauto.
Qed.

Lemma run_app pre : forall r post,
  run r (pre ++ post) =
  let '(o1, r1) := run r pre in let '(o2, r2) := run r1 post in ((o1 ++ o2)%list, r2).
Proof.
  induction pre as [|[this name] pre IH]; intros r post; cbn [run app].
  - destruct (run r post) as [o2 r2]. reflexivity.
  - destruct (qualify_package r this name) as [r' out].
    rewrite IH. destruct (run r' pre) as [o1 r1]. destruct (run r1 post) as [o2 r2]. reflexivity.
Qed.

Lemma run_length calls : forall r outs rf, run r calls = (outs, rf) -> List.length outs = List.length calls.
Proof.
  induction calls as [|[this name] rest IH]; cbn [run]; intros r outs rf H.
  - injection H as <- _. reflexivity.
  - destruct (qualify_package r this name) as [r' out].
    destruct (run r' rest) as [outs' rf'] eqn:Er. injection H as <- _.
    cbn [List.length]. f_equal. eapply IH; eauto.
Qed.

(** * The theorems *)

(** Within one package, two different imported packages never share an alias (and one package has
    one alias). *)
Theorem alias_injective : forall calls outs rf this i n1 n2 a,
  run [] calls = (outs, rf) ->
  assoc this rf = Some i ->
  assoc n1 (packages i) = Some a -> assoc n2 (packages i) = Some a -> n1 = n2.
Proof.
  intros calls outs rf this i n1 n2 a Hrun Hi H1 H2.
  pose proof (run_inv calls [] outs rf res_inv_nil Hrun this i Hi) as [_ Hnd _ _].
  eapply In_snd_same_key; [exact Hnd | apply assoc_In; exact H1 | apply assoc_In; exact H2].
Qed.

(** The answer of every call of every history: "" iff the package refers to itself, otherwise
    "@alias." where [alias] is what the FINAL resolver state (the one the moon.pkg.json import lists
    are rendered from) records for that package, and that entry is in the rendered import list with
    the path [project/name-with-slashes]. *)
Definition answer_ok (project : string) (rf : resolver) (this name out : string) : Prop :=
  if String.eqb name this then out = ""
  else exists a i, out = at_alias a /\ assoc this rf = Some i /\ assoc name (packages i) = Some a /\
                   In (project ++ "/" ++ dots_to_slashes name, a) (import_entries project i) /\
                   alias_shape (last_seg name) a.

Theorem returned_alias_recorded : forall project pre this name post outs rf,
  run [] (pre ++ (this, name) :: post) = (outs, rf) ->
  answer_ok project rf this name (nth (List.length pre) outs "BAD").
Proof.
  intros project pre this name post outs rf H. rewrite run_app in H.
  destruct (run [] pre) as [o1 r1] eqn:E1. cbn [run] in H.
  destruct (qualify_package r1 this name) as [r2 out] eqn:Eq.
  destruct (run r2 post) as [o3 rf'] eqn:E3. injection H as <- <-.
  apply run_length in E1 as Hlen. rewrite <- Hlen, nth_middle.
  unfold answer_ok. apply qualify_spec in Eq as Hs.
  destruct Hs as [(-> & _ & ->) | (Hne & i' & a & -> & -> & Ha & _)].
  - rewrite String.eqb_refl. reflexivity.
  - apply String.eqb_neq in Hne. rewrite Hne.
    assert (Hrec : recorded (upsert this i' r1) this name a)
      by (exists i'; rewrite assoc_upsert_same; auto).
    eapply run_mono in Hrec; [|exact E3]. destruct Hrec as [i [Hi Hn]].
    exists a, i. split; [reflexivity|]. split; [exact Hi|]. split; [exact Hn|].
    assert (Hinv : imp_inv i).
    { eapply run_inv; [|exact E3|exact Hi]. eapply qualify_inv; [|exact Eq].
      eapply run_inv; [exact res_inv_nil | exact E1]. }
    split.
    + unfold import_entries. apply assoc_In in Hn.
      apply (in_map (fun kv => (project ++ "/" ++ dots_to_slashes (fst kv), snd kv))) in Hn. exact Hn.
    + destruct Hinv as [_ _ _ Hsh]. apply Hsh. apply assoc_In. exact Hn.
Qed.

(** Asking twice gives the same alias ("exactly one alias"). *)
Corollary same_question_same_answer : forall calls outs rf i j this name,
  run [] calls = (outs, rf) ->
  nth_error calls i = Some (this, name) -> nth_error calls j = Some (this, name) ->
  nth i outs "BAD" = nth j outs "BAD".
Proof.
  intros calls outs rf i j this name Hrun Hi Hj.
  assert (Hsplit : forall k, nth_error calls k = Some (this, name) ->
            answer_ok "" rf this name (nth k outs "BAD")).
  { intros k Hk. apply nth_error_split in Hk. destruct Hk as (pre & post & -> & <-).
    eapply returned_alias_recorded; eauto. }
  pose proof (Hsplit i Hi) as Ai. pose proof (Hsplit j Hj) as Aj. unfold answer_ok in *.
  destruct (String.eqb name this); [congruence|].
  destruct Ai as (a1 & i1 & -> & Hi1 & Hn1 & _). destruct Aj as (a2 & i2 & -> & Hi2 & Hn2 & _).
  congruence.
Qed.
