(** C25: indent_follows_braces and balanced_restores_indent for fragments appended at a line start. *)
From Coq Require Import List Ascii Bool Arith Lia.
From WB Require Import Core.Source Core.SourceSpec Core.SourceLemmas Core.SourceProofs Core.SourceLiteral.
Import ListNotations.

(** a line start outside a comment *)
Definition start_state (st : source) : Prop := continuing st = false /\ in_comment st = false.

Lemma start_state_newline st : start_state (newline st).
Proof. split; reflexivity. Qed.

Lemma push_piece_start single st l : start_state st ->
  push_piece true single st l =
    let buf1 := if is_nil l then rbuf st else spaces (2 * ind st) ++ rbuf st in
    let buf2 := if closes l && ends2sp buf1 then pop2 buf1 else buf1 in
    mkSource (rev (if single then l else trim_start l) ++ buf2)
             (let i1 := if opens l then S (ind st) else ind st in if closes l then pred i1 else i1)
             (is_comment_line l) true.
Proof.
  intros [Hc Hm]. unfold push_piece, closes, opens, is_comment_line. rewrite Hc, Hm.
  cbn [orb andb]. reflexivity.
Qed.

Lemma pop_spaces n b :
  ends2sp (spaces (2 * S n) ++ b) = true /\ pop2 (spaces (2 * S n) ++ b) = spaces (2 * n) ++ b.
Proof. rewrite spaces_2S. split; reflexivity. Qed.

Lemma trim_nil : trim [] = [].
Proof. reflexivity. Qed.

Lemma piece_render single st l dl d' : start_state st ->
  line_depths (ind st) l = Some (dl, d') ->
  push_piece true single st l
  = mkSource (rev (out_line single dl l) ++ rbuf st) d' (is_comment_line l) true.
Proof.
  intros Hs Hd. rewrite (push_piece_start single st l Hs). cbv zeta.
  unfold line_depths in Hd. unfold out_line.
  destruct l as [|c r].
  - cbn [is_nil]. assert (closes [] = false) as Hc by reflexivity. assert (opens [] = false) as Ho by reflexivity.
    rewrite Hc, Ho in *. inversion Hd; subst. cbn [andb]. destruct single; reflexivity.
  - cbn [is_nil]. set (l := c :: r) in *. set (lo := if single then l else trim_start l).
    destruct (closes l) eqn:Hc.
    + destruct (ind st) as [|d0] eqn:Hi; [discriminate|]. inversion Hd; subst.
      destruct (pop_spaces dl (rbuf st)) as [-> ->]. cbn [andb].
      rewrite rev_app_distr, rev_spaces, <- app_assoc. f_equal.
      destruct (opens l); reflexivity.
    + inversion Hd; subst. cbn [andb].
      rewrite rev_app_distr, rev_spaces, <- app_assoc. reflexivity.
Qed.

Lemma as_str_mk b i c k : as_str (mkSource b i c k) = rev b.
Proof. reflexivity. Qed.

Lemma render_push single endnl ls : forall st t dn,
  start_state st -> render single endnl (ind st) ls = Some (t, dn) ->
  as_str (push_lines true single endnl st ls) = as_str st ++ t
  /\ ind (push_lines true single endnl st ls) = dn.
Proof.
  induction ls as [|l rest IH]; intros st t dn Hs Hr.
  - simpl in *. inversion Hr; subst. rewrite app_nil_r. auto.
  - cbn [render] in Hr.
    destruct (line_depths (ind st) l) as [[dl d']|] eqn:Hd; [|discriminate].
    destruct (render single endnl d' rest) as [[t' dn']|] eqn:Hr'; [|discriminate].
    inversion Hr; subst. clear Hr.
    pose proof (piece_render single st l dl d' Hs Hd) as Hp.
    destruct rest as [|l2 rest2].
    + simpl in Hr'. inversion Hr'; subst.
      change (push_lines true single endnl st [l])
        with (if endnl then newline (push_piece true single st l) else push_piece true single st l).
      rewrite Hp. cbn [is_nil andb]. destruct endnl; unfold newline; cbn [negb rbuf ind]; rewrite as_str_mk.
      * cbn [rev]. rewrite rev_app_distr, rev_involutive, app_nil_r, <- app_assoc. auto.
      * rewrite rev_app_distr, rev_involutive, !app_nil_r. auto.
    + change (push_lines true single endnl st (l :: l2 :: rest2))
        with (push_lines true single endnl (newline (push_piece true single st l)) (l2 :: rest2)).
      assert (Hi : ind (newline (push_piece true single st l)) = d') by (rewrite Hp; reflexivity).
      rewrite <- Hi in Hr'.
      destruct (IH _ _ _ (start_state_newline _) Hr') as [Ha Hb]. rewrite Ha, Hb. split; auto.
      rewrite Hp. unfold newline. cbn [rbuf ind is_nil andb]. rewrite as_str_mk. cbn [rev].
      rewrite rev_app_distr, rev_involutive, <- !app_assoc. reflexivity.
Qed.

(** pushing a fragment at a line start lays it out as [render] says *)
Theorem push_block : forall st f t dn,
  start_state st ->
  render (frag_single f) (ends_with_lf f) (ind st) (rust_lines f) = Some (t, dn) ->
  as_str (push_str st f) = as_str st ++ t /\ ind (push_str st f) = dn.
Proof. intros st f t dn Hs Hr. unfold push_str, push_str_impl. apply render_push; auto. Qed.

(** literal fragments *)
Lemma piece_render_lit single st l : continuing st = false ->
  push_piece false single st l
  = mkSource (rev (out_line single (ind st) l) ++ rbuf st) (ind st) (in_comment st) true.
Proof.
  intro Hc. unfold push_piece, out_line. rewrite Hc. cbn [andb orb]. rewrite orb_false_r.
  destruct l as [|c r]; cbn [is_nil].
  - destruct single; reflexivity.
  - rewrite rev_app_distr, rev_spaces, <- app_assoc. reflexivity.
Qed.

Lemma render_lit_push single endnl ls : forall st,
  continuing st = false ->
  as_str (push_lines false single endnl st ls) = as_str st ++ render_lit single endnl (ind st) ls.
Proof.
  induction ls as [|l rest IH]; intros st Hc.
  - simpl. rewrite app_nil_r. auto.
  - pose proof (piece_render_lit single st l Hc) as Hp. cbn [render_lit].
    destruct rest as [|l2 rest2].
    + change (push_lines false single endnl st [l])
        with (if endnl then newline (push_piece false single st l) else push_piece false single st l).
      rewrite Hp. cbn [is_nil andb render_lit]. destruct endnl; unfold newline; cbn [negb rbuf ind]; rewrite as_str_mk.
      * cbn [rev]. rewrite rev_app_distr, rev_involutive, app_nil_r, <- app_assoc. auto.
      * rewrite rev_app_distr, rev_involutive, !app_nil_r. auto.
    + change (push_lines false single endnl st (l :: l2 :: rest2))
        with (push_lines false single endnl (newline (push_piece false single st l)) (l2 :: rest2)).
      rewrite IH by reflexivity. rewrite Hp. unfold newline. cbn [rbuf ind is_nil andb]. rewrite as_str_mk. cbn [rev].
      rewrite rev_app_distr, rev_involutive, <- !app_assoc. reflexivity.
Qed.

(** ** sequences of whole-line fragments *)
Lemma whole_lines_cases f : whole_lines f = true ->
  (f = [] /\ rust_lines f = []) \/ (ends_with_lf f = true /\ rust_lines f <> []).
Proof.
  unfold whole_lines. intro H. apply andb_true_iff in H as [_ H]. apply orb_true_iff in H as [H | H].
  - destruct f; try discriminate. left. auto.
  - right. split; auto. intro Hn. apply rust_lines_nil in Hn. subst. discriminate.
Qed.

Lemma push_whole_start interp st f : whole_lines f = true -> start_state st ->
  start_state (push_str_impl interp st f).
Proof.
  intros Hw Hs. unfold push_str_impl. destruct (whole_lines_cases f Hw) as [[-> ->] | [He Hn]].
  - simpl. exact Hs.
  - rewrite He. destruct (push_lines_endnl interp (Nat.eqb (List.length (rust_lines f)) 1) (rust_lines f) st Hn) as [st0 ->].
    apply start_state_newline.
Qed.

Lemma push_whole st f t dn : whole_lines f = true -> start_state st ->
  render (frag_single f) true (ind st) (rust_lines f) = Some (t, dn) ->
  as_str (push_str st f) = as_str st ++ t /\ ind (push_str st f) = dn /\ start_state (push_str st f).
Proof.
  intros Hw Hs Hr. destruct (whole_lines_cases f Hw) as [[-> Hl] | [He Hn]].
  - simpl in Hr. inversion Hr; subst. unfold push_str, push_str_impl. simpl. rewrite app_nil_r. auto.
  - rewrite <- He in Hr. destruct (push_block st f t dn Hs Hr) as [Ha Hb].
    repeat split; auto; apply (push_whole_start true st f Hw Hs).
Qed.

Lemma push_whole_lit st f : whole_lines f = true -> start_state st ->
  as_str (push_str_literal st f) = as_str st ++ render_lit (frag_single f) true (ind st) (rust_lines f)
  /\ ind (push_str_literal st f) = ind st /\ start_state (push_str_literal st f).
Proof.
  intros Hw Hs. split; [|split].
  - unfold push_str_literal, push_str_impl. destruct (whole_lines_cases f Hw) as [[-> Hl] | [He Hn]].
    + simpl. rewrite app_nil_r. auto.
    + rewrite He. apply render_lit_push. apply Hs.
  - apply literal_transparent.
  - apply (push_whole_start false st f Hw Hs).
Qed.

Lemma spec_parts_run ps : forall st t d,
  forallb whole_lines ps = true -> start_state st -> spec_parts (ind st) ps = Some (t, d) ->
  as_str (fold_left push_str ps st) = as_str st ++ t /\ ind (fold_left push_str ps st) = d
  /\ start_state (fold_left push_str ps st).
Proof.
  induction ps as [|p r IH]; intros st t d Hw Hs Hsp; simpl in *.
  - inversion Hsp; subst. rewrite app_nil_r. auto.
  - apply andb_true_iff in Hw as [Hp Hr].
    destruct (render (frag_single p) true (ind st) (rust_lines p)) as [[t1 d1]|] eqn:Hr1; [|discriminate].
    destruct (spec_parts d1 r) as [[t2 d2]|] eqn:Hr2; [|discriminate]. inversion Hsp; subst.
    destruct (push_whole st p t1 d1 Hp Hs Hr1) as (Ha & Hb & Hc).
    rewrite <- Hb in Hr2. destruct (IH _ _ _ Hr Hc Hr2) as (Ha2 & Hb2 & Hc2).
    rewrite Ha2, Hb2, Ha, <- app_assoc. auto.
Qed.

(** indent_follows_braces for call sequences made of whole-line fragments: the buffer is exactly the
    declarative layout [spec_run] of the appended lines. *)
Theorem indent_whole_lines_gen : forall ops st0 t d,
  start_state st0 -> forallb bop_aligned ops = true -> spec_run (ind st0) ops = Some (t, d) ->
  exists st outs, run_b st0 ops = Some (st, outs) /\ as_str st = as_str st0 ++ t /\ ind st = d /\ start_state st.
Proof.
  induction ops as [|b r IH]; intros st0 t d Hs Ha Hsp.
  - simpl in *. inversion Hsp; subst. exists st0, []. rewrite app_nil_r. auto.
  - simpl in Ha. apply andb_true_iff in Ha as [Hb Hr].
    cbn [spec_run] in Hsp. cbv zeta in Hsp.
    assert (Hk : forall st1 o1 t1 d1,
      step_b st0 b = Some (st1, o1) -> as_str st1 = as_str st0 ++ t1 -> ind st1 = d1 -> start_state st1 ->
      match spec_run d1 r with None => None | Some (t2, d2) => Some (t1 ++ t2, d2) end = Some (t, d) ->
      exists st outs, run_b st0 (b :: r) = Some (st, outs) /\ as_str st = as_str st0 ++ t /\ ind st = d /\ start_state st).
    { intros st1 o1 t1 d1 Hstep Has Hi Hs1 Hsp1.
      destruct (spec_run d1 r) as [[t2 d2]|] eqn:Hr2; [|discriminate]. inversion Hsp1; subst.
      destruct (IH st1 t2 d Hs1 Hr Hr2) as (st & outs & Hrun & Has2 & Hi2 & Hs2).
      exists st, (o1 ++ outs). simpl. rewrite Hstep, Hrun. rewrite Has2, Has, <- app_assoc. auto. }
    destruct b; simpl in Hb.
    + destruct (render (frag_single f) true (ind st0) (rust_lines f)) as [[t1 d1]|] eqn:Hr1; [|discriminate].
      destruct (push_whole st0 f t1 d1 Hb Hs Hr1) as (H1 & H2 & H3).
      eapply Hk; eauto. reflexivity.
    + destruct (push_whole_lit st0 f Hb Hs) as (H1 & H2 & H3).
      eapply Hk; eauto. reflexivity.
    + destruct (spec_parts (ind st0) parts) as [[t1 d1]|] eqn:Hr1; [|discriminate].
      destruct (spec_parts_run parts st0 t1 d1 Hb Hs Hr1) as (H1 & H2 & H3).
      eapply Hk; eauto. reflexivity.
    + apply (Hk (indent st0 n) [] [] (ind st0 + n));
        [reflexivity | rewrite app_nil_r; reflexivity | reflexivity | exact Hs | exact Hsp].
    + destruct (n <=? ind st0) eqn:Hn; [|discriminate].
      apply (Hk (mkSource (rbuf st0) (ind st0 - n) (in_comment st0) (continuing st0)) [] [] (ind st0 - n));
        [simpl; unfold deindent; rewrite Hn; reflexivity | rewrite app_nil_r; reflexivity | reflexivity | exact Hs | exact Hsp].
    + apply (Hk (fst (set_indent st0 n)) [ind st0] [] n);
        [reflexivity | rewrite app_nil_r; reflexivity | reflexivity | exact Hs | exact Hsp].
    + apply (Hk st0 [ind st0] [] (ind st0));
        [destruct st0; reflexivity | rewrite app_nil_r; reflexivity | reflexivity | exact Hs | exact Hsp].
Qed.

Theorem indent_whole_lines : forall ops t d,
  forallb bop_aligned ops = true -> spec_run 0 ops = Some (t, d) ->
  exists st outs, run_b source_default ops = Some (st, outs) /\ as_str st = t /\ ind st = d.
Proof.
  intros ops t d Ha Hsp.
  destruct (indent_whole_lines_gen ops source_default t d) as (st & outs & H1 & H2 & H3 & _); auto.
  { split; reflexivity. } exists st, outs. auto.
Qed.
