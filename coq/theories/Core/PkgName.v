(** Model of crates/core/src/path.rs : [name_package_module], together with the pieces of other
    crates it calls, restricted to ASCII (WIT identifiers and semver strings are ASCII by grammar):
    - heck 0.5 [transform] / [to_snake_case]  (heck-0.5.0/src/lib.rs, snake.rs),
    - semver [Version]'s [Display],
    - [u64]'s [Display] (decimal),
    - wit-parser's [validate_id] and the semver grammar (used as the hypotheses "valid package").
    Definitions only; proofs are in PkgNameProofs.v.  Strings are [list ascii]. *)
From Coq Require Import List Ascii NArith Bool.
Import ListNotations.

Definition str := list ascii.

Definition code (c : ascii) : N := N_of_ascii c.
Definition is_digit (c : ascii) : bool := (48 <=? code c)%N && (code c <=? 57)%N.
Definition is_lower (c : ascii) : bool := (97 <=? code c)%N && (code c <=? 122)%N.
Definition is_upper (c : ascii) : bool := (65 <=? code c)%N && (code c <=? 90)%N.
Definition is_alnum (c : ascii) : bool := is_digit c || is_lower c || is_upper c.
(** [char::to_lowercase] on ASCII *)
Definition to_lower (c : ascii) : ascii :=
  if is_upper c then ascii_of_N (code c + 32) else c.
Definition lowercase (s : str) : str := map to_lower s.

Definition ch_us : ascii := "_"%char.
Definition ch_dot : ascii := "."%char.
Definition ch_dash : ascii := "-"%char.
Definition ch_plus : ascii := "+"%char.

Fixpoint str_eqb (a b : str) : bool :=
  match a, b with
  | [], [] => true
  | x :: a', y :: b' => Ascii.eqb x y && str_eqb a' b'
  | _, _ => false
  end.

(** * heck::transform specialised to snake case *)

(** [s.split(|c| !c.is_alphanumeric())]: yields empty words too. [cur] = current word, reversed. *)
Fixpoint split_by (p : ascii -> bool) (s : str) (cur : str) : list str :=
  match s with
  | [] => [rev cur]
  | c :: t => if p c then rev cur :: split_by p t [] else split_by p t (c :: cur)
  end.

Inductive wmode := Boundary | Lowercase | Uppercase.
Definition wmode_eqb (a b : wmode) : bool :=
  match a, b with
  | Boundary, Boundary | Lowercase, Lowercase | Uppercase, Uppercase => true
  | _, _ => false
  end.

(** [boundary(f)] unless this is the first word *)
Definition bsep (first : bool) : str := if first then [] else [ch_us].

(** The [while let Some((i, c)) = char_indices.next()] loop over one word.
    [acc] = [word[init..i]] reversed.  Returns the new [first_word] flag and the text written. *)
Fixpoint word_loop (w : str) (acc : str) (mode : wmode) (first : bool) : bool * str :=
  match w with
  | [] => (first, [])
  | c :: rest =>
    match rest with
    | [] => (false, bsep first ++ lowercase (rev (c :: acc)))
    | next :: _ =>
      let next_mode := if is_lower c then Lowercase else if is_upper c then Uppercase else mode in
      if wmode_eqb next_mode Lowercase && is_upper next then
        let '(f', o) := word_loop rest [] Boundary false in
        (f', bsep first ++ lowercase (rev (c :: acc)) ++ o)
      else if wmode_eqb mode Uppercase && is_upper c && is_lower next then
        let '(f', o) := word_loop rest [c] Boundary false in
        (f', bsep first ++ lowercase (rev acc) ++ o)
      else word_loop rest (c :: acc) next_mode first
    end
  end.

Fixpoint words_loop (ws : list str) (first : bool) : str :=
  match ws with
  | [] => []
  | w :: t => let '(f, o) := word_loop w [] Boundary first in o ++ words_loop t f
  end.

Definition to_snake_case (s : str) : str :=
  words_loop (split_by (fun c => negb (is_alnum c)) s []) true.

(** * u64 Display *)
Definition digit_char (d : N) : ascii := ascii_of_N (48 + d).
Fixpoint dec_aux (fuel : nat) (n : N) (acc : str) : str :=
  match fuel with
  | O => acc
  | S f => let acc' := digit_char (n mod 10) :: acc in
           if (n / 10 =? 0)%N then acc' else dec_aux f (n / 10) acc'
  end.
(** fuel: a number below 2^k has at most k decimal digits *)
Definition dec (n : N) : str := dec_aux (S (N.to_nat (N.log2 n))) n [].
(** inverse direction, used by the driver to read numbers and by the proofs *)
Definition digit_val (c : ascii) : N := code c - 48.
Definition undec (s : str) : N := fold_left (fun a c => 10 * a + digit_val c)%N s 0%N.

(** * semver::Version and its Display *)
Record version := { major : N; minor : N; patch : N; pre : str; build : str }.

Definition version_to_string (v : version) : str :=
  dec (major v) ++ ch_dot :: dec (minor v) ++ ch_dot :: dec (patch v)
  ++ (match pre v with [] => [] | p => ch_dash :: p end)
  ++ (match build v with [] => [] | b => ch_plus :: b end).

(** [.replace('.', "_").replace('-', "_").replace('+', "_")] *)
Definition replace3 (s : str) : str :=
  map (fun c => if Ascii.eqb c ch_dot || Ascii.eqb c ch_dash || Ascii.eqb c ch_plus then ch_us else c) s.

(** * Packages and name_package_module *)
Record pkg := { pns : str; pname : str; pver : option version }.

Definition version_eqb (a b : version) : bool :=
  N.eqb (major a) (major b) && N.eqb (minor a) (minor b) && N.eqb (patch a) (patch b)
  && str_eqb (pre a) (pre b) && str_eqb (build a) (build b).
Definition over_eqb (a b : option version) : bool :=
  match a, b with
  | None, None => true
  | Some x, Some y => version_eqb x y
  | _, _ => false
  end.
Definition same_name (p q : pkg) : bool := str_eqb (pns q) (pns p) && str_eqb (pname q) (pname p).
Definition pkg_eqb (p q : pkg) : bool := same_name p q && over_eqb (pver p) (pver q).

(** the mangled version text appended to the base *)
Definition version_suffix (v : version) : str := to_snake_case (replace3 (version_to_string v)).

(** [resolve.packages] = [S]; [resolve.packages[id]] = [p] *)
Definition name_package_module (S : list pkg) (p : pkg) : str :=
  let n := List.length (filter (same_name p) S) in
  let base := to_snake_case (pname p) in
  if Nat.eqb n 1 then base
  else match pver p with
       | None => base
       | Some v => base ++ version_suffix v
       end.

Definition module_names (S : list pkg) : list str := map (name_package_module S) S.

(** * Validity of package ids (what the real parser accepts) *)

(** wit-parser [validate_id] *)
Fixpoint part_chars_ok (part : str) (upper : option bool) : bool :=
  match part with
  | [] => true
  | ch :: t =>
    if is_digit ch then part_chars_ok t upper
    else if is_upper ch then
      match upper with
      | None => part_chars_ok t (Some true)
      | Some false => false
      | Some true => part_chars_ok t upper
      end
    else if is_lower ch then
      match upper with
      | None => part_chars_ok t (Some false)
      | Some true => false
      | Some false => part_chars_ok t upper
      end
    else false
  end.
Definition is_alpha (c : ascii) : bool := is_lower c || is_upper c.
Definition part_ok (first_part : bool) (part : str) : bool :=
  match part with
  | [] => false
  | c :: _ => (if first_part then is_alpha c else true) && part_chars_ok part None
  end.
Definition parts_ok (parts : list str) : bool :=
  match parts with
  | [] => false
  | p0 :: ps => part_ok true p0 && forallb (part_ok false) ps
  end.
Definition valid_id (s : str) : bool :=
  match s with
  | [] => false
  | _ => parts_ok (split_by (fun c => Ascii.eqb c ch_dash) s [])
  end.

(** semver grammar for the two identifier lists *)
Definition is_ident_char (c : ascii) : bool := is_alnum c || Ascii.eqb c ch_dash.
Definition pre_ident_ok (i : str) : bool :=
  match i with
  | [] => false
  | c :: t => forallb is_ident_char i
              && (if forallb is_digit i then match t with [] => true | _ => negb (Ascii.eqb c "0"%char) end else true)
  end.
Definition build_ident_ok (i : str) : bool :=
  match i with [] => false | _ => forallb is_ident_char i end.
Definition idents (s : str) : list str := split_by (fun c => Ascii.eqb c ch_dot) s [].
Definition u64_max : N := 18446744073709551615.
Definition valid_version (v : version) : bool :=
  (major v <=? u64_max)%N && (minor v <=? u64_max)%N && (patch v <=? u64_max)%N
  && (match pre v with [] => true | p => forallb pre_ident_ok (idents p) end)
  && (match build v with [] => true | b => forallb build_ident_ok (idents b) end).

Definition valid_pkg (p : pkg) : bool :=
  valid_id (pns p) && valid_id (pname p)
  && match pver p with None => true | Some v => valid_version v end.

Fixpoint nodupb (S : list pkg) : bool :=
  match S with
  | [] => true
  | p :: t => negb (existsb (pkg_eqb p) t) && nodupb t
  end.
Definition valid_set (S : list pkg) : bool := forallb valid_pkg S && nodupb S.

(** all packages of [S] live in one namespace *)
Definition one_ns (S : list pkg) : bool :=
  match S with
  | [] => true
  | p :: t => forallb (fun q => str_eqb (pns q) (pns p)) t
  end.

(** the property's executable statement on a list of module names *)
Fixpoint str_nodupb (l : list str) : bool :=
  match l with
  | [] => true
  | x :: t => negb (existsb (str_eqb x) t) && str_nodupb t
  end.
