(** * Core/ResourceOwn.v — resource and handle ownership in Rust guest bindings (definitions only)

    Guest side (transcribed from the code the Rust generator emits and the runtime it relies on):
    - [_rt::Resource<T>] (crates/rust/src/lib.rs, RuntimeItem::ResourceType): a wrapper around an [AtomicU32];
      [from_handle h] stores [h]; [take_handle] swaps in the sentinel [u32::MAX] and returns the old value;
      [handle] reads it; [Drop] calls the imported [[resource-drop]] intrinsic unless the value is the sentinel.
    - imported resource [R]: a newtype of [Resource<R>]; lowering [own<R>] is [take_handle], lowering [borrow<R>]
      is [handle], lifting [own<R>] is [from_handle], lifting [borrow<R>] in an export is [from_handle] into a
      temporary that lives until the generated export glue returns (crates/rust/src/bindgen.rs HandleLift).
    - exported resource [X] (crates/rust/src/interface.rs type_resource + crates/guest-rust/src/resource.rs): the
      representation is [Option<T>] ([ResourceRep]): [new v] boxes [Some v], calls [[resource-new]](ptr) and wraps the
      handle; [get] asks [[resource-rep]] and unwraps [as_ref]; [into_inner] does [take().unwrap()] on the box and then
      drops the wrapper (-> [[resource-drop]]); [dtor ptr] is [Box::from_raw ptr] dropped; [XBorrow::lift rep] keeps the
      raw rep pointer, [get] unwraps [as_ref] on it.
    Host side: the Component Model handle table of this component instance (CanonicalABI.md: ResourceHandle {rep, own,
    num_lends}, lift_own / lower_own / lift_borrow / lower_borrow, canon resource.new / resource.rep / resource.drop, "a
    task must drop every borrow handle it was lent before it returns"), with LIFO reuse of freed indices.

    Everything is executable: [step] is total, a violated rule sets [err] and freezes the state.  Errors are classified:
    [EApi] = the operation list itself is ill-formed (uses a Rust value that was moved/dropped, or the host breaks the CM
    protocol) — such lists are outside the theorem; [ETrap] = the host traps because of what the GUEST did; [EPanic] = the
    guest panics (unwrap of a taken rep, debug assertion).  The property says [ETrap]/[EPanic] never happen and the
    bookkeeping invariants hold for every operation list that is not [EApi]. *)
From Coq Require Import List NArith Bool.
Import ListNotations.
Local Open Scope N_scope.

Definition MAXH : N := 4294967295.            (* u32::MAX, the "taken" sentinel *)

(** ** Association lists *)
Section AList.
  Context {A : Type}.
  Fixpoint lookup (k : N) (l : list (N * A)) : option A :=
    match l with
    | [] => None
    | (k', v) :: r => if N.eqb k k' then Some v else lookup k r
    end.
  Fixpoint remove (k : N) (l : list (N * A)) : list (N * A) :=
    match l with
    | [] => []
    | (k', v) :: r => if N.eqb k k' then r else (k', v) :: remove k r
    end.
  Definition keys (l : list (N * A)) : list N := map fst l.
End AList.

(** ** Data *)
Inductive rkind := Imported | Exported.        (* who implements the resource type *)
Definition rkind_eqb (a b : rkind) : bool := match a, b with Imported, Imported | Exported, Exported => true | _, _ => false end.

Record hentry := { e_kind : rkind; e_rep : N; e_own : bool; e_lends : N }.
Record wrapper := { w_kind : rkind; w_handle : N; w_temp : bool }.   (* w_temp: a borrow temporary owned by the export glue *)
Inductive repstate := RSome (v : N) | RNone.   (* content of the Box<Option<T>> of an exported resource *)

Inductive error := EApi (what : N) | ETrap (what : N) | EPanic (what : N).

Inductive event :=
| EvDropCall (h : N) (own : bool)  (* the guest called [resource-drop] h; own = what kind of entry it released *)
| EvNewBox (rep v : N)      (* X::new boxed Some v at rep *)
| EvHostTook (h rep : N)    (* the host lifted own handle h out of the guest's table (transfer) *)
| EvDtor (rep : N)          (* the exported destructor ran on rep: the box is released *)
| EvValDestroyed (v : N)    (* the Rust value v was dropped *)
| EvValToUser (v : N)       (* into_inner moved v out to user code *)
| EvLend (h : N)            (* the host borrowed from own handle h for the duration of an import call *)
| EvNewHandle (h : N) (own : bool).

Record st := {
  tbl : list (N * hentry);        (* the instance's handle table *)
  freeh : list N;                 (* freed indices, most recently freed first (LIFO reuse) *)
  nexth : N;                      (* next never-used index (starts at 1) *)
  ws : list (N * wrapper);        (* live Rust wrapper values by identity *)
  nextw : N;
  reps : list (N * repstate);     (* live boxes of exported resources by address *)
  nextrep : N;
  hostown : list N;               (* reps of exported resources whose own handle is currently held outside this component *)
  in_export : bool;               (* an export activation is in progress *)
  need_drop : N;                  (* borrow handles lent to the current export activation and not yet dropped *)
  log : list event;               (* newest first *)
  err : option error }.

Definition init : st :=
  {| tbl := []; freeh := []; nexth := 1; ws := []; nextw := 0; reps := []; nextrep := 4096; hostown := [];
     in_export := false; need_drop := 0; log := []; err := None |}.

Definition fail (s : st) (e : error) : st :=
  {| tbl := tbl s; freeh := freeh s; nexth := nexth s; ws := ws s; nextw := nextw s; reps := reps s; nextrep := nextrep s;
     hostown := hostown s; in_export := in_export s; need_drop := need_drop s; log := log s; err := Some e |}.
Definition emit (s : st) (ev : event) : st :=
  {| tbl := tbl s; freeh := freeh s; nexth := nexth s; ws := ws s; nextw := nextw s; reps := reps s; nextrep := nextrep s;
     hostown := hostown s; in_export := in_export s; need_drop := need_drop s; log := ev :: log s; err := err s |}.
Definition set_tbl (s : st) (t : list (N * hentry)) (f : list N) (n : N) : st :=
  {| tbl := t; freeh := f; nexth := n; ws := ws s; nextw := nextw s; reps := reps s; nextrep := nextrep s;
     hostown := hostown s; in_export := in_export s; need_drop := need_drop s; log := log s; err := err s |}.
Definition set_ws (s : st) (w : list (N * wrapper)) (n : N) : st :=
  {| tbl := tbl s; freeh := freeh s; nexth := nexth s; ws := w; nextw := n; reps := reps s; nextrep := nextrep s;
     hostown := hostown s; in_export := in_export s; need_drop := need_drop s; log := log s; err := err s |}.
Definition set_reps (s : st) (r : list (N * repstate)) (n : N) : st :=
  {| tbl := tbl s; freeh := freeh s; nexth := nexth s; ws := ws s; nextw := nextw s; reps := r; nextrep := n;
     hostown := hostown s; in_export := in_export s; need_drop := need_drop s; log := log s; err := err s |}.
Definition set_hostown (s : st) (h : list N) : st :=
  {| tbl := tbl s; freeh := freeh s; nexth := nexth s; ws := ws s; nextw := nextw s; reps := reps s; nextrep := nextrep s;
     hostown := h; in_export := in_export s; need_drop := need_drop s; log := log s; err := err s |}.
Definition set_export (s : st) (b : bool) (n : N) : st :=
  {| tbl := tbl s; freeh := freeh s; nexth := nexth s; ws := ws s; nextw := nextw s; reps := reps s; nextrep := nextrep s;
     hostown := hostown s; in_export := b; need_drop := n; log := log s; err := err s |}.

Fixpoint remove_one (x : N) (l : list N) : list N :=
  match l with [] => [] | y :: r => if N.eqb x y then r else y :: remove_one x r end.
Definition memN (x : N) (l : list N) : bool := existsb (N.eqb x) l.

(** ** Host: the handle table (CanonicalABI.md Table.add / remove, LIFO free list) *)
Definition TABLE_MAX : N := 268435456.        (* CM Table.MAX_LENGTH = 2^28: a full table is resource exhaustion, not a guest fault *)
Definition table_add (s : st) (e : hentry) : N * st :=
  match freeh s with
  | i :: f => (i, emit (set_tbl s ((i, e) :: tbl s) f (nexth s)) (EvNewHandle i (e_own e)))
  | [] => if TABLE_MAX <=? nexth s then (0, fail s (EApi 10))
          else (nexth s, emit (set_tbl s ((nexth s, e) :: tbl s) [] (nexth s + 1)) (EvNewHandle (nexth s) (e_own e)))
  end.
Definition table_remove (s : st) (i : N) : st := set_tbl s (remove i (tbl s)) (i :: freeh s) (nexth s).

(** canon resource.drop, called by the guest.  An own handle of an exported resource runs the destructor in this
    component ([dtor] below); an own handle of an imported resource is the host's business. *)
Definition box_dtor (s : st) (rep : N) : st :=
  match lookup rep (reps s) with
  | None => fail s (EPanic 1)                                   (* destructor on a freed box: double free *)
  | Some c =>
      let s1 := emit (set_reps s (remove rep (reps s)) (nextrep s)) (EvDtor rep) in
      match c with RSome v => emit s1 (EvValDestroyed v) | RNone => s1 end
  end.

Definition host_resource_drop (s : st) (h : N) : st :=
  match lookup h (tbl s) with
  | None => fail s (ETrap 1)                                    (* drop of an index that is not in the table *)
  | Some e =>
      if negb (e_lends e =? 0) then fail s (ETrap 2)            (* drop while lent *)
      else
        let s1 := table_remove (emit s (EvDropCall h (e_own e))) h in
        if e_own e then
          match e_kind e with
          | Exported => box_dtor s1 (e_rep e)
          | Imported => s1
          end
        else set_export s1 (in_export s1) (need_drop s1 - 1)
  end.

(** ** Guest: Resource<T> *)
Definition new_wrapper (s : st) (k : rkind) (h : N) (temp : bool) : N * st :=
  match err s with Some _ => (nextw s, s) | None =>
  if (h =? 0) || (h =? MAXH) then (nextw s, fail s (EPanic 2))   (* debug_assert in from_handle *)
  else (nextw s, set_ws s ((nextw s, {| w_kind := k; w_handle := h; w_temp := temp |}) :: ws s) (nextw s + 1))
  end.

(** [Drop for Resource<T>] on the wrapper with identity [w] *)
Definition drop_wrapper (s : st) (w : N) : st :=
  match lookup w (ws s) with
  | None => fail s (EApi 1)
  | Some x =>
      let s1 := set_ws s (remove w (ws s)) (nextw s) in
      if w_handle x =? MAXH then s1 else host_resource_drop s1 (w_handle x)
  end.

(** [take_handle]: returns the handle, leaves the sentinel *)
Definition take_handle (s : st) (w : N) : option (N * wrapper * st) :=
  match lookup w (ws s) with
  | None => None
  | Some x => Some (w_handle x, x,
                    set_ws s ((w, {| w_kind := w_kind x; w_handle := MAXH; w_temp := w_temp x |}) :: remove w (ws s)) (nextw s))
  end.

(** ** Operations *)
Inductive op :=
(* host -> guest *)
| HGiveOwnImported (rep : N)      (* an import returns / an export receives own<R>, R imported: lower_own + from_handle *)
| HGiveOwnExported (rep : N)      (* the host hands back own<X> it holds (export parameter): lower_own + from_handle *)
| HExportBegin                    (* an export activation starts *)
| HLendBorrowImported (rep : N)   (* … with a borrow<R> parameter, R imported: lower_borrow (new borrow entry) + temporary wrapper *)
| HBorrowExportedGet (rep : N)    (* … with a borrow<X> parameter, X exported: XBorrow::lift rep; the code calls get() *)
| HExportEnd                      (* the glue drops its temporaries, then the host checks that no borrow is outstanding *)
| HDropOwnExported (rep : N)      (* somebody outside drops the own<X> handle it holds: the host calls the exported dtor *)
(* guest user code on values it owns *)
| UDrop (w : N)                   (* drop(wrapper) *)
| UPassOwn (w : N)                (* own<_> argument of an import or own<_> result of an export: take_handle, then the wrapper is dropped *)
| UPassBorrow (w : N)             (* borrow<_> argument of an import: handle(); the host lends for the duration of the call *)
| UNew (v : N)                    (* X::new(v) *)
| UGet (w : N)                    (* X::get(&self) *)
| UIntoInner (w : N).             (* X::into_inner(self) *)

Definition user_owned (s : st) (w : N) : option wrapper :=
  match lookup w (ws s) with
  | Some x => if w_temp x then None else Some x
  | None => None
  end.

Definition step (s : st) (o : op) : st :=
  match err s with
  | Some _ => s
  | None =>
    match o with
    | HGiveOwnImported rep =>
        let '(h, s1) := table_add s {| e_kind := Imported; e_rep := rep; e_own := true; e_lends := 0 |} in
        snd (new_wrapper s1 Imported h false)
    | HGiveOwnExported rep =>
        if negb (memN rep (hostown s)) then fail s (EApi 2)
        else
          let s0 := set_hostown s (remove_one rep (hostown s)) in
          let '(h, s1) := table_add s0 {| e_kind := Exported; e_rep := rep; e_own := true; e_lends := 0 |} in
          snd (new_wrapper s1 Exported h false)
    | HExportBegin =>
        if in_export s then fail s (EApi 3) else set_export s true 0
    | HLendBorrowImported rep =>
        if negb (in_export s) then fail s (EApi 4)
        else
          let '(h, s1) := table_add s {| e_kind := Imported; e_rep := rep; e_own := false; e_lends := 0 |} in
          let s2 := match err s1 with Some _ => s1 | None => set_export s1 true (need_drop s1 + 1) end in
          snd (new_wrapper s2 Imported h true)
    | HBorrowExportedGet rep =>
        if negb (in_export s) then fail s (EApi 4)
        else if negb (memN rep (hostown s)) then fail s (EApi 5)     (* the lender must own the resource *)
        else match lookup rep (reps s) with
             | Some (RSome _) => s
             | Some RNone => fail s (EPanic 3)                        (* unwrap on a taken rep *)
             | None => fail s (EPanic 4)                              (* use after free *)
             end
    | HExportEnd =>
        if negb (in_export s) then fail s (EApi 6)
        else
          let temps := map fst (filter (fun p => w_temp (snd p)) (ws s)) in
          let s1 := fold_left drop_wrapper temps s in
          match err s1 with
          | Some _ => s1
          | None => if need_drop s1 =? 0 then set_export s1 false 0 else fail s1 (ETrap 3)   (* borrow not dropped at return *)
          end
    | HDropOwnExported rep =>
        if negb (memN rep (hostown s)) then fail s (EApi 7)
        else box_dtor (set_hostown s (remove_one rep (hostown s))) rep
    | UDrop w =>
        match user_owned s w with
        | None => fail s (EApi 8)
        | Some _ => drop_wrapper s w
        end
    | UPassOwn w =>
        match user_owned s w with
        | None => fail s (EApi 8)
        | Some _ =>
            match take_handle s w with
            | None => fail s (EApi 8)
            | Some (h, x, s1) =>
                (* the host lifts the own handle out of the table *)
                let s2 :=
                  match lookup h (tbl s1) with
                  | None => fail s1 (ETrap 4)
                  | Some e =>
                      if negb (e_own e) then fail s1 (ETrap 5)
                      else if negb (e_lends e =? 0) then fail s1 (ETrap 6)
                      else
                        let s' := emit (table_remove s1 h) (EvHostTook h (e_rep e)) in
                        match e_kind e with
                        | Exported => set_hostown s' (e_rep e :: hostown s')
                        | Imported => s'
                        end
                  end in
                match err s2 with
                | Some _ => s2
                | None => drop_wrapper s2 w           (* the by-value argument goes out of scope: Drop sees the sentinel *)
                end
            end
        end
    | UPassBorrow w =>
        match lookup w (ws s) with
        | None => fail s (EApi 8)
        | Some x =>
            match lookup (w_handle x) (tbl s) with
            | None => fail s (ETrap 7)
            | Some e => emit s (EvLend (w_handle x))   (* lift_borrow: num_lends +1 for the call, -1 at its end: net zero *)
            end
        end
    | UNew v =>
        let rep := nextrep s in
        let s1 := emit (set_reps s ((rep, RSome v) :: reps s) (nextrep s + 8)) (EvNewBox rep v) in
        let '(h, s2) := table_add s1 {| e_kind := Exported; e_rep := rep; e_own := true; e_lends := 0 |} in
        snd (new_wrapper s2 Exported h false)
    | UGet w =>
        match lookup w (ws s) with
        | None => fail s (EApi 8)
        | Some x =>
            match w_kind x with
            | Imported => fail s (EApi 9)
            | Exported =>
                match lookup (w_handle x) (tbl s) with          (* [resource-rep] *)
                | None => fail s (ETrap 8)
                | Some e =>
                    match lookup (e_rep e) (reps s) with
                    | Some (RSome _) => s
                    | Some RNone => fail s (EPanic 3)
                    | None => fail s (EPanic 4)
                    end
                end
            end
        end
    | UIntoInner w =>
        match user_owned s w with
        | None => fail s (EApi 8)
        | Some x =>
            match w_kind x with
            | Imported => fail s (EApi 9)
            | Exported =>
                match lookup (w_handle x) (tbl s) with
                | None => fail s (ETrap 8)
                | Some e =>
                    match lookup (e_rep e) (reps s) with
                    | Some (RSome v) =>
                        let s1 := emit (set_reps s ((e_rep e, RNone) :: remove (e_rep e) (reps s)) (nextrep s)) (EvValToUser v) in
                        drop_wrapper s1 w
                    | Some RNone => fail s (EPanic 3)
                    | None => fail s (EPanic 4)
                    end
                end
            end
        end
    end
  end.

Definition run (ops : list op) : st := fold_left step ops init.

(** the observable summary the tie compares with the real run: table (index, own?, rep-class), outstanding borrows,
    live boxes, error class *)
Definition err_class (s : st) : N :=
  match err s with None => 0 | Some (EApi _) => 1 | Some (ETrap _) => 2 | Some (EPanic _) => 3 end.
