(** C25: literal_transparent (full strength), and "whole-line call sequences are always safe". *)
From Coq Require Import List Ascii Bool Arith Lia.
From WB Require Import Core.Source Core.SourceSpec Core.SourceLemmas Core.SourceProofs.
Import ListNotations.

Lemma push_piece_lit single st l :
  ind (push_piece false single st l) = ind st /\ in_comment (push_piece false single st l) = in_comment st.
Proof. unfold push_piece. simpl. rewrite orb_false_r. auto. Qed.

Lemma push_lines_lit single endnl ls : forall st,
  ind (push_lines false single endnl st ls) = ind st
  /\ in_comment (push_lines false single endnl st ls)
     = in_comment st && (is_nil ls || (Nat.eqb (List.length ls) 1 && negb endnl)).
Proof.
  induction ls as [|l rest IH]; intro st.
  - simpl. rewrite andb_true_r. auto.
  - destruct (push_piece_lit single st l) as [Hi Hc].
    destruct rest as [|l2 rest2].
    + change (push_lines false single endnl st [l])
        with (if endnl then newline (push_piece false single st l) else push_piece false single st l).
      destruct endnl; unfold newline; cbn [ind in_comment List.length Nat.eqb is_nil negb orb andb];
        rewrite ?Hi, ?Hc, ?andb_true_r, ?andb_false_r; auto.
    + change (push_lines false single endnl st (l :: l2 :: rest2))
        with (push_lines false single endnl (newline (push_piece false single st l)) (l2 :: rest2)).
      destruct (IH (newline (push_piece false single st l))) as [Hi2 Hc2].
      rewrite Hi2, Hc2. unfold newline; cbn [ind in_comment List.length Nat.eqb is_nil negb orb andb].
      rewrite Hi, andb_false_r. auto.
Qed.

Lemma rust_lines_cons_lf r : rust_lines (LF :: r) = [] :: rust_lines r.
Proof.
  unfold rust_lines. simpl. destruct (split_nl r) as [|l0 ls0] eqn:S.
  { exfalso. eapply split_nl_nonempty; eauto. } reflexivity.
Qed.

Lemma lines_shape f :
  (is_nil (rust_lines f) || (Nat.eqb (List.length (rust_lines f)) 1 && negb (ends_with_lf f))) = negb (has_lf f).
Proof.
  induction f as [|c r IH]; auto.
  rewrite ends_with_lf_cons. simpl has_lf.
  destruct (Ascii.eqb c LF) eqn:E.
  - apply Ascii.eqb_eq in E. subst c. rewrite rust_lines_cons_lf. simpl.
    destruct (rust_lines r) as [|x xs] eqn:Rr.
    + apply rust_lines_nil in Rr. subst r. reflexivity.
    + destruct xs; reflexivity.
  - simpl. unfold rust_lines in *. simpl. rewrite E.
    destruct (split_nl r) as [|l0 ls0] eqn:S. { exfalso. eapply split_nl_nonempty; eauto. }
    destruct ls0 as [|l1 ls1].
    + apply split_single in S as [-> Hl]. simpl. rewrite Hl.
      destruct l0; simpl; auto. rewrite (ends_with_lf_nolf _ Hl). reflexivity.
    + change (rust_lines_of ((c :: l0) :: l1 :: ls1)) with (strip_cr (c :: l0) :: rust_lines_of (l1 :: ls1)).
      change (rust_lines_of (l0 :: l1 :: ls1)) with (strip_cr l0 :: rust_lines_of (l1 :: ls1)) in IH.
      destruct r as [|d r']. { simpl in S. inversion S. }
      simpl (is_nil (d :: r')). cbv iota. simpl in *. exact IH.
Qed.

(** text appended as literal never changes the indentation, and changes the comment state only by ending
    the line: the flag is cleared exactly when the literal contains a '\n'. *)
Theorem literal_transparent : forall st f,
  ind (push_str_literal st f) = ind st
  /\ in_comment (push_str_literal st f) = in_comment st && negb (has_lf f).
Proof.
  intros st f. unfold push_str_literal, push_str_impl.
  destruct (push_lines_lit (Nat.eqb (List.length (rust_lines f)) 1) (ends_with_lf f) (rust_lines f) st) as [H1 H2].
  split; auto. rewrite H2, lines_shape. reflexivity.
Qed.

(** ** whole-line fragments *)
Definition at_bol (st : source) : Prop := continuing st = false /\ bol_after true (as_str st) = true.

Lemma push_lines_endnl interp single ls : forall st, ls <> [] ->
  exists st0, push_lines interp single true st ls = newline st0.
Proof.
  induction ls as [|l rest IH]; intros st Hne; [congruence|].
  destruct rest as [|l2 rest2].
  - simpl. eauto.
  - change (push_lines interp single true st (l :: l2 :: rest2))
      with (push_lines interp single true (newline (push_piece interp single st l)) (l2 :: rest2)).
    apply IH. discriminate.
Qed.

Lemma at_bol_newline st : at_bol (newline st).
Proof. split; [reflexivity | apply bol_start_newline]. Qed.

Lemma whole_lines_push interp st f :
  whole_lines f = true -> at_bol st -> at_bol (push_str_impl interp st f).
Proof.
  intros Hw Hq. unfold whole_lines in Hw. apply andb_true_iff in Hw as [_ Hw].
  unfold push_str_impl. destruct (rust_lines f) as [|l rest] eqn:Rl.
  - simpl. exact Hq.
  - apply orb_true_iff in Hw as [Hn | He].
    + destruct f; discriminate.
    + rewrite He. destruct (push_lines_endnl interp (Nat.eqb (List.length (l :: rest)) 1) (l :: rest) st) as [st0 ->].
      { discriminate. } apply at_bol_newline.
Qed.

Lemma whole_lines_safe interp st f : whole_lines f = true -> at_bol st -> frag_safe interp st f = true.
Proof.
  intros Hw [_ Hb]. unfold whole_lines in Hw. apply andb_true_iff in Hw as [Hcr _].
  unfold frag_safe. rewrite Hcr. simpl. destruct (rust_lines f); auto.
  unfold piece_safe. rewrite Hb. reflexivity.
Qed.

Lemma aligned_parts ps : forall st, forallb whole_lines ps = true -> at_bol st ->
  parts_safe st ps = true /\ at_bol (fold_left push_str ps st).
Proof.
  induction ps as [|p r IH]; intros st Hw Hq; simpl; auto.
  simpl in Hw. apply andb_true_iff in Hw as [Hp Hr].
  rewrite (whole_lines_safe true st p Hp Hq). simpl. apply IH; auto.
  apply whole_lines_push; auto.
Qed.

Lemma at_bol_same st st' : rbuf st' = rbuf st -> continuing st' = continuing st -> at_bol st -> at_bol st'.
Proof. intros Hb Hc [H1 H2]. unfold at_bol, as_str in *. rewrite Hb, Hc. auto. Qed.

Lemma aligned_step st b : bop_aligned b = true -> at_bol st ->
  bop_safe st b = true /\ (forall st' o, step_b st b = Some (st', o) -> at_bol st').
Proof.
  intros Ha Hq. destruct b; simpl in *.
  - split. { apply whole_lines_safe; auto. } intros ? ? H. inversion H; subst. apply whole_lines_push; auto.
  - split. { apply whole_lines_safe; auto. } intros ? ? H. inversion H; subst. apply whole_lines_push; auto.
  - destruct (aligned_parts parts st Ha Hq) as [H1 H2]. split; auto. intros ? ? H. inversion H; subst. exact H2.
  - split; auto. intros ? ? H. inversion H; subst. apply (at_bol_same st); auto.
  - split; auto. intros ? ? H. unfold deindent in H. destruct (n <=? ind st); inversion H; subst.
    apply (at_bol_same st); auto.
  - split; auto. intros ? ? H. inversion H; subst. apply (at_bol_same st); auto.
  - split; auto. intros ? ? H. inversion H; subst. apply (at_bol_same st); auto.
Qed.

Lemma aligned_run_safe ops : forall st, forallb bop_aligned ops = true -> at_bol st -> run_safe st ops = true.
Proof.
  induction ops as [|b r IH]; intros st Ha Hq; simpl; auto.
  simpl in Ha. apply andb_true_iff in Ha as [Hb Hr].
  destruct (aligned_step st b Hb Hq) as [Hs Hnext]. rewrite Hs. simpl.
  destruct (step_b st b) as [[st' o]|] eqn:E; auto.
  apply IH; auto. eapply Hnext; eauto.
Qed.

(** every sequence of whole-line fragments is safe, hence text-preserving *)
Theorem text_preserved_whole_lines : forall ops st outs,
  forallb bop_aligned ops = true ->
  run_b source_default ops = Some (st, outs) ->
  erase_lead (as_str st) = erase_lead (ops_text ops).
Proof.
  intros ops st outs Ha Hrun. eapply text_preserved_safe; eauto.
  apply aligned_run_safe; auto. split; reflexivity.
Qed.
