(** Proofs about the model of [AsyncFilterSet] (Core/AsyncFilter.v). *)
From Coq Require Import List Ascii String Bool Arith Lia.
From WB Require Import Core.PkgName Core.PkgNameProofs Core.AsyncFilter.
Import ListNotations.

(** * parse / Display *)
Lemma strip_prefix_some p : forall s r, strip_prefix p s = Some r -> s = p ++ r.
Proof.
  induction p as [|a p IH]; intros [|b s] r H; simpl in *; try congruence.
  destruct (Ascii.eqb_spec a b); [|discriminate]. subst. f_equal. now apply IH.
Qed.

Lemma strip_prefix_app p r : strip_prefix p (p ++ r) = Some r.
Proof. induction p as [|a p IH]; simpl; [reflexivity|]. now rewrite Ascii.eqb_refl. Qed.

Lemma display_parse_filter s : display_filter (parse_filter s) = s.
Proof.
  unfold parse_filter.
  destruct (str_eqb s s_all) eqn:Ea; [apply str_eqb_eq in Ea; now subst|].
  destruct (strip_prefix s_import s) as [x|] eqn:E2; [apply strip_prefix_some in E2; now subst|].
  destruct (strip_prefix s_export s) as [x|] eqn:E3; [apply strip_prefix_some in E3; now subst|].
  reflexivity.
Qed.

(** printing a parsed directive gives back the text, whatever the text was *)
Theorem display_parse s : display (parse s) = s.
Proof.
  unfold parse, display.
  destruct (strip_prefix s_dash s) as [r|] eqn:E1; cbn [enabled filt]; rewrite display_parse_filter.
  - apply strip_prefix_some in E1. now subst.
  - reflexivity.
Qed.

(** ... hence parsing the printed form of any parsed directive gives the same directive, and a directive is
    a fixed point of parse-after-print exactly when it is the parse of some text *)
Theorem parse_display_parse s : parse (display (parse s)) = parse s.
Proof. now rewrite display_parse. Qed.

Theorem parse_display_fixpoint d : parse (display d) = d <-> exists s, d = parse s.
Proof.
  split; [intros H; exists (display d); now rewrite H|]. intros [s ->]. apply parse_display_parse.
Qed.

Theorem parse_injective s t : parse s = parse t -> s = t.
Proof. intros H. rewrite <- (display_parse s), <- (display_parse t). now rewrite H. Qed.

(** * The scan loop finds the first matching directive *)
Lemma scan_matches_head d rest i name imp :
  scan (d :: rest) i name imp = if matches d name imp then Some (i, enabled d) else scan rest (S i) name imp.
Proof.
  unfold matches. simpl. destruct (filt d) as [|s|s|s]; try reflexivity.
  - destruct imp; simpl; reflexivity.
  - destruct imp; simpl; reflexivity.
Qed.

Lemma scan_some ds : forall i name imp j b,
  scan ds i name imp = Some (j, b) <->
  exists pre d post, ds = pre ++ d :: post /\ forallb (fun x => negb (matches x name imp)) pre = true
                     /\ matches d name imp = true /\ j = i + List.length pre /\ b = enabled d.
Proof.
  induction ds as [|d rest IH]; intros i name imp j b.
  - simpl. split; [discriminate|]. intros (pre & d & post & E & _). destruct pre; discriminate.
  - rewrite scan_matches_head. destruct (matches d name imp) eqn:M.
    + split.
      * intros H. injection H as <- <-. exists [], d, rest. simpl. repeat split; auto.
      * intros (pre & d' & post & E & Hpre & Hd & -> & ->). destruct pre as [|x pre].
        -- simpl in E. injection E as <- <-. simpl. now rewrite Nat.add_0_r.
        -- simpl in E. injection E as <- E. simpl in Hpre. now rewrite M in Hpre.
    + rewrite IH. split.
      * intros (pre & d' & post & -> & Hpre & Hd & -> & ->).
        exists (d :: pre), d', post. simpl. rewrite M. simpl. repeat split; auto; try lia.
      * intros (pre & d' & post & E & Hpre & Hd & -> & ->). destruct pre as [|x pre].
        -- simpl in E. injection E as <- <-. congruence.
        -- simpl in E. injection E as <- ->. simpl in Hpre. rewrite M in Hpre. simpl in Hpre.
           exists pre, d', post. repeat split; auto; simpl; try lia.
Qed.

Lemma scan_none ds : forall i name imp,
  scan ds i name imp = None <-> forall d, In d ds -> matches d name imp = false.
Proof.
  induction ds as [|d rest IH]; intros i name imp.
  - simpl. split; [intros _ d []|reflexivity].
  - rewrite scan_matches_head. destruct (matches d name imp) eqn:M.
    + split; [discriminate|]. intros H. specialize (H d (or_introl eq_refl)). congruence.
    + rewrite IH. split.
      * intros H x [<-|Hx]; auto.
      * intros H x Hx. apply H. now right.
Qed.

Lemma forallb_negb_false {A} (f : A -> bool) l :
  forallb (fun x => negb (f x)) l = true <-> forall x, In x l -> f x = false.
Proof.
  rewrite forallb_forall. split; intros H x Hx; specialize (H x Hx).
  - now apply negb_true_iff.
  - now rewrite H.
Qed.

(** C17, first half: the answer is the [enabled] flag of the FIRST directive (in the order given) that
    matches the function's name and direction; when no directive matches it is the WIT's own async flag. *)
Theorem is_async_first_match st q :
  (forall pre d post, opts st = pre ++ d :: post ->
     (forall x, In x pre -> qmatches x q = false) -> qmatches d q = true ->
     snd (is_async st q) = enabled d)
  /\ ((forall d, In d (opts st) -> qmatches d q = false) -> snd (is_async st q) = qasync q).
Proof.
  unfold is_async, qmatches. split.
  - intros pre d post E Hpre Hd.
    destruct (scan (opts st) 0 (name_to_test q) (qimport q)) as [[j b]|] eqn:S.
    + apply scan_some in S as (pre' & d' & post' & E' & Hpre' & Hd' & -> & ->). simpl.
      pose proof (proj1 (forallb_negb_false _ _) Hpre') as Hp2. clear Hpre'. rename Hp2 into Hpre'. cbv beta in Hpre'.
      (* both decompositions single out the first matching element *)
      assert (pre = pre' /\ d = d') as [_ ->]; [|reflexivity].
      rewrite E in E'. clear E. revert pre' E' Hpre'.
      induction pre as [|x pre IH]; intros [|y pre'] E' Hpre'; simpl in E'.
      * injection E' as -> _. auto.
      * injection E' as -> _. rewrite (Hpre' y (or_introl eq_refl)) in Hd. discriminate.
      * injection E' as -> _. rewrite (Hpre d' (or_introl eq_refl)) in Hd'. discriminate.
      * injection E' as -> E'. destruct (IH (fun z Hz => Hpre z (or_intror Hz)) pre' E'
                                             (fun z Hz => Hpre' z (or_intror Hz))) as [-> ->]. auto.
    + rewrite scan_none in S. rewrite (S d) in Hd; [discriminate|]. rewrite E. apply in_elt.
  - intros H. destruct (scan (opts st) 0 (name_to_test q) (qimport q)) as [[j b]|] eqn:S; [|reflexivity].
    apply scan_some in S as (pre' & d' & post' & E' & _ & Hd' & _).
    rewrite (H d') in Hd'; [discriminate|]. rewrite E'. apply in_elt.
Qed.

(** * The [used] set *)
Lemma insert_used_in i u k : In k (insert_used i u) <-> k = i \/ In k u.
Proof.
  unfold insert_used. destruct (existsb (Nat.eqb i) u) eqn:E.
  - split; [auto|]. intros [->|H]; [|assumption].
    apply existsb_exists in E as (x & Hx & Ex). apply Nat.eqb_eq in Ex. now subst.
  - simpl. split; intros [H|H]; auto.
Qed.

Lemma is_async_opts st q : opts (fst (is_async st q)) = opts st.
Proof. unfold is_async. destruct (scan _ _ _ _) as [[j b]|]; reflexivity. Qed.

(** the index added by one query, if any *)
Definition decided_by (ds : list directive) (q : query) : option nat :=
  match scan ds 0 (name_to_test q) (qimport q) with Some (i, _) => Some i | None => None end.

Lemma is_async_used st q k :
  In k (used (fst (is_async st q))) <-> In k (used st) \/ decided_by (opts st) q = Some k.
Proof.
  unfold is_async, decided_by. destruct (scan _ _ _ _) as [[j b]|]; simpl.
  - rewrite insert_used_in. split.
    + intros [->|H]; [right; reflexivity|left; assumption].
    + intros [H|H]; [right; assumption|left; congruence].
  - split; [auto|]. intros [H|H]; [assumption|discriminate].
Qed.

(** [used] only grows *)
Theorem used_monotone st q k : In k (used st) -> In k (used (fst (is_async st q))).
Proof. intros H. apply is_async_used. now left. Qed.

Lemma run_cons st q rest :
  run st (q :: rest) = let '(st1, b) := is_async st q in let '(st2, bs) := run st1 rest in (st2, b :: bs).
Proof. reflexivity. Qed.

Lemma run_opts qs : forall st, opts (fst (run st qs)) = opts st.
Proof.
  induction qs as [|q rest IH]; intros st; [reflexivity|]. rewrite run_cons.
  destruct (is_async st q) as [st1 b] eqn:E1. destruct (run st1 rest) as [st2 bs] eqn:E2. simpl.
  specialize (IH st1). rewrite E2 in IH. simpl in IH. rewrite IH.
  change st1 with (fst (st1, b)). rewrite <- E1. apply is_async_opts.
Qed.

Theorem run_used qs : forall st k,
  In k (used (fst (run st qs))) <-> In k (used st) \/ exists q, In q qs /\ decided_by (opts st) q = Some k.
Proof.
  induction qs as [|q rest IH]; intros st k.
  - simpl. split; [auto|]. intros [H|(q & [] & _)]. assumption.
  - rewrite run_cons.
    destruct (is_async st q) as [st1 b] eqn:E1. destruct (run st1 rest) as [st2 bs] eqn:E2. simpl.
    specialize (IH st1 k). rewrite E2 in IH. simpl in IH. rewrite IH.
    assert (O1 : opts st1 = opts st) by (change st1 with (fst (st1, b)); rewrite <- E1; apply is_async_opts).
    assert (U1 := is_async_used st q k). rewrite E1 in U1. simpl in U1. rewrite U1, O1.
    split.
    + intros [[H|H]|(q' & Hq' & H)]; auto.
      * right. exists q. auto.
      * right. exists q'. auto.
    + intros [H|(q' & [<-|Hq'] & H)]; auto. right. exists q'. auto.
Qed.

Theorem run_used_monotone qs st k : In k (used st) -> In k (used (fst (run st qs))).
Proof. intros H. apply run_used. now left. Qed.

(** the answers do not depend on the [used] set: each one is the answer of a single query *)
Theorem run_answers qs : forall st, snd (run st qs) = map (fun q => snd (is_async st q)) qs.
Proof.
  induction qs as [|q rest IH]; intros st; [reflexivity|]. rewrite run_cons.
  destruct (is_async st q) as [st1 b] eqn:E1. destruct (run st1 rest) as [st2 bs] eqn:E2. simpl.
  rewrite E1. simpl. f_equal.
  specialize (IH st1). rewrite E2 in IH. simpl in IH. rewrite IH.
  assert (O1 : opts st1 = opts st) by (change st1 with (fst (st1, b)); rewrite <- E1; apply is_async_opts).
  apply map_ext. intros x. unfold is_async. rewrite O1.
  destruct (scan _ _ _ _) as [[j c]|]; reflexivity.
Qed.

(** * ensure_all_used *)
Lemma existsb_nat_in i u : existsb (Nat.eqb i) u = true <-> In i u.
Proof.
  rewrite existsb_exists. split.
  - intros (x & Hx & E). apply Nat.eqb_eq in E. now subst.
  - intros H. exists i. split; [assumption|apply Nat.eqb_refl].
Qed.

Lemma ensure_loop_none ds : forall i u,
  ensure_loop ds i u = None <->
  forall k d, nth_error ds k = Some d -> is_all d = false -> In (i + k) u.
Proof.
  induction ds as [|d rest IH]; intros i u.
  - simpl. split; [|reflexivity]. intros _ [|k] d H; discriminate.
  - simpl. destruct (existsb (Nat.eqb i) u) eqn:E.
    + rewrite IH. apply existsb_nat_in in E. split.
      * intros H [|k] d' Hn Ha; simpl in Hn.
        -- now rewrite Nat.add_0_r.
        -- replace (i + S k) with (S i + k) by lia. eauto.
      * intros H k d' Hn Ha. replace (S i + k) with (i + S k) by lia. apply H with d'; auto.
    + assert (Hni : ~ In i u) by (intros Hi; apply existsb_nat_in in Hi; congruence).
      unfold is_all in *. destruct (filt d) eqn:F.
      * rewrite IH. split.
        -- intros H [|k] d' Hn Ha; simpl in Hn.
           ++ injection Hn as <-. rewrite F in Ha. discriminate.
           ++ replace (i + S k) with (S i + k) by lia. eauto.
        -- intros H k d' Hn Ha. replace (S i + k) with (i + S k) by lia. apply H with d'; auto.
      * split; [discriminate|]. intros H. exfalso. apply Hni.
        specialize (H 0 d eq_refl). rewrite F, Nat.add_0_r in H. auto.
      * split; [discriminate|]. intros H. exfalso. apply Hni.
        specialize (H 0 d eq_refl). rewrite F, Nat.add_0_r in H. auto.
      * split; [discriminate|]. intros H. exfalso. apply Hni.
        specialize (H 0 d eq_refl). rewrite F, Nat.add_0_r in H. auto.
Qed.

(** an error always names (by its printed form) a directive of the list that is not [all] *)
Lemma ensure_loop_some ds : forall i u msg,
  ensure_loop ds i u = Some msg ->
  exists k d, nth_error ds k = Some d /\ is_all d = false /\ ~ In (i + k) u /\ msg = display d.
Proof.
  induction ds as [|d rest IH]; intros i u msg H; simpl in H; [discriminate|].
  destruct (existsb (Nat.eqb i) u) eqn:E.
  - apply IH in H as (k & d' & Hn & Ha & Hu & ->). exists (S k), d'. repeat split; auto.
    now replace (i + S k) with (S i + k) by lia.
  - assert (Hni : ~ In i u) by (intros Hi; apply existsb_nat_in in Hi; congruence).
    unfold is_all. destruct (filt d) eqn:F.
    + apply IH in H as (k & d' & Hn & Ha & Hu & ->). exists (S k), d'. repeat split; auto.
      now replace (i + S k) with (S i + k) by lia.
    + injection H as <-. exists 0, d. rewrite F, Nat.add_0_r. auto.
    + injection H as <-. exists 0, d. rewrite F, Nat.add_0_r. auto.
    + injection H as <-. exists 0, d. rewrite F, Nat.add_0_r. auto.
Qed.

Lemma decided_matches ds q k :
  decided_by ds q = Some k -> exists d, nth_error ds k = Some d /\ qmatches d q = true.
Proof.
  unfold decided_by, qmatches. destruct (scan ds 0 _ _) as [[j b]|] eqn:S; [|discriminate].
  intros H. injection H as ->. apply scan_some in S as (pre & d & post & -> & _ & Hd & -> & _).
  exists d. split; [|assumption]. simpl. rewrite nth_error_app2 by lia. now rewrite Nat.sub_diag.
Qed.

(** C17, second half — exact characterisation: after the queries [qs] on a fresh set, [ensure_all_used]
    succeeds iff every directive other than [all] was the first match of at least one query. *)
Theorem ensure_all_used_exact texts qs :
  ensure_all_used (fst (run (fset_of texts) qs)) = None <->
  forall k d, nth_error (map parse texts) k = Some d -> is_all d = false ->
              exists q, In q qs /\ decided_by (map parse texts) q = Some k.
Proof.
  unfold ensure_all_used. rewrite run_opts. simpl opts. rewrite ensure_loop_none.
  split; intros H k d Hn Ha; specialize (H k d Hn Ha); simpl in *.
  - apply run_used in H as [[]|H]. exact H.
  - apply run_used. now right.
Qed.

(** ... in particular a directive other than [all] that matches none of the (function, direction) pairs
    queried makes [ensure_all_used] fail. *)
Theorem unused_rejected texts qs k d :
  nth_error (map parse texts) k = Some d -> is_all d = false ->
  (forall q, In q qs -> qmatches d q = false) ->
  ensure_all_used (fst (run (fset_of texts) qs)) <> None.
Proof.
  intros Hn Ha Hq H. rewrite ensure_all_used_exact in H.
  destruct (H k d Hn Ha) as (q & Hin & Hd).
  apply decided_matches in Hd as (d' & Hn' & Hm). simpl in Hn'.
  rewrite Hn in Hn'. injection Hn' as <-. rewrite (Hq q Hin) in Hm. discriminate.
Qed.

(** the error message is "unused async option: " followed by the text of an unused directive *)
Theorem ensure_error_names_unused texts qs msg :
  ensure_all_used (fst (run (fset_of texts) qs)) = Some msg ->
  exists k t, nth_error texts k = Some t /\ msg = t /\ is_all (parse t) = false
              /\ forall q, In q qs -> decided_by (map parse texts) q <> Some k.
Proof.
  unfold ensure_all_used. rewrite run_opts. simpl opts. intros H.
  apply ensure_loop_some in H as (k & d & Hn & Ha & Hu & ->).
  rewrite nth_error_map in Hn. destruct (nth_error texts k) as [t|] eqn:Et; [|discriminate].
  injection Hn as <-. exists k, t. rewrite display_parse. repeat split; auto.
  intros q Hq Hd. apply Hu. simpl. apply run_used. right. exists q. auto.
Qed.

(** [all] decides everything *)
Lemma fset_all_answer b q : snd (is_async (fset_all b) q) = b.
Proof. reflexivity. Qed.
