(** Proofs about WB.Core.Config (model of crates/test/src/config.rs). *)
From Coq Require Import List NArith Bool Lia Arith.
From WB Require Import Core.Config Core.ConfigSpec.
Import ListNotations.
Local Open Scope N_scope.

(** * strip_suffix_char *)
Lemma strip_suffix_char_cons : forall c x y r,
  strip_suffix_char c (x :: y :: r) =
  match strip_suffix_char c (y :: r) with Some r' => Some (x :: r') | None => None end.
Proof. reflexivity. Qed.

Lemma strip_suffix_char_app : forall c l, strip_suffix_char c (l ++ [c]) = Some l.
Proof.
  induction l as [|x l IH].
  - cbn. now rewrite N.eqb_refl.
  - destruct l as [|y l'].
    + cbn. now rewrite N.eqb_refl.
    + change ((x :: y :: l') ++ [c]) with (x :: y :: (l' ++ [c])).
      rewrite strip_suffix_char_cons. change (y :: l' ++ [c]) with ((y :: l') ++ [c]).
      now rewrite IH.
Qed.

Lemma strip_suffix_char_some : forall c s l, strip_suffix_char c s = Some l -> s = l ++ [c].
Proof.
  induction s as [|x s IH]; intros l H; cbn [strip_suffix_char] in H; [discriminate|].
  destruct s as [|y s'].
  - destruct (x =? c) eqn:E; [|discriminate]. apply N.eqb_eq in E. now inversion H; subst.
  - destruct (strip_suffix_char c (y :: s')) as [r'|] eqn:E; [|discriminate].
    inversion H; subst. cbn [app]. f_equal. now apply IH.
Qed.

Lemma strip_suffix_char_none : forall c s, (forall l, s <> l ++ [c]) -> strip_suffix_char c s = None.
Proof.
  intros c s H. destruct (strip_suffix_char c s) as [l|] eqn:E; [|reflexivity].
  apply strip_suffix_char_some in E. now apply H in E.
Qed.

Lemma not_in_last : forall (c : char) s l, ~ In c s -> s <> l ++ [c].
Proof. intros c s l H E. apply H. rewrite E. apply in_or_app. right. now left. Qed.

(** * split_inclusive_lf and lines *)
Lemma split_incl_app_lf : forall a rest, ~ In LF a ->
  split_inclusive_lf (a ++ LF :: rest) = (a ++ [LF]) :: split_inclusive_lf rest.
Proof.
  induction a as [|c a IH]; intros rest H; cbn [app split_inclusive_lf].
  - now rewrite N.eqb_refl.
  - assert (c <> LF) by (intro; apply H; now left).
    apply N.eqb_neq in H0. rewrite H0. rewrite IH; [reflexivity|].
    intro; apply H; now right.
Qed.

Lemma split_incl_nolf : forall a, ~ In LF a -> a <> [] -> split_inclusive_lf a = [a].
Proof.
  induction a as [|c a IH]; intros H Hne; [congruence|].
  cbn [split_inclusive_lf].
  assert (c <> LF) by (intro; apply H; now left).
  apply N.eqb_neq in H0. rewrite H0.
  destruct a as [|d a']; [reflexivity|].
  rewrite IH; [reflexivity| |discriminate]. intro; apply H; now right.
Qed.

Lemma line_of_piece_lf : forall l, ok_line (l, Lf) -> line_of_piece (l ++ [LF]) = l.
Proof.
  intros l [_ H]. unfold line_of_piece. rewrite strip_suffix_char_app.
  rewrite strip_suffix_char_none; [reflexivity|].
  intros l' E. apply (H eq_refl). now exists l'.
Qed.

Lemma line_of_piece_crlf : forall l, line_of_piece (l ++ [CR; LF]) = l.
Proof.
  intros l. unfold line_of_piece.
  change (l ++ [CR; LF]) with (l ++ [CR] ++ [LF]). rewrite app_assoc.
  now rewrite !strip_suffix_char_app.
Qed.

Lemma line_of_piece_nolf : forall t, ~ In LF t -> line_of_piece t = t.
Proof.
  intros t H. unfold line_of_piece. rewrite strip_suffix_char_none; [reflexivity|].
  intros l. now apply not_in_last.
Qed.

Lemma CR_neq_LF : CR <> LF. Proof. discriminate. Qed.

Lemma lines_render_line : forall le rest, ok_line le ->
  lines (render_line le ++ rest) = fst le :: lines rest.
Proof.
  intros [l e] rest Hok. unfold lines, render_line. cbn [fst snd].
  assert (Hnl : ~ In LF l) by apply Hok.
  destruct e; cbn [eol_str].
  - rewrite <- app_assoc. cbn [app]. rewrite split_incl_app_lf by exact Hnl.
    cbn [map]. now rewrite line_of_piece_lf.
  - rewrite <- app_assoc. cbn [app].
    change (l ++ CR :: LF :: rest) with (l ++ [CR] ++ LF :: rest). rewrite app_assoc.
    rewrite split_incl_app_lf.
    + cbn [map]. rewrite <- app_assoc. cbn [app]. now rewrite line_of_piece_crlf.
    + intro Hin. apply in_app_or in Hin. destruct Hin as [Hin|Hin]; [now apply Hnl|].
      destruct Hin as [E|[]]. now apply CR_neq_LF.
Qed.

Lemma lines_render : forall ls rest, Forall ok_line ls ->
  lines (render ls ++ rest) = map fst ls ++ lines rest.
Proof.
  induction ls as [|le ls IH]; intros rest H; [reflexivity|].
  inversion H; subst. unfold render. cbn [map concat]. rewrite <- app_assoc.
  fold (render ls). rewrite lines_render_line by assumption. cbn [app]. f_equal. now apply IH.
Qed.

Lemma lines_tail : forall t, ~ In LF t -> lines t = match t with [] => [] | _ => [t] end.
Proof.
  intros t H. destruct t as [|c t']; [reflexivity|].
  unfold lines. rewrite split_incl_nolf by (assumption || discriminate).
  cbn [map]. now rewrite line_of_piece_nolf.
Qed.

(** * starts_with / skipn / take_while / join *)
Lemma starts_with_app : forall m l, starts_with m (m ++ l) = true.
Proof. induction m; intros; cbn; [reflexivity|]. now rewrite N.eqb_refl, IHm. Qed.

Lemma starts_with_split : forall m l, starts_with m l = true -> l = m ++ skipn (List.length m) l.
Proof.
  induction m as [|x m IH]; intros l H; [reflexivity|].
  destruct l as [|y l]; [discriminate|]. cbn in H. apply andb_true_iff in H as [E H].
  apply N.eqb_eq in E. subst. cbn. f_equal. now apply IH.
Qed.

Lemma skipn_marker : forall (m l : str), skipn (List.length m) (m ++ l) = l.
Proof. induction m; intros; cbn; auto. Qed.

Lemma take_while_app_stop : forall {A} (p : A -> bool) l1 x l2, p x = false ->
  take_while p (l1 ++ x :: l2) = take_while p l1.
Proof.
  induction l1 as [|y l1 IH]; intros x l2 H; cbn.
  - now rewrite H.
  - destruct (p y); [|reflexivity]. f_equal. now apply IH.
Qed.

Lemma take_while_all : forall {A} (p : A -> bool) l, forallb p l = true -> take_while p l = l.
Proof.
  induction l as [|y l IH]; intros H; cbn in *; [reflexivity|].
  apply andb_true_iff in H as [H1 H2]. rewrite H1. f_equal. now apply IH.
Qed.

Lemma take_while_app_all : forall {A} (p : A -> bool) l1 l2, forallb p l1 = true ->
  take_while p (l1 ++ l2) = l1 ++ take_while p l2.
Proof.
  induction l1 as [|y l1 IH]; intros l2 H; cbn in *; [reflexivity|].
  apply andb_true_iff in H as [H1 H2]. rewrite H1. f_equal. now apply IH.
Qed.

Lemma marker_lines_all : forall m cfg,
  forallb (starts_with m) (map fst (with_marker m cfg)) = true.
Proof.
  unfold with_marker. induction cfg as [|le cfg IH]; [reflexivity|].
  cbn [map fst forallb]. now rewrite starts_with_app, IH.
Qed.

Lemma marker_lines_strip : forall m cfg,
  map (fun l => skipn (List.length m) l) (map fst (with_marker m cfg)) = map fst cfg.
Proof.
  unfold with_marker. induction cfg as [|le cfg IH]; [reflexivity|].
  cbn [map fst]. now rewrite skipn_marker, IH.
Qed.

(** * The configuration text *)
Lemma config_text_lines : forall m pre other post,
  forallb (starts_with m) pre = true -> starts_with m other = false ->
  take_while (starts_with m) (pre ++ other :: post) = pre.
Proof.
  intros. rewrite take_while_app_stop by assumption. now apply take_while_all.
Qed.

Theorem config_is_leading_block : forall m cfg other e rest,
  Forall ok_line (with_marker m cfg) -> ok_line (other, e) -> starts_with m other = false ->
  config_text m (render (with_marker m cfg) ++ render_line (other, e) ++ rest)
  = join [LF] (map fst cfg).
Proof.
  intros m cfg other e rest Hcfg Hother Hsw. unfold config_text.
  rewrite lines_render by assumption. rewrite lines_render_line by assumption. cbn [fst].
  rewrite config_text_lines by (apply marker_lines_all || assumption).
  now rewrite marker_lines_strip.
Qed.

Theorem config_all_marker_lines : forall m cfg tail extra,
  Forall ok_line (with_marker m cfg) -> ~ In LF tail -> tail_shape m tail extra ->
  config_text m (render (with_marker m cfg) ++ tail) = join [LF] (map fst cfg ++ extra).
Proof.
  intros m cfg tail extra Hcfg Hnl Hts. unfold config_text.
  rewrite lines_render by assumption. rewrite lines_tail by assumption.
  rewrite take_while_app_all by apply marker_lines_all.
  rewrite map_app, marker_lines_strip. do 2 f_equal.
  destruct Hts as [|t Hne|o Hne Hsw].
  - reflexivity.
  - destruct (m ++ t) as [|c r] eqn:E; [congruence|]. rewrite <- E.
    cbn [take_while]. rewrite starts_with_app. cbn [map]. now rewrite skipn_marker.
  - destruct o as [|c r]; [congruence|]. cbn [take_while]. now rewrite Hsw.
Qed.

(** Anything after the first line that does not start with the marker is irrelevant — whatever
    the lines before it are. *)
Theorem nothing_after_first_other_line : forall m pre other e rest1 rest2,
  Forall ok_line pre -> ok_line (other, e) -> starts_with m other = false ->
  config_text m (render pre ++ render_line (other, e) ++ rest1)
  = config_text m (render pre ++ render_line (other, e) ++ rest2).
Proof.
  intros m pre other e r1 r2 Hpre Hother Hsw. unfold config_text.
  rewrite !lines_render by assumption. rewrite !lines_render_line by assumption. cbn [fst].
  now rewrite !take_while_app_stop by assumption.
Qed.

(** * Every file reads uniquely as lines, hence has one of the two shapes *)
Lemma first_lf : forall s : str, ~ In LF s \/ exists a r, s = a ++ LF :: r /\ ~ In LF a.
Proof.
  induction s as [|c s IH]; [left; intros []|].
  destruct (N.eq_dec c LF) as [->|Hc].
  - right. exists [], s. split; [reflexivity|intros []].
  - destruct IH as [H|(a & r & -> & Ha)].
    + left. intros [E|Hin]; [congruence|auto].
    + right. exists (c :: a), r. split; [reflexivity|]. intros [E|Hin]; [congruence|auto].
Qed.

Lemma ends_with_cr_dec : forall a, ends_with_cr a \/ ~ ends_with_cr a.
Proof.
  intros a. destruct a as [|c a] using rev_ind.
  - right. intros [l' E]. now destruct l'.
  - destruct (N.eq_dec c CR) as [->|Hc].
    + left. now exists a.
    + right. intros [l' E]. apply app_inj_tail in E. now destruct E.
Qed.

Lemma decompose_lines_n : forall n (s : str), (List.length s <= n)%nat ->
  exists ls t, Forall ok_line ls /\ ~ In LF t /\ s = render ls ++ t.
Proof.
  induction n as [|n IH]; intros s Hlen.
  - destruct s; [|cbn in Hlen; lia]. exists [], []. repeat split; auto.
  - destruct (first_lf s) as [H|(a & r & -> & Ha)].
    + exists [], s. repeat split; auto.
    + destruct (IH r) as (ls & t & Hls & Ht & ->).
      { rewrite app_length in Hlen. cbn in Hlen. lia. }
      destruct (ends_with_cr_dec a) as [[a' ->]|Hn].
      * exists ((a', CrLf) :: ls), t. split; [|split; [assumption|]].
        -- constructor; [|assumption]. split; cbn [fst snd]; [|discriminate].
           intro Hin. apply Ha. apply in_or_app. now left.
        -- unfold render, render_line. cbn [map concat fst snd eol_str].
           rewrite <- !app_assoc. reflexivity.
      * exists ((a, Lf) :: ls), t. split; [|split; [assumption|]].
        -- constructor; [|assumption]. split; cbn [fst snd]; auto.
        -- unfold render, render_line. cbn [map concat fst snd eol_str].
           rewrite <- !app_assoc. reflexivity.
Qed.

Lemma decompose_lines : forall s : str,
  exists ls t, Forall ok_line ls /\ ~ In LF t /\ s = render ls ++ t.
Proof. intros s. now apply (decompose_lines_n (List.length s)). Qed.

Lemma split_cfg : forall m ls, Forall ok_line ls ->
  exists cfg more, ls = with_marker m cfg ++ more /\ Forall ok_line (with_marker m cfg) /\
    (more = [] \/ exists o e more', more = (o, e) :: more' /\ ok_line (o, e) /\ starts_with m o = false).
Proof.
  induction ls as [|[l e] ls IH]; intros H.
  - exists [], []. repeat split; auto.
  - inversion H as [|? ? Hl Hls]; subst.
    destruct (starts_with m l) eqn:E.
    + destruct (IH Hls) as (cfg & more & -> & Hcfg & Hmore).
      exists ((skipn (List.length m) l, e) :: cfg), more.
      cbn [with_marker map fst snd app]. rewrite <- (starts_with_split m l E).
      split; [reflexivity|]. split; [now constructor|assumption].
    + exists [], ((l, e) :: ls). split; [reflexivity|]. split; [constructor|].
      right. now exists l, e, ls.
Qed.

Theorem every_file_has_shape : forall m contents,
  exists cfg, Forall ok_line (with_marker m cfg) /\
    ((exists other e rest, ok_line (other, e) /\ starts_with m other = false /\
        contents = render (with_marker m cfg) ++ render_line (other, e) ++ rest)
     \/ (exists tail extra, ~ In LF tail /\ tail_shape m tail extra /\
        contents = render (with_marker m cfg) ++ tail)).
Proof.
  intros m contents.
  destruct (decompose_lines contents) as (ls & t & Hls & Ht & ->).
  destruct (split_cfg m ls Hls) as (cfg & more & -> & Hcfg & Hmore).
  exists cfg. split; [assumption|].
  destruct Hmore as [->|(o & e & more' & -> & Hok & Hsw)].
  - right. rewrite app_nil_r.
    destruct t as [|c t'].
    + exists [], []. repeat split; auto. constructor.
    + destruct (starts_with m (c :: t')) eqn:E.
      * exists (c :: t'), [skipn (List.length m) (c :: t')]. split; [assumption|]. split; [|reflexivity].
        rewrite (starts_with_split m _ E) at 1. constructor.
        rewrite <- (starts_with_split m _ E). discriminate.
      * exists (c :: t'), []. split; [assumption|]. split; [|reflexivity].
        constructor; [discriminate|assumption].
  - left. exists o, e, (render more' ++ t). split; [assumption|]. split; [assumption|].
    unfold render. rewrite map_app, concat_app. cbn [map concat].
    now rewrite <- !app_assoc.
Qed.

(** * split_whitespace *)
Section Split.
  Variable p : char -> bool.

  Lemma split_on_nonnil : forall s, split_on p s <> [].
  Proof.
    induction s as [|c s IH]; cbn; [discriminate|].
    destruct (p c); [discriminate|]. destruct (split_on p s); discriminate.
  Qed.

  Lemma split_on_word_app : forall w s, forallb (fun c => negb (p c)) w = true ->
    split_on p (w ++ s) = match split_on p s with
                          | x :: xs => (w ++ x) :: xs
                          | [] => [w]
                          end.
  Proof.
    induction w as [|c w IH]; intros s H; cbn [app].
    - destruct (split_on p s) eqn:E; [now apply split_on_nonnil in E|reflexivity].
    - cbn in H. apply andb_true_iff in H as [Hc Hw]. apply negb_true_iff in Hc.
      cbn [split_on]. rewrite Hc. rewrite IH by assumption.
      destruct (split_on p s) eqn:E; [now apply split_on_nonnil in E|reflexivity].
  Qed.
End Split.

Lemma split_whitespace_ws_cons : forall c s, is_whitespace c = true ->
  split_whitespace (c :: s) = split_whitespace s.
Proof. intros c s H. unfold split_whitespace. cbn [split_on]. now rewrite H. Qed.

Lemma split_whitespace_ws_app : forall sp s, all_ws sp ->
  split_whitespace (sp ++ s) = split_whitespace s.
Proof.
  induction sp as [|c sp IH]; intros s H; [reflexivity|].
  unfold all_ws in H. cbn in H. apply andb_true_iff in H as [Hc Hsp].
  cbn [app]. rewrite split_whitespace_ws_cons by assumption. now apply IH.
Qed.

Lemma split_whitespace_word_app : forall w s, word w -> boundary s ->
  split_whitespace (w ++ s) = w :: split_whitespace s.
Proof.
  intros w s [Hne Hw] Hb. unfold split_whitespace.
  rewrite split_on_word_app by exact Hw.
  destruct s as [|c s'].
  - cbn. rewrite app_nil_r. destruct w; [congruence|reflexivity].
  - cbn in Hb. cbn [split_on]. rewrite Hb. rewrite app_nil_r. cbn [filter].
    destruct w; [congruence|reflexivity].
Qed.

Theorem words_split_whitespace : forall s ws, Words s ws -> split_whitespace s = ws.
Proof.
  induction 1 as [sp Hsp|sp w s ws Hsp Hw Hb _ IH].
  - rewrite <- (app_nil_r sp). now rewrite split_whitespace_ws_app.
  - rewrite split_whitespace_ws_app by assumption.
    rewrite split_whitespace_word_app by assumption. now rewrite IH.
Qed.

Lemma span : forall (p : char -> bool) (s : str),
  exists a b, s = a ++ b /\ forallb p a = true /\
              (b = [] \/ exists c b', b = c :: b' /\ p c = false).
Proof.
  induction s as [|c s IH].
  - exists [], []. repeat split; auto.
  - destruct (p c) eqn:E.
    + destruct IH as (a & b & -> & Ha & Hb). exists (c :: a), b.
      split; [reflexivity|]. split; [cbn; now rewrite E, Ha|assumption].
    + exists [], (c :: s). split; [reflexivity|]. split; [reflexivity|]. right. now exists c, s.
Qed.

Lemma split_whitespace_words_n : forall n s, (List.length s <= n)%nat -> Words s (split_whitespace s).
Proof.
  induction n as [|n IH]; intros s Hlen.
  - destruct s; [|cbn in Hlen; lia]. now constructor.
  - destruct (span is_whitespace s) as (sp & b & -> & Hsp & Hb).
    destruct Hb as [->|(c & b' & -> & Hc)].
    + rewrite app_nil_r. rewrite <- (app_nil_r sp) at 2.
      rewrite split_whitespace_ws_app by exact Hsp. now constructor.
    + destruct (span (fun c => negb (is_whitespace c)) b') as (w' & s' & -> & Hw' & Hs').
      assert (Hword : word (c :: w')).
      { split; [discriminate|]. unfold no_ws. cbn. now rewrite Hc, Hw'. }
      assert (Hbd : boundary s').
      { destruct Hs' as [->|(d & s'' & -> & Hd)]; cbn; [exact I|].
        now apply negb_false_iff in Hd. }
      rewrite split_whitespace_ws_app by exact Hsp.
      change (c :: w' ++ s') with ((c :: w') ++ s').
      rewrite split_whitespace_word_app by assumption.
      constructor; try assumption. apply IH.
      rewrite !app_length in Hlen. cbn in Hlen. rewrite app_length in Hlen. lia.
Qed.

Theorem split_whitespace_words : forall s, Words s (split_whitespace s).
Proof. intros s. now apply (split_whitespace_words_n (List.length s)). Qed.

Theorem words_iff : forall s ws, Words s ws <-> split_whitespace s = ws.
Proof.
  intros s ws. split; [apply words_split_whitespace|].
  intros <-. apply split_whitespace_words.
Qed.

Theorem string_means_list_of_words : forall s ws,
  Words s ws -> to_vec (SLString s) = to_vec (SLList ws).
Proof. intros s ws H. cbn [to_vec]. now apply words_split_whitespace. Qed.

Lemma is_whitespace_space : is_whitespace SPACE = true.
Proof. reflexivity. Qed.

Theorem joined_words_roundtrip : forall ws, Forall word ws ->
  to_vec (SLString (join [SPACE] ws)) = to_vec (SLList ws).
Proof.
  cbn [to_vec]. induction ws as [|w ws IH]; intros H; [reflexivity|].
  inversion H as [|? ? Hw Hws]; subst.
  destruct ws as [|w2 ws'].
  - cbn [join]. rewrite <- (app_nil_r w) at 1.
    rewrite split_whitespace_word_app by (assumption || exact I). reflexivity.
  - change (join [SPACE] (w :: w2 :: ws')) with (w ++ SPACE :: join [SPACE] (w2 :: ws')).
    rewrite split_whitespace_word_app by (assumption || reflexivity).
    rewrite split_whitespace_ws_cons by reflexivity. f_equal. now apply IH.
Qed.
