(** Proofs for property C32 (model: MacroFiles.v). *)
From Coq Require Import List String Ascii Bool.
From WB Require Import Core.MacroFiles.
Import ListNotations.

Section Abstract.
  Variable path : Type.
  Variable root_join : path -> path.
  Variable canon : path -> path.
  Variable exists_ : path -> bool.
  Variable walk : path -> option (list path * list path).
  Variable default_dir : path.

  Notation parse_paths := (parse_paths path root_join canon walk).
  Notation parse_source := (parse_source path root_join canon exists_ walk default_dir).
  Notation paths_of := (paths_of path exists_ default_dir).
  Notation macro_files := (macro_files path root_join canon exists_ walk default_dir).

  Definition norm (p : path) : path := canon (root_join p).
  Definition reported (n : path) : list path := match walk n with Some (s, _) => s | None => [] end.
  Definition read_by (n : path) : list path := match walk n with Some (_, r) => r | None => [] end.

  Lemma parse_paths_spec : forall ps acc o,
    parse_paths ps acc = Some o ->
    parsed o = parsed acc ++ map norm ps /\
    tracked o = tracked acc ++ flat_map reported (map norm ps) /\
    readf o = readf acc ++ flat_map read_by (map norm ps) /\
    Forall (fun n => walk n <> None) (map norm ps).
  Proof.
    induction ps as [|p r IH]; intros acc o H; cbn in *.
    - inversion H; subst. rewrite !app_nil_r. repeat split; constructor.
    - fold (norm p) in *. unfold reported at 1, read_by at 1.
      destruct (walk (norm p)) as [[srcs rd]|] eqn:E; [|discriminate].
      destruct (IH _ _ H) as [H1 [H2 [H3 H4]]]. cbn in H1, H2, H3.
      rewrite H1, H2, H3, <- !app_assoc. cbn. repeat split.
      constructor; [congruence|assumption].
  Qed.

  (** tracked = union of what wit-parser reports for every parsed path, in every branch; and the parsed
      paths are exactly the ones the source names (the default `wit` directory when none is given, or
      next to an inline source only if it exists). *)
  Theorem tracked_is_union_of_walks : forall s o,
    parse_source s = Some o ->
    parsed o = map norm (paths_of s) /\
    tracked o = flat_map reported (parsed o) /\
    readf o = flat_map read_by (parsed o) /\
    Forall (fun n => walk n <> None) (parsed o).
  Proof.
    intros s o H.
    assert (G : forall ps, parse_paths ps (empty path) = Some o ->
                parsed o = map norm ps /\ tracked o = flat_map reported (parsed o) /\
                readf o = flat_map read_by (parsed o) /\ Forall (fun n => walk n <> None) (parsed o)).
    { intros ps Hp. destruct (parse_paths_spec _ _ _ Hp) as [H1 [H2 [H3 H4]]]. cbn in *.
      rewrite H1. auto. }
    destruct s as [[ps|[ps|]]|]; unfold MacroFiles.parse_source, MacroFiles.paths_of in *.
    - apply G; exact H.
    - apply G; exact H.
    - destruct (exists_ default_dir); [apply G; exact H|].
      inversion H; subst; cbn. repeat split; constructor.
    - apply G; exact H.
  Qed.

  (** If wit-parser reports every file it reads, the macro tracks every file that was read. *)
  Theorem read_subset_tracked :
    (forall n s r, walk n = Some (s, r) -> incl r s) ->
    forall s o, parse_source s = Some o -> incl (readf o) (tracked o).
  Proof.
    intros Hw s o H. destruct (tracked_is_union_of_walks _ _ H) as [_ [HT [HR _]]].
    rewrite HT, HR. intros f Hf. apply in_flat_map in Hf. destruct Hf as [n [Hn Hf]].
    apply in_flat_map. exists n. split; [assumption|].
    unfold read_by, reported in *. destruct (walk n) as [[srcs rd]|] eqn:E; [|destruct Hf].
    eapply Hw; eauto.
  Qed.

  (** Every tracked file becomes an include_bytes! const and nothing else does. *)
  Lemma expand_includes_tracked : forall o, expand_includes path o = tracked o.
  Proof. intros; unfold expand_includes. apply map_id. Qed.

  (** The `path:` field, wherever it stands relative to `inline:`, decides the parsed paths. *)
  Definition src_paths (s : option (@source path)) : option (list path) :=
    match s with Some (Paths ps) => Some ps | Some (Inline o) => o | None => None end.

  Lemma fields_source_keeps : forall fs s s' ps,
    fields_source path s fs = Some s' -> src_paths s = Some ps -> src_paths s' = Some ps.
  Proof.
    induction fs as [|f r IH]; intros s s' ps H Hs; cbn in H.
    - inversion H; subst; assumption.
    - destruct (add_field path s f) as [s1|] eqn:E; [|discriminate].
      apply (IH _ _ _ H). destruct f; cbn in E.
      + destruct s as [[q|[q|]]|]; cbn in *; try discriminate.
      + destruct s as [[q|[q|]]|]; cbn in *; try discriminate. inversion E; subst; cbn. assumption.
      + inversion E; subst; assumption.
  Qed.

  Theorem path_field_is_parsed : forall fs s0 s ps,
    fields_source path s0 fs = Some s -> In (FPath ps) fs -> src_paths s = Some ps.
  Proof.
    induction fs as [|f r IH]; intros s0 s ps H HIn; [destruct HIn|].
    cbn in H. destruct (add_field path s0 f) as [s1|] eqn:E; [|discriminate].
    destruct HIn as [->|HIn].
    - apply (fields_source_keeps _ _ _ _ H).
      destruct s0 as [[q|[q|]]|]; cbn in *; try discriminate; inversion E; subst; reflexivity.
    - eapply IH; eauto.
  Qed.

  (** Two sources of the same kind are rejected (no expansion), so the above is the only way paths arise. *)
  Lemma second_path_rejected : forall s ps qs, src_paths s = Some ps -> add_field path s (FPath qs) = None.
  Proof. intros [[q|[q|]]|] ps qs H; cbn in *; try discriminate; reflexivity. Qed.
End Abstract.

(** * The concrete tree *)

Lemma deps_entries_clean : forall ch base rep rd,
  no_wasm_pkg ch = true -> deps_entries base ch = Some (rep, rd) -> rep = rd.
Proof.
  induction ch as [|e r IH]; intros base rep rd Hc H; cbn in *.
  - inversion H; reflexivity.
  - destruct (deps_entries base r) as [[rep0 rd0]|] eqn:E; [|discriminate].
    assert (Hr : no_wasm_pkg r = true) by (destruct e as [n [| |]|n c]; cbn in Hc; congruence).
    pose proof (IH _ _ _ Hr E) as ->.
    destruct e as [n k|n dch].
    + destruct (extension n) as [ext|]; [|inversion H; reflexivity].
      destruct (String.eqb ext "wit" || String.eqb ext "wat" || String.eqb ext "wasm")%bool;
        [|inversion H; reflexivity].
      destruct k; cbn in Hc; try discriminate; inversion H; reflexivity.
    + destruct (dir_wit_files (base ++ [n]) dch); [|discriminate]. inversion H; reflexivity.
Qed.

(** wit-parser's walk reports every file it reads, unless a `deps/` entry is a binary-encoded package. *)
Theorem walk_tree_honest : forall fs p s r,
  deps_clean fs p = true -> walk_tree fs p = Some (s, r) -> r = s.
Proof.
  unfold deps_clean, walk_tree. intros fs p s r Hc H.
  destruct (lookup fs p) as [[n k|n ch]|]; [| |discriminate].
  - destruct k; inversion H; reflexivity.
  - destruct (dir_wit_files p ch) as [top|]; [|discriminate].
    destruct (find_node "deps" ch) as [[dn dk|dn dch]|]; try (inversion H; reflexivity).
    destruct (deps_entries (p ++ ["deps"%string]) dch) as [[rep rd]|] eqn:E; [|discriminate].
    rewrite (deps_entries_clean _ _ _ _ Hc E) in H. inversion H; reflexivity.
Qed.

Theorem macro_tree_read_subset_tracked : forall fs fields o,
  macro_tree fs fields = Some o ->
  Forall (fun p => deps_clean fs p = true) (parsed o) ->
  incl (readf o) (tracked o).
Proof.
  unfold macro_tree, macro_files. intros fs fields o H Hc.
  destruct (fields_source tpath None fields) as [s|]; [|discriminate].
  destruct (tracked_is_union_of_walks _ _ _ _ _ _ _ _ H) as [_ [HT [HR _]]].
  rewrite HT, HR. clear HT HR H.
  induction (parsed o) as [|n l IH]; cbn; [intros x Hx; exact Hx|].
  inversion Hc; subst.
  apply incl_app_app; [|apply IH; assumption].
  unfold read_by, reported. destruct (walk_tree fs n) as [[srcs rd]|] eqn:E; [|intros x Hx; exact Hx].
  rewrite (walk_tree_honest _ _ _ _ H1 E). apply incl_refl.
Qed.

(** The exception is real: a binary WIT package in `deps/` is read but not tracked. *)
Definition wasm_dep_tree : list node :=
  [NDir "wit" [NFile "world.wit" KWit; NDir "deps" [NFile "dep.wasm" KWasmPkg; NFile "other.wit" KWit]]].

Theorem wasm_dep_read_not_tracked :
  exists o, macro_tree wasm_dep_tree [] = Some o /\
    In ["wit"; "deps"; "dep.wasm"]%string (readf o) /\
    ~ In ["wit"; "deps"; "dep.wasm"]%string (tracked o) /\
    tracked o = [["wit"; "world.wit"]; ["wit"; "deps"; "other.wit"]]%string.
Proof.
  eexists. split; [vm_compute; reflexivity|]. cbn. split; [auto|]. split; [|reflexivity].
  intros [H|[H|[]]]; discriminate.
Qed.

(** Non-vacuity: a layout with a nested package directory, a single-file dependency, ignored files and
    a sub-directory, parsed through `inline` + `path`, tracks exactly the files read. *)
Definition demo_tree : list node :=
  [NDir "api" [NFile "world.wit" KWit; NFile "types.wit" KWit; NFile "notes.txt" KOther;
               NDir "sub" [NFile "ignored.wit" KWit];
               NDir "deps" [NDir "logging" [NFile "log.wit" KWit; NDir "deps" [NFile "inner.wit" KWit]];
                            NFile "clock.wit" KWit; NFile "README.md" KOther]];
   NFile "single.wit" KWit].

Example demo_tree_tracked :
  exists o, macro_tree demo_tree [FInline; FOther; FPath [["api"]; ["single.wit"]]]%string = Some o /\
    tracked o = [["api"; "world.wit"]; ["api"; "types.wit"]; ["api"; "deps"; "logging"; "log.wit"];
                 ["api"; "deps"; "clock.wit"]; ["single.wit"]]%string /\
    readf o = tracked o /\
    Forall (fun p => deps_clean demo_tree p = true) (parsed o).
Proof.
  eexists. split; [vm_compute; reflexivity|]. cbn. split; [reflexivity|]. split; [reflexivity|].
  repeat constructor.
Qed.
