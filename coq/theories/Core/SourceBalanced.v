(** C25: balanced_restores_indent (line-structure balance), for one fragment and for call sequences. *)
From Coq Require Import List Ascii Bool Arith Lia.
From WB Require Import Core.Source Core.SourceSpec Core.SourceLemmas Core.SourceProofs Core.SourceLiteral Core.SourceIndent.
Import ListNotations.

Lemma line_depths_shift b d l dl d' :
  line_depths d l = Some (dl, d') -> line_depths (b + d) l = Some (b + dl, b + d').
Proof.
  unfold line_depths. destruct (closes l).
  - destruct d as [|d0]; [discriminate|]. intro H. inversion H; subst.
    rewrite Nat.add_succ_r. destruct (opens l); rewrite ?Nat.add_succ_r; reflexivity.
  - intro H. inversion H; subst. destruct (opens l); rewrite ?Nat.add_succ_r; reflexivity.
Qed.

Lemma dyck_shift b ls : forall d dn, dyck d ls = Some dn -> dyck (b + d) ls = Some (b + dn).
Proof.
  induction ls as [|l rest IH]; intros d dn H; simpl in *.
  - inversion H. reflexivity.
  - destruct (line_depths d l) as [[dl d']|] eqn:E; [|discriminate].
    rewrite (line_depths_shift b d l dl d' E). apply IH. exact H.
Qed.

Lemma dyck_app a : forall d b,
  dyck d (a ++ b) = match dyck d a with Some d' => dyck d' b | None => None end.
Proof.
  induction a as [|l rest IH]; intros d b; simpl; auto.
  destruct (line_depths d l) as [[dl d']|]; auto.
Qed.

Lemma render_total single endnl ls : forall d dn,
  dyck d ls = Some dn -> exists t, render single endnl d ls = Some (t, dn).
Proof.
  induction ls as [|l rest IH]; intros d dn H; simpl in *.
  - inversion H. eauto.
  - destruct (line_depths d l) as [[dl d']|] eqn:E; [|discriminate].
    destruct (IH d' dn H) as [t Ht]. rewrite Ht. eauto.
Qed.

Lemma render_dyck single endnl ls : forall d t dn,
  render single endnl d ls = Some (t, dn) -> dyck d ls = Some dn.
Proof.
  induction ls as [|l rest IH]; intros d t dn H; simpl in *.
  - inversion H. reflexivity.
  - destruct (line_depths d l) as [[dl d']|] eqn:E; [|discriminate].
    destruct (render single endnl d' rest) as [[t' dn']|] eqn:R; [|discriminate].
    inversion H; subst. eapply IH; eauto.
Qed.

Lemma balanced_dyck ls : balanced_lines ls = true -> dyck 0 ls = Some 0.
Proof. unfold balanced_lines. destruct (dyck 0 ls) as [[|n]|]; try discriminate. auto. Qed.

(** one fragment appended at a line start: the indentation moves exactly as the nesting of its lines says *)
Lemma push_dyck st f k k' b : start_state st -> ind st = b + k ->
  dyck k (rust_lines f) = Some k' -> ind (push_str st f) = b + k'.
Proof.
  intros Hs Hi Hd. apply (dyck_shift b) in Hd. rewrite <- Hi in Hd.
  destruct (render_total (frag_single f) (ends_with_lf f) _ _ _ Hd) as [t Ht].
  apply (push_block st f t _ Hs Ht).
Qed.

Theorem balanced_restores_fragment : forall st f,
  start_state st -> balanced_lines (rust_lines f) = true -> ind (push_str st f) = ind st.
Proof.
  intros st f Hs Hb. apply balanced_dyck in Hb.
  rewrite (push_dyck st f 0 0 (ind st) Hs); auto.
Qed.

(** call sequences of whole-line fragments *)
Lemma parts_dyck ps : forall st k k' b,
  forallb whole_lines ps = true -> start_state st -> ind st = b + k ->
  dyck k (concat (map rust_lines ps)) = Some k' ->
  ind (fold_left push_str ps st) = b + k' /\ start_state (fold_left push_str ps st).
Proof.
  induction ps as [|p r IH]; intros st k k' b Hw Hs Hi Hd; simpl in *.
  - inversion Hd; subst. auto.
  - apply andb_true_iff in Hw as [Hp Hr]. rewrite dyck_app in Hd.
    destruct (dyck k (rust_lines p)) as [k1|] eqn:E; [|discriminate].
    apply (IH _ k1 k' b); auto.
    + apply (push_whole_start true st p Hp Hs).
    + apply (push_dyck st p k k1 b Hs Hi E).
Qed.

Lemma run_dyck ops : forall st0 st outs k k' b,
  start_state st0 -> forallb bop_aligned ops = true -> forallb text_only ops = true ->
  ind st0 = b + k -> dyck k (ops_code_lines ops) = Some k' ->
  run_b st0 ops = Some (st, outs) -> ind st = b + k'.
Proof.
  induction ops as [|o r IH]; intros st0 st outs k k' b Hs Ha Ht Hi Hd Hrun; simpl in *.
  - inversion Hrun; subst. inversion Hd; subst. auto.
  - apply andb_true_iff in Ha as [Ha1 Ha2]. apply andb_true_iff in Ht as [Ht1 Ht2].
    destruct (step_b st0 o) as [[st1 o1]|] eqn:Es; [|discriminate].
    destruct (run_b st1 r) as [[st2 o2]|] eqn:Er; [|discriminate]. inversion Hrun; subst.
    destruct o; simpl in *; try discriminate; inversion Es; subst.
    + rewrite dyck_app in Hd. destruct (dyck k (rust_lines f)) as [k1|] eqn:E; [|discriminate].
      apply (IH _ _ _ k1 k' b) with (6 := Er); auto.
      * apply (push_whole_start true st0 f Ha1 Hs).
      * apply (push_dyck st0 f k k1 b Hs Hi E).
    + apply (IH _ _ _ k k' b) with (6 := Er); auto.
      * apply (push_whole_start false st0 f Ha1 Hs).
      * rewrite <- Hi. apply literal_transparent.
    + rewrite dyck_app in Hd. destruct (dyck k (concat (map rust_lines parts))) as [k1|] eqn:E; [|discriminate].
      destruct (parts_dyck parts st0 k k1 b Ha1 Hs Hi E) as [H1 H2].
      apply (IH _ _ _ k1 k' b) with (6 := Er); auto.
    + apply (IH _ _ _ k k' b) with (6 := Er); auto.
Qed.

(** appending brace-balanced code (any number of whole-line [push_str]/[write!] calls, with literal text
    in between) restores the starting indentation *)
Theorem balanced_restores_sequence : forall ops st0 st outs,
  start_state st0 -> forallb bop_aligned ops = true -> forallb text_only ops = true ->
  balanced_lines (ops_code_lines ops) = true ->
  run_b st0 ops = Some (st, outs) -> ind st = ind st0.
Proof.
  intros ops st0 st outs Hs Ha Ht Hb Hrun. apply balanced_dyck in Hb.
  rewrite (run_dyck ops st0 st outs 0 0 (ind st0) Hs Ha Ht); auto.
Qed.
