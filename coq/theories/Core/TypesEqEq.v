(** The comparison of types.rs ([is_structurally_equal] and friends, consulting the union-find
    first and compressing its paths) decides structural equality, provided the union-find links
    structurally equal types only; it never fails on a well-founded table and does not change the
    partition the union-find represents. *)
From Coq Require Import List String Bool Arith NArith Lia.
From WB Require Import Core.TypesEq Core.TypesEqSpec Core.TypesEqUF Core.TypesEqWf.
Import ListNotations.

(** the invariant: the union-find only links structurally equal types *)
Definition uf_ok (T : table) (u : uf) : Prop :=
  uf_wf u /\ forall x, xp T (TId (rep u x)) = xp T (TId x).

(** [u] represents the same partition as [u0] *)
Definition Good (u0 u : uf) : Prop := uf_wf u /\ forall y, rep u y = rep u0 y.

Lemma Good_refl u : uf_wf u -> Good u u.
Proof. split; auto. Qed.
Lemma Good_trans u0 u1 u2 : Good u0 u1 -> Good u1 u2 -> Good u0 u2.
Proof. intros [A B] [C D]. split; auto. intros y. rewrite D, B. auto. Qed.
Lemma Good_ok T u0 u : uf_ok T u0 -> Good u0 u -> uf_ok T u.
Proof. intros [A B] [C D]. split; auto. intros x. rewrite D. auto. Qed.
Lemma uf_ok_empty T : uf_ok T uf_empty.
Proof. split; [apply uf_wf_empty|]. intros x. rewrite rep_empty. auto. Qed.

Lemma Good_find u0 u x : Good u0 u ->
  exists u', uf_find u x = ROk (rep u0 x, u') /\ Good u0 u'.
Proof.
  intros [W R]. destruct (find_spec u x W) as (u' & H & W' & R').
  exists u'. rewrite <- R. split; auto. split; auto. intros y. rewrite R'. auto.
Qed.

(* ------------------------------------------------------------------------------------------ *)
(** * Unfolding equations for [code_eq] *)

Definition tys_ (T : table) (f : nat) (a b : ty) (u : uf) := code_eq T f u (QTys a b).
Definition otys_ (T : table) (f : nat) (a b : option ty) (u : uf) : res (bool * uf) :=
  match a, b with
  | Some a, Some b => tys_ T f a b u
  | None, None => ROk (true, u)
  | _, _ => ROk (false, u)
  end.

Definition rec_elem T f (p : (string * ty) * (string * ty)) (u : uf) : res (bool * uf) :=
  if String.eqb (fst (fst p)) (fst (snd p)) then tys_ T f (snd (fst p)) (snd (snd p)) u
  else ROk (false, u).
Definition var_elem T f (p : (string * option ty) * (string * option ty)) (u : uf) : res (bool * uf) :=
  if String.eqb (fst (fst p)) (fst (snd p)) then otys_ T f (snd (fst p)) (snd (snd p)) u
  else ROk (false, u).
Definition names_eqb (na nb : list string) : bool :=
  (List.length na =? List.length nb) && forallb (fun p => String.eqb (fst p) (snd p)) (combine na nb).

Definition cmp_kinds (T : table) (f : nat) (a b : tid) (ka kb : kind) (u2 : uf) : res (bool * uf) :=
  match ka with
  | KRecord fa =>
      match kb with
      | KRecord fb => if List.length fa =? List.length fb then all_st (rec_elem T f) (combine fa fb) u2
                      else ROk (false, u2)
      | _ => ROk (false, u2)
      end
  | KVariant ca =>
      match kb with
      | KVariant cb => if List.length ca =? List.length cb then all_st (var_elem T f) (combine ca cb) u2
                       else ROk (false, u2)
      | _ => ROk (false, u2)
      end
  | KEnum na => match kb with KEnum nb => ROk (names_eqb na nb, u2) | _ => ROk (false, u2) end
  | KFlags na => match kb with KFlags nb => ROk (names_eqb na nb, u2) | _ => ROk (false, u2) end
  | KTuple ta =>
      match kb with
      | KTuple tb => if List.length ta =? List.length tb
                     then all_st (fun p u => tys_ T f (fst p) (snd p) u) (combine ta tb) u2
                     else ROk (false, u2)
      | _ => ROk (false, u2)
      end
  | KList la => match kb with KList lb => tys_ T f la lb u2 | _ => ROk (false, u2) end
  | KFixed ta sa =>
      match kb with
      | KFixed tb sb => if N.eqb sa sb then tys_ T f ta tb u2 else ROk (false, u2)
      | _ => ROk (false, u2)
      end
  | KOption oa => match kb with KOption ob => tys_ T f oa ob u2 | _ => ROk (false, u2) end
  | KResult oka era =>
      match kb with
      | KResult okb erb => and_st (otys_ T f oka okb) (otys_ T f era erb) u2
      | _ => ROk (false, u2)
      end
  | KMap ak av =>
      match kb with
      | KMap bk bv => and_st (tys_ T f ak bk) (tys_ T f av bv) u2
      | _ => ROk (false, u2)
      end
  | KFuture pa => match kb with KFuture pb => otys_ T f pa pb u2 | _ => ROk (false, u2) end
  | KStream pa => match kb with KStream pb => otys_ T f pa pb u2 | _ => ROk (false, u2) end
  | KOwn ha => match kb with KOwn hb => code_eq T f u2 (QIds ha hb) | _ => ROk (false, u2) end
  | KBorrow ha => match kb with KBorrow hb => code_eq T f u2 (QIds ha hb) | _ => ROk (false, u2) end
  | KUnknown => RErr EUnreachable
  | KResource => match kb with KResource => ROk (a =? b, u2) | _ => ROk (false, u2) end
  | KType _ => RErr EUnreachable
  end.

Lemma code_eq_QTys T f u a b :
  code_eq T (S f) u (QTys a b) =
  match a, b with
  | TId a, b => code_eq T f u (QIdTy a b)
  | a, TId b => code_eq T f u (QIdTy b a)
  | TPrim p, TPrim q => ROk (prim_eqb p q, u)
  end.
Proof. reflexivity. Qed.

Lemma code_eq_QIdTy T f u a b :
  code_eq T (S f) u (QIdTy a b) =
  (ka <- lookup_kind T a ;;
   match alias_of ka with
   | Some ta => tys_ T f ta b u
   | None => match b with
             | TId b => code_eq T f u (QIds a b)
             | TPrim _ => ROk (false, u)
             end
   end).
Proof. reflexivity. Qed.

Lemma code_eq_QIds T f u a b :
  code_eq T (S f) u (QIds a b) =
  (ka <- lookup_kind T a ;;
   kb <- lookup_kind T b ;;
   '(ra, u1) <- uf_find u a ;;
   '(rb, u2) <- uf_find u1 b ;;
   if ra =? rb then ROk (true, u2) else
   match alias_of ka with
   | Some ta => code_eq T f u2 (QIdTy b ta)
   | None =>
     match alias_of kb with
     | Some tb => code_eq T f u2 (QIdTy a tb)
     | None => cmp_kinds T f a b ka kb u2
     end
   end).
Proof. reflexivity. Qed.

(* ------------------------------------------------------------------------------------------ *)
(** * Small reflection lemmas *)

Lemma prim_eqb_ok p q : prim_eqb p q = true <-> p = q.
Proof. destruct p, q; cbn; split; intros H; try reflexivity; try discriminate. Qed.

Lemma names_eqb_ok na nb : names_eqb na nb = true <-> na = nb.
Proof.
  unfold names_eqb. revert nb. induction na as [|x na IH]; intros [|y nb]; cbn; try (split; [discriminate|discriminate]).
  - split; auto.
  - specialize (IH nb). rewrite andb_true_iff in *. cbn [fst snd].
    rewrite andb_true_iff, String.eqb_eq. split.
    + intros [A [B C]]. f_equal; auto. apply IH. auto.
    + intros [= -> ->]. destruct (proj2 IH eq_refl). auto.
Qed.

Lemma map_eq_combine {A B} (g : A -> B) l1 : forall l2, List.length l1 = List.length l2 ->
  (map g l1 = map g l2 <-> Forall (fun p => g (fst p) = g (snd p)) (combine l1 l2)).
Proof.
  induction l1 as [|x l1 IH]; intros [|y l2] H; cbn in *; try discriminate.
  - split; auto.
  - injection H as H. specialize (IH l2 H). split.
    + intros [= E1 E2]. constructor; auto. apply IH. auto.
    + intros F. inversion F; subst. cbn in *. f_equal; auto. apply IH. auto.
Qed.

Lemma map_len_neq {A B} (g : A -> B) l1 l2 : List.length l1 <> List.length l2 -> map g l1 <> map g l2.
Proof. intros H E. apply H. rewrite <- (map_length g l1), <- (map_length g l2). congruence. Qed.

(* ------------------------------------------------------------------------------------------ *)
(** * State-threading combinators *)

Section Comb.
  Variable u0 : uf.

  Definition step_ok {A} (f : A -> uf -> res (bool * uf)) (P : A -> Prop) (x : A) : Prop :=
    forall u, Good u0 u -> exists b u', f x u = ROk (b, u') /\ (b = true <-> P x) /\ Good u0 u'.

  Lemma all_st_ok {A} (f : A -> uf -> res (bool * uf)) (P : A -> Prop) (l : list A) :
    (forall x, In x l -> step_ok f P x) ->
    forall u, Good u0 u -> exists b u', all_st f l u = ROk (b, u') /\ (b = true <-> Forall P l) /\ Good u0 u'.
  Proof.
    induction l as [|x l IH]; intros H u G; cbn [all_st].
    - exists true, u. split; auto. split; auto. split; auto.
    - destruct (H x (or_introl eq_refl) u G) as (b & u1 & E & Hb & G1). rewrite E. cbn [bind].
      destruct b.
      + destruct (IH (fun y Hy => H y (or_intror Hy)) u1 G1) as (b2 & u2 & E2 & Hb2 & G2).
        exists b2, u2. split; auto. split; auto. rewrite Hb2. split.
        * intros F. constructor; auto. apply Hb. auto.
        * intros F. inversion F; auto.
      + exists false, u1. split; auto. split; auto. split; [discriminate|].
        intros F. inversion F; subst. apply Hb. auto.
  Qed.

  Lemma and_st_ok (f g : uf -> res (bool * uf)) (P Q : Prop) :
    (forall u, Good u0 u -> exists b u', f u = ROk (b, u') /\ (b = true <-> P) /\ Good u0 u') ->
    (forall u, Good u0 u -> exists b u', g u = ROk (b, u') /\ (b = true <-> Q) /\ Good u0 u') ->
    forall u, Good u0 u -> exists b u', and_st f g u = ROk (b, u') /\ (b = true <-> P /\ Q) /\ Good u0 u'.
  Proof.
    intros Hf Hg u G. unfold and_st. destruct (Hf u G) as (b & u1 & E & Hb & G1). rewrite E. cbn [bind].
    destruct b.
    - destruct (Hg u1 G1) as (b2 & u2 & E2 & Hb2 & G2). exists b2, u2. split; auto. split; auto.
      rewrite Hb2. split; [intros; split; auto; apply Hb; auto | tauto].
    - exists false, u1. split; auto. split; auto. split; [discriminate|]. intros [A _]. apply Hb. auto.
  Qed.
End Comb.

(* ------------------------------------------------------------------------------------------ *)
(** * Measure and statement *)

Definition has (T : table) (i : tid) : Prop := exists d, lookup T i = Some d.
Definition ty_ok (T : table) (t : ty) : Prop := match t with TId i => has T i | TPrim _ => True end.

Definition qweight (q : query) : nat :=
  match q with
  | QIds a b => S a + S b
  | QTys a b => tyw a + tyw b
  | QIdTy a b => S a + tyw b
  end.
Definition qstage (q : query) : nat :=
  match q with QIds _ _ => 0 | QIdTy _ _ => 1 | QTys _ _ => 2 end.
Definition qneed (q : query) : nat := 3 * qweight q + qstage q.

Definition qspec (T : table) (q : query) : Prop :=
  match q with
  | QIds a b => xp T (TId a) = xp T (TId b)
  | QTys a b => xp T a = xp T b
  | QIdTy a b => xp T (TId a) = xp T b
  end.
Definition q_ok (T : table) (q : query) : Prop :=
  match q with
  | QIds a b => has T a /\ has T b
  | QTys a b => ty_ok T a /\ ty_ok T b
  | QIdTy a b => has T a /\ ty_ok T b
  end.

Definition sub_ok (T : table) (u0 : uf) (f : nat) : Prop :=
  forall q u, qneed q < f -> q_ok T q -> Good u0 u ->
    exists b u', code_eq T f u q = ROk (b, u') /\ (b = true <-> qspec T q) /\ Good u0 u'.

Lemma wf_child_ok T i d c : wf_table T -> lookup T i = Some d -> In c (kind_tys (tkind d)) -> ty_ok T c.
Proof.
  intros W L H. destruct c as [p|j]; cbn; auto.
  pose proof (wf_ref_lt T i d j W L H). pose proof (lookup_lt T i d L).
  unfold has, lookup. destruct (nth_error T j) eqn:E; eauto.
  apply nth_error_None in E. lia.
Qed.

Lemma otys_ok T u0 f (oa ob : option ty) n m :
  sub_ok T u0 f ->
  (forall a, oa = Some a -> ty_ok T a /\ tyw a <= n) ->
  (forall b, ob = Some b -> ty_ok T b /\ tyw b <= m) ->
  3 * (n + m) + 2 < f ->
  forall u, Good u0 u -> exists b u', otys_ T f oa ob u = ROk (b, u') /\
                                      (b = true <-> option_map (xp T) oa = option_map (xp T) ob) /\ Good u0 u'.
Proof.
  intros S Ha Hb Hf u G. destruct oa as [a|], ob as [b|]; cbn [otys_ option_map].
  - destruct (Ha a eq_refl) as [A1 A2]. destruct (Hb b eq_refl) as [B1 B2].
    destruct (S (QTys a b) u) as (r & u' & E & Hr & G'); auto.
    + unfold qneed. cbn [qweight qstage]. lia.
    + cbn. auto.
    + exists r, u'. split; auto. split; auto. rewrite Hr. cbn. split; [congruence|intros [=]; auto].
  - exists false, u. split; auto. split; auto. split; discriminate.
  - exists false, u. split; auto. split; auto. split; discriminate.
  - exists true, u. split; auto. split; auto. split; auto.
Qed.

Lemma tys_ok T u0 f (a b : ty) n m :
  sub_ok T u0 f -> ty_ok T a -> tyw a <= n -> ty_ok T b -> tyw b <= m -> 3 * (n + m) + 2 < f ->
  forall u, Good u0 u -> exists r u', tys_ T f a b u = ROk (r, u') /\ (r = true <-> xp T a = xp T b) /\ Good u0 u'.
Proof.
  intros S A1 A2 B1 B2 Hf u G. destruct (S (QTys a b) u) as (r & u' & E & Hr & G'); auto.
  - unfold qneed. cbn [qweight qstage]. lia.
  - cbn. auto.
  - exists r, u'. auto.
Qed.

(** the 17 x 17 table of definition kinds *)
Lemma cmp_kinds_ok T u0 f a b da db :
  wf_table T -> sub_ok T u0 f ->
  lookup T a = Some da -> lookup T b = Some db ->
  alias_of (tkind da) = None -> alias_of (tkind db) = None ->
  3 * (a + b) + 2 < f ->
  forall u, Good u0 u ->
    exists r u', cmp_kinds T f a b (tkind da) (tkind db) u = ROk (r, u') /\
                 (r = true <-> knode (xp T) a (tkind da) = knode (xp T) b (tkind db)) /\ Good u0 u'.
Proof.
  intros W S La Lb Aa Ab Hf u G.
  assert (Ca : forall c, In c (kind_tys (tkind da)) -> ty_ok T c /\ tyw c <= a).
  { intros c Hc. split; [apply (wf_child_ok T a da c); auto | apply (wf_child_tyw T a da c); auto]. }
  assert (Cb : forall c, In c (kind_tys (tkind db)) -> ty_ok T c /\ tyw c <= b).
  { intros c Hc. split; [apply (wf_child_ok T b db c); auto | apply (wf_child_tyw T b db c); auto]. }
  destruct (W a da La) as [Ua _]. destruct (W b db Lb) as [Ub _].
  assert (FALSE : forall P : Prop, ~ P -> exists r u', ROk (false, u) = ROk (r, u') /\ (r = true <-> P) /\ Good u0 u').
  { intros P HP. exists false, u. split; auto. split; auto. split; [discriminate | tauto]. }
  destruct (tkind da) as [fa| |ha|ha|na|ta|ca|na|oa|oka era|la|ta sa|ak av|pa|pa|xa|] eqn:Ka;
    try discriminate; try congruence;
  destruct (tkind db) as [fb| |hb|hb|nb|tb|cb|nb|ob|okb erb|lb|tb sb|bk bv|pb|pb|xb|] eqn:Kb;
    try discriminate; try congruence;
  cbn [cmp_kinds knode];
  try (apply FALSE; discriminate).
  - (* record *)
    destruct (List.length fa =? List.length fb) eqn:EL.
    + apply Nat.eqb_eq in EL.
      destruct (all_st_ok u0 (rec_elem T f)
                  (fun p => fst (fst p) = fst (snd p) /\ xp T (snd (fst p)) = xp T (snd (snd p)))
                  (combine fa fb)) with (u := u) as (r & u' & E & Hr & G'); auto.
      * intros [pa pb] Hin u1 G1. cbn [fst snd]. unfold rec_elem. cbn [fst snd].
        pose proof (in_combine_l _ _ _ _ Hin) as Ia. pose proof (in_combine_r _ _ _ _ Hin) as Ib.
        destruct (Ca (snd pa)) as [A1 A2]; [cbn; apply in_map; auto|].
        destruct (Cb (snd pb)) as [B1 B2]; [cbn; apply in_map; auto|].
        destruct (String.eqb (fst pa) (fst pb)) eqn:ES.
        -- apply String.eqb_eq in ES.
           destruct (tys_ok T u0 f (snd pa) (snd pb) a b) with (u := u1) as (r & u' & E & Hr & G'); auto; try lia.
           exists r, u'. split; auto. split; auto. rewrite Hr. tauto.
        -- apply String.eqb_neq in ES. exists false, u1. split; auto. split; auto.
           split; [discriminate | tauto].
      * exists r, u'. split; auto. split; auto. rewrite Hr.
        pose proof (map_eq_combine (fun p : string * ty => (fst p, xp T (snd p))) fa fb EL) as M.
        split.
        -- intros Fo. f_equal. apply M. eapply Forall_impl; [|exact Fo]. intros p [A B]. cbn. congruence.
        -- intros [= Fo]. apply M in Fo. eapply Forall_impl; [|exact Fo]. cbn. intros p [= A B]. auto.
    + apply Nat.eqb_neq in EL. apply FALSE. intros [= E]. revert E. apply map_len_neq. auto.
  - (* resource *)
    exists (a =? b), u. split; auto. split; auto. rewrite Nat.eqb_eq. split; [congruence | intros [=]; auto].
  - (* own *)
    destruct (Ca (TId ha)) as [A1 A2]; [cbn; auto|]. destruct (Cb (TId hb)) as [B1 B2]; [cbn; auto|].
    cbn in A2, B2.
    destruct (S (QIds ha hb) u) as (r & u' & E & Hr & G'); auto.
    { unfold qneed. cbn [qweight qstage]. lia. } { cbn. auto. }
    exists r, u'. split; auto. split; auto. rewrite Hr. cbn. split; [congruence | intros [=]; auto].
  - (* borrow *)
    destruct (Ca (TId ha)) as [A1 A2]; [cbn; auto|]. destruct (Cb (TId hb)) as [B1 B2]; [cbn; auto|].
    cbn in A2, B2.
    destruct (S (QIds ha hb) u) as (r & u' & E & Hr & G'); auto.
    { unfold qneed. cbn [qweight qstage]. lia. } { cbn. auto. }
    exists r, u'. split; auto. split; auto. rewrite Hr. cbn. split; [congruence | intros [=]; auto].
  - (* flags *)
    exists (names_eqb na nb), u. split; auto. split; auto. rewrite names_eqb_ok. split; [congruence | intros [=]; auto].
  - (* tuple *)
    destruct (List.length ta =? List.length tb) eqn:EL.
    + apply Nat.eqb_eq in EL.
      destruct (all_st_ok u0 (fun p u => tys_ T f (fst p) (snd p) u)
                  (fun p => xp T (fst p) = xp T (snd p)) (combine ta tb)) with (u := u) as (r & u' & E & Hr & G'); auto.
      * intros [pa pb] Hin u1 G1. cbn [fst snd].
        pose proof (in_combine_l _ _ _ _ Hin) as Ia. pose proof (in_combine_r _ _ _ _ Hin) as Ib.
        destruct (Ca pa) as [A1 A2]; [cbn; auto|]. destruct (Cb pb) as [B1 B2]; [cbn; auto|].
        apply (tys_ok T u0 f pa pb a b); auto; lia.
      * exists r, u'. split; auto. split; auto. rewrite Hr.
        pose proof (map_eq_combine (xp T) ta tb EL) as M.
        split; [intros Fo; f_equal; apply M; auto | intros [= Fo]; apply M; auto].
    + apply Nat.eqb_neq in EL. apply FALSE. intros [= E]. revert E. apply map_len_neq. auto.
  - (* variant *)
    destruct (List.length ca =? List.length cb) eqn:EL.
    + apply Nat.eqb_eq in EL.
      destruct (all_st_ok u0 (var_elem T f)
                  (fun p => fst (fst p) = fst (snd p) /\ option_map (xp T) (snd (fst p)) = option_map (xp T) (snd (snd p)))
                  (combine ca cb)) with (u := u) as (r & u' & E & Hr & G'); auto.
      * intros [pa pb] Hin u1 G1. cbn [fst snd]. unfold var_elem. cbn [fst snd].
        pose proof (in_combine_l _ _ _ _ Hin) as Ia. pose proof (in_combine_r _ _ _ _ Hin) as Ib.
        destruct (String.eqb (fst pa) (fst pb)) eqn:ES.
        -- apply String.eqb_eq in ES.
           destruct (otys_ok T u0 f (snd pa) (snd pb) a b) with (u := u1) as (r & u' & E & Hr & G'); auto; try lia.
           { intros x Hx. destruct (Ca x) as [A1 A2]; [|split; auto].
             cbn [kind_tys]. apply in_somes. rewrite <- Hx. apply in_map. auto. }
           { intros x Hx. destruct (Cb x) as [A1 A2]; [|split; auto].
             cbn [kind_tys]. apply in_somes. rewrite <- Hx. apply in_map. auto. }
           exists r, u'. split; auto. split; auto. rewrite Hr. tauto.
        -- apply String.eqb_neq in ES. exists false, u1. split; auto. split; auto.
           split; [discriminate | tauto].
      * exists r, u'. split; auto. split; auto. rewrite Hr.
        pose proof (map_eq_combine (fun p : string * option ty => (fst p, option_map (xp T) (snd p))) ca cb EL) as M.
        split.
        -- intros Fo. f_equal. apply M. eapply Forall_impl; [|exact Fo]. intros p [A B]. cbn. congruence.
        -- intros [= Fo]. apply M in Fo. eapply Forall_impl; [|exact Fo]. cbn. intros p [= A B]. auto.
    + apply Nat.eqb_neq in EL. apply FALSE. intros [= E]. revert E. apply map_len_neq. auto.
  - (* enum *)
    exists (names_eqb na nb), u. split; auto. split; auto. rewrite names_eqb_ok. split; [congruence | intros [=]; auto].
  - (* option *)
    destruct (Ca oa) as [A1 A2]; [cbn; auto|]. destruct (Cb ob) as [B1 B2]; [cbn; auto|].
    destruct (tys_ok T u0 f oa ob a b) with (u := u) as (r & u' & E & Hr & G'); auto; try lia.
    exists r, u'. split; auto. split; auto. rewrite Hr. split; [congruence | intros [=]; auto].
  - (* result *)
    destruct (and_st_ok u0 (otys_ T f oka okb) (otys_ T f era erb)
                (option_map (xp T) oka = option_map (xp T) okb) (option_map (xp T) era = option_map (xp T) erb))
      with (u := u) as (r & u' & E & Hr & G'); auto.
    + apply (otys_ok T u0 f oka okb a b); auto; try lia.
      * intros x Hx. destruct (Ca x) as [A1 A2]; [|split; auto]. cbn [kind_tys]. apply in_somes. subst. cbn. auto.
      * intros x Hx. destruct (Cb x) as [A1 A2]; [|split; auto]. cbn [kind_tys]. apply in_somes. subst. cbn. auto.
    + apply (otys_ok T u0 f era erb a b); auto; try lia.
      * intros x Hx. destruct (Ca x) as [A1 A2]; [|split; auto]. cbn [kind_tys]. apply in_somes. subst. cbn. auto.
      * intros x Hx. destruct (Cb x) as [A1 A2]; [|split; auto]. cbn [kind_tys]. apply in_somes. subst. cbn. auto.
    + exists r, u'. split; auto. split; auto. rewrite Hr. split; [intros [A B]; congruence | intros [=]; auto].
  - (* list *)
    destruct (Ca la) as [A1 A2]; [cbn; auto|]. destruct (Cb lb) as [B1 B2]; [cbn; auto|].
    destruct (tys_ok T u0 f la lb a b) with (u := u) as (r & u' & E & Hr & G'); auto; try lia.
    exists r, u'. split; auto. split; auto. rewrite Hr. split; [congruence | intros [=]; auto].
  - (* fixed *)
    destruct (N.eqb sa sb) eqn:ES.
    + apply N.eqb_eq in ES. subst sb.
      destruct (Ca ta) as [A1 A2]; [cbn; auto|]. destruct (Cb tb) as [B1 B2]; [cbn; auto|].
      destruct (tys_ok T u0 f ta tb a b) with (u := u) as (r & u' & E & Hr & G'); auto; try lia.
      exists r, u'. split; auto. split; auto. rewrite Hr. split; [congruence | intros [=]; auto].
    + apply N.eqb_neq in ES. apply FALSE. intros [= A B]. auto.
  - (* map *)
    destruct (and_st_ok u0 (tys_ T f ak bk) (tys_ T f av bv) (xp T ak = xp T bk) (xp T av = xp T bv))
      with (u := u) as (r & u' & E & Hr & G'); auto.
    + destruct (Ca ak) as [A1 A2]; [cbn; auto|]. destruct (Cb bk) as [B1 B2]; [cbn; auto|].
      apply (tys_ok T u0 f ak bk a b); auto; lia.
    + destruct (Ca av) as [A1 A2]; [cbn; auto|]. destruct (Cb bv) as [B1 B2]; [cbn; auto|].
      apply (tys_ok T u0 f av bv a b); auto; lia.
    + exists r, u'. split; auto. split; auto. rewrite Hr. split; [intros [A B]; congruence | intros [=]; auto].
  - (* future *)
    destruct (otys_ok T u0 f pa pb a b) with (u := u) as (r & u' & E & Hr & G'); auto; try lia.
    { intros x Hx. destruct (Ca x) as [A1 A2]; [|split; auto]. cbn [kind_tys]. apply in_somes. subst. cbn. auto. }
    { intros x Hx. destruct (Cb x) as [A1 A2]; [|split; auto]. cbn [kind_tys]. apply in_somes. subst. cbn. auto. }
    exists r, u'. split; auto. split; auto. rewrite Hr. split; [congruence | intros [=]; auto].
  - (* stream *)
    destruct (otys_ok T u0 f pa pb a b) with (u := u) as (r & u' & E & Hr & G'); auto; try lia.
    { intros x Hx. destruct (Ca x) as [A1 A2]; [|split; auto]. cbn [kind_tys]. apply in_somes. subst. cbn. auto. }
    { intros x Hx. destruct (Cb x) as [A1 A2]; [|split; auto]. cbn [kind_tys]. apply in_somes. subst. cbn. auto. }
    exists r, u'. split; auto. split; auto. rewrite Hr. split; [congruence | intros [=]; auto].
Qed.

(* ------------------------------------------------------------------------------------------ *)
(** * The main induction *)

Lemma alias_xp T i d t : wf_table T -> lookup T i = Some d -> alias_of (tkind d) = Some t ->
  xp T (TId i) = xp T t /\ ty_ok T t /\ tyw t <= i.
Proof.
  intros W L A. assert (K : tkind d = KType t).
  { destruct (tkind d); cbn in A; try discriminate. congruence. }
  split; [|split].
  - rewrite (xp_unfold T i d W L), K. reflexivity.
  - apply (wf_child_ok T i d t W L). rewrite K. cbn. auto.
  - apply (wf_child_tyw T i d t W L). rewrite K. cbn. auto.
Qed.

Lemma nonalias_not_prim T i d p : wf_table T -> lookup T i = Some d -> alias_of (tkind d) = None ->
  xp T (TId i) <> XPrim p.
Proof.
  intros W L A. rewrite (xp_unfold T i d W L). destruct (tkind d); cbn in *; discriminate.
Qed.

Theorem code_eq_correct T u0 : wf_table T -> uf_ok T u0 -> forall f, sub_ok T u0 f.
Proof.
  intros W OK. induction f as [|f IH]; intros q u Hf Hq G; [lia|].
  destruct q as [a b|a b|a b].
  - (* is_structurally_equal *)
    rewrite code_eq_QIds. destruct Hq as [[da La] [db Lb]]. unfold lookup_kind. rewrite La, Lb. cbn [bind].
    destruct (Good_find u0 u a G) as (u1 & E1 & G1). rewrite E1. cbn [bind].
    destruct (Good_find u0 u1 b G1) as (u2 & E2 & G2). rewrite E2. cbn [bind].
    unfold qneed in Hf. cbn [qweight qstage] in Hf.
    destruct (rep u0 a =? rep u0 b) eqn:ER.
    + exists true, u2. split; auto. split; auto. split; auto. intros _. cbn [qspec].
      destruct OK as [_ X]. rewrite <- (X a), <- (X b). apply Nat.eqb_eq in ER. rewrite ER. auto.
    + destruct (alias_of (tkind da)) as [ta|] eqn:Aa.
      * destruct (alias_xp T a da ta W La Aa) as (X1 & X2 & X3).
        destruct (IH (QIdTy b ta) u2) as (r & u' & E & Hr & G'); auto.
        { unfold qneed. cbn [qweight qstage]. lia. }
        { cbn. split; auto. exists db. auto. }
        exists r, u'. split; auto. split; auto. rewrite Hr. cbn [qspec]. rewrite X1. split; congruence.
      * destruct (alias_of (tkind db)) as [tb|] eqn:Ab.
        -- destruct (alias_xp T b db tb W Lb Ab) as (X1 & X2 & X3).
           destruct (IH (QIdTy a tb) u2) as (r & u' & E & Hr & G'); auto.
           { unfold qneed. cbn [qweight qstage]. lia. }
           { cbn. split; auto. exists da. auto. }
           exists r, u'. split; auto. split; auto. rewrite Hr. cbn [qspec]. rewrite X1. tauto.
        -- destruct (cmp_kinds_ok T u0 f a b da db W IH La Lb Aa Ab) with (u := u2) as (r & u' & E & Hr & G'); auto.
           { lia. }
           exists r, u'. split; auto. split; auto. rewrite Hr. cbn [qspec].
           rewrite (xp_unfold T a da W La), (xp_unfold T b db W Lb). tauto.
  - (* types_equal *)
    rewrite code_eq_QTys. unfold qneed in Hf. cbn [qweight qstage] in Hf. destruct Hq as [Ha Hb].
    destruct a as [p|a], b as [q|b].
    + exists (prim_eqb p q), u. split; auto. split; auto. rewrite prim_eqb_ok. cbn.
      split; [congruence | intros [=]; auto].
    + destruct (IH (QIdTy b (TPrim p)) u) as (r & u' & E & Hr & G'); auto.
      { unfold qneed. cbn [qweight qstage tyw] in *. lia. }
      { cbn. auto. }
      exists r, u'. split; auto. split; auto. rewrite Hr. cbn [qspec]. split; congruence.
    + destruct (IH (QIdTy a (TPrim q)) u) as (r & u' & E & Hr & G'); auto.
      { unfold qneed. cbn [qweight qstage tyw] in *. lia. }
      { cbn. auto. }
      exists r, u'. split; auto.
    + destruct (IH (QIdTy a (TId b)) u) as (r & u' & E & Hr & G'); auto.
      { unfold qneed. cbn [qweight qstage tyw] in *. lia. }
      { cbn. auto. }
      exists r, u'. split; auto.
  - (* type_id_equal_to_type *)
    rewrite code_eq_QIdTy. unfold qneed in Hf. cbn [qweight qstage] in Hf. destruct Hq as [[da La] Hb].
    unfold lookup_kind. rewrite La. cbn [bind].
    destruct (alias_of (tkind da)) as [ta|] eqn:Aa.
    + destruct (alias_xp T a da ta W La Aa) as (X1 & X2 & X3).
      destruct (IH (QTys ta b) u) as (r & u' & E & Hr & G'); auto.
      { unfold qneed. cbn [qweight qstage]. lia. }
      { cbn. auto. }
      exists r, u'. split; auto. split; auto. rewrite Hr. cbn [qspec]. rewrite X1. tauto.
    + destruct b as [p|b].
      * exists false, u. split; auto. split; auto. split; [discriminate|].
        cbn [qspec]. intros E. exfalso. exact (nonalias_not_prim T a da p W La Aa E).
      * destruct (IH (QIds a b) u) as (r & u' & E & Hr & G'); auto.
        { unfold qneed. cbn [qweight qstage tyw] in *. lia. }
        { cbn. split; auto. exists da. auto. }
        exists r, u'. split; auto.
Qed.

(** Theorem (1): under the invariant, [is_structurally_equal] is structural equality, cannot
    fail, and keeps the partition. *)
Theorem is_structurally_equal_correct T u a b :
  wf_table T -> uf_ok T u -> has T a -> has T b ->
  exists r u', is_structurally_equal T u a b = ROk (r, u') /\
               (r = true <-> struct_eq T a b) /\ uf_ok T u' /\ (forall y, rep u' y = rep u y).
Proof.
  intros W OK Ha Hb. unfold is_structurally_equal.
  destruct (code_eq_correct T u W OK (eq_fuel a b) (QIds a b) u) as (r & u' & E & Hr & G).
  - unfold qneed, eq_fuel. cbn [qweight qstage]. lia.
  - cbn. auto.
  - apply Good_refl. apply OK.
  - exists r, u'. split; auto. split; auto. split; [eapply Good_ok; eauto | apply G].
Qed.
