(** C25: appending a brace-neutral one-line piece, in any state, only appends (behind the indentation when
    it starts a line): indentation level and comment state are untouched. *)
From Coq Require Import List Ascii Bool Arith.
From WB Require Import Core.Source Core.SourceSpec Core.SourceLemmas.
Import ListNotations.

Lemma split_nl_nolf_single p : has_lf p = false -> split_nl p = [p].
Proof.
  induction p as [|c r IH]; simpl; auto. intro H. apply orb_false_iff in H as [H1 H2].
  rewrite H1, (IH H2). reflexivity.
Qed.

Lemma rust_lines_single p : has_lf p = false -> p <> [] -> rust_lines p = [p].
Proof.
  intros H Hn. unfold rust_lines. rewrite (split_nl_nolf_single p H). simpl.
  destruct p; [congruence | reflexivity].
Qed.

Theorem push_inert_piece : forall st p,
  inert p = true -> p <> [] ->
  push_str st p = mkSource (rev p ++ (if continuing st then rbuf st else spaces (2 * ind st) ++ rbuf st))
                           (ind st) (in_comment st) true.
Proof.
  intros st p Hi Hn. unfold inert in Hi.
  apply andb_true_iff in Hi as [Hi H4]. apply andb_true_iff in Hi as [Hi H3]. apply andb_true_iff in Hi as [H1 H2].
  apply negb_true_iff in H1, H2, H3, H4.
  unfold push_str, push_str_impl. rewrite (rust_lines_single p H1 Hn), (ends_with_lf_nolf p H1).
  simpl. unfold push_piece. rewrite H2, H3, H4.
  destruct p as [|c r]; [congruence|]. cbn [is_nil].
  rewrite !andb_false_r, orb_false_r. cbn [andb]. reflexivity.
Qed.
