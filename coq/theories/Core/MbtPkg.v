(** Model of crates/moonbit/src/pkg.rs : [Imports { packages: HashMap<String,String>, ns: Ns }] and
    [PkgResolver::qualify_package] (the only place where MoonBit import aliases are allocated), plus
    the import list that [MoonBit::write_moon_pkg] (crates/moonbit/src/lib.rs) derives from an
    [Imports] value.  Definitions only; proofs are in Core/MbtPkgProofs.v.

    HashMaps are association lists with set semantics (iteration order is never observed by
    [qualify_package]; [write_moon_pkg] sorts what it iterates).  [Ns] is the C26 model. *)
From Coq Require Import List String Ascii NArith Bool.
From WB Require Import Core.Ns.
Import ListNotations.
Local Open Scope string_scope.

(** [Imports] *)
Record imports := { packages : list (string * string);   (* package name -> alias *)
                    ins : ns }.
Definition imports_default : imports := {| packages := []; ins := ns_init |}.

(** [PkgResolver.package_import : HashMap<String, Imports>] (the other fields of PkgResolver are not
    touched by [qualify_package]). *)
Definition resolver := list (string * imports).

Fixpoint assoc {A : Type} (k : string) (l : list (string * A)) : option A :=
  match l with
  | [] => None
  | (k', v) :: r => if String.eqb k k' then Some v else assoc k r
  end.

(** insert-or-replace at key [k] *)
Fixpoint upsert {A : Type} (k : string) (v : A) (l : list (string * A)) : list (string * A) :=
  match l with
  | [] => [(k, v)]
  | (k', v') :: r => if String.eqb k k' then (k, v) :: r else (k', v') :: upsert k v r
  end.

Definition dot : ascii := "."%char.

Fixpoint has_dot (s : string) : bool :=
  match s with
  | EmptyString => false
  | String c r => if Ascii.eqb c dot then true else has_dot r
  end.

(** Rust [name.split(".").last().unwrap()]: the text after the last '.', the whole string if there
    is none ("" for a name that ends in '.'). *)
Fixpoint last_seg (s : string) : string :=
  match s with
  | EmptyString => EmptyString
  | String c r => if has_dot r then last_seg r
                  else if Ascii.eqb c dot then r else s
  end.

(** [Ns::tmp] never fails (NsProofs.ns_tmp_total); the [None] branch of the fuel-based model is
    unreachable and only totalises the function. *)
Definition ns_tmp_tot (s : ns) (name : string) : ns * string :=
  match ns_tmp s name with
  | Some r => r
  | None => (s, name)
  end.

Definition at_alias (alias : string) : string := "@" ++ alias ++ ".".

(** [qualify_package(&mut self, this, name) -> String].
    Note that [package_import.entry(this).or_default()] creates the entry for [this] in both
    branches of the inner [if let]. *)
Definition qualify_package (r : resolver) (this name : string) : resolver * string :=
  if String.eqb name this then (r, "")
  else
    let imp := match assoc this r with Some i => i | None => imports_default end in
    match assoc name (packages imp) with
    | Some alias => (upsert this imp r, at_alias alias)
    | None =>
        let '(ns', alias) := ns_tmp_tot (ins imp) (last_seg name) in
        (upsert this {| packages := (name, alias) :: packages imp; ins := ns' |} r,
         at_alias alias)
    end.

(** A history of calls [(this, name)] from an initial resolver: the answers and the final state. *)
Fixpoint run (r : resolver) (calls : list (string * string)) : list string * resolver :=
  match calls with
  | [] => ([], r)
  | (this, name) :: rest =>
      let '(r', out) := qualify_package r this name in
      let '(outs, rf) := run r' rest in
      (out :: outs, rf)
  end.

(** [k.replace(".", "/")] *)
Fixpoint dots_to_slashes (s : string) : string :=
  match s with
  | EmptyString => EmptyString
  | String c r => String (if Ascii.eqb c dot then "/"%char else c) (dots_to_slashes r)
  end.

(** The (path, alias) pairs [write_moon_pkg] renders as
    [{ "path" : "<project>/<k with . -> />", "alias" : "<v>" }] (then sorts and joins). *)
Definition import_entries (project : string) (imp : imports) : list (string * string) :=
  map (fun kv => (project ++ "/" ++ dots_to_slashes (fst kv), snd kv)) (packages imp).

(** Canonical dump of a resolver used by the correspondence run (the OCaml driver sorts it). *)
Definition dump (r : resolver) : list (string * list (string * string)) :=
  map (fun e => (fst e, packages (snd e))) r.
