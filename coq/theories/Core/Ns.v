(** Model of crates/core/src/ns.rs : [Ns { defined: HashSet<String>, tmp: usize }].
    [defined] is modelled as a duplicate-free list (set semantics only), [tmp] as [N]
    (usize overflow is unreachable: it would need 2^64 insertions). *)
From Coq Require Import List String Ascii NArith Bool DecimalString.
Import ListNotations.
Local Open Scope string_scope.

Record ns := { defined : list string; tmpc : N }.
Definition ns_init : ns := {| defined := []; tmpc := 0 |}.

Definition smem (s : string) (l : list string) : bool :=
  existsb (String.eqb s) l.

(** Rust [format!("{}", n)] for usize = decimal without leading zeros ("0" for 0). *)
Definition dec (n : N) : string := NilZero.string_of_uint (N.to_uint n).

(** [insert]: Ok (true) iff newly inserted. *)
Definition ns_insert (s : ns) (name : string) : ns * bool :=
  if smem name (defined s) then (s, false)
  else ({| defined := name :: defined s; tmpc := tmpc s |}, true).

(** The [while self.defined.contains(&ret)] loop, on explicit fuel; [None] = fuel exhausted
    (proved unreachable with fuel = |defined| + 1 in NsProofs). *)
Fixpoint tmp_loop (fuel : nat) (name : string) (d : list string) (t : N) (ret : string)
  : option (string * N) :=
  match fuel with
  | O => None
  | S f => if smem ret d then tmp_loop f name d (N.succ t) (name ++ dec t)
           else Some (ret, t)
  end.

Definition ns_tmp (s : ns) (name : string) : option (ns * string) :=
  match tmp_loop (S (List.length (defined s))) name (defined s) (tmpc s) name with
  | None => None
  | Some (ret, t) => Some ({| defined := ret :: defined s; tmpc := t |}, ret)
  end.

Inductive nsop := Insert (name : string) | Tmp (name : string).
Inductive nsout := InsOk | InsErr | TmpName (s : string) | OutOfFuel.

Definition ns_step (s : ns) (o : nsop) : ns * nsout :=
  match o with
  | Insert n => let '(s', ok) := ns_insert s n in (s', if ok then InsOk else InsErr)
  | Tmp n => match ns_tmp s n with
             | Some (s', r) => (s', TmpName r)
             | None => (s, OutOfFuel)
             end
  end.

Fixpoint ns_run (s : ns) (ops : list nsop) : list nsout :=
  match ops with
  | [] => []
  | o :: rest => let '(s', out) := ns_step s o in out :: ns_run s' rest
  end.
