(** * Core/ResourceOwnProofsInv.v — the invariant [Inv] and the ledger [Ledger] of Core/ResourceOwnSpec.v split into
    groups over the state components, and the preservation lemma of every group for every elementary change of the
    components (add an entry + wrapper, remove an entry + wrapper, box created / released / emptied, handle moved to or
    from the host, export begins / ends). *)
From Coq Require Import List NArith Bool Permutation Lia.
From WB Require Import Core.ResourceOwn Core.ResourceOwnSpec Core.ResourceOwnProofsList.
Import ListNotations.
Local Open Scope N_scope.

Notation tblT := (list (N * hentry)).
Notation wsT := (list (N * wrapper)).
Notation repsT := (list (N * repstate)).

(** ** component-level views of the derived lists *)
Definition lh (w : wsT) : list N :=
  map (fun p => w_handle (snd p)) (filter (fun p => negb (w_handle (snd p) =? MAXH)) w).
Definition is_borrow (p : N * hentry) : bool := negb (e_own (snd p)).
Definition is_own (p : N * hentry) : bool := e_own (snd p).
Definition is_eo (p : N * hentry) : bool := e_own (snd p) && rkind_eqb (e_kind (snd p)) Exported.
Definition eor (t : tblT) : list N := map (fun p => e_rep (snd p)) (filter is_eo t).
Definition is_temp (p : N * wrapper) : bool := w_temp (snd p).
Definition is_some (p : N * repstate) : bool := match snd p with RSome _ => true | RNone => false end.

Lemma live_handles_lh s : live_handles s = lh (ws s). Proof. reflexivity. Qed.
Lemma exported_own_reps_eor s : exported_own_reps s = eor (tbl s). Proof. reflexivity. Qed.

(** ** the four groups of [Inv] *)
Record TblInv (t : tblT) (f : list N) (n : N) : Prop := {
  ti_nodup : NoDup (keys t);
  ti_fresh : forall i, In i f -> ~ In i (keys t);
  ti_fnodup : NoDup f;
  ti_range : forall i, In i (keys t) \/ In i f -> 0 < i < n;
  ti_next : 1 <= n <= TABLE_MAX }.

Record WsInv (t : tblT) (w : wsT) (nw : N) : Prop := {
  wi_nodup : NoDup (keys w);
  wi_handles : Permutation (lh w) (keys t);
  wi_agree : forall k x, In (k, x) w -> w_handle x <> MAXH ->
      exists e, lookup (w_handle x) t = Some e /\ e_own e = negb (w_temp x) /\ e_kind e = w_kind x;
  wi_nosent : forall k x, In (k, x) w -> w_handle x <> MAXH;
  wi_lends : forall h e, In (h, e) t -> e_lends e = 0;
  wi_bimp : forall h e, In (h, e) t -> e_own e = false -> e_kind e = Imported;
  wi_range : forall k, In k (keys w) -> k < nw }.

Record ExpInv (t : tblT) (w : wsT) (ie : bool) (nd : N) : Prop := {
  ei_need : nd = N.of_nat (length (filter is_borrow t));
  ei_temps : ie = false -> filter is_temp w = [] /\ nd = 0 }.

Record BoxInv (E : list N) (r : repsT) (nr : N) (ho : list N) : Prop := {
  bi_nodup : NoDup (keys r);
  bi_boxes : Permutation (keys r) (E ++ ho);
  bi_some : forall a c, In (a, c) r -> exists v, c = RSome v;
  bi_range : forall a, In a (keys r) \/ In a ho -> a < nr }.

Lemma Inv_iff s :
  Inv s <-> TblInv (tbl s) (freeh s) (nexth s) /\ WsInv (tbl s) (ws s) (nextw s) /\
            ExpInv (tbl s) (ws s) (in_export s) (need_drop s) /\ BoxInv (eor (tbl s)) (reps s) (nextrep s) (hostown s).
Proof.
  split.
  - intros []. split; [|split; [|split]]; constructor; assumption.
  - intros [[] [[] [[] []]]]. constructor; assumption.
Qed.

(** ** table group *)
Lemma tbl_add_free t i f n e : TblInv t (i :: f) n -> TblInv ((i, e) :: t) f n /\ ~ In i (keys t) /\ 0 < i < n.
Proof.
  intros []. assert (Hni : ~ In i (keys t)) by (apply ti_fresh0; now left).
  inversion ti_fnodup0; subst.
  split; [|split; [exact Hni|apply ti_range0; right; now left]].
  constructor; auto.
  - cbn. constructor; auto.
  - intros j Hj. cbn. intros [E|Hin]; [congruence|]. apply (ti_fresh0 j); auto. now right.
  - intros j Hj. apply ti_range0. cbn in Hj. destruct Hj as [[E|H]|H].
    + subst. right; now left.
    + now left.
    + right; now right.
Qed.

Lemma tbl_add_next t n e : TblInv t [] n -> n < TABLE_MAX -> TblInv ((n, e) :: t) [] (n + 1) /\ ~ In n (keys t).
Proof.
  intros [] Hlt.
  assert (Hni : ~ In n (keys t)) by (intros Hin; specialize (ti_range0 n (or_introl Hin)); lia).
  split; auto. constructor; cbn; auto.
  - constructor; auto.
  - intros i [[E|H]|[]]; [subst; lia|]. specialize (ti_range0 i (or_introl H)). lia.
  - lia.
Qed.

Lemma tbl_remove t f n h : TblInv t f n -> In h (keys t) -> TblInv (remove h t) (h :: f) n.
Proof.
  intros [] Hin. constructor; auto.
  - now apply NoDup_keys_remove.
  - intros i [E|Hi].
    + subst. now apply notin_keys_remove.
    + intros H. apply (ti_fresh0 i Hi). eapply In_keys_remove, H.
  - constructor; auto. intros Hf. exact (ti_fresh0 h Hf Hin).
  - intros i [H|[E|H]]; apply ti_range0.
    + left. eapply In_keys_remove, H.
    + subst. now left.
    + now right.
Qed.

(** ** wrapper group *)
Lemma lh_perm w w' : Permutation w w' -> Permutation (lh w) (lh w').
Proof. intros H. unfold lh. apply Permutation_map, Permutation_filter, H. Qed.

Lemma lh_cons k x w : w_handle x <> MAXH -> lh ((k, x) :: w) = w_handle x :: lh w.
Proof. intros H. unfold lh. cbn. destruct (N.eqb_spec (w_handle x) MAXH); [contradiction|reflexivity]. Qed.

Lemma lh_cons_sentinel k x w : w_handle x = MAXH -> lh ((k, x) :: w) = lh w.
Proof. intros H. unfold lh. cbn. rewrite H. reflexivity. Qed.

Lemma In_lh k x w : In (k, x) w -> w_handle x <> MAXH -> In (w_handle x) (lh w).
Proof.
  intros Hin Hne. unfold lh. apply in_map_iff. exists (k, x). split; auto.
  apply filter_In. split; auto. cbn. destruct (N.eqb_spec (w_handle x) MAXH); [contradiction|reflexivity].
Qed.

Lemma lh_In h w : In h (lh w) -> exists k x, In (k, x) w /\ w_handle x = h /\ h <> MAXH.
Proof.
  unfold lh. rewrite in_map_iff. intros [[k x] [E Hin]]. apply filter_In in Hin as [Hin Hp]. cbn in *.
  exists k, x. repeat split; auto. subst. destruct (N.eqb_spec (w_handle x) MAXH); [discriminate|assumption].
Qed.

Lemma ws_alloc t w nw h e :
  WsInv t w nw -> ~ In h (keys t) -> h <> MAXH -> e_lends e = 0 -> (e_own e = false -> e_kind e = Imported) ->
  WsInv ((h, e) :: t) ((nw, {| w_kind := e_kind e; w_handle := h; w_temp := negb (e_own e) |}) :: w) (nw + 1).
Proof.
  intros [] Hni Hne Hl Hb. constructor.
  - cbn. constructor; auto. intros Hin. apply wi_range0 in Hin. lia.
  - rewrite lh_cons by exact Hne. cbn. now apply perm_skip.
  - intros k x [E|Hin] Hx.
    + inversion E; subst; cbn. exists e. rewrite N.eqb_refl, negb_involutive. auto.
    + destruct (wi_agree0 k x Hin Hx) as [e' [Hl' [Ho Hk]]]. exists e'. repeat split; auto.
      rewrite lookup_cons_other; auto. intros E. apply Hni. rewrite <- E. eapply lookup_In_keys, Hl'.
  - intros k x [E|Hin]; [inversion E; subst; exact Hne|eauto].
  - intros h' e' [E|Hin]; [inversion E; subst; exact Hl|eauto].
  - intros h' e' [E|Hin]; [inversion E; subst; exact Hb|eauto].
  - cbn. intros k [E|Hin]; [lia|]. apply wi_range0 in Hin. lia.
Qed.

Lemma ws_drop t w nw k x :
  NoDup (keys t) -> WsInv t w nw -> lookup k w = Some x ->
  WsInv (remove (w_handle x) t) (remove k w) nw.
Proof.
  intros Hnd [] Hk.
  assert (Hin : In (k, x) w) by (eapply lookup_In, Hk).
  assert (Hne : w_handle x <> MAXH) by eauto.
  destruct (wi_agree0 k x Hin Hne) as [e [Hl _]].
  assert (Hp : Permutation (lh w) (w_handle x :: lh (remove k w))).
  { rewrite <- (lh_cons k x) by exact Hne. apply lh_perm, perm_remove, Hk. }
  assert (Hnd' : NoDup (w_handle x :: lh (remove k w))).
  { eapply Permutation_NoDup; [exact Hp|]. eapply Permutation_NoDup; [apply Permutation_sym, wi_handles0|exact Hnd]. }
  constructor.
  - now apply NoDup_keys_remove.
  - apply Permutation_cons_inv with (a := w_handle x).
    eapply perm_trans; [apply Permutation_sym, Hp|].
    eapply perm_trans; [apply wi_handles0|]. eapply perm_keys_remove, Hl.
  - intros k' x' Hin' Hx'.
    destruct (wi_agree0 k' x' (In_remove _ _ _ Hin') Hx') as [e' [Hl' [Ho Hkd]]].
    exists e'. repeat split; auto. rewrite lookup_remove_other; auto.
    intros E. inversion Hnd'; subst. apply H1. rewrite <- E. eapply In_lh; eauto.
  - intros k' x' Hin'. eapply wi_nosent0, In_remove, Hin'.
  - intros h' e' Hin'. eapply wi_lends0, In_remove, Hin'.
  - intros h' e' Hin'. eapply wi_bimp0, In_remove, Hin'.
  - intros k' Hin'. eapply wi_range0, In_keys_remove, Hin'.
Qed.

(** no temporary wrapper => no borrow entry *)
Lemma no_temps_no_borrows t w nw :
  NoDup (keys t) -> WsInv t w nw -> filter is_temp w = [] -> filter is_borrow t = [].
Proof.
  intros Hnd [] Ht. apply filter_nil_iff. intros [h e] Hin. unfold is_borrow; cbn.
  assert (Hh : In h (lh w)).
  { eapply Permutation_in; [apply Permutation_sym, wi_handles0|]. eapply In_keys, Hin. }
  apply lh_In in Hh as [k [x [Hkx [Eh Hne]]]]. subst h.
  destruct (wi_agree0 k x Hkx Hne) as [e' [Hl [Ho _]]].
  rewrite (In_lookup_nodup _ _ _ Hnd Hin) in Hl. inversion Hl; subst e'.
  rewrite Ho, negb_involutive.
  rewrite filter_nil_iff in Ht. exact (Ht (k, x) Hkx).
Qed.

(** ** export group *)
Lemma exp_alloc_own t w ie nd h e k x :
  e_own e = true -> w_temp x = false -> ExpInv t w ie nd -> ExpInv ((h, e) :: t) ((k, x) :: w) ie nd.
Proof.
  intros Ho Ht []. constructor; cbn; unfold is_borrow, is_temp; cbn; rewrite ?Ho, ?Ht; cbn; auto.
Qed.

Lemma exp_alloc_borrow t w nd h e k x :
  e_own e = false -> ExpInv t w true nd -> ExpInv ((h, e) :: t) ((k, x) :: w) true (nd + 1).
Proof.
  intros Ho []. constructor; [|discriminate].
  cbn. unfold is_borrow at 1; cbn. rewrite Ho. cbn [negb length]. lia.
Qed.

Lemma exp_drop t w ie nd h e k x :
  lookup h t = Some e -> lookup k w = Some x -> e_own e = negb (w_temp x) ->
  ExpInv t w ie nd -> ExpInv (remove h t) (remove k w) ie (if e_own e then nd else nd - 1).
Proof.
  intros Hl Hk Ho [].
  pose proof (length_filter_remove is_borrow _ _ _ Hl) as Hlen. unfold is_borrow at 2 in Hlen. cbn in Hlen.
  destruct (e_own e) eqn:Eo; cbn in Hlen.
  - constructor; [lia|]. intros Hie. destruct (ei_temps0 Hie) as [Ht Hz]. split; auto.
    rewrite (filter_remove_false is_temp _ _ _ Hk); auto. unfold is_temp; cbn.
    destruct (w_temp x); [discriminate|reflexivity].
  - constructor; [lia|]. intros Hie. destruct (ei_temps0 Hie) as [Ht Hz]. exfalso.
    rewrite filter_nil_iff in Ht. specialize (Ht (k, x) (lookup_In _ _ _ Hk)). unfold is_temp in Ht; cbn in Ht.
    rewrite Ht in Ho. discriminate.
Qed.

Lemma exp_begin t w nd : ExpInv t w false nd -> ExpInv t w true 0.
Proof. intros []. destruct (ei_temps0 eq_refl) as [_ Hz]. constructor; [lia|discriminate]. Qed.

Lemma exp_end t w ie : filter is_borrow t = [] -> filter is_temp w = [] -> ExpInv t w ie 0.
Proof. intros Hb Ht. constructor; [now rewrite Hb|auto]. Qed.

Lemma exp_in_export t w ie nd k x : ExpInv t w ie nd -> lookup k w = Some x -> w_temp x = true -> ie = true.
Proof.
  intros [] Hk Ht. destruct ie; auto. destruct (ei_temps0 eq_refl) as [Hn _].
  rewrite filter_nil_iff in Hn. specialize (Hn (k, x) (lookup_In _ _ _ Hk)). unfold is_temp in Hn; cbn in Hn. congruence.
Qed.

(** ** box group *)
Lemma eor_cons h e t : eor ((h, e) :: t) = if is_eo (h, e) then e_rep e :: eor t else eor t.
Proof. unfold eor. cbn. destruct (is_eo (h, e)); reflexivity. Qed.

Lemma eor_remove h e t :
  lookup h t = Some e -> Permutation (eor t) (if is_eo (h, e) then e_rep e :: eor (remove h t) else eor (remove h t)).
Proof.
  intros H. apply perm_remove in H. apply (Permutation_filter is_eo) in H.
  apply (Permutation_map (fun p => e_rep (snd p))) in H. fold (eor t) in H.
  cbn in H. destruct (is_eo (h, e)); exact H.
Qed.

Lemma box_perm E E' r nr ho : Permutation E E' -> BoxInv E r nr ho -> BoxInv E' r nr ho.
Proof.
  intros Hp []. constructor; auto. eapply perm_trans; [exact bi_boxes0|]. now apply Permutation_app_tail.
Qed.

Lemma box_new E r nr ho v : BoxInv E r nr ho -> BoxInv (nr :: E) ((nr, RSome v) :: r) (nr + 8) ho.
Proof.
  intros []. constructor; cbn.
  - constructor; auto. intros Hin. specialize (bi_range0 nr (or_introl Hin)). lia.
  - now apply perm_skip.
  - intros a c [E0|Hin]; [inversion E0; eauto|eauto].
  - intros a [[E0|Hin]|Hin]; [lia| |]; [specialize (bi_range0 a (or_introl Hin))|specialize (bi_range0 a (or_intror Hin))]; lia.
Qed.

Lemma box_give E r nr ho rep : BoxInv E r nr ho -> In rep ho -> BoxInv (rep :: E) r nr (remove_one rep ho).
Proof.
  intros [] Hin. constructor; auto.
  - eapply perm_trans; [exact bi_boxes0|]. cbn.
    eapply perm_trans; [apply Permutation_app_head, perm_remove_one, Hin|].
    apply Permutation_sym, Permutation_middle.
  - intros a [H|H]; apply bi_range0; auto. right. eapply In_remove_one, H.
Qed.

Lemma box_in_reps E r nr ho rep : BoxInv E r nr ho -> In rep E \/ In rep ho -> exists c, lookup rep r = Some c.
Proof.
  intros [] H. apply In_keys_lookup. eapply Permutation_in; [apply Permutation_sym, bi_boxes0|].
  apply in_or_app. exact H.
Qed.

(** the destructor releases a box whose owner was the own entry just removed from the table *)
Lemma box_release E E' r nr ho rep c :
  BoxInv E r nr ho -> Permutation E (rep :: E') -> lookup rep r = Some c -> BoxInv E' (remove rep r) nr ho.
Proof.
  intros [] Hp Hl. constructor.
  - now apply NoDup_keys_remove.
  - apply Permutation_cons_inv with (a := rep).
    eapply perm_trans; [apply Permutation_sym, (perm_keys_remove _ _ _ Hl)|].
    eapply perm_trans; [exact bi_boxes0|]. change (rep :: E' ++ ho) with ((rep :: E') ++ ho).
    now apply Permutation_app_tail.
  - intros a c' Hin. eapply bi_some0, In_remove, Hin.
  - intros a [H|H]; apply bi_range0; auto. left. eapply In_keys_remove, H.
Qed.

(** the host takes an own handle of an exported resource out of the table *)
Lemma box_take E E' r nr ho rep :
  BoxInv E r nr ho -> Permutation E (rep :: E') -> BoxInv E' r nr (rep :: ho).
Proof.
  intros [] Hp. constructor; auto.
  - eapply perm_trans; [exact bi_boxes0|].
    eapply perm_trans; [apply Permutation_app_tail, Hp|]. cbn. apply Permutation_middle.
  - intros a [H|[H|H]]; apply bi_range0; auto.
    subst. left. eapply Permutation_in; [apply Permutation_sym, bi_boxes0|].
    apply in_or_app. left. eapply Permutation_in; [apply Permutation_sym, Hp|]. now left.
Qed.

(** somebody outside drops the own handle it holds *)
Lemma box_hdrop E r nr ho rep c :
  BoxInv E r nr ho -> In rep ho -> lookup rep r = Some c -> BoxInv E (remove rep r) nr (remove_one rep ho).
Proof.
  intros [] Hin Hl. constructor.
  - now apply NoDup_keys_remove.
  - apply Permutation_cons_inv with (a := rep).
    eapply perm_trans; [apply Permutation_sym, (perm_keys_remove _ _ _ Hl)|].
    eapply perm_trans; [exact bi_boxes0|].
    eapply perm_trans; [apply Permutation_app_head, perm_remove_one, Hin|].
    apply Permutation_sym, Permutation_middle.
  - intros a c' Hin'. eapply bi_some0, In_remove, Hin'.
  - intros a [H|H]; apply bi_range0.
    + left. eapply In_keys_remove, H.
    + right. eapply In_remove_one, H.
Qed.

