(** Proofs for property C24 (model: Realloc.v, statements: ReallocSpec.v). *)
From Coq Require Import List Arith NArith Bool Permutation Lia.
From WB Require Import Core.Realloc Core.ReallocSpec.
Import ListNotations.
Local Open Scope N_scope.

(** * Blocks *)

Lemma block_eqb_eq : forall a b, block_eqb a b = true <-> a = b.
Proof.
  intros [p s a] [p' s' a']; unfold block_eqb; cbn.
  rewrite !andb_true_iff, !N.eqb_eq. split.
  - intros [[-> ->] ->]; reflexivity.
  - intros H; inversion H; auto.
Qed.

Lemma block_eqb_refl : forall a, block_eqb a a = true.
Proof. intros; apply block_eqb_eq; reflexivity. Qed.

Lemma mem_block_In : forall b l, mem_block b l = true <-> In b l.
Proof.
  intros b l; unfold mem_block; rewrite existsb_exists; split.
  - intros [x [Hx He]]; apply block_eqb_eq in He; subst; assumption.
  - intros H; exists b; split; [assumption | apply block_eqb_refl].
Qed.

Lemma remove_block_In : forall b c l, In c (remove_block b l) -> In c l.
Proof.
  induction l as [|x r IH]; cbn; [tauto|].
  destruct (block_eqb b x); cbn; intuition.
Qed.

Lemma remove_block_perm : forall b l, In b l -> Permutation l (b :: remove_block b l).
Proof.
  induction l as [|x r IH]; cbn; [tauto|]. intros H.
  destruct (block_eqb b x) eqn:E.
  - apply block_eqb_eq in E; subst; reflexivity.
  - destruct H as [->|H]; [rewrite block_eqb_refl in E; discriminate|].
    rewrite perm_swap. constructor. apply IH; assumption.
Qed.

Lemma is_pow2_nz : forall a, is_pow2 a = true -> a <> 0.
Proof.
  unfold is_pow2; intros a H; apply N.eqb_eq in H. rewrite H. apply N.pow_nonzero. discriminate.
Qed.

Lemma disj_sym : forall a b, disj a b -> disj b a.
Proof. unfold disj; tauto. Qed.

Lemma wf_remove : forall b l, wf_blocks l -> wf_blocks (remove_block b l).
Proof.
  induction l as [|x r IH]; cbn; [tauto|]. intros [Hx Hr].
  destruct (block_eqb b x); [assumption|]. cbn. split; [|auto].
  intros c Hc; apply Hx; eapply remove_block_In; eassumption.
Qed.

Lemma wf_In_disj : forall l a b, wf_blocks l -> In a l -> In b l -> a = b \/ disj a b.
Proof.
  induction l as [|x r IH]; cbn; [tauto|]. intros a b [Hx Hr] [->|Ha] [->|Hb]; auto.
  - right; apply disj_sym; auto.
Qed.

(** In a pairwise-disjoint list, removing a non-empty block removes it for good and leaves only
    blocks disjoint from it. *)
Lemma wf_remove_disj : forall b l, wf_blocks l -> In b l -> forall c, In c (remove_block b l) -> disj b c.
Proof.
  induction l as [|x r IH]; cbn; [tauto|]. intros [Hx Hr] Hb c Hc.
  destruct (block_eqb b x) eqn:E.
  - apply block_eqb_eq in E; subst; auto.
  - destruct Hb as [->|Hb]; [rewrite block_eqb_refl in E; discriminate|].
    destruct Hc as [->|Hc]; [apply disj_sym; auto | auto].
Qed.

Lemma disj_self_empty : forall b, disj b b -> b_size b = 0.
Proof. unfold disj; intros b H; lia. Qed.

Lemma wf_remove_notin : forall b l, wf_blocks l -> In b l -> b_size b <> 0 -> ~ In b (remove_block b l).
Proof.
  intros b l Hw Hb Hs Hc. apply Hs, disj_self_empty. eapply wf_remove_disj; eassumption.
Qed.

(** * Tables *)

Lemma entry_app_l : forall (l r : list (option block)) k, (k < length l)%nat -> entry (l ++ r) k = entry l k.
Proof. intros; unfold entry; rewrite nth_error_app1; auto. Qed.

Lemma entry_some_lt : forall l k b, entry l k = Some b -> (k < length l)%nat.
Proof.
  unfold entry; intros l k b H. apply nth_error_Some. destruct (nth_error l k); [discriminate|discriminate].
Qed.

Lemma entry_app_new : forall (l : list (option block)) x, entry (l ++ [x]) (length l) = x.
Proof.
  intros; unfold entry. rewrite nth_error_app2, Nat.sub_diag by lia. cbn. destruct x; reflexivity.
Qed.

Lemma entry_set_none_same : forall l k, entry (set_none k l) k = None.
Proof.
  induction l as [|x r IH]; destruct k; cbn; auto. apply IH.
Qed.

Lemma entry_set_none_other : forall l k j, j <> k -> entry (set_none k l) j = entry l j.
Proof.
  induction l as [|x r IH]; destruct k, j; cbn; auto; try congruence.
  intros; apply IH; congruence.
Qed.

Lemma set_none_length : forall l k, length (set_none k l) = length l.
Proof. induction l; destruct k; cbn; auto. Qed.

Lemma blocks_of_app : forall l r, blocks_of (l ++ r) = blocks_of l ++ blocks_of r.
Proof.
  induction l as [|[b|] l IH]; cbn; intros; auto.
  destruct (b_size b =? 0); cbn; rewrite IH; reflexivity.
Qed.

Lemma blocks_of_entry : forall l k b, entry l k = Some b -> b_size b <> 0 -> In b (blocks_of l).
Proof.
  induction l as [|x r IH]; destruct k; cbn; try discriminate; intros b H Hs.
  - unfold entry in H; cbn in H. destruct x; inversion H; subst.
    apply N.eqb_neq in Hs; rewrite Hs; left; reflexivity.
  - assert (In b (blocks_of r)) by (eapply IH; eauto).
    destruct x as [c|]; auto. destruct (b_size c =? 0); cbn; auto.
Qed.

Lemma blocks_of_set_none : forall l k b, entry l k = Some b -> b_size b <> 0 ->
  Permutation (blocks_of l) (b :: blocks_of (set_none k l)).
Proof.
  induction l as [|x r IH]; destruct k; cbn; try discriminate; intros b H Hs.
  - unfold entry in H; cbn in H. destruct x; inversion H; subst.
    apply N.eqb_neq in Hs; rewrite Hs; reflexivity.
  - pose proof (IH k b H Hs) as P.
    destruct x as [c|]; auto. destruct (b_size c =? 0); auto.
    rewrite perm_swap; constructor; assumption.
Qed.

Lemma blocks_of_set_none_zero : forall l k b, entry l k = Some b -> b_size b = 0 ->
  blocks_of (set_none k l) = blocks_of l.
Proof.
  induction l as [|x r IH]; destruct k; cbn; try discriminate; intros b H Hs.
  - unfold entry in H; cbn in H. destruct x; inversion H; subst.
    apply N.eqb_eq in Hs; rewrite Hs; reflexivity.
  - rewrite (IH k b H Hs). reflexivity.
Qed.

Lemma blocks_of_nz : forall l b, In b (blocks_of l) -> b_size b <> 0.
Proof.
  induction l as [|[c|] r IH]; cbn; [tauto| |auto]. intros b.
  destruct (b_size c =? 0) eqn:E; cbn; auto.
  intros [<-|H]; auto. apply N.eqb_neq; assumption.
Qed.

Lemma blocks_of_In_entry : forall l b, In b (blocks_of l) -> exists k, entry l k = Some b.
Proof.
  induction l as [|[c|] r IH]; cbn; [tauto| |].
  - intros b. destruct (b_size c =? 0); cbn.
    + intros H; destruct (IH b H) as [k Hk]; exists (S k); exact Hk.
    + intros [<-|H]; [exists O; reflexivity|]. destruct (IH b H) as [k Hk]; exists (S k); exact Hk.
  - intros b H; destruct (IH b H) as [k Hk]; exists (S k); exact Hk.
Qed.

(** * Permutation bookkeeping *)

Lemma perm_insert : forall (b : block) L T H B,
  Permutation L ((T ++ H) ++ B) -> Permutation (b :: L) (((T ++ [b]) ++ H) ++ B).
Proof.
  intros. rewrite <- !app_assoc. cbn. apply Permutation_cons_app. rewrite app_assoc. assumption.
Qed.

Lemma perm_insert_r : forall (b : block) L T H B,
  Permutation L ((T ++ H) ++ B) -> Permutation (b :: L) ((T ++ (H ++ [b])) ++ B).
Proof.
  intros. rewrite <- !app_assoc. cbn. rewrite app_assoc. apply Permutation_cons_app. assumption.
Qed.

Lemma perm_remove_left : forall (c : block) L T T' H B,
  Permutation L ((T ++ H) ++ B) -> Permutation T (c :: T') ->
  Permutation (remove_block c L) ((T' ++ H) ++ B).
Proof.
  intros c L T T' H B HL HT.
  assert (In c L) by (eapply Permutation_in; [symmetry; exact HL|]; rewrite HT; cbn; auto).
  apply Permutation_cons_inv with c. rewrite <- remove_block_perm by assumption.
  rewrite HL, HT. reflexivity.
Qed.

Lemma perm_remove_mid : forall (c : block) L T H H' B,
  Permutation L ((T ++ H) ++ B) -> Permutation H (c :: H') ->
  Permutation (remove_block c L) ((T ++ H') ++ B).
Proof.
  intros c L T H H' B HL HH.
  assert (In c L) by (eapply Permutation_in; [symmetry; exact HL|]; rewrite HH;
                      apply in_or_app; left; apply in_or_app; right; cbn; auto).
  apply Permutation_cons_inv with c. rewrite <- remove_block_perm by assumption.
  rewrite HL, HH. rewrite <- !app_assoc. cbn. symmetry. apply Permutation_middle.
Qed.

Lemma entry_app_inv : forall (l : list (option block)) x i b,
  entry (l ++ [x]) i = Some b -> entry l i = Some b \/ (i = length l /\ x = Some b).
Proof.
  intros l x i b H. destruct (Nat.lt_ge_cases i (length l)) as [Hl|Hl].
  - left. rewrite entry_app_l in H; assumption.
  - right. pose proof (entry_some_lt _ _ _ H) as Hi. rewrite app_length in Hi; cbn in Hi.
    assert (i = length l) by lia; subst. rewrite entry_app_new in H. auto.
Qed.

Lemma inb_empty : forall x b, b_size b = 0 -> ~ inb x b.
Proof. unfold inb; intros; lia. Qed.

(** * Every consistent step keeps the accounting invariant and meets its post-condition *)

Section Steps.
  Variable A : allocator.
  Variable debug : bool.
  Hypothesis HA : contract A.
  Variable base : list block.

  Lemma inv_tab_live : forall s k b, Inv A base s -> entry (st_tab s) k = Some b -> b_size b <> 0 ->
    In b (live A (st_heap s)).
  Proof.
    intros s k b [P _] H Hs. eapply Permutation_in; [symmetry; exact P|].
    apply in_or_app; left; apply in_or_app; left. eapply blocks_of_entry; eauto.
  Qed.

  Lemma inv_hs_live : forall s i c, Inv A base s -> entry (st_hs s) i = Some c ->
    In c (live A (st_heap s)) /\ b_size c <> 0.
  Proof.
    intros s i c [P [_ Hn]] H. pose proof (Hn _ _ H) as Hs. split; [|assumption].
    eapply Permutation_in; [symmetry; exact P|].
    apply in_or_app; left; apply in_or_app; right. eapply blocks_of_entry; eauto.
  Qed.

  Lemma keeps_entry : forall (h h' : heap A) L (l : list (option block)) k b,
    keeps A h h' L -> entry l k = Some b -> (b_size b <> 0 -> In b L) ->
    forall x, inb x b -> rd A h' x = rd A h x.
  Proof.
    intros h h' L l k b HK He HL x Hx. destruct (N.eq_dec (b_size b) 0) as [E|E].
    - exfalso; eapply inb_empty; eauto.
    - eapply HK; eauto.
  Qed.


  Lemma keeps_refl : forall (h : heap A) L, keeps A h h L.
  Proof. intros h L b x _ _; reflexivity. Qed.

  Lemma frame_push : forall (h h' : heap A) tab hs x L,
    keeps A h h' L -> (forall k b, entry tab k = Some b -> b_size b <> 0 -> In b L) ->
    frame A (mkstate h tab hs) (mkstate h' (tab ++ [x]) hs) None.
  Proof.
    intros h h' tab hs x L HK HL. split; cbn [st_heap st_tab st_hs].
    - intros k b Hb _. pose proof (entry_some_lt _ _ _ Hb). rewrite entry_app_l by assumption.
      split; [assumption|]. eapply keeps_entry; eauto.
    - auto.
  Qed.

  Lemma step_realloc : forall s pr old_len align new_len s' x,
    Inv A base s -> req_consistent A s pr old_len align new_len -> ~ shrink_to_zero old_len new_len ->
    step A debug s (ORealloc pr old_len align new_len) = (s', x) ->
    Inv A base s' /\ realloc_post A debug s pr old_len align new_len x s'.
  Proof.
    intros [h tab hs] pr old_len align new_len s' x HI [Hp2 HC] HNS.
    pose proof (is_pow2_nz _ Hp2) as Hanz.
    pose proof HI as [P [W Hn]].
    unfold owned in P.
    unfold step; cbn [st_heap st_tab st_hs] in *.
    destruct HC as [[-> HR] | [Hold [k [ptr [-> He]]]]].
    - (* allocation: old_len = 0 *)
      cbn [N.eqb negb]. rewrite andb_false_r.
      destruct (resolve tab pr) as [ptr|] eqn:ER; [clear HR|congruence].
      unfold cabi_realloc. cbn [N.eqb].
      destruct (N.eqb_spec new_len 0) as [->|Hnew].
      + intros H; inversion H; subst; clear H. split.
        * split; [|split]; cbn [st_heap st_tab st_hs]; auto.
          unfold owned; cbn [st_heap st_tab st_hs]. rewrite blocks_of_app. cbn. rewrite app_nil_r. exact P.
        * cbn. split; [assumption|]. split; [apply N.mod_same; assumption|].
          split; [auto|]. split; [intros; congruence|]. split; [apply entry_app_new|].
          split; [intros; congruence|].
          eapply frame_push; [apply keeps_refl with (L := live A h)|].
          intros k b Hb Hs. exact (inv_tab_live _ _ _ HI Hb Hs).
      + rewrite Hp2; cbn [negb].
        destruct (h_alloc A h new_len align) as [h' p] eqn:EA.
        destruct (c_alloc A HA _ _ _ _ _ Hnew Hp2 EA) as [HK HD].
        destruct (N.eqb_spec p 0) as [->|Hp].
        * destruct HD as [[_ HL] | [Hc _]]; [|congruence].
          intros H; inversion H; subst; clear H. split.
          -- split; [|split]; cbn [st_heap st_tab st_hs]; rewrite ?HL; auto.
          -- cbn. split; [reflexivity|]. eexists; split; [reflexivity|reflexivity].
        * destruct HD as [[Hc _] | [_ [Hm [HL HDj]]]]; [congruence|].
          intros H; inversion H; subst; clear H. split.
          -- split; [|split]; cbn [st_heap st_tab st_hs]; auto.
             ++ unfold owned; cbn [st_heap st_tab st_hs]. rewrite HL, blocks_of_app. cbn [blocks_of b_size].
                apply N.eqb_neq in Hnew; rewrite Hnew. apply perm_insert; exact P.
             ++ rewrite HL. cbn. split; assumption.
          -- cbn. split; [assumption|]. split; [assumption|].
             split; [intros _ E; congruence|]. split; [intros; congruence|]. split; [apply entry_app_new|].
             split; [intros _; rewrite HL; left; reflexivity|].
             eapply frame_push; [exact HK|].
             intros k b Hb Hs. exact (inv_tab_live _ _ _ HI Hb Hs).
    - (* reallocation of the k-th result *)
      assert (Hnew : new_len <> 0) by (intros E; apply HNS; split; assumption).
      cbn [is_lit andb]. unfold resolve. rewrite He. cbn [option_map b_ptr].
      unfold cabi_realloc.
      apply N.eqb_neq in Hold; rewrite Hold. apply N.eqb_neq in Hold.
      apply N.eqb_neq in Hnew; rewrite Hnew. apply N.eqb_neq in Hnew. cbn [andb].
      rewrite Hp2; cbn [negb].
      pose proof (inv_tab_live _ _ _ HI He Hold) as Hlive. cbn [st_heap] in Hlive.
      pose proof (proj2 (mem_block_In _ _) Hlive) as Hmem. rewrite Hmem; cbn [negb].
      destruct (h_realloc A h ptr old_len align new_len) as [h' q] eqn:ER.
      destruct (c_realloc A HA _ _ _ _ _ _ _ Hlive Hnew Hp2 ER) as [HK HD].
      pose proof (blocks_of_set_none _ _ _ He Hold) as PT. cbn [b_size] in PT.
      pose proof (perm_remove_left _ _ _ _ _ _ P PT) as PR.
      destruct (N.eqb_spec q 0) as [->|Hq].
      + destruct HD as [[_ [HL _]] | [Hc _]]; [|congruence].
        intros H; inversion H; subst; clear H. split.
        * split; [|split]; cbn [st_heap st_tab st_hs]; rewrite ?HL; auto.
        * cbn. apply N.eqb_neq in Hold; rewrite Hold.
          split; [reflexivity|]. eexists; split; [reflexivity|reflexivity].
      + destruct HD as [[Hc _] | [_ [Hm [HL [HDj HC]]]]]; [congruence|].
        intros H; inversion H; subst; clear H. cbn [retire]. split.
        * split; [|split]; cbn [st_heap st_tab st_hs]; auto.
          -- unfold owned; cbn [st_heap st_tab st_hs]. rewrite HL, blocks_of_app. cbn [blocks_of b_size].
             apply N.eqb_neq in Hnew; rewrite Hnew. apply perm_insert; exact PR.
          -- rewrite HL. cbn. split; [assumption|apply wf_remove; assumption].
        * cbn [realloc_post st_heap st_tab st_hs]. split; [assumption|]. split; [assumption|].
          split; [intros E; congruence|].
          split; [intros _ ptr0 E; cbn in E; rewrite He in E; cbn in E; inversion E; subst; exact HC|].
          split; [rewrite <- (set_none_length tab k); apply entry_app_new|].
          split; [intros _; rewrite HL; left; reflexivity|].
          apply N.eqb_neq in Hold; rewrite Hold.
          split; cbn [st_heap st_tab st_hs]; [|auto].
          intros j b Hb Hj. assert (j <> k) by congruence.
          pose proof (entry_some_lt _ _ _ Hb) as Hlt.
          rewrite entry_app_l by (rewrite set_none_length; assumption).
          rewrite entry_set_none_other by assumption. split; [assumption|].
          eapply keeps_entry; [exact HK| exact Hb |]. intros Hs.
          eapply Permutation_in; [symmetry; exact PR|].
          apply in_or_app; left; apply in_or_app; left.
          eapply blocks_of_entry; [|exact Hs]. rewrite entry_set_none_other; eassumption.
  Qed.

  Lemma step_new : forall s size align s' x,
    Inv A base s -> is_pow2 align = true ->
    step A debug s (ONew size align) = (s', x) ->
    Inv A base s' /\ new_post A s size align x s'.
  Proof.
    intros [h tab hs] size align s' x HI Hp2.
    pose proof (is_pow2_nz _ Hp2) as Hanz.
    pose proof HI as [P [W Hn]]. unfold owned in P.
    unfold step; cbn [st_heap st_tab st_hs] in *. rewrite Hp2; cbn [negb].
    unfold cleanup_new.
    destruct (N.eqb_spec size 0) as [->|Hsz].
    - intros H; inversion H; subst; clear H. split.
      + split; [|split]; cbn [st_heap st_tab st_hs]; auto.
        * unfold owned; cbn [st_heap st_tab st_hs]. rewrite blocks_of_app. cbn. rewrite app_nil_r. exact P.
        * intros i c Hc. apply entry_app_inv in Hc. destruct Hc as [Hc|[_ Hc]]; [eauto|discriminate].
      + cbn. split; [tauto|]. split; [tauto|]. split; [first [reflexivity | apply N.mod_0_l; assumption]|].
        split; [reflexivity|]. split; [apply entry_app_new|]. split; [congruence|].
        split; cbn [st_heap st_tab st_hs]; [auto|].
        intros i c Hc. pose proof (entry_some_lt _ _ _ Hc). rewrite entry_app_l; assumption.
    - destruct (h_alloc A h size align) as [h' p] eqn:EA.
      destruct (c_alloc A HA _ _ _ _ _ Hsz Hp2 EA) as [HK HD].
      destruct (N.eqb_spec p 0) as [->|Hp].
      + destruct HD as [[_ HL] | [Hc _]]; [|congruence].
        intros H; inversion H; subst; clear H. split.
        * split; [|split]; cbn [st_heap st_tab st_hs]; rewrite ?HL; auto.
        * cbn. auto.
      + destruct HD as [[Hc _] | [_ [Hm [HL HDj]]]]; [congruence|].
        intros H; inversion H; subst; clear H. split.
        * split; [|split]; cbn [st_heap st_tab st_hs]; auto.
          -- unfold owned; cbn [st_heap st_tab st_hs]. rewrite HL, blocks_of_app. cbn [blocks_of b_size].
             pose proof Hsz as Hsz'. apply N.eqb_neq in Hsz'; rewrite Hsz'. apply perm_insert_r; exact P.
          -- rewrite HL. cbn. split; assumption.
          -- intros i c Hc. apply entry_app_inv in Hc. destruct Hc as [Hc|[_ Hc]]; [eauto|].
             inversion Hc; subst; assumption.
        * cbn. split; [split; intros; congruence|]. split; [split; intros; congruence|].
          split; [assumption|]. pose proof Hsz as Hsz'. apply N.eqb_neq in Hsz'; rewrite Hsz'.
          split; [reflexivity|]. split; [apply entry_app_new|].
          split; [intros _; rewrite HL; left; reflexivity|].
          split; cbn [st_heap st_tab st_hs].
          -- intros k b Hb _. split; [assumption|].
             eapply keeps_entry; [exact HK|exact Hb|]. intros Hs. exact (inv_tab_live _ _ _ HI Hb Hs).
          -- intros i c Hc. pose proof (entry_some_lt _ _ _ Hc). rewrite entry_app_l; assumption.
  Qed.

  Lemma block_eta : forall c, mkblock (b_ptr c) (b_size c) (b_align c) = c.
  Proof. destruct c; reflexivity. Qed.

  Lemma fill_outside : forall (h : heap A) c b y, disj c b -> inb y b ->
    rd A (fill A h (b_ptr c) (b_size c) 255) y = rd A h y.
  Proof.
    intros h c b y Hd Hy. rewrite (proj2 (c_fill A HA h _ _ _)).
    destruct (N.leb_spec (b_ptr c) y); destruct (N.ltb_spec y (b_ptr c + b_size c)); cbn; auto.
    unfold disj, inb in *. lia.
  Qed.

  Lemma step_drop : forall s i c s' x,
    Inv A base s -> entry (st_hs s) i = Some c ->
    step A debug s (ODrop i) = (s', x) ->
    Inv A base s' /\ drop_post A s i c x s'.
  Proof.
    intros [h tab hs] i c s' x HI Hc.
    pose proof HI as [P [W Hn]]. unfold owned in P.
    destruct (inv_hs_live _ _ _ HI Hc) as [Hlive Hsz].
    unfold step; cbn [st_heap st_tab st_hs] in *. rewrite Hc. unfold cleanup_drop.
    set (h1 := fill A h (b_ptr c) (b_size c) 255).
    destruct (c_fill A HA h (b_ptr c) (b_size c) 255) as [HL1 _]. fold h1 in HL1.
    assert (Hlive1 : In (mkblock (b_ptr c) (b_size c) (b_align c)) (live A h1))
      by (rewrite block_eta, HL1; assumption).
    destruct (c_dealloc A HA _ _ _ _ Hlive1) as [HL HK]. rewrite block_eta, HL1 in HL, HK.
    pose proof (blocks_of_set_none _ _ _ Hc Hsz) as PT.
    pose proof (perm_remove_mid _ _ _ _ _ _ P PT) as PR.
    intros H; inversion H; subst; clear H. split.
    - split; [|split]; cbn [st_heap st_tab st_hs].
      + unfold owned; cbn [st_heap st_tab st_hs]. rewrite HL. exact PR.
      + rewrite HL. apply wf_remove; assumption.
      + intros j d Hd. destruct (Nat.eq_dec j i) as [->|Hj].
        * rewrite entry_set_none_same in Hd; discriminate.
        * rewrite entry_set_none_other in Hd by assumption. eauto.
    - unfold drop_post; cbn [st_heap st_tab st_hs].
      split; [reflexivity|]. split; [assumption|]. split; [assumption|].
      split; [rewrite HL; apply wf_remove_notin; assumption|].
      split; [apply entry_set_none_same|]. split.
      + intros k b Hb. split; [assumption|]. intros y Hy.
        destruct (N.eq_dec (b_size b) 0) as [E|E]; [exfalso; eapply inb_empty; eauto|].
        assert (In b (remove_block c (live A h))).
        { eapply Permutation_in; [symmetry; exact PR|].
          apply in_or_app; left; apply in_or_app; left. eapply blocks_of_entry; eauto. }
        rewrite (HK b y) by assumption.
        eapply fill_outside; [|exact Hy]. eapply wf_remove_disj; eauto.
      + intros j d Hj Hd. rewrite entry_set_none_other; assumption.
  Qed.

  Lemma step_forget : forall s i c s' x,
    Inv A base s -> entry (st_hs s) i = Some c ->
    step A debug s (OForget i) = (s', x) ->
    Inv A base s' /\ forget_post A s i c x s'.
  Proof.
    intros [h tab hs] i c s' x HI Hc.
    pose proof HI as [P [W Hn]]. unfold owned in P.
    destruct (inv_hs_live _ _ _ HI Hc) as [Hlive Hsz].
    unfold step; cbn [st_heap st_tab st_hs] in *. rewrite Hc. unfold cleanup_forget.
    pose proof (blocks_of_set_none _ _ _ Hc Hsz) as PT.
    intros H; inversion H; subst; clear H. split.
    - split; [|split]; cbn [st_heap st_tab st_hs]; auto.
      + unfold owned; cbn [st_heap st_tab st_hs]. rewrite blocks_of_app. cbn [blocks_of].
        pose proof Hsz as Hsz'. apply N.eqb_neq in Hsz'; rewrite Hsz'.
        rewrite P. apply Permutation_app_tail. rewrite PT.
        rewrite <- app_assoc. cbn. reflexivity.
      + intros j d Hd. destruct (Nat.eq_dec j i) as [->|Hj].
        * rewrite entry_set_none_same in Hd; discriminate.
        * rewrite entry_set_none_other in Hd by assumption. eauto.
    - unfold forget_post; cbn [st_heap st_tab st_hs].
      split; [reflexivity|]. split; [reflexivity|]. split; [apply entry_set_none_same|].
      split; [apply entry_app_new|assumption].
  Qed.

  Lemma step_dealloc : forall s pr size align s' x,
    Inv A base s -> dealloc_consistent A s pr size align ->
    step A debug s (ODealloc pr size align) = (s', x) ->
    Inv A base s' /\ dealloc_post A s pr size align x s'.
  Proof.
    intros [h tab hs] pr size align s' x HI HC. unfold dealloc_consistent in HC.
    pose proof HI as [P [W Hn]]. unfold owned in P.
    unfold step; cbn [st_heap st_tab st_hs] in *.
    destruct HC as [[-> HR] | [Hsz [Hp2 [k [ptr [-> He]]]]]].
    - cbn [N.eqb negb]. rewrite andb_false_r.
      destruct (resolve tab pr) as [ptr|] eqn:ER; [clear HR|congruence].
      unfold cabi_dealloc; cbn [N.eqb].
      intros H; inversion H; subst; clear H. split; [assumption|].
      intros ptr0 E. split; [reflexivity|]. split; [reflexivity|congruence].
    - cbn [is_lit andb]. unfold resolve. rewrite He. cbn [option_map b_ptr].
      unfold cabi_dealloc. pose proof Hsz as Hsz'. apply N.eqb_neq in Hsz'; rewrite Hsz'.
      rewrite Hp2; cbn [negb].
      pose proof (inv_tab_live _ _ _ HI He Hsz) as Hlive. cbn [st_heap] in Hlive.
      rewrite (proj2 (mem_block_In _ _) Hlive); cbn [negb].
      destruct (c_dealloc A HA _ _ _ _ Hlive) as [HL HK].
      pose proof (blocks_of_set_none _ _ _ He Hsz) as PT.
      pose proof (perm_remove_left _ _ _ _ _ _ P PT) as PR.
      intros H; inversion H; subst; clear H. cbn [retire]. split.
      + split; [|split]; cbn [st_heap st_tab st_hs]; auto.
        * unfold owned; cbn [st_heap st_tab st_hs]. rewrite HL. exact PR.
        * rewrite HL. apply wf_remove; assumption.
      + intros ptr0 E. cbn in E. rewrite He in E. cbn in E. inversion E; subst; clear E.
        rewrite Hsz'. split; [reflexivity|]. split; [congruence|]. intros _.
        cbn [st_heap]. split; [assumption|]. split; [assumption|].
        rewrite HL. apply wf_remove_notin; assumption.
  Qed.

  Lemma step_write : forall s k off v s' x,
    Inv A base s -> (exists b, entry (st_tab s) k = Some b /\ off < b_size b) ->
    step A debug s (OWrite k off v) = (s', x) ->
    Inv A base s' /\ step_ok A debug s (OWrite k off v) x s'.
  Proof.
    intros [h tab hs] k off v s' x HI [b [Hb Ho]].
    pose proof HI as [P [W Hn]]. unfold owned in P.
    unfold step; cbn [st_heap st_tab st_hs] in *. rewrite Hb.
    apply N.ltb_lt in Ho; rewrite Ho.
    destruct (c_fill A HA h (b_ptr b + off) 1 v) as [HL HR].
    intros H; inversion H; subst; clear H. split.
    - split; [|split]; cbn [st_heap st_tab st_hs]; rewrite ?HL; auto.
    - cbn. exists b. split; [assumption|]. split; [reflexivity|]. split.
      + rewrite HR. rewrite N.leb_refl. cbn.
        destruct (N.ltb_spec (b_ptr b + off) (b_ptr b + off + 1)); [reflexivity|lia].
      + intros y Hy. rewrite HR.
        destruct (N.leb_spec (b_ptr b + off) y); destruct (N.ltb_spec y (b_ptr b + off + 1)); cbn; auto. lia.
  Qed.

  Lemma step_read : forall s k off s' x,
    (exists b, entry (st_tab s) k = Some b /\ off < b_size b) ->
    step A debug s (ORead k off) = (s', x) ->
    s' = s /\ step_ok A debug s (ORead k off) x s'.
  Proof.
    intros [h tab hs] k off s' x [b [Hb Ho]].
    unfold step; cbn [st_heap st_tab st_hs] in *. rewrite Hb.
    apply N.ltb_lt in Ho; rewrite Ho.
    intros H; inversion H; subst; clear H. split; [reflexivity|].
    cbn. exists b. auto.
  Qed.

  (** One consistent step keeps the invariant and meets its post-condition. *)
  Lemma step_sound : forall s o s' x,
    Inv A base s -> op_consistent A s o -> step A debug s o = (s', x) ->
    Inv A base s' /\ step_ok A debug s o x s'.
  Proof.
    intros s o s' x HI HC HS. destruct o; cbn [op_consistent step_ok] in *.
    - destruct HC; eapply step_realloc; eauto.
    - eapply step_write; eauto.
    - destruct (step_read _ _ _ _ _ HC HS) as [-> H]; auto.
    - eapply step_new; eauto.
    - destruct (entry (st_hs s) i) as [c|] eqn:E; [|congruence].
      destruct (step_drop _ _ _ _ _ HI E HS); eauto.
    - destruct (entry (st_hs s) i) as [c|] eqn:E; [|congruence].
      destruct (step_forget _ _ _ _ _ HI E HS); eauto.
    - eapply step_dealloc; eauto.
  Qed.

  Definition ok_entry (e : state A * op * out * state A) : Prop :=
    match e with (s1, o, x, s2) => step_ok A debug s1 o x s2 end.

  Theorem history_sound : forall ops s,
    Inv A base s -> history_consistent A debug s ops ->
    Forall ok_entry (trace A debug s ops) /\ Inv A base (final A debug s ops).
  Proof.
    induction ops as [|o r IH]; intros s HI HC; cbn [trace final].
    - split; [constructor|assumption].
    - unfold history_consistent in HC. cbn [trace] in HC.
      destruct (step A debug s o) as [s' x] eqn:ES.
      inversion HC as [|e l He Hl]; subst.
      destruct (step_sound _ _ _ _ HI He ES) as [HI' HOK].
      destruct (stops x).
      + split; [constructor; [exact HOK|constructor]|assumption].
      + destruct (IH s' HI' Hl) as [HF HI2]. split; [constructor; assumption|assumption].
  Qed.
End Steps.

(** * Soundness of the executable consistency check *)

Section Consistentb.
  Variable A : allocator.
  Variable debug : bool.

  Lemma has_layout_sound : forall e size align, has_layout e size align = true ->
    exists ptr, e = Some (mkblock ptr size align).
  Proof.
    intros [b|] size align H; cbn in H; [|discriminate].
    apply block_eqb_eq in H. exists (b_ptr b). congruence.
  Qed.

  Lemma op_consistentb_sound : forall (s : state A) o, op_consistentb A s o = true -> op_consistent A s o.
  Proof.
    intros s o H. destruct o; cbn [op_consistentb op_consistent] in *.
    - apply andb_true_iff in H; destruct H as [H H3]. apply andb_true_iff in H; destruct H as [H1 H2].
      split.
      + split; [assumption|]. destruct (N.eqb_spec old_len 0) as [->|Ho].
        * left. split; [reflexivity|]. destruct (resolve (st_tab s) p); [discriminate|discriminate].
        * right. split; [assumption|]. destruct p as [k|]; [|discriminate].
          destruct (has_layout_sound _ _ _ H2) as [ptr E]. eauto.
      + intros [Ho Hn]. subst. apply N.eqb_neq in Ho. rewrite Ho in H3. discriminate.
    - destruct (entry (st_tab s) k) as [b|]; [|discriminate]. apply N.ltb_lt in H. eauto.
    - destruct (entry (st_tab s) k) as [b|]; [|discriminate]. apply N.ltb_lt in H. eauto.
    - assumption.
    - destruct (entry (st_hs s) i); [discriminate|discriminate].
    - destruct (entry (st_hs s) i); [discriminate|discriminate].
    - unfold dealloc_consistent. destruct (N.eqb_spec size 0) as [->|Hs].
      + left. split; [reflexivity|]. destruct (resolve (st_tab s) p); [discriminate|discriminate].
      + right. split; [assumption|]. apply andb_true_iff in H; destruct H as [H1 H2].
        split; [assumption|]. destruct p as [k|]; [|discriminate].
        destruct (has_layout_sound _ _ _ H2) as [ptr E]. eauto.
  Qed.

  Lemma history_consistentb_sound : forall ops (s : state A),
    history_consistentb A debug s ops = true -> history_consistent A debug s ops.
  Proof.
    unfold history_consistent. induction ops as [|o r IH]; intros s H; cbn [trace history_consistentb] in *.
    - constructor.
    - apply andb_true_iff in H; destruct H as [H1 H2].
      destruct (step A debug s o) as [s' x]. constructor.
      + apply op_consistentb_sound; assumption.
      + destruct (stops x); [constructor|apply IH; assumption].
  Qed.
End Consistentb.

(** * The theorems behind Props/C24.v *)

Section Histories.
  Variable A : allocator.
  Variable debug : bool.
  Hypothesis HA : contract A.
  Variable h0 : heap A.
  Hypothesis Hwf : wf_blocks (live A h0).

  Lemma inv_init : Inv A (live A h0) (init A h0).
  Proof.
    split; [|split]; cbn; auto.
    intros i c H. unfold entry in H. destruct i; discriminate.
  Qed.

  Lemma history_entry : forall ops, history_consistent A debug (init A h0) ops ->
    forall s o x s', In (s, o, x, s') (trace A debug (init A h0) ops) -> step_ok A debug s o x s'.
  Proof.
    intros ops HC s o x s' HIn.
    destruct (history_sound A debug HA _ ops _ inv_init HC) as [HF _].
    rewrite Forall_forall in HF. exact (HF _ HIn).
  Qed.

  Theorem realloc_honours_requests : forall ops, history_consistent A debug (init A h0) ops ->
    forall s pr old_len align new_len x s',
      In (s, ORealloc pr old_len align new_len, x, s') (trace A debug (init A h0) ops) ->
      realloc_post A debug s pr old_len align new_len x s'.
  Proof. intros ops HC s pr old_len align new_len x s' HIn. exact (history_entry ops HC _ _ _ _ HIn). Qed.

  Theorem scratch_new : forall ops, history_consistent A debug (init A h0) ops ->
    forall s size align x s',
      In (s, ONew size align, x, s') (trace A debug (init A h0) ops) -> new_post A s size align x s'.
  Proof. intros ops HC s size align x s' HIn. exact (history_entry ops HC _ _ _ _ HIn). Qed.

  Theorem scratch_drop : forall ops, history_consistent A debug (init A h0) ops ->
    forall s i x s',
      In (s, ODrop i, x, s') (trace A debug (init A h0) ops) ->
      exists c, entry (st_hs s) i = Some c /\ drop_post A s i c x s'.
  Proof. intros ops HC s i x s' HIn. exact (history_entry ops HC _ _ _ _ HIn). Qed.

  Theorem scratch_forget : forall ops, history_consistent A debug (init A h0) ops ->
    forall s i x s',
      In (s, OForget i, x, s') (trace A debug (init A h0) ops) ->
      exists c, entry (st_hs s) i = Some c /\ forget_post A s i c x s'.
  Proof. intros ops HC s i x s' HIn. exact (history_entry ops HC _ _ _ _ HIn). Qed.

  Theorem dealloc_frees_iff_nonzero : forall ops, history_consistent A debug (init A h0) ops ->
    forall s pr size align x s',
      In (s, ODealloc pr size align, x, s') (trace A debug (init A h0) ops) ->
      dealloc_post A s pr size align x s'.
  Proof. intros ops HC s pr size align x s' HIn. exact (history_entry ops HC _ _ _ _ HIn). Qed.

  (** No leak and no double free, as one equation: at the end of any consistent history the allocator
      has live exactly the blocks still owned by the table and by existing Cleanups, plus what was live
      before -- every other block ever obtained has been given back, and (being pairwise disjoint) none
      of them twice. *)
  Theorem allocation_accounting : forall ops, history_consistent A debug (init A h0) ops ->
    let s := final A debug (init A h0) ops in
    Permutation (live A (st_heap s)) (owned A s ++ live A h0) /\ wf_blocks (live A (st_heap s)).
  Proof.
    intros ops HC s.
    destruct (history_sound A debug HA _ ops _ inv_init HC) as [_ [P [W _]]]. split; assumption.
  Qed.
End Histories.
