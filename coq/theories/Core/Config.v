(** Model of crates/test/src/config.rs : [parse_test_config] (up to the call of the TOML parser)
    and [StringList] -> [Vec<String>].

    A Rust [str] is modelled as the list of its [char]s (Unicode scalar values as [N]).  All the
    [str] operations used by the code ([lines], [starts_with(&str)], the byte slice
    [&l[comment.len()..]] taken right after a successful [starts_with], [join], [split_whitespace])
    have the same meaning on the char sequence as on the UTF-8 bytes, so nothing is lost.

    Definitions only (no proofs) so that extraction keeps working if a proof breaks. *)
From Coq Require Import List NArith Bool.
Import ListNotations.
Local Open Scope N_scope.

Definition char := N.
Definition str := list char.

Definition LF : char := 10.
Definition CR : char := 13.

Fixpoint str_eqb (a b : str) : bool :=
  match a, b with
  | [], [] => true
  | x :: a', y :: b' => (x =? y) && str_eqb a' b'
  | _, _ => false
  end.

(** [str::starts_with(&str)] *)
Fixpoint starts_with (p s : str) : bool :=
  match p with
  | [] => true
  | x :: p' => match s with
               | [] => false
               | y :: s' => (x =? y) && starts_with p' s'
               end
  end.

(** [str::strip_suffix(char)] *)
Fixpoint strip_suffix_char (c : char) (s : str) : option str :=
  match s with
  | [] => None
  | [x] => if x =? c then Some [] else None
  | x :: r => match strip_suffix_char c r with
              | Some r' => Some (x :: r')
              | None => None
              end
  end.

(** [str::split_inclusive('\n')]: pieces end with the LF that terminates them; no trailing empty
    piece; the empty string has no piece. *)
Fixpoint split_inclusive_lf (s : str) : list str :=
  match s with
  | [] => []
  | c :: r => if c =? LF then [c] :: split_inclusive_lf r
              else match split_inclusive_lf r with
                   | [] => [[c]]
                   | p :: ps => (c :: p) :: ps
                   end
  end.

(** The closure of [str::lines] (core::str::LinesMap): strip one trailing "\n", and only then one
    trailing "\r".  A final line without "\n" keeps a trailing "\r". *)
Definition line_of_piece (piece : str) : str :=
  match strip_suffix_char LF piece with
  | None => piece
  | Some l => match strip_suffix_char CR l with
              | None => l
              | Some l' => l'
              end
  end.

(** [str::lines] *)
Definition lines (s : str) : list str := map line_of_piece (split_inclusive_lf s).

(** [Iterator::take_while] *)
Fixpoint take_while {A} (p : A -> bool) (l : list A) : list A :=
  match l with
  | [] => []
  | x :: r => if p x then x :: take_while p r else []
  end.

(** [[&str]::join(sep)] *)
Fixpoint join (sep : str) (l : list str) : str :=
  match l with
  | [] => []
  | [x] => x
  | x :: r => x ++ sep ++ join sep r
  end.

(** [parse_test_config], up to (excluding) [toml::from_str]: the text handed to the TOML parser. *)
Definition config_text (comment contents : str) : str :=
  join [LF]
       (map (fun l => skipn (List.length comment) l)
            (take_while (starts_with comment) (lines contents))).

(** [char::is_whitespace] = Unicode White_Space. *)
Definition is_whitespace (c : char) : bool :=
  ((9 <=? c) && (c <=? 13)) || (c =? 32) || (c =? 133) || (c =? 160) || (c =? 5760)
  || ((8192 <=? c) && (c <=? 8202)) || (c =? 8232) || (c =? 8233) || (c =? 8239)
  || (c =? 8287) || (c =? 12288).

(** [str::split(pred)]: always at least one piece. *)
Fixpoint split_on (p : char -> bool) (s : str) : list str :=
  match s with
  | [] => [[]]
  | c :: r => if p c then [] :: split_on p r
              else match split_on p r with
                   | [] => [[c]]
                   | x :: xs => (c :: x) :: xs
                   end
  end.

Definition is_empty (s : str) : bool := match s with [] => true | _ => false end.

(** [str::split_whitespace] = [split(char::is_whitespace).filter(|s| !s.is_empty())] *)
Definition split_whitespace (s : str) : list str :=
  filter (fun w => negb (is_empty w)) (split_on is_whitespace s).

(** [enum StringList] and [impl From<StringList> for Vec<String>] *)
Inductive string_list := SLString (s : str) | SLList (l : list str).

Definition to_vec (sl : string_list) : list str :=
  match sl with
  | SLString s => split_whitespace s
  | SLList l => l
  end.

(** [WitConfig::dependency_worlds]: "test" when absent. *)
Definition str_test : str := [116; 101; 115; 116].
Definition dependency_worlds (d : option string_list) : list str :=
  match d with
  | Some l => to_vec l
  | None => [str_test]
  end.

(** All scalar values c (as a list) for which "a{c}b" is split in two: the whitespace set as the
    code observes it; compared exhaustively with the real [StringList] in the tie. *)
Definition splits_in_two (c : char) : bool :=
  negb (Nat.eqb (List.length (to_vec (SLString [97; c; 98]))) 1).
