(** Specification vocabulary for C34 (definitions only): files as explicit lists of lines with
    their terminators, and "the words of a whitespace-separated string" as a relation that does not
    mention the splitting algorithm. *)
From Coq Require Import List NArith Bool.
From WB Require Import Core.Config.
Import ListNotations.
Local Open Scope N_scope.

(** * Files as lines *)
Inductive eol := Lf | CrLf.
Definition eol_str (e : eol) : str := match e with Lf => [LF] | CrLf => [CR; LF] end.

Definition ends_with_cr (l : str) : Prop := exists l', l = l' ++ [CR].

(** A terminated line: its text has no LF; written with a bare LF it must not end in CR (it would
    read as a CRLF-terminated shorter line).  This makes the reading of a file unique. *)
Definition ok_line (le : str * eol) : Prop :=
  ~ In LF (fst le) /\ (snd le = Lf -> ~ ends_with_cr (fst le)).

Definition render_line (le : str * eol) : str := fst le ++ eol_str (snd le).
Definition render (ls : list (str * eol)) : str := concat (map render_line ls).

(** The configuration lines [cfg] as they appear in the file: prefixed by the marker. *)
Definition with_marker (m : str) (cfg : list (str * eol)) : list (str * eol) :=
  map (fun le => (m ++ fst le, snd le)) cfg.

(** What an unterminated last line contributes: nothing if absent, its text after the marker if it
    starts with the marker, nothing otherwise. *)
Inductive tail_shape (m : str) : str -> list str -> Prop :=
| ts_none : tail_shape m [] []
| ts_cfg : forall t, m ++ t <> [] -> tail_shape m (m ++ t) [t]
| ts_other : forall o, o <> [] -> starts_with m o = false -> tail_shape m o [].

(** * Words *)
Definition all_ws (s : str) : Prop := forallb is_whitespace s = true.
Definition no_ws (s : str) : Prop := forallb (fun c => negb (is_whitespace c)) s = true.
Definition word (w : str) : Prop := w <> [] /\ no_ws w.
(** [s] is empty or begins with whitespace (so that the word before it is maximal). *)
Definition boundary (s : str) : Prop :=
  match s with [] => True | c :: _ => is_whitespace c = true end.

(** [Words s ws]: [s] reads as whitespace, word, whitespace, word, ... with exactly the words [ws]. *)
Inductive Words : str -> list str -> Prop :=
| W_nil : forall sp, all_ws sp -> Words sp []
| W_cons : forall sp w s ws, all_ws sp -> word w -> boundary s -> Words s ws ->
                             Words (sp ++ w ++ s) (w :: ws).

Definition SPACE : char := 32.
