(** Top-level statements about the model of types.rs: the merge at the end of
    collect_equal_types, the relation between the error flag and its specification (partial +
    refutation witness), totality of the whole pipeline, and non-vacuity examples. *)
From Coq Require Import List String Bool Arith NArith Lia.
From WB Require Import Core.TypesEq Core.TypesEqSpec Core.TypesEqUF Core.TypesEqWf Core.TypesEqEq
     Core.TypesEqCollect Core.TypesEqSpecProofs Core.TypesEqLive Core.TypesEqMerge Core.TypesEqContent
     Core.TypesEqUsage.
Import ListNotations.

Lemma im_get_in m i v : NoDup (keys m) -> (im_get m i = Some v <-> In (i, v) m).
Proof.
  induction m as [|[k w] m IH]; cbn [keys map fst im_get In]; intros ND.
  - split; [discriminate | tauto].
  - inversion ND as [|? ? Hn ND']; subst. destruct (k =? i) eqn:E.
    + apply Nat.eqb_eq in E. subst k. split.
      * intros [= <-]. auto.
      * intros [[= <-]|H]; auto. exfalso. apply Hn. change (In i (map fst m)). apply in_map_iff. exists (i, v). auto.
    + apply Nat.eqb_neq in E. unfold keys in IH. rewrite (IH ND'). split; auto.
      intros [[= -> _]|H]; [congruence | auto].
Qed.

(** [class_or]: a flag is set iff some member of the class has it *)
Lemma class_or_spec (fld : info -> bool) :
  (forall a b, fld (info_or a b) = fld a || fld b) -> fld info0 = false ->
  forall u m i, NoDup (keys m) ->
    (fld (class_or u m i) = true <-> exists j w, im_get m j = Some w /\ rep u j = rep u i /\ fld w = true).
Proof.
  intros H0 H1 u m i ND. rewrite (class_or_field fld H0 H1), existsb_exists. split.
  - intros ([j w] & Hin & Hb). cbn [fst snd] in Hb. apply andb_true_iff in Hb. destruct Hb as [A B].
    apply Nat.eqb_eq in A. exists j, w. split; auto. apply im_get_in; auto.
  - intros (j & w & G & R & F). exists (j, w). split; [apply im_get_in; auto|]. cbn [fst snd].
    rewrite R, Nat.eqb_refl, F. auto.
Qed.

(** collect_equal_types as a whole *)
Theorem collect_equal_types_ok T w may m : wf_table T -> world_ok T w ->
  exists live u1 m' u',
    live_world T w = ROk live /\ (forall x, In x live -> has T x) /\
    collect_unions T may uf_empty live = ROk u1 /\ uf_ok T u1 /\
    collect_equal_types T w may m uf_empty = ROk (m', u') /\ uf_wf u' /\ (forall y, rep u' y = rep u1 y) /\
    keys m' = keys m /\
    forall i, im_get m' i = match im_get m i with Some _ => Some (class_or u1 m i) | None => None end.
Proof.
  intros W Hw. destruct (live_world_ok T w W Hw) as (live & El & _ & Hl).
  destruct (collect_sound T W live Hl may) as (u1 & Eu & OK & _).
  destruct (merge_infos_ok u1 m (proj1 OK)) as (u' & Em & G).
  exists live, u1, (map (fun p => (fst p, class_or u1 m (fst p))) m), u'.
  split; auto. split; auto. split; auto. split; auto. split.
  { unfold collect_equal_types. rewrite El. cbn [bind]. rewrite Eu. cbn [bind]. exact Em. }
  split; [apply G|]. split; [apply G|]. split.
  { unfold keys. rewrite map_map. cbn [fst]. reflexivity. }
  intros i. apply im_get_map_snd.
Qed.

(* ------------------------------------------------------------------------------------------ *)
(** * The error flag *)

Lemma error_direct_spec T ws i : spec_error_direct T ws i -> spec_error T ws i.
Proof.
  intros (imp & f & rid & d & ok & e0 & A & B & C & D & E).
  exists imp, f, rid, rid, d, ok, e0. split; auto. split; auto. split; auto.
  eapply chase_stop; eauto. intros j K. rewrite D in K. discriminate.
Qed.

Lemma error_spec_direct T ws i : ~ aliased_error_result T ws -> spec_error T ws i -> spec_error_direct T ws i.
Proof.
  intros NA (imp & f & r0 & rid & d & ok & e0 & A & B & C & D & E & F).
  inversion C as [i0 d0 L N|i0 d0 j k L K Ch]; subst.
  - exists imp, f, rid, d, ok, e0. auto.
  - exfalso. apply NA. exists imp, f, r0, d0, j, rid, d, ok, e0. auto 10.
Qed.

(** the witness: `record e {c: u32}  type r = result<u32, e>  type r2 = r  import f: func() -> r2` *)
Definition wit_T : table :=
  [ {| tnamed := true; tkind := KRecord [("c"%string, TPrim PU32)] |};
    {| tnamed := true; tkind := KResult (Some (TPrim PU32)) (Some (TId 0)) |};
    {| tnamed := true; tkind := KType (TId 1) |} ].
Definition wit_f : func := {| fstatic := None; fparams := []; fresult := Some (TId 2) |}.
Definition wit_ws : list world := [ {| wimports := [IFunc wit_f]; wexports := [] |} ].

Lemma wit_wf : wf_table wit_T.
Proof. apply wf_tableb_ok. vm_compute. reflexivity. Qed.

Lemma has_nth T i d : nth_error T i = Some d -> has T i.
Proof. intros H. exists d. exact H. Qed.

Lemma wit_worlds_ok : worlds_ok wit_T wit_ws.
Proof.
  intros w [<-|[]] it Hit. cbn in Hit. destruct Hit as [<-|[]]. cbn. split; [|split].
  - intros r [=].
  - intros p [].
  - intros t [= <-]. cbn. eapply has_nth. reflexivity.
Qed.

Lemma wit_spec_error : spec_error wit_T wit_ws 0.
Proof.
  exists true, wit_f, 2, 1, {| tnamed := true; tkind := KResult (Some (TPrim PU32)) (Some (TId 0)) |},
         (Some (TPrim PU32)), 0.
  split; [cbn; auto|]. split; [reflexivity|]. split.
  - eapply chase_step; [reflexivity | reflexivity |]. eapply chase_stop; [reflexivity|]. intros j. discriminate.
  - split; [reflexivity|]. split; [reflexivity|]. eapply chase_stop; [reflexivity|]. intros j. discriminate.
Qed.

Lemma wit_model_error :
  exists m v, analyze wit_T wit_ws = ROk m /\ im_get m 0 = Some v /\ error v = false.
Proof. vm_compute. eexists. eexists. split; [reflexivity|]. split; reflexivity. Qed.

(* ------------------------------------------------------------------------------------------ *)
(** * No panic site is reachable *)

Lemma infos_of_ok m ids : (forall i, In i ids -> im_get m i <> None) -> exists l, infos_of m ids = ROk l.
Proof.
  induction ids as [|i ids IH]; intros H; cbn [infos_of]; eauto.
  unfold get_info. destruct (im_get m i) eqn:G; [|exfalso; apply (H i); [left; auto | exact G]].
  cbn [bind]. destruct IH as (l & E); [intros; apply H; right; auto|]. rewrite E. cbn [bind]. eauto.
Qed.

Lemma reps_of_ok ids : forall u, uf_wf u -> exists l u', reps_of u ids = ROk (l, u').
Proof.
  induction ids as [|i ids IH]; intros u Wu; cbn [reps_of]; eauto.
  destruct (find_spec u i Wu) as (u1 & E1 & W1 & _). rewrite E1. cbn [bind].
  destruct (IH u1 W1) as (l & u2 & E2). rewrite E2. cbn [bind]. eauto.
Qed.

Theorem run_types_ok T ws sel may : wf_table T -> worlds_ok T ws -> sel < List.length ws ->
  exists a, run_types T ws sel may = ROk a.
Proof.
  intros W Hw Hs. unfold run_types. destruct (nth_error ws sel) as [w|] eqn:En.
  2:{ apply nth_error_None in En. lia. }
  assert (Ww : world_ok T w) by (apply Hw; eapply nth_error_In; eauto).
  destruct (analyze_ok T ws W Hw) as (m0 & Ea & U & ND).
  destruct (collect_equal_types_ok T w may m0 W Ww) as (live & u1 & m1 & u' & El & _ & _ & _ & Ec & Wu & _ & _ & Gm).
  rewrite El. cbn [bind]. rewrite Ea. cbn [bind].
  assert (P0 : forall i, In i (seq 0 (List.length T)) -> im_get m0 i <> None).
  { intros i Hi. apply in_seq in Hi. destruct (U i) as (v & G & _); [apply has_lt; lia | congruence]. }
  destruct (infos_of_ok m0 _ P0) as (i0 & E0). rewrite E0. cbn [bind]. rewrite Ec. cbn [bind].
  destruct (reps_of_ok (seq 0 (List.length T)) u' Wu) as (l & u2 & Er). rewrite Er. cbn [bind].
  destruct (infos_of_ok m1 (seq 0 (List.length T))) as (i1 & E1).
  { intros i Hi. rewrite Gm. specialize (P0 i Hi). destruct (im_get m0 i); [discriminate | congruence]. }
  rewrite E1. cbn [bind]. eauto.
Qed.

(* ------------------------------------------------------------------------------------------ *)
(** * Non-vacuity: a table with equal, near-equal and aliased types, resources, a handle

    0: record a {x: u32, y: string}      (named)      4: resource r1 (named)     8: list<#0>
    1: record b {x: u32, y: string}      (named)      5: resource r2 (named)     9: list<#1>
    2: record c {y: string, x: u32}      (named)      6: own<#4>                10: type t = #1  (named)
    3: record d {x: u32, z: string}      (named)      7: own<#5>                11: tuple<#6, u8>
   world: import f(#8, #11) -> #10 ; export g(#9) -> #2 *)
Definition ex_T : table :=
  let r x y := KRecord [(x, TPrim PU32); (y, TPrim PString)] in
  [ {| tnamed := true; tkind := r "x"%string "y"%string |};
    {| tnamed := true; tkind := r "x"%string "y"%string |};
    {| tnamed := true; tkind := KRecord [("y"%string, TPrim PString); ("x"%string, TPrim PU32)] |};
    {| tnamed := true; tkind := r "x"%string "z"%string |};
    {| tnamed := true; tkind := KResource |};
    {| tnamed := true; tkind := KResource |};
    {| tnamed := false; tkind := KOwn 4 |};
    {| tnamed := false; tkind := KOwn 5 |};
    {| tnamed := false; tkind := KList (TId 0) |};
    {| tnamed := false; tkind := KList (TId 1) |};
    {| tnamed := true; tkind := KType (TId 1) |};
    {| tnamed := false; tkind := KTuple [TId 6; TPrim PU8] |} ].
Definition ex_w : world :=
  {| wimports := [IFunc {| fstatic := None; fparams := [TId 8; TId 11]; fresult := Some (TId 10) |}];
     wexports := [IFunc {| fstatic := None; fparams := [TId 9]; fresult := Some (TId 2) |}] |}.

Example ex_wf : wf_table ex_T.
Proof. apply wf_tableb_ok. vm_compute. reflexivity. Qed.

Example ex_worlds_ok : worlds_ok ex_T [ex_w].
Proof.
  intros w [<-|[]] it Hit. cbn in Hit.
  destruct Hit as [<-|[<-|[]]]; cbn; (split; [intros r [=]|]); split.
  - intros p [<-|[<-|[]]]; cbn; eapply has_nth; reflexivity.
  - intros t [= <-]. cbn. eapply has_nth. reflexivity.
  - intros p [<-|[]]; cbn; eapply has_nth; reflexivity.
  - intros t [= <-]. cbn. eapply has_nth. reflexivity.
Qed.

(** the model's answers on it: live list (post-order), representatives (0~1~10, 8~9; c, d, the
    two resources and their handles stay apart), and the flags before / after the merge *)
Example ex_run :
  exists a, run_types ex_T [ex_w] 0 (fun _ => true) = ROk a /\
            a_live a = [0; 8; 4; 6; 11; 1; 10; 9; 2] /\
            a_rep a = [0; 0; 2; 3; 4; 5; 6; 7; 8; 8; 0; 11] /\
            borrowed (nth 0 (a_i0 a) info0) = true /\ owned (nth 0 (a_i0 a) info0) = false /\
            borrowed (nth 1 (a_i0 a) info0) = false /\ owned (nth 1 (a_i0 a) info0) = true /\
            borrowed (nth 1 (a_i1 a) info0) = true /\ owned (nth 0 (a_i1 a) info0) = true /\
            has_own_handle (nth 11 (a_i0 a) info0) = true /\ has_tuple (nth 11 (a_i0 a) info0) = true.
Proof. vm_compute. eexists. repeat split. Qed.

Example ex_struct_eq : struct_eq ex_T 0 1 /\ struct_eq ex_T 10 0 /\ ~ struct_eq ex_T 0 2 /\ ~ struct_eq ex_T 0 3
                       /\ ~ struct_eq ex_T 4 5 /\ ~ struct_eq ex_T 6 7 /\ struct_eq ex_T 8 9.
Proof. unfold struct_eq. vm_compute. repeat split; try reflexivity; intros H; discriminate. Qed.

(* ------------------------------------------------------------------------------------------ *)
(** * The statements Props/C28.v exports *)

Lemma content_facts T ws : wf_table T -> worlds_ok T ws ->
  exists m, analyze T ws = ROk m /\
    forall i, has T i -> exists v, im_get m i = Some v /\
      has_list v = spec_has_list T i /\ has_tuple v = spec_has_tuple T i /\
      has_resource v = spec_has_resource T i /\ has_borrow_handle v = spec_has_borrow T i /\
      has_own_handle v = spec_has_own T i.
Proof.
  intros W Hw. destruct (analyze_ok T ws W Hw) as (m & E & U & _). exists m. split; auto.
  intros i Hi. destruct (U i Hi) as (v & G & (C1 & C2 & C3 & C4 & C5) & _). exists v. split; auto.
Qed.

Lemma usage_facts T ws : wf_table T -> worlds_ok T ws ->
  exists m, analyze T ws = ROk m /\
    forall i, has T i -> exists v, im_get m i = Some v /\
      (borrowed v = true <-> spec_borrowed T ws i) /\
      (owned v = true <-> spec_owned T ws i) /\
      (error v = true <-> spec_error_direct T ws i).
Proof.
  intros W Hw. destruct (analyze_ok T ws W Hw) as (m & E & U & _). exists m. split; auto.
  intros i Hi. destruct (U i Hi) as (v & G & _ & B & O & Er). exists v. split; auto.
Qed.

Lemma error_fact_partial T ws : wf_table T -> worlds_ok T ws -> ~ aliased_error_result T ws ->
  exists m, analyze T ws = ROk m /\
    forall i, has T i -> exists v, im_get m i = Some v /\ (error v = true <-> spec_error T ws i).
Proof.
  intros W Hw NA. destruct (usage_facts T ws W Hw) as (m & E & U). exists m. split; auto.
  intros i Hi. destruct (U i Hi) as (v & G & _ & _ & Er). exists v. split; auto. rewrite Er.
  split; [apply error_direct_spec | apply error_spec_direct; auto].
Qed.

Lemma wit_aliased : aliased_error_result wit_T wit_ws.
Proof.
  exists true, wit_f, 2, {| tnamed := true; tkind := KType (TId 1) |}, 1, 1,
         {| tnamed := true; tkind := KResult (Some (TPrim PU32)) (Some (TId 0)) |}, (Some (TPrim PU32)), 0.
  split; [cbn; auto|]. split; [reflexivity|]. split; [reflexivity|]. split; [reflexivity|]. split.
  - eapply chase_stop; [reflexivity|]. intros j. discriminate.
  - split; reflexivity.
Qed.

Lemma error_fact_refuted :
  exists T ws i, wf_table T /\ worlds_ok T ws /\ aliased_error_result T ws /\ spec_error T ws i /\
                 exists m v, analyze T ws = ROk m /\ im_get m i = Some v /\ error v = false.
Proof.
  exists wit_T, wit_ws, 0. split; [exact wit_wf|]. split; [exact wit_worlds_ok|]. split; [exact wit_aliased|].
  split; [exact wit_spec_error | exact wit_model_error].
Qed.

Lemma share_union T w may m : wf_table T -> world_ok T w -> NoDup (keys m) ->
  exists live u1 m' u',
    live_world T w = ROk live /\ collect_unions T may uf_empty live = ROk u1 /\
    collect_equal_types T w may m uf_empty = ROk (m', u') /\ (forall y, rep u' y = rep u1 y) /\
    forall i v, im_get m i = Some v ->
      exists v', im_get m' i = Some v' /\
        forall fld : info -> bool, (forall a b, fld (info_or a b) = fld a || fld b) -> fld info0 = false ->
          (fld v' = true <-> exists j x, im_get m j = Some x /\ rep u1 j = rep u1 i /\ fld x = true).
Proof.
  intros W Hw ND.
  destruct (collect_equal_types_ok T w may m W Hw) as (live & u1 & m' & u' & El & _ & Eu & _ & Ec & _ & R & _ & Gm).
  exists live, u1, m', u'. split; auto. split; auto. split; auto. split; auto.
  intros i v G. exists (class_or u1 m i). split; [rewrite Gm, G; reflexivity|].
  intros fld H0 H1. apply class_or_spec; auto.
Qed.
