(** An executable instance of the abstract allocator of Realloc.v: a bump allocator over a
    functional byte memory.  It is used (a) to show that the GlobalAlloc contract assumed by the
    C24 theorems is satisfiable (ReallocBumpProofs.v), (b) extracted, as the allocator under the
    model in the correspondence run.  A new block is always placed above every live block
    (so a realloc always moves), freed space below the top is reused once the top block is freed,
    and the [n]-th allocation request can be made to fail ([bh_fail = Some n]).
    Definitions only. *)
From Coq Require Import List NArith Bool.
From WB Require Import Core.Realloc.
Import ListNotations.
Local Open Scope N_scope.

Record bheap := mkbheap { bh_mem : N -> N; bh_live : list block; bh_fail : option N }.

Fixpoint top (l : list block) : N :=
  match l with
  | [] => 1
  | b :: r => N.max (b_ptr b + b_size b) (top r)
  end.

Definition round_up (x a : N) : N := ((x + a - 1) / a) * a.

(** Countdown to the injected allocation failure. *)
Definition tick (f : option N) : bool * option N :=
  match f with
  | Some N0 => (true, None)
  | Some n => (false, Some (N.pred n))
  | None => (false, None)
  end.

Definition bump_alloc (h : bheap) (size align : N) : bheap * N :=
  let '(fl, f') := tick (bh_fail h) in
  if fl then (mkbheap (bh_mem h) (bh_live h) f', 0)
  else
    let p := round_up (top (bh_live h)) align in
    (mkbheap (bh_mem h) (mkblock p size align :: bh_live h) f', p).

Definition bump_realloc (h : bheap) (ptr old align new : N) : bheap * N :=
  let '(fl, f') := tick (bh_fail h) in
  if fl then (mkbheap (bh_mem h) (bh_live h) f', 0)
  else
    let rest := remove_block (mkblock ptr old align) (bh_live h) in
    let q := round_up (top (bh_live h)) align in
    let n := N.min old new in
    let m := bh_mem h in
    (mkbheap (fun x => if (q <=? x) && (x <? q + n) then m (ptr + (x - q)) else m x)
             (mkblock q new align :: rest) f', q).

Definition bump_dealloc (h : bheap) (ptr size align : N) : bheap :=
  mkbheap (bh_mem h) (remove_block (mkblock ptr size align) (bh_live h)) (bh_fail h).

Definition bump_fill (h : bheap) (p n v : N) : bheap :=
  let m := bh_mem h in
  mkbheap (fun x => if (p <=? x) && (x <? p + n) then v else m x) (bh_live h) (bh_fail h).

Definition bump : allocator :=
  {| heap := bheap; live := bh_live; rd := bh_mem; fill := bump_fill;
     h_alloc := bump_alloc; h_realloc := bump_realloc; h_dealloc := bump_dealloc |}.

(** Fresh memory reads as the poison byte 0xA5 (the harness's checking allocator fills fresh blocks
    with the same value, though the correspondence run never relies on bytes nobody wrote). *)
Definition bump_init (fail : option N) : bheap := mkbheap (fun _ => 165) [] fail.

(** Entry points for the extracted driver. *)
Definition bump_run (debug : bool) (fail : option N) (ops : list op)
  : list (state bump * op * out * state bump) :=
  trace bump debug (init bump (bump_init fail)) ops.

(** Monomorphic accessors for the extracted driver (so that it never has to look inside [heap bump]). *)
Definition bump_tab (s : state bump) : list (option block) := st_tab s.
Definition bump_hs (s : state bump) : list (option block) := st_hs s.
Definition bump_live (s : state bump) : list block := bh_live (st_heap s).
Definition bump_rd (s : state bump) (a : N) : N := bh_mem (st_heap s) a.
