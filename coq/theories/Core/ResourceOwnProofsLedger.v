(** * Core/ResourceOwnProofsLedger.v — the exactly-once ledger [Ledger] of Core/ResourceOwnSpec.v over the state
    components, and its preservation by every elementary change of (log, table, boxes). *)
From Coq Require Import List NArith Bool Permutation Lia.
From WB Require Import Core.ResourceOwn Core.ResourceOwnSpec Core.ResourceOwnProofsList Core.ResourceOwnProofsInv.
Import ListNotations.
Local Open Scope N_scope.

(** ** the ledger over components *)
Definition cntl (p : event -> bool) (lg : list event) : nat := length (filter p lg).
Definition dtl (lg : list event) : list N := flat_map (fun e => match e with EvDtor r => [r] | _ => [] end) lg.

Record Led (lg : list event) (t : tblT) (r : repsT) (nr : N) : Prop := {
  l_own : cntl (is_new true) lg = (cntl (is_drop true) lg + cntl is_took lg + length (filter is_own t))%nat;
  l_borrow : cntl (is_new false) lg = (cntl (is_drop false) lg + length (filter is_borrow t))%nat;
  l_box : cntl is_newbox lg = (cntl is_dtor lg + length r)%nat;
  l_once : NoDup (dtl lg);
  l_dead : forall a, In a (dtl lg) -> ~ In a (keys r);
  l_range : forall a, In a (dtl lg) -> a < nr;
  l_val : cntl is_newbox lg = (cntl is_destroyed lg + cntl is_touser lg + length (filter is_some r))%nat }.

Lemma Ledger_iff s : Ledger s <-> Led (log s) (tbl s) (reps s) (nextrep s).
Proof. split; intros []; constructor; assumption. Qed.

Lemma filter_own_cons h e t : filter is_own ((h, e) :: t) = if e_own e then (h, e) :: filter is_own t else filter is_own t.
Proof. reflexivity. Qed.
Lemma filter_borrow_cons h e t :
  filter is_borrow ((h, e) :: t) = if e_own e then filter is_borrow t else (h, e) :: filter is_borrow t.
Proof. cbn. unfold is_borrow at 1. cbn. destruct (e_own e); reflexivity. Qed.

Lemma led_alloc lg t r nr h e : Led lg t r nr -> Led (EvNewHandle h (e_own e) :: lg) ((h, e) :: t) r nr.
Proof.
  intros []. constructor; auto; unfold cntl in *; rewrite ?filter_own_cons, ?filter_borrow_cons; cbn;
    destruct (e_own e); cbn; lia.
Qed.

Lemma led_drop lg t r nr h e : lookup h t = Some e -> Led lg t r nr -> Led (EvDropCall h (e_own e) :: lg) (remove h t) r nr.
Proof.
  intros Hl [].
  pose proof (length_filter_remove is_own _ _ _ Hl) as Ho.
  pose proof (length_filter_remove is_borrow _ _ _ Hl) as Hb.
  unfold is_own at 2 in Ho. unfold is_borrow at 2 in Hb. cbn in Ho, Hb.
  constructor; auto; unfold cntl in *; cbn; destruct (e_own e); cbn in *; lia.
Qed.

Lemma led_took lg t r nr h e rep :
  lookup h t = Some e -> e_own e = true -> Led lg t r nr -> Led (EvHostTook h rep :: lg) (remove h t) r nr.
Proof.
  intros Hl Eo [].
  pose proof (length_filter_remove is_own _ _ _ Hl) as Ho.
  pose proof (length_filter_remove is_borrow _ _ _ Hl) as Hb.
  unfold is_own at 2 in Ho. unfold is_borrow at 2 in Hb. cbn in Ho, Hb. rewrite Eo in Ho, Hb. cbn in Ho, Hb.
  constructor; auto; unfold cntl in *; cbn; lia.
Qed.

Lemma led_dtor lg t r nr rep c :
  NoDup (keys r) -> (forall a, In a (keys r) -> a < nr) -> lookup rep r = Some c -> Led lg t r nr ->
  Led ((match c with RSome v => [EvValDestroyed v] | RNone => [] end) ++ EvDtor rep :: lg) t (remove rep r) nr.
Proof.
  intros Hnd Hrg Hl [].
  pose proof (length_remove _ _ _ Hl) as Hlen.
  pose proof (length_filter_remove is_some _ _ _ Hl) as Hs. unfold is_some at 2 in Hs. cbn in Hs.
  assert (Hni : ~ In rep (dtl lg)) by (intros H; exact (l_dead0 _ H (lookup_In_keys _ _ _ Hl))).
  assert (Hd : dtl ((match c with RSome v => [EvValDestroyed v] | RNone => [] end) ++ EvDtor rep :: lg) = rep :: dtl lg)
    by (destruct c; reflexivity).
  constructor; rewrite ?Hd.
  - destruct c; unfold cntl in *; cbn; lia.
  - destruct c; unfold cntl in *; cbn; lia.
  - destruct c; unfold cntl in *; cbn; lia.
  - constructor; auto.
  - intros a [E|H].
    + subst. now apply notin_keys_remove.
    + intros Hin. apply (l_dead0 a H). eapply In_keys_remove, Hin.
  - intros a [E|H]; [|auto]. subst. eapply Hrg, lookup_In_keys, Hl.
  - destruct c; unfold cntl in *; cbn in *; lia.
Qed.

Lemma led_newbox lg t r nr v :
  (forall a, In a (keys r) -> a < nr) -> Led lg t r nr -> Led (EvNewBox nr v :: lg) t ((nr, RSome v) :: r) (nr + 8).
Proof.
  intros Hrg []. constructor; auto; unfold cntl in *; cbn; try lia.
  - intros a Ha [E|Hin]; [|exact (l_dead0 a Ha Hin)]. subst. specialize (l_range0 _ Ha). lia.
  - intros a Ha. specialize (l_range0 _ Ha). lia.
Qed.

(** [into_inner] moves the value out: the box stays, emptied *)
Lemma led_touser lg t r nr rep v :
  lookup rep r = Some (RSome v) -> Led lg t r nr -> Led (EvValToUser v :: lg) t ((rep, RNone) :: remove rep r) nr.
Proof.
  intros Hl [].
  pose proof (length_remove _ _ _ Hl) as Hlen.
  pose proof (length_filter_remove is_some _ _ _ Hl) as Hs. unfold is_some at 2 in Hs. cbn in Hs.
  constructor; auto; unfold cntl in *; cbn; try lia.
  intros a Ha [E|Hin].
  - subst. exact (l_dead0 _ Ha (lookup_In_keys _ _ _ Hl)).
  - apply (l_dead0 a Ha). eapply In_keys_remove, Hin.
Qed.

Lemma led_lend lg t r nr h : Led lg t r nr -> Led (EvLend h :: lg) t r nr.
Proof. intros []. constructor; auto. Qed.
