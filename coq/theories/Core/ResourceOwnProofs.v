(** * Core/ResourceOwnProofs.v — C07: every step of the ownership machine [Core/ResourceOwn.v] preserves the invariant and
    the exactly-once ledger of [Core/ResourceOwnSpec.v] and never ends in a host trap or a guest panic; by induction over
    the operation list, the four statements of the specification.
    (Per-operation work: Core/ResourceOwnProofsAlloc.v, Core/ResourceOwnProofsDrop.v; invariants by component group:
    Core/ResourceOwnProofsInv.v, Core/ResourceOwnProofsLedger.v; list lemmas: Core/ResourceOwnProofsList.v.) *)
From Coq Require Import List NArith Bool Permutation Lia.
From WB Require Import Core.ResourceOwn Core.ResourceOwnSpec Core.ResourceOwnProofsList Core.ResourceOwnProofsInv
  Core.ResourceOwnProofsLedger Core.ResourceOwnProofsAlloc Core.ResourceOwnProofsDrop.
Import ListNotations.
Local Open Scope N_scope.

(** ** the remaining operations: they change nothing but flags or the log *)
Lemma step_export_begin s : Inv s -> err s = None -> good_after s (step s HExportBegin).
Proof.
  intros HI He. unfold step, good_after. rewrite He.
  destruct (in_export s) eqn:Hie; [exact I|]. proj. rewrite He.
  apply Inv_iff in HI as (HT & HW & HX & HB). split.
  - apply Inv_iff. proj. repeat apply conj; auto. rewrite Hie in HX. eapply exp_begin, HX.
  - intros HL. apply Ledger_iff in HL. apply Ledger_iff. exact HL.
Qed.

Lemma step_borrow_exported_get s rep : Inv s -> err s = None -> good_after s (step s (HBorrowExportedGet rep)).
Proof.
  intros HI He. unfold step, good_after. rewrite He.
  destruct (in_export s); cbn [negb]; [|exact I].
  destruct (memN rep (hostown s)) eqn:Hm; cbn [negb]; [|exact I].
  apply memN_In in Hm.
  pose proof HI as HI0. apply Inv_iff in HI0 as (HT & HW & HX & HB).
  destruct (box_in_reps _ _ _ _ rep HB (or_intror Hm)) as [c Hc].
  destruct (bi_some _ _ _ _ HB _ _ (lookup_In _ _ _ Hc)) as [v ->].
  rewrite Hc, He. auto.
Qed.

Lemma step_pass_borrow_eq s w :
  err s = None ->
  let s' := step s (UPassBorrow w) in
  tbl s' = tbl s /\ ws s' = ws s /\ reps s' = reps s /\ hostown s' = hostown s /\ freeh s' = freeh s /\
  nexth s' = nexth s /\ nextw s' = nextw s /\ nextrep s' = nextrep s /\ in_export s' = in_export s /\ need_drop s' = need_drop s.
Proof.
  intros He. unfold step. rewrite He.
  destruct (lookup w (ws s)) as [x|]; [|proj; repeat split].
  destruct (lookup (w_handle x) (tbl s)); proj; repeat split.
Qed.

Lemma step_pass_borrow s w : Inv s -> err s = None -> good_after s (step s (UPassBorrow w)).
Proof.
  intros HI He. unfold step, good_after. rewrite He.
  destruct (lookup w (ws s)) as [x|] eqn:Hw; [|exact I].
  destruct (wrapper_entry s w x HI Hw) as [Hne [e [Hl _]]].
  rewrite Hl. proj. rewrite He. split.
  - apply Inv_iff in HI. apply Inv_iff. exact HI.
  - intros HL. apply Ledger_iff in HL. apply Ledger_iff. proj. now apply led_lend.
Qed.

Lemma step_get s w : Inv s -> err s = None -> good_after s (step s (UGet w)).
Proof.
  intros HI He. unfold step, good_after. rewrite He.
  destruct (lookup w (ws s)) as [x|] eqn:Hw; [|exact I].
  destruct (w_kind x) eqn:Ekx; [exact I|].
  destruct (wrapper_entry s w x HI Hw) as [Hne [e [Hl [Ho [Hk Hle]]]]].
  rewrite Ekx in Hk.
  assert (Eo : e_own e = true).
  { destruct (e_own e) eqn:Eo; auto.
    pose proof (inv_borrow_imported _ HI _ _ (lookup_In _ _ _ Hl) Eo). congruence. }
  destruct (own_exported_box s _ e HI Hl Eo Hk) as [v Hc].
  rewrite Hl, Hc, He. auto.
Qed.

(** ** one step *)
Theorem step_ok s o : Inv s -> err s = None -> good_after s (step s o).
Proof.
  intros HI He. destruct o.
  - now apply step_give_own_imported.
  - now apply step_give_own_exported.
  - now apply step_export_begin.
  - now apply step_lend_borrow_imported.
  - now apply step_borrow_exported_get.
  - now apply step_export_end.
  - now apply step_host_drop_own_exported.
  - now apply step_drop.
  - now apply step_pass_own.
  - now apply step_pass_borrow.
  - now apply step_new.
  - now apply step_get.
  - now apply step_into_inner.
Qed.

Theorem inv_step : forall s o,
  Inv s -> Ledger s -> err s = None -> err (step s o) = None -> Inv (step s o) /\ Ledger (step s o).
Proof.
  intros s o HI HL He He'. pose proof (step_ok s o HI He) as H. unfold good_after in H. rewrite He' in H.
  destruct H as [HI' HL']. auto.
Qed.

Theorem no_guest_fault_step : forall s o,
  Inv s -> err s = None ->
  match err (step s o) with Some (ETrap _) | Some (EPanic _) => False | _ => True end.
Proof.
  intros s o HI He. pose proof (step_ok s o HI He) as H. unfold good_after in H.
  destruct (err (step s o)) as [[| |]|]; auto.
Qed.

(** ** whole runs *)
Lemma step_frozen s o e : err s = Some e -> step s o = s.
Proof. intros H. unfold step. now rewrite H. Qed.

Lemma run_snoc ops o : run (ops ++ [o]) = step (run ops) o.
Proof. unfold run. now rewrite fold_left_app. Qed.

Lemma Inv_init : Inv init.
Proof. constructor; cbn; try (now constructor); try (intros; tauto). Qed.

Lemma Ledger_init : Ledger init.
Proof. constructor; cbn; try reflexivity; try (constructor; fail); intros; contradiction. Qed.

Lemma run_ok ops :
  match err (run ops) with
  | None => Inv (run ops) /\ Ledger (run ops)
  | Some (EApi _) => True
  | Some _ => False
  end.
Proof.
  induction ops as [|o ops IH] using rev_ind.
  - cbn. split; [apply Inv_init|apply Ledger_init].
  - rewrite run_snoc. destruct (err (run ops)) as [e|] eqn:He.
    + rewrite (step_frozen _ _ _ He), He. exact IH.
    + destruct IH as [HI HL]. pose proof (step_ok _ o HI He) as H. unfold good_after in H.
      destruct (err (step (run ops) o)) as [[| |]|]; auto. destruct H; auto.
Qed.

Theorem no_trap_no_panic : no_trap_no_panic_stmt.
Proof.
  intros ops Hna. pose proof (run_ok ops) as H. unfold not_api in Hna.
  destruct (err (run ops)) as [[| |]|]; auto; contradiction.
Qed.

Theorem invariant : invariant_stmt.
Proof. intros ops He. pose proof (run_ok ops) as H. rewrite He in H. exact H. Qed.

Theorem borrows_release_nothing : borrow_stmt.
Proof.
  split.
  - intros ops w He. cbv zeta. destruct (step_pass_borrow_eq (run ops) w He) as (H1 & H2 & H3 & H4 & _). auto.
  - intros ops He. cbv zeta. intros He'.
    destruct (invariant ops He) as [HI HL].
    destruct (in_export (run ops)) eqn:Hie.
    + destruct (export_end_ok (run ops) HI He Hie) as (_ & _ & _ & H1 & H2 & H3 & H4). auto.
    + exfalso. unfold step in He'. rewrite He, Hie in He'. discriminate.
Qed.

Theorem quiescent : quiescent_stmt.
Proof.
  intros ops He _ Hws. destruct (invariant ops He) as [HI _].
  pose proof (inv_handles _ HI) as Hh. unfold live_handles in Hh. rewrite Hws in Hh. cbn in Hh.
  apply Permutation_nil in Hh. unfold keys in Hh. apply map_eq_nil in Hh.
  split; auto.
  pose proof (inv_boxes _ HI) as Hb. unfold exported_own_reps in Hb. rewrite Hh in Hb. exact Hb.
Qed.
