(** C16 (proved part) — model of the type-directed dispatch that every bindings generator goes through and of the
    Markdown generator's instance of it.  Definitions only (proofs: MdTotalProofs.v).

    Anchors (working tree of wit-bindgen):
      crates/core/src/lib.rs      [WorldGenerator::generate] (default method), [define_type], [InterfaceGenerator::types]
      crates/markdown/src/lib.rs  [InterfaceGenerator::print_ty], the [type_*] callbacks, [func], [funcs],
                                  [import_interface], [export_interface], [import_types], [import_funcs], [export_funcs]

    Every [todo!()] / [unreachable!()] / [panic!] / [assert!] of those functions is an explicit [Panic site]; so
    "never panics" is a statement about the model's result, not an artefact of totalisation.

    Types.  The Rust code follows [resolve.types[id]] pointers; [print_ty] stops at every NAMED type (it prints a link
    and returns) and recurses only through anonymous ones, so the pointer graph is unfolded into the tree [ty]:
    [TNamed] = a [Type::Id] whose [TypeDef] has a name, [TAnon k] = one without (the translator
    harness/crates/detnp/src/mddump.rs performs exactly this unfolding on the real [Resolve]).  [kind] has one
    constructor per [wit_parser::TypeDefKind] constructor ([Handle] split into its two [Handle] constructors); the
    constructor set is compared with wit-parser's enum on every run. *)
From Coq Require Import List NArith Bool.
Import ListNotations.

Inductive prim :=
  PBool | PU8 | PU16 | PU32 | PU64 | PS8 | PS16 | PS32 | PS64 | PF32 | PF64 | PChar | PString | PErrorContext.

Inductive ty :=
| TPrim (p : prim)
| TNamed
| TAnon (k : kind)
with kind :=
| KRecord (fields : list ty)
| KResource
| KHandleOwn (r : ty)            (* [Handle::Own(id)]: the code calls [print_ty(&Type::Id(id))] *)
| KHandleBorrow (r : ty)
| KFlags
| KTuple (ts : list ty)
| KVariant (cases : list (option ty))
| KEnum
| KOption (t : ty)
| KResult (ok err : option ty)
| KList (t : ty)
| KMap (k v : ty)
| KFixedLengthList (t : ty) (n : N)
| KFuture (t : option ty)
| KStream (t : option ty)
| KType (t : ty)
| KUnknown.

(** Panic sites of the anchored functions. *)
Inductive site :=
| SitePrintTyAssertNamed     (* markdown print_ty: Record|Resource|Flags|Enum|Variant arm, [assert!(ty.name.is_some())] after the name was found to be [None] *)
| SitePrintTyUnknown         (* markdown print_ty: [TypeDefKind::Unknown => unreachable!()] *)
| SitePrintTyFixedLengthList (* markdown print_ty: [TypeDefKind::FixedLengthList(..) => todo!()] *)
| SiteMdTypeFuture           (* markdown type_future: [todo!()] *)
| SiteMdTypeStream           (* markdown type_stream: [todo!()] *)
| SiteDefineTypeHandle       (* core define_type: [TypeDefKind::Handle(_) => panic!("handle types do not require definition")] *)
| SiteDefineTypeUnknown      (* core define_type: [TypeDefKind::Unknown => unreachable!()] *)
| SiteGenerateExportType.    (* core generate: [WorldItem::Type { .. } => unreachable!()] in the export loop *)

Inductive res := Done | Panic (s : site).

(** [a ;; b]: statement sequencing — a panic in [a] means [b] never runs. *)
Definition seq (a b : res) : res := match a with Done => b | Panic s => Panic s end.
Notation "a ;; b" := (seq a b) (at level 61, right associativity).

(** * Markdown [print_ty] *)
Fixpoint print_ty (t : ty) : res :=
  match t with
  | TPrim _ => Done                       (* 14 [push_str] arms, ErrorContext included *)
  | TNamed => Done                        (* [if let Some(name) = &ty.name { …link…; return; }] *)
  | TAnon k => print_kind k
  end
with print_kind (k : kind) : res :=
  match k with
  | KType t => print_ty t
  | KTuple ts => (fix go (l : list ty) : res := match l with [] => Done | x :: r => print_ty x ;; go r end) ts
  | KRecord _ | KResource | KFlags | KEnum | KVariant _ => Panic SitePrintTyAssertNamed
  | KOption t => print_ty t
  | KResult (Some o) (Some e) => print_ty o ;; print_ty e
  | KResult None (Some e) => print_ty e
  | KResult (Some o) None => print_ty o
  | KResult None None => Done
  | KList t => print_ty t
  | KFuture (Some t) => print_ty t
  | KFuture None => Done
  | KStream (Some t) => print_ty t
  | KStream None => Done
  | KHandleOwn r => print_ty r
  | KHandleBorrow r => print_ty r
  | KUnknown => Panic SitePrintTyUnknown
  | KFixedLengthList _ _ => Panic SitePrintTyFixedLengthList
  | KMap k v => print_ty k ;; print_ty v
  end.

Fixpoint print_tys (l : list ty) : res :=
  match l with [] => Done | x :: r => print_ty x ;; print_tys r end.

Definition print_opt (o : option ty) : res := match o with Some t => print_ty t | None => Done end.

Fixpoint print_opts (l : list (option ty)) : res :=
  match l with [] => Done | x :: r => print_opt x ;; print_opts r end.

(** * The shared dispatch [wit_bindgen_core::define_type]
    The callbacks of [trait InterfaceGenerator]; each receives [self_ty] = the [Type::Id(id)] view of the type being
    defined (several Markdown callbacks print exactly that) and the payload of the constructor. *)
Record iface_gen := {
  type_record : ty -> list ty -> res;
  type_resource : ty -> res;
  type_flags : ty -> res;
  type_tuple : ty -> list ty -> res;
  type_variant : ty -> list (option ty) -> res;
  type_option : ty -> ty -> res;
  type_result : ty -> option ty -> option ty -> res;
  type_enum : ty -> res;
  type_alias : ty -> ty -> res;
  type_list : ty -> ty -> res;
  type_fixed_length_list : ty -> ty -> N -> res;
  type_map : ty -> ty -> ty -> res;
  type_future : ty -> option ty -> res;
  type_stream : ty -> option ty -> res
}.

(** [named] = [resolve.types[id].name.is_some()] (always true for what wit-parser puts into [iface.types] and world
    type imports; kept as data so that the model does not assume it). *)
Definition self_ty (named : bool) (k : kind) : ty := if named then TNamed else TAnon k.

Definition define_type (g : iface_gen) (named : bool) (k : kind) : res :=
  let me := self_ty named k in
  match k with
  | KRecord fs => type_record g me fs
  | KResource => type_resource g me
  | KFlags => type_flags g me
  | KTuple ts => type_tuple g me ts
  | KEnum => type_enum g me
  | KVariant cs => type_variant g me cs
  | KOption t => type_option g me t
  | KResult o e => type_result g me o e
  | KList t => type_list g me t
  | KType t => type_alias g me t
  | KFuture t => type_future g me t
  | KStream t => type_stream g me t
  | KHandleOwn _ | KHandleBorrow _ => Panic SiteDefineTypeHandle
  | KFixedLengthList t n => type_fixed_length_list g me t n
  | KMap k v => type_map g me k v
  | KUnknown => Panic SiteDefineTypeUnknown
  end.

(** * Worlds and [WorldGenerator::generate] *)
Record func := { params : list ty; result : option ty }.
Record tdef := { td_named : bool; td_kind : kind }.
Record iface := { if_types : list tdef; if_funcs : list func }.
Inductive item := IInterface (i : iface) | IFunction (f : func) | IType (d : tdef).
Record world := { imports : list item; exports : list item }.

Record world_gen := {
  preprocess : res;
  import_interface : iface -> res;
  import_types : list tdef -> res;
  import_funcs : list func -> res;
  finish_imports : res;
  export_funcs : list func -> res;
  pre_export_interface : res;
  export_interface : iface -> res;
  finish : res
}.

(** [for (name, import) in world.imports.iter() { match import { … } }] with the two accumulators. *)
Fixpoint import_loop (g : world_gen) (l : list item) (types : list tdef) (funcs : list func)
  : res * list tdef * list func :=
  match l with
  | [] => (Done, types, funcs)
  | IFunction f :: r => import_loop g r types (funcs ++ [f])
  | IInterface i :: r =>
      match import_interface g i with
      | Done => import_loop g r types funcs
      | Panic s => (Panic s, types, funcs)
      end
  | IType d :: r => import_loop g r (types ++ [d]) funcs
  end.

Fixpoint export_loop (l : list item) (funcs : list func) (ifaces : list iface) : res * list func * list iface :=
  match l with
  | [] => (Done, funcs, ifaces)
  | IFunction f :: r => export_loop r (funcs ++ [f]) ifaces
  | IInterface i :: r => export_loop r funcs (ifaces ++ [i])
  | IType _ :: _ => (Panic SiteGenerateExportType, funcs, ifaces)
  end.

Fixpoint each {A} (f : A -> res) (l : list A) : res :=
  match l with [] => Done | x :: r => f x ;; each f r end.

Definition generate (g : world_gen) (w : world) : res :=
  preprocess g ;;
  let '(r, types, funcs) := import_loop g (imports w) [] [] in
  r ;;
  (match types with [] => Done | _ => import_types g types end) ;;
  (match funcs with [] => Done | _ => import_funcs g funcs end) ;;
  finish_imports g ;;
  let '(r2, efuncs, ifaces) := export_loop (exports w) [] [] in
  r2 ;;
  (match efuncs with [] => Done | _ => export_funcs g efuncs end) ;;
  pre_export_interface g ;;
  each (export_interface g) ifaces ;;
  finish g.

(** * The Markdown generator *)
Definition md_iface_gen : iface_gen := {|
  type_record := fun _ fs => print_tys fs;
  type_resource := fun _ => Done;
  type_flags := fun _ => Done;
  type_tuple := fun _ ts => print_tys ts;
  type_variant := fun _ cs => print_opts cs;
  type_option := fun _ t => print_ty t;
  type_result := fun _ o e => print_opt o ;; print_opt e;
  type_enum := fun _ => Done;
  type_alias := fun _ t => print_ty t;
  type_list := fun me _ => print_ty me;                    (* [self.type_alias(id, name, &Type::Id(id), docs)] *)
  type_fixed_length_list := fun me _ _ => print_ty me;     (* idem *)
  type_map := fun me _ _ => print_ty me;                   (* idem *)
  type_future := fun _ _ => Panic SiteMdTypeFuture;
  type_stream := fun _ _ => Panic SiteMdTypeStream
|}.

Definition md_define (d : tdef) : res := define_type md_iface_gen (td_named d) (td_kind d).

Definition md_func (f : func) : res := print_tys (params f) ;; print_opt (result f).

(** [gen.types(id); gen.funcs(id)] *)
Definition md_interface (i : iface) : res := each md_define (if_types i) ;; each md_func (if_funcs i).

Definition md_world_gen : world_gen := {|
  preprocess := Done;              (* table of contents: no type is inspected *)
  import_interface := md_interface;
  import_types := each md_define;
  import_funcs := each md_func;
  finish_imports := Done;          (* default method *)
  export_funcs := each md_func;
  pre_export_interface := Done;    (* default method *)
  export_interface := md_interface;
  finish := Done                   (* pulldown-cmark rendering: outside the model (no type dispatch) *)
|}.

Definition md_generate (w : world) : res := generate md_world_gen w.

(** * Decidable shape predicates used by the theorems
    [shape_*]: what wit-parser can produce at all (no [Unknown] after resolution; record/resource/flags/enum/variant
    are always named).  [sup_*]: additionally none of the constructors the Markdown code declines. *)
Fixpoint shape_ty (t : ty) : bool :=
  match t with
  | TPrim _ | TNamed => true
  | TAnon k =>
      match k with
      | KRecord _ | KResource | KFlags | KEnum | KVariant _ | KUnknown => false
      | _ => shape_kind k
      end
  end
with shape_kind (k : kind) : bool :=
  match k with
  | KRecord fs => (fix go (l : list ty) := match l with [] => true | x :: r => shape_ty x && go r end) fs
  | KTuple ts => (fix go (l : list ty) := match l with [] => true | x :: r => shape_ty x && go r end) ts
  | KVariant cs => (fix go (l : list (option ty)) := match l with [] => true | Some x :: r => shape_ty x && go r | None :: r => go r end) cs
  | KResource | KFlags | KEnum => true
  | KHandleOwn r | KHandleBorrow r => shape_ty r
  | KOption t | KList t | KType t | KFixedLengthList t _ => shape_ty t
  | KResult o e => match o with Some x => shape_ty x | None => true end && match e with Some x => shape_ty x | None => true end
  | KMap a b => shape_ty a && shape_ty b
  | KFuture o | KStream o => match o with Some x => shape_ty x | None => true end
  | KUnknown => false
  end.

(** No anonymous fixed-length list reachable without passing through a named type. *)
Fixpoint fixed_free (t : ty) : bool :=
  match t with
  | TPrim _ | TNamed => true
  | TAnon k => fixed_free_kind k
  end
with fixed_free_kind (k : kind) : bool :=
  match k with
  | KFixedLengthList _ _ => false
  | KRecord fs => (fix go (l : list ty) := match l with [] => true | x :: r => fixed_free x && go r end) fs
  | KTuple ts => (fix go (l : list ty) := match l with [] => true | x :: r => fixed_free x && go r end) ts
  | KVariant cs => (fix go (l : list (option ty)) := match l with [] => true | Some x :: r => fixed_free x && go r | None :: r => go r end) cs
  | KResource | KFlags | KEnum | KUnknown => true
  | KHandleOwn r | KHandleBorrow r => fixed_free r
  | KOption t | KList t | KType t => fixed_free t
  | KResult o e => match o with Some x => fixed_free x | None => true end && match e with Some x => fixed_free x | None => true end
  | KMap a b => fixed_free a && fixed_free b
  | KFuture o | KStream o => match o with Some x => fixed_free x | None => true end
  end.

Definition okopt (p : ty -> bool) (o : option ty) : bool := match o with Some t => p t | None => true end.

(** A type definition as it can occur in [iface.types] / world type imports: named, and its children well shaped. *)
Definition shape_def (d : tdef) : bool := td_named d && shape_kind (td_kind d).

(** The three classes of valid definitions the real code panics on (= the keys in known-findings.txt). *)
Definition is_handle_alias (k : kind) : bool := match k with KHandleOwn _ | KHandleBorrow _ => true | _ => false end.
Definition is_future_or_stream (k : kind) : bool := match k with KFuture _ | KStream _ => true | _ => false end.

(** Children that [define_type]'s Markdown callback hands to [print_ty] (nothing for the self-printing callbacks). *)
Definition def_children_fixed_free (k : kind) : bool :=
  match k with
  | KRecord fs => forallb fixed_free fs
  | KTuple ts => forallb fixed_free ts
  | KVariant cs => forallb (okopt fixed_free) cs
  | KOption t | KType t => fixed_free t
  | KResult o e => okopt fixed_free o && okopt fixed_free e
  | _ => true
  end.

Definition def_known (d : tdef) : bool :=
  is_handle_alias (td_kind d) || is_future_or_stream (td_kind d) || negb (def_children_fixed_free (td_kind d)).

Definition func_shape (f : func) : bool := forallb shape_ty (params f) && okopt shape_ty (result f).
Definition func_known (f : func) : bool := negb (forallb fixed_free (params f) && okopt fixed_free (result f)).

Definition iface_shape (i : iface) : bool := forallb shape_def (if_types i) && forallb func_shape (if_funcs i).
Definition iface_known (i : iface) : bool := existsb def_known (if_types i) || existsb func_known (if_funcs i).

Definition item_shape (exported : bool) (it : item) : bool :=
  match it with
  | IInterface i => iface_shape i
  | IFunction f => func_shape f
  | IType d => negb exported && shape_def d        (* wit-parser never exports a bare type from a world *)
  end.
Definition item_known (it : item) : bool :=
  match it with IInterface i => iface_known i | IFunction f => func_known f | IType d => def_known d end.

Definition world_shape (w : world) : bool := forallb (item_shape false) (imports w) && forallb (item_shape true) (exports w).
Definition world_known (w : world) : bool := existsb item_known (imports w) || existsb item_known (exports w).
