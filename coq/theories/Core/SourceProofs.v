(** C25, text_preserved: under [run_safe] the buffer equals the appended text up to the white space at
    the start of lines; whole-line call sequences are always safe. *)
From Coq Require Import List Ascii Bool Arith Lia.
From WB Require Import Core.Source Core.SourceSpec Core.SourceLemmas.
Import ListNotations.

(** the simulation between the buffer and the text appended so far *)
Record R (st : source) (T : text) : Prop := mkR {
  R_strip : strip_lead true (as_str st) = strip_lead true T;
  R_bol : bol_after true (as_str st) = bol_after true T;
  R_start : continuing st = false -> bol_after true (as_str st) = true;
}.

Lemma R_init : R source_default [].
Proof. constructor; reflexivity. Qed.

Lemma as_str_newline st : as_str (newline st) = as_str st ++ [LF].
Proof. reflexivity. Qed.

Lemma R_newline st T : R st T -> R (newline st) (T ++ [LF]).
Proof.
  intros [H1 H2 H3]. constructor; rewrite ?as_str_newline.
  - rewrite !strip_app, H1. reflexivity.
  - rewrite !bol_app. reflexivity.
  - intros _. rewrite bol_app. reflexivity.
Qed.

Lemma bol_start_newline st : bol_after true (as_str (newline st)) = true.
Proof. rewrite as_str_newline, bol_app. reflexivity. Qed.

Lemma strip_sp2 b x : bol_after b (x ++ [SP; SP]) = true ->
  strip_lead b (x ++ [SP; SP]) = strip_lead b x /\ bol_after b x = true.
Proof.
  rewrite bol_app, strip_app. rewrite (bol_nolf _ [SP; SP]) by reflexivity.
  rewrite andb_true_iff. intros [H _]. rewrite H. simpl. rewrite app_nil_r. auto.
Qed.

Lemma piece_buf interp single st l :
  piece_safe interp single st l = true ->
  (continuing st = false -> bol_after true (as_str st) = true) ->
  exists b2,
    rbuf (push_piece interp single st l) = rev (if single then l else trim_start l) ++ b2
    /\ strip_lead true (rev b2) = strip_lead true (as_str st)
    /\ bol_after true (rev b2) = bol_after true (as_str st)
    /\ (bol_after true (as_str st) = false -> single = true \/ no_lead_ws l = true).
Proof.
  intros Hsafe Hstart. unfold push_piece. cbn [rbuf].
  set (b1 := if continuing st then rbuf st else if is_nil l then rbuf st else spaces (2 * ind st) ++ rbuf st).
  assert (Hb1 : strip_lead true (rev b1) = strip_lead true (as_str st)
                /\ bol_after true (rev b1) = bol_after true (as_str st)
                /\ (bol_after true (as_str st) = false -> b1 = rbuf st)).
  { subst b1. destruct (continuing st) eqn:Ec; [auto|].
    destruct (is_nil l); [auto|]. specialize (Hstart eq_refl).
    rewrite rev_app_distr, rev_spaces. fold (as_str st).
    rewrite strip_app, bol_app, Hstart.
    rewrite (strip_nolf _ (spaces (2 * ind st))), (bol_nolf _ (spaces (2 * ind st))) by apply has_lf_spaces.
    rewrite drop_ws_all_ws, all_ws_spaces by apply all_ws_spaces.
    rewrite app_nil_r. repeat split; auto. congruence. }
  destruct Hb1 as (Hs1 & Hbol1 & Hsame).
  assert (Hlast : bol_after true (as_str st) = false -> single = true \/ no_lead_ws l = true).
  { intro Hb. unfold piece_safe in Hsafe. rewrite Hb in Hsafe. simpl in Hsafe.
    apply andb_true_iff in Hsafe as [Ha _]. apply orb_true_iff in Ha. exact Ha. }
  match goal with |- context [if ?c then pop2 b1 else b1] => destruct c eqn:Epop end.
  - (* the two pops *)
    apply andb_true_iff in Epop as [Epop E2]. apply andb_true_iff in Epop as [Eact Ebr].
    destruct (bol_after true (as_str st)) eqn:Ebol.
    + apply ends2sp_inv in E2 as [r Hr]. exists r. rewrite Hr. simpl pop2.
      rewrite Hr in Hs1, Hbol1. simpl rev in Hs1, Hbol1. rewrite <- app_assoc in Hs1, Hbol1. simpl in Hs1, Hbol1.
      destruct (strip_sp2 true (rev r) Hbol1) as [Hx Hy].
      repeat split; auto. congruence.
    + exfalso. unfold piece_safe in Hsafe. rewrite Ebol in Hsafe. simpl in Hsafe.
      apply andb_true_iff in Hsafe as [_ Hb]. apply negb_true_iff in Hb.
      rewrite (Hsame eq_refl) in E2. rewrite E2, Ebr in Hb.
      apply andb_true_iff in Eact as [Ei Ec]. rewrite Ei in Hb. apply negb_true_iff in Ec.
      apply orb_false_iff in Ec as [Ec _]. rewrite Ec in Hb. discriminate.
  - exists b1. repeat split; auto.
Qed.

Lemma R_piece interp single st T l :
  R st T -> has_lf l = false -> piece_safe interp single st l = true ->
  R (push_piece interp single st l) (T ++ l).
Proof.
  intros [H1 H2 H3] Hl Hsafe.
  destruct (piece_buf interp single st l Hsafe H3) as (b2 & Hbuf & Hs & Hb & Hlast).
  set (lo := if single then l else trim_start l) in *.
  assert (Hlo : has_lf lo = false). { subst lo. destruct single; auto. apply has_lf_drop_ws; auto. }
  assert (Has : as_str (push_piece interp single st l) = rev b2 ++ lo).
  { unfold as_str. rewrite Hbuf, rev_app_distr, rev_involutive. reflexivity. }
  assert (Hcases : (bol_after true (as_str st) = true /\ drop_ws lo = drop_ws l /\ all_ws lo = all_ws l)
                   \/ (bol_after true (as_str st) = false /\ lo = l)).
  { destruct (bol_after true (as_str st)) eqn:Eb.
    - left. subst lo. destruct single; auto. unfold trim_start. rewrite drop_ws_idem, all_ws_drop_ws. auto.
    - right. split; auto. subst lo. destruct (Hlast eq_refl) as [-> | Hn]; auto.
      destruct single; auto. unfold trim_start. apply drop_ws_no_lead; auto. }
  constructor.
  - rewrite Has, !strip_app, Hs, Hb, H1, <- H2.
    destruct Hcases as [(Eb & Hd & _) | (Eb & ->)]; rewrite Eb.
    + rewrite (strip_true_nolf lo Hlo), (strip_true_nolf l Hl), Hd. reflexivity.
    + reflexivity.
  - rewrite Has, !bol_app, Hb, <- H2.
    destruct Hcases as [(Eb & _ & Ha) | (Eb & ->)]; rewrite Eb.
    + rewrite (bol_true_nolf lo Hlo), (bol_true_nolf l Hl). exact Ha.
    + reflexivity.
  - simpl. discriminate.
Qed.

Lemma R_lines interp single endnl ls : forall st T,
  Forall (fun l => has_lf l = false) ls -> R st T ->
  match ls with [] => True | l :: _ => piece_safe interp single st l = true end ->
  R (push_lines interp single endnl st ls) (T ++ join_lines endnl ls).
Proof.
  induction ls as [|l rest IH]; intros st T Hnl HR Hsafe.
  - simpl. rewrite app_nil_r. exact HR.
  - inversion Hnl as [|? ? Hl Hrest]; subst.
    pose proof (R_piece interp single st T l HR Hl Hsafe) as HR1.
    destruct rest as [|l2 rest2].
    + simpl. destruct endnl.
      * rewrite app_assoc. apply R_newline. exact HR1.
      * rewrite app_nil_r. exact HR1.
    + change (push_lines interp single endnl st (l :: l2 :: rest2))
        with (push_lines interp single endnl (newline (push_piece interp single st l)) (l2 :: rest2)).
      change (join_lines endnl (l :: l2 :: rest2)) with (l ++ LF :: join_lines endnl (l2 :: rest2)).
      replace (T ++ l ++ LF :: join_lines endnl (l2 :: rest2))
        with (((T ++ l) ++ [LF]) ++ join_lines endnl (l2 :: rest2))
        by (rewrite <- !app_assoc; reflexivity).
      apply IH; auto.
      * apply R_newline. exact HR1.
      * unfold piece_safe. rewrite bol_start_newline. reflexivity.
Qed.

Lemma R_frag interp st T f :
  R st T -> frag_safe interp st f = true -> R (push_str_impl interp st f) (T ++ f).
Proof.
  intros HR Hsafe. unfold frag_safe in Hsafe. apply andb_true_iff in Hsafe as [Hcr Hsafe].
  apply negb_true_iff in Hcr.
  rewrite <- (join_rust_lines f Hcr) at 2. unfold push_str_impl.
  apply R_lines; auto. { apply rust_lines_nolf. }
  destruct (rust_lines f) as [|l rest]; auto.
  destruct rest; simpl in *; exact Hsafe.
Qed.

Lemma R_parts ps : forall st T,
  R st T -> parts_safe st ps = true -> R (fold_left push_str ps st) (T ++ concat ps).
Proof.
  induction ps as [|p r IH]; intros st T HR Hs; simpl.
  - rewrite app_nil_r. exact HR.
  - simpl in Hs. apply andb_true_iff in Hs as [Hp Hr]. rewrite app_assoc. apply IH; auto.
    apply R_frag; auto.
Qed.

Lemma R_same st st' T :
  rbuf st' = rbuf st -> continuing st' = continuing st -> R st T -> R st' T.
Proof.
  intros Hb Hc [H1 H2 H3]. constructor; unfold as_str in *; rewrite ?Hb, ?Hc; auto.
Qed.

Lemma R_step st T b st' o :
  R st T -> bop_safe st b = true -> step_b st b = Some (st', o) -> R st' (T ++ bop_text b).
Proof.
  intros HR Hs Hstep. destruct b; simpl in *.
  - inversion Hstep; subst. apply R_frag; auto.
  - inversion Hstep; subst. apply R_frag; auto.
  - inversion Hstep; subst. apply R_parts; auto.
  - inversion Hstep; subst. rewrite app_nil_r. apply (R_same st); [reflexivity | reflexivity | assumption].
  - unfold deindent in Hstep. destruct (n <=? ind st); inversion Hstep; subst.
    rewrite app_nil_r. apply (R_same st); [reflexivity | reflexivity | assumption].
  - inversion Hstep; subst. rewrite app_nil_r. apply (R_same st); [reflexivity | reflexivity | assumption].
  - inversion Hstep; subst. rewrite app_nil_r. apply (R_same st); [reflexivity | reflexivity | assumption].
Qed.

Lemma R_run ops : forall st T st' o,
  R st T -> run_safe st ops = true -> run_b st ops = Some (st', o) -> R st' (T ++ ops_text ops).
Proof.
  induction ops as [|b r IH]; intros st T st' o HR Hs Hrun; simpl in *.
  - inversion Hrun; subst. unfold ops_text. simpl. rewrite app_nil_r. exact HR.
  - apply andb_true_iff in Hs as [Hb Hr].
    destruct (step_b st b) as [[st1 o1]|] eqn:Es; try discriminate.
    destruct (run_b st1 r) as [[st2 o2]|] eqn:Er; try discriminate.
    inversion Hrun; subst. unfold ops_text. simpl. rewrite app_assoc.
    eapply IH; eauto. eapply R_step; eauto.
Qed.

(** text_preserved, restricted to safe call sequences *)
Theorem text_preserved_safe : forall ops st outs,
  run_b source_default ops = Some (st, outs) ->
  run_safe source_default ops = true ->
  erase_lead (as_str st) = erase_lead (ops_text ops).
Proof.
  intros ops st outs Hrun Hsafe.
  pose proof (R_run ops source_default [] st outs R_init Hsafe Hrun) as [H _ _]. exact H.
Qed.
