(** C16 (proved part) — proofs about WB.Core.MdTotal: exact characterisation of the inputs on which the Markdown
    generator's type dispatch finishes without a panic, the partial totality theorem over everything wit-parser can
    produce minus the known classes, and the witnesses that the full statement ("supports every WIT type") is false. *)
From Coq Require Import List NArith Bool.
From WB Require Import Core.MdTotal.
Import ListNotations.

(** * Induction principle for the nested mutual type [ty]/[kind] *)
Definition optP (P : ty -> Prop) (o : option ty) : Prop := match o with Some t => P t | None => True end.

Section TyInd.
  Variables (P : ty -> Prop) (Q : kind -> Prop).
  Hypothesis HPrim : forall p, P (TPrim p).
  Hypothesis HNamed : P TNamed.
  Hypothesis HAnon : forall k, Q k -> P (TAnon k).
  Hypothesis HRecord : forall fs, Forall P fs -> Q (KRecord fs).
  Hypothesis HResource : Q KResource.
  Hypothesis HOwn : forall r, P r -> Q (KHandleOwn r).
  Hypothesis HBorrow : forall r, P r -> Q (KHandleBorrow r).
  Hypothesis HFlags : Q KFlags.
  Hypothesis HTuple : forall ts, Forall P ts -> Q (KTuple ts).
  Hypothesis HVariant : forall cs, Forall (optP P) cs -> Q (KVariant cs).
  Hypothesis HEnum : Q KEnum.
  Hypothesis HOption : forall t, P t -> Q (KOption t).
  Hypothesis HResult : forall o e, optP P o -> optP P e -> Q (KResult o e).
  Hypothesis HList : forall t, P t -> Q (KList t).
  Hypothesis HMap : forall a b, P a -> P b -> Q (KMap a b).
  Hypothesis HFixed : forall t n, P t -> Q (KFixedLengthList t n).
  Hypothesis HFuture : forall o, optP P o -> Q (KFuture o).
  Hypothesis HStream : forall o, optP P o -> Q (KStream o).
  Hypothesis HType : forall t, P t -> Q (KType t).
  Hypothesis HUnknown : Q KUnknown.

  Fixpoint ty_mind (t : ty) : P t :=
    match t with
    | TPrim p => HPrim p
    | TNamed => HNamed
    | TAnon k => HAnon k (kind_mind k)
    end
  with kind_mind (k : kind) : Q k :=
    match k with
    | KRecord fs => HRecord fs ((fix go (l : list ty) : Forall P l :=
                       match l with [] => Forall_nil P | x :: r => Forall_cons x (ty_mind x) (go r) end) fs)
    | KResource => HResource
    | KHandleOwn r => HOwn r (ty_mind r)
    | KHandleBorrow r => HBorrow r (ty_mind r)
    | KFlags => HFlags
    | KTuple ts => HTuple ts ((fix go (l : list ty) : Forall P l :=
                       match l with [] => Forall_nil P | x :: r => Forall_cons x (ty_mind x) (go r) end) ts)
    | KVariant cs => HVariant cs ((fix go (l : list (option ty)) : Forall (optP P) l :=
                       match l with
                       | [] => Forall_nil (optP P)
                       | x :: r => Forall_cons x (match x return optP P x with Some t => ty_mind t | None => I end) (go r)
                       end) cs)
    | KEnum => HEnum
    | KOption t => HOption t (ty_mind t)
    | KResult o e => HResult o e (match o return optP P o with Some t => ty_mind t | None => I end)
                                 (match e return optP P e with Some t => ty_mind t | None => I end)
    | KList t => HList t (ty_mind t)
    | KMap a b => HMap a b (ty_mind a) (ty_mind b)
    | KFixedLengthList t n => HFixed t n (ty_mind t)
    | KFuture o => HFuture o (match o return optP P o with Some t => ty_mind t | None => I end)
    | KStream o => HStream o (match o return optP P o with Some t => ty_mind t | None => I end)
    | KType t => HType t (ty_mind t)
    | KUnknown => HUnknown
    end.
End TyInd.

(** * Sequencing *)
Lemma seq_done : forall a b, a ;; b = Done <-> a = Done /\ b = Done.
Proof. intros [|s] b; simpl; split; try tauto; try (intros [H _]; discriminate H); discriminate. Qed.

Lemma each_done : forall A (f : A -> res) l, each f l = Done <-> Forall (fun x => f x = Done) l.
Proof.
  induction l as [|x r IH]; simpl.
  - split; auto.
  - rewrite seq_done, IH. split.
    + intros [H1 H2]; constructor; auto.
    + intros H; inversion H; auto.
Qed.

Lemma each_done_b : forall A (f : A -> res) (p : A -> bool),
  (forall x, f x = Done <-> p x = true) -> forall l, each f l = Done <-> forallb p l = true.
Proof.
  intros A f p H l. rewrite each_done, forallb_forall, Forall_forall.
  split; intros G x Hx; apply H, G, Hx.
Qed.

(** * The nested [fix go] of the definitions are the obvious list functions *)
Lemma print_tuple_eq : forall ts, print_kind (KTuple ts) = print_tys ts.
Proof. induction ts as [|x r IH]; simpl in *; [reflexivity| rewrite IH; reflexivity]. Qed.

Lemma print_tys_each : forall l, print_tys l = each print_ty l.
Proof. induction l as [|x r IH]; simpl; [reflexivity| rewrite IH; reflexivity]. Qed.

Lemma print_opts_each : forall l, print_opts l = each print_opt l.
Proof. induction l as [|x r IH]; simpl; [reflexivity| rewrite IH; reflexivity]. Qed.

Lemma shape_record_eq : forall fs, shape_kind (KRecord fs) = forallb shape_ty fs.
Proof. induction fs as [|x r IH]; simpl in *; [reflexivity| rewrite IH; reflexivity]. Qed.
Lemma shape_tuple_eq : forall fs, shape_kind (KTuple fs) = forallb shape_ty fs.
Proof. induction fs as [|x r IH]; simpl in *; [reflexivity| rewrite IH; reflexivity]. Qed.
Lemma shape_variant_eq : forall cs, shape_kind (KVariant cs) = forallb (okopt shape_ty) cs.
Proof. induction cs as [|[x|] r IH]; simpl in *; [reflexivity| rewrite IH; reflexivity | exact IH]. Qed.
Lemma ff_record_eq : forall fs, fixed_free_kind (KRecord fs) = forallb fixed_free fs.
Proof. induction fs as [|x r IH]; simpl in *; [reflexivity| rewrite IH; reflexivity]. Qed.
Lemma ff_tuple_eq : forall fs, fixed_free_kind (KTuple fs) = forallb fixed_free fs.
Proof. induction fs as [|x r IH]; simpl in *; [reflexivity| rewrite IH; reflexivity]. Qed.
Lemma ff_variant_eq : forall cs, fixed_free_kind (KVariant cs) = forallb (okopt fixed_free) cs.
Proof. induction cs as [|[x|] r IH]; simpl in *; [reflexivity| rewrite IH; reflexivity | exact IH]. Qed.

(** * Exact characterisation of [print_ty] *)
Definition ty_ok (t : ty) : bool := shape_ty t && fixed_free t.

Lemma andb4 : forall a b c d, (a && b) && (c && d) = (a && c) && (b && d).
Proof. intros [] [] [] []; reflexivity. Qed.

Lemma forallb_and : forall A (p q : A -> bool) l, forallb (fun x => p x && q x) l = forallb p l && forallb q l.
Proof.
  induction l as [|x r IH]; simpl; [reflexivity|]. rewrite IH. apply andb4.
Qed.

Lemma print_tys_ok : forall l, Forall (fun t => print_ty t = Done <-> ty_ok t = true) l ->
  (print_tys l = Done <-> forallb ty_ok l = true).
Proof.
  induction 1 as [|x r Hx _ IH]; simpl.
  - tauto.
  - rewrite seq_done, andb_true_iff, Hx, IH. tauto.
Qed.

Lemma opt_ok : forall o, optP (fun t => print_ty t = Done <-> ty_ok t = true) o ->
  (print_opt o = Done <-> okopt ty_ok o = true).
Proof. intros [t|]; simpl; [auto | tauto]. Qed.

Theorem print_ty_done_iff : forall t, print_ty t = Done <-> ty_ok t = true.
Proof.
  apply ty_mind with (Q := fun k => print_kind k = Done <-> ty_ok (TAnon k) = true); unfold ty_ok.
  - (* prim *) intros p; simpl; tauto.
  - (* named *) simpl; tauto.
  - (* anon *) intros k H; exact H.
  - (* record *) intros fs _; simpl; split; discriminate.
  - (* resource *) simpl; split; discriminate.
  - (* own *) intros r H; exact H.
  - (* borrow *) intros r H; exact H.
  - (* flags *) simpl; split; discriminate.
  - (* tuple *) intros ts H. rewrite print_tuple_eq.
    change (shape_ty (TAnon (KTuple ts))) with (shape_kind (KTuple ts)).
    change (fixed_free (TAnon (KTuple ts))) with (fixed_free_kind (KTuple ts)).
    rewrite shape_tuple_eq, ff_tuple_eq, <- forallb_and. apply print_tys_ok. exact H.
  - (* variant *) intros cs _; simpl; split; discriminate.
  - (* enum *) simpl; split; discriminate.
  - (* option *) intros t H; exact H.
  - (* result *) intros [o|] [e|] Ho He; simpl in *.
    + rewrite seq_done, Ho, He, !andb_true_iff. tauto.
    + rewrite Ho, !andb_true_iff. tauto.
    + exact He.
    + tauto.
  - (* list *) intros t H; exact H.
  - (* map *) intros a b Ha Hb; simpl. rewrite seq_done, Ha, Hb, !andb_true_iff. tauto.
  - (* fixed *) intros t n _. simpl. rewrite andb_false_r. split; discriminate.
  - (* future *) intros [t|] H; simpl in *; [exact H | tauto].
  - (* stream *) intros [t|] H; simpl in *; [exact H | tauto].
  - (* type *) intros t H; exact H.
  - (* unknown *) simpl; split; discriminate.
Qed.

Corollary print_tys_done_iff : forall l, print_tys l = Done <-> forallb ty_ok l = true.
Proof. intros l. apply print_tys_ok. apply Forall_forall. intros t _. apply print_ty_done_iff. Qed.

Corollary print_opt_done_iff : forall o, print_opt o = Done <-> okopt ty_ok o = true.
Proof. intros [t|]; simpl; [apply print_ty_done_iff | tauto]. Qed.

Corollary print_opts_done_iff : forall l, print_opts l = Done <-> forallb (okopt ty_ok) l = true.
Proof. intros l. rewrite print_opts_each. apply each_done_b. apply print_opt_done_iff. Qed.

(** Which site fires is also determined: a well-shaped type can only hit the fixed-length-list [todo!()]. *)
Theorem print_ty_shape_site : forall t s, shape_ty t = true -> print_ty t = Panic s -> s = SitePrintTyFixedLengthList.
Proof.
  intros t s. revert t.
  apply (ty_mind (fun t => shape_ty t = true -> print_ty t = Panic s -> s = SitePrintTyFixedLengthList)
                 (fun k => shape_ty (TAnon k) = true -> print_kind k = Panic s -> s = SitePrintTyFixedLengthList)).
  - (* prim *) intros p _; simpl; discriminate.
  - (* named *) intros _; simpl; discriminate.
  - (* anon *) intros k H; exact H.
  - (* record *) intros fs _; simpl; discriminate.
  - (* resource *) simpl; discriminate.
  - (* own *) intros r H; exact H.
  - (* borrow *) intros r H; exact H.
  - (* flags *) simpl; discriminate.
  - (* tuple *) intros ts H. rewrite print_tuple_eq.
    change (shape_ty (TAnon (KTuple ts))) with (shape_kind (KTuple ts)). rewrite shape_tuple_eq.
    induction H as [|x r Hx _ IH]; simpl; [discriminate|].
    rewrite andb_true_iff. intros [S1 S2]. destruct (print_ty x) eqn:E; simpl.
    + apply IH, S2.
    + intros G; apply Hx; congruence.
  - (* variant *) intros cs _; simpl; discriminate.
  - (* enum *) simpl; discriminate.
  - (* option *) intros t H; exact H.
  - (* result *) intros [o|] [e|] Ho He; simpl in *.
    + rewrite andb_true_iff. intros [S1 S2]. destruct (print_ty o) eqn:E; simpl; [apply He, S2 | intros G; apply Ho; congruence].
    + rewrite andb_true_r. exact Ho.
    + exact He.
    + discriminate.
  - (* list *) intros t H; exact H.
  - (* map *) intros a b Ha Hb. simpl. rewrite andb_true_iff. intros [S1 S2].
    destruct (print_ty a) eqn:E; simpl; [apply Hb, S2 | intros G; apply Ha; congruence].
  - (* fixed *) intros t n _ _. simpl. congruence.
  - (* future *) intros [t|] H; simpl in *; [exact H | discriminate].
  - (* stream *) intros [t|] H; simpl in *; [exact H | discriminate].
  - (* type *) intros t H; exact H.
  - (* unknown *) simpl; discriminate.
Qed.

(** * The shared dispatch *)
Theorem define_type_handle_panics : forall g named r,
  define_type g named (KHandleOwn r) = Panic SiteDefineTypeHandle /\
  define_type g named (KHandleBorrow r) = Panic SiteDefineTypeHandle.
Proof. intros; split; reflexivity. Qed.

(** The dispatch adds exactly two panics of its own; on every other constructor its result is the callback's. *)
Definition callbacks_total (g : iface_gen) : Prop :=
  (forall me fs, type_record g me fs = Done) /\ (forall me, type_resource g me = Done) /\
  (forall me, type_flags g me = Done) /\ (forall me ts, type_tuple g me ts = Done) /\
  (forall me cs, type_variant g me cs = Done) /\ (forall me t, type_option g me t = Done) /\
  (forall me o e, type_result g me o e = Done) /\ (forall me, type_enum g me = Done) /\
  (forall me t, type_alias g me t = Done) /\ (forall me t, type_list g me t = Done) /\
  (forall me t n, type_fixed_length_list g me t n = Done) /\ (forall me a b, type_map g me a b = Done) /\
  (forall me o, type_future g me o = Done) /\ (forall me o, type_stream g me o = Done).

Theorem define_type_done_iff_total : forall g, callbacks_total g -> forall named k,
  define_type g named k = Done <-> (is_handle_alias k = false /\ k <> KUnknown).
Proof.
  intros g (H1&H2&H3&H4&H5&H6&H7&H8&H9&H10&H11&H12&H13&H14) named k.
  destruct k; simpl; split; intros G; try discriminate; try (split; [reflexivity | discriminate]); auto;
    try (destruct G as [G _]; discriminate G); try (destruct G as [_ G]; congruence).
Qed.

(** * Markdown's [define_type] *)
Definition def_ok (d : tdef) : bool :=
  match td_kind d with
  | KRecord fs => forallb ty_ok fs
  | KTuple ts => forallb ty_ok ts
  | KVariant cs => forallb (okopt ty_ok) cs
  | KOption t | KType t => ty_ok t
  | KResult o e => okopt ty_ok o && okopt ty_ok e
  | KResource | KFlags | KEnum => true
  | KList _ | KMap _ _ | KFixedLengthList _ _ => ty_ok (self_ty (td_named d) (td_kind d))
  | KFuture _ | KStream _ | KHandleOwn _ | KHandleBorrow _ | KUnknown => false
  end.

Theorem md_define_done_iff : forall d, md_define d = Done <-> def_ok d = true.
Proof.
  intros [named k]. unfold md_define, def_ok. simpl td_named. simpl td_kind.
  destruct k; simpl define_type; cbv beta;
    try apply print_tys_done_iff; try apply print_opts_done_iff; try apply print_ty_done_iff;
    try (split; [reflexivity | reflexivity]); try (split; discriminate).
  - (* result *) rewrite seq_done, andb_true_iff, !print_opt_done_iff. tauto.
Qed.

Lemma forallb_impl : forall A (p q : A -> bool) l, (forall x, p x = true -> q x = true) -> forallb p l = true -> forallb q l = true.
Proof. intros A p q l H. rewrite !forallb_forall. auto. Qed.

Lemma okopt_and : forall p q o, okopt p o = true -> okopt q o = true -> okopt (fun t => p t && q t) o = true.
Proof. intros p q [t|]; simpl; auto. intros -> ->; reflexivity. Qed.

Lemma forallb_and2 : forall A (p q : A -> bool) l, forallb p l = true -> forallb q l = true -> forallb (fun x => p x && q x) l = true.
Proof. intros. rewrite forallb_and, H, H0. reflexivity. Qed.

Lemma forallb_okopt_and : forall p q l, forallb (okopt p) l = true -> forallb (okopt q) l = true ->
  forallb (okopt (fun t => p t && q t)) l = true.
Proof.
  induction l as [|x r IH]; simpl; auto. rewrite !andb_true_iff. intros [A B] [C D]. split; [apply okopt_and; auto | auto].
Qed.

(** A well-shaped (i.e. producible by wit-parser) definition outside the three known classes is handled. *)
Theorem md_define_supported : forall d, shape_def d = true -> def_known d = false -> md_define d = Done.
Proof.
  intros [named k] S K. apply md_define_done_iff. unfold shape_def, def_known, def_ok in *. simpl td_named in *. simpl td_kind in *.
  apply andb_true_iff in S. destruct S as [Hn S]. subst named.
  apply orb_false_iff in K. destruct K as [K K3]. apply orb_false_iff in K. destruct K as [K1 K2].
  apply negb_false_iff in K3.
  destruct k; simpl in K1, K2, K3; try discriminate; try reflexivity; unfold ty_ok.
  - rewrite shape_record_eq in S. apply forallb_and2; assumption.
  - rewrite shape_tuple_eq in S. apply forallb_and2; assumption.
  - rewrite shape_variant_eq in S. apply forallb_okopt_and; assumption.
  - simpl in S. rewrite S, K3. reflexivity.
  - simpl in S. apply andb_true_iff in S. destruct S as [S1 S2]. apply andb_true_iff in K3. destruct K3 as [F1 F2].
    rewrite (okopt_and _ _ _ S1 F1), (okopt_and _ _ _ S2 F2). reflexivity.
  - simpl in S. rewrite S, K3. reflexivity.
Qed.

(** * Functions, interfaces, worlds *)
Definition func_ok (f : func) : bool := forallb ty_ok (params f) && okopt ty_ok (result f).
Definition iface_ok (i : iface) : bool := forallb def_ok (if_types i) && forallb func_ok (if_funcs i).

Lemma md_func_done_iff : forall f, md_func f = Done <-> func_ok f = true.
Proof. intros f. unfold md_func, func_ok. rewrite seq_done, andb_true_iff, print_tys_done_iff, print_opt_done_iff. tauto. Qed.

Lemma md_interface_done_iff : forall i, md_interface i = Done <-> iface_ok i = true.
Proof.
  intros i. unfold md_interface, iface_ok. rewrite seq_done, andb_true_iff.
  rewrite (each_done_b _ _ _ md_define_done_iff), (each_done_b _ _ _ md_func_done_iff). tauto.
Qed.

Definition item_ok (exported : bool) (it : item) : bool :=
  match it with
  | IInterface i => iface_ok i
  | IFunction f => func_ok f
  | IType d => negb exported && def_ok d
  end.
Definition world_ok (w : world) : bool := forallb (item_ok false) (imports w) && forallb (item_ok true) (exports w).

(** [import_loop] on Markdown: all interfaces handled in order, types and functions collected in order. *)
Lemma import_loop_md : forall l ts fs,
  let '(r, ts', fs') := import_loop md_world_gen l ts fs in
  (r = Done <-> forallb (fun it => match it with IInterface i => iface_ok i | _ => true end) l = true) /\
  (r = Done -> ts' = ts ++ flat_map (fun it => match it with IType d => [d] | _ => [] end) l /\
               fs' = fs ++ flat_map (fun it => match it with IFunction f => [f] | _ => [] end) l).
Proof.
  induction l as [|[i|f|d] r IH]; intros ts fs; simpl.
  - split; [tauto|]. intros _. rewrite !app_nil_r. auto.
  - destruct (md_interface i) eqn:E.
    + specialize (IH ts fs). destruct (import_loop md_world_gen r ts fs) as [[r0 t0] f0].
      apply md_interface_done_iff in E. rewrite E. simpl. exact IH.
    + split.
      * split; [discriminate|]. rewrite andb_true_iff. intros [G _]. apply md_interface_done_iff in G. congruence.
      * discriminate.
  - specialize (IH ts (fs ++ [f])). destruct (import_loop md_world_gen r ts (fs ++ [f])) as [[r0 t0] f0].
    destruct IH as [IH1 IH2]. split; [exact IH1|]. intros G. destruct (IH2 G) as [A B]. split; [exact A|].
    rewrite B, <- app_assoc. reflexivity.
  - specialize (IH (ts ++ [d]) fs). destruct (import_loop md_world_gen r (ts ++ [d]) fs) as [[r0 t0] f0].
    destruct IH as [IH1 IH2]. split; [exact IH1|]. intros G. destruct (IH2 G) as [A B]. split; [|exact B].
    rewrite A, <- app_assoc. reflexivity.
Qed.

Lemma export_loop_spec : forall l fs is_,
  let '(r, fs', is') := export_loop l fs is_ in
  (r = Done <-> forallb (fun it => match it with IType _ => false | _ => true end) l = true) /\
  (r = Done -> fs' = fs ++ flat_map (fun it => match it with IFunction f => [f] | _ => [] end) l /\
               is' = is_ ++ flat_map (fun it => match it with IInterface i => [i] | _ => [] end) l).
Proof.
  induction l as [|[i|f|d] r IH]; intros fs is_; simpl.
  - split; [tauto|]. intros _. rewrite !app_nil_r. auto.
  - specialize (IH fs (is_ ++ [i])). destruct (export_loop r fs (is_ ++ [i])) as [[r0 f0] i0].
    destruct IH as [IH1 IH2]. split; [exact IH1|]. intros G. destruct (IH2 G) as [A B]. split; [exact A|].
    rewrite B, <- app_assoc. reflexivity.
  - specialize (IH (fs ++ [f]) is_). destruct (export_loop r (fs ++ [f]) is_) as [[r0 f0] i0].
    destruct IH as [IH1 IH2]. split; [exact IH1|]. intros G. destruct (IH2 G) as [A B]. split; [|exact B].
    rewrite A, <- app_assoc. reflexivity.
  - split; [split; discriminate | discriminate].
Qed.

Lemma forallb_ext : forall A (p q : A -> bool) l, (forall x, p x = q x) -> forallb p l = forallb q l.
Proof. intros A p q l H. induction l as [|x r IH]; simpl; [reflexivity|]. rewrite H, IH. reflexivity. Qed.

Lemma forallb_flat_map : forall A B (p : B -> bool) (f : A -> list B) l,
  forallb p (flat_map f l) = forallb (fun x => forallb p (f x)) l.
Proof. induction l as [|x r IH]; simpl; [reflexivity|]. rewrite forallb_app, IH. reflexivity. Qed.

Lemma nonempty_guard : forall A (f : list A -> res) (l : list A), f [] = Done ->
  (match l with [] => Done | _ => f l end) = f l.
Proof. intros A f [|x r] H; [symmetry; exact H | reflexivity]. Qed.

Lemma forallb_split3 : forall (l : list item) (p1 : iface -> bool) (p2 : func -> bool) (p3 : tdef -> bool),
  forallb (fun it => match it with IInterface i => p1 i | IFunction f => p2 f | IType d => p3 d end) l =
  forallb (fun it => match it with IInterface i => p1 i | _ => true end) l &&
  (forallb (fun it => match it with IType d => p3 d | _ => true end) l &&
   forallb (fun it => match it with IFunction f => p2 f | _ => true end) l).
Proof.
  induction l as [|[i|f|d] r IH]; intros; simpl; [reflexivity| | |]; rewrite IH.
  - destruct (p1 i); reflexivity.
  - destruct (p2 f); simpl; [reflexivity|]. rewrite !andb_false_r. reflexivity.
  - destruct (p3 d); simpl; [reflexivity|]. rewrite !andb_false_r. reflexivity.
Qed.

Theorem md_generate_done_iff : forall w, md_generate w = Done <-> world_ok w = true.
Proof.
  intros [imps exps]. unfold md_generate, generate, world_ok. simpl imports. simpl exports.
  simpl (preprocess md_world_gen). simpl (finish_imports md_world_gen). simpl (pre_export_interface md_world_gen).
  simpl (finish md_world_gen). simpl (import_types md_world_gen). simpl (import_funcs md_world_gen).
  simpl (export_funcs md_world_gen). simpl (export_interface md_world_gen).
  pose proof (import_loop_md imps [] []) as HI. destruct (import_loop md_world_gen imps [] []) as [[r ts] fs].
  pose proof (export_loop_spec exps [] []) as HE. destruct (export_loop exps [] []) as [[r2 efs] ifs].
  destruct HI as [HI1 HI2]. destruct HE as [HE1 HE2].
  rewrite (nonempty_guard _ (each md_define) ts eq_refl), (nonempty_guard _ (each md_func) fs eq_refl),
          (nonempty_guard _ (each md_func) efs eq_refl).
  unfold item_ok. rewrite (forallb_split3 imps iface_ok func_ok (fun d => negb false && def_ok d)).
  rewrite (forallb_split3 exps iface_ok func_ok (fun d => negb true && def_ok d)).
  simpl seq at 1. rewrite !seq_done.
  rewrite (each_done_b _ _ _ md_define_done_iff), !(each_done_b _ _ _ md_func_done_iff), (each_done_b _ _ _ md_interface_done_iff).
  assert (X1 : forall l, forallb def_ok (flat_map (fun it : item => match it with IType d => [d] | _ => [] end) l) =
                         forallb (fun it => match it with IType d => negb false && def_ok d | _ => true end) l).
  { intros l. rewrite forallb_flat_map. apply forallb_ext. intros [i|f|d]; simpl; try reflexivity. apply andb_true_r. }
  assert (X2 : forall l, forallb func_ok (flat_map (fun it : item => match it with IFunction f => [f] | _ => [] end) l) =
                         forallb (fun it => match it with IFunction f => func_ok f | _ => true end) l).
  { intros l. rewrite forallb_flat_map. apply forallb_ext. intros [i|f|d]; simpl; try reflexivity. apply andb_true_r. }
  assert (X3 : forall l, forallb iface_ok (flat_map (fun it : item => match it with IInterface i => [i] | _ => [] end) l) =
                         forallb (fun it => match it with IInterface i => iface_ok i | _ => true end) l).
  { intros l. rewrite forallb_flat_map. apply forallb_ext. intros [i|f|d]; simpl; try reflexivity. apply andb_true_r. }
  assert (X4 : forallb (fun it : item => match it with IType d => negb true && def_ok d | _ => true end) exps =
               forallb (fun it : item => match it with IType _ => false | _ => true end) exps).
  { apply forallb_ext. intros [i|f|d]; reflexivity. }
  rewrite X4, !andb_true_iff. split.
  - intros (A & B & C & D & E & F & _).
    destruct (HI2 A) as [-> ->]. destruct (HE2 D) as [-> ->]. simpl app in *.
    rewrite X1 in B. rewrite X2 in C, E. rewrite X3 in F.
    apply HI1 in A. apply HE1 in D. tauto.
  - intros ((A & B & C) & (F & D & E)).
    apply HI1 in A. apply HE1 in D. destruct (HI2 A) as [-> ->]. destruct (HE2 D) as [-> ->]. simpl app.
    rewrite X1, !X2, X3. tauto.
Qed.

(** * Partial totality: everything wit-parser can produce, minus the known classes *)
Lemma func_supported : forall f, func_shape f = true -> func_known f = false -> func_ok f = true.
Proof.
  intros f S K. unfold func_shape, func_known, func_ok, ty_ok in *.
  apply negb_false_iff in K. apply andb_true_iff in S. apply andb_true_iff in K.
  destruct S as [S1 S2], K as [K1 K2].
  rewrite (forallb_and2 _ _ _ _ S1 K1), (okopt_and _ _ _ S2 K2). reflexivity.
Qed.

Lemma def_supported : forall d, shape_def d = true -> def_known d = false -> def_ok d = true.
Proof. intros d S K. apply md_define_done_iff, md_define_supported; assumption. Qed.

Lemma existsb_false : forall A (p : A -> bool) l, existsb p l = false -> forall x, In x l -> p x = false.
Proof.
  intros A p l H x Hx. destruct (p x) eqn:E; [|reflexivity].
  assert (existsb p l = true) by (apply existsb_exists; eauto). congruence.
Qed.

Lemma iface_supported : forall i, iface_shape i = true -> iface_known i = false -> iface_ok i = true.
Proof.
  intros i S K. unfold iface_shape, iface_known, iface_ok in *.
  apply andb_true_iff in S. apply orb_false_iff in K. destruct S as [S1 S2], K as [K1 K2].
  rewrite forallb_forall in S1, S2. apply andb_true_iff; split; apply forallb_forall; intros x Hx.
  - apply def_supported; [apply S1, Hx | exact (existsb_false _ _ _ K1 x Hx)].
  - apply func_supported; [apply S2, Hx | exact (existsb_false _ _ _ K2 x Hx)].
Qed.

Lemma item_supported : forall e it, item_shape e it = true -> item_known it = false -> item_ok e it = true.
Proof.
  intros e [i|f|d] S K; simpl in *.
  - apply iface_supported; assumption.
  - apply func_supported; assumption.
  - apply andb_true_iff in S. destruct S as [S1 S2]. rewrite S1. simpl. apply def_supported; assumption.
Qed.

Theorem md_generate_supported : forall w, world_shape w = true -> world_known w = false -> md_generate w = Done.
Proof.
  intros w S K. apply md_generate_done_iff. unfold world_shape, world_known, world_ok in *.
  apply andb_true_iff in S. apply orb_false_iff in K. destruct S as [S1 S2], K as [K1 K2].
  rewrite forallb_forall in S1, S2. apply andb_true_iff; split; apply forallb_forall; intros x Hx.
  - apply item_supported; [apply S1, Hx | exact (existsb_false _ _ _ K1 x Hx)].
  - apply item_supported; [apply S2, Hx | exact (existsb_false _ _ _ K2 x Hx)].
Qed.

(** * Witnesses: the full statement is false (each is a valid WIT world; replayed on the real code by checks/c16.py) *)
Definition u8 := TPrim PU8.
(** [f: func(x: list<u8, 4>)] *)
Definition w_anon_fixed : world :=
  {| imports := [IFunction {| params := [TAnon (KFixedLengthList u8 4)]; result := None |}]; exports := [] |}.
(** [interface i { type t = future<u8>; }] imported *)
Definition w_named_future : world :=
  {| imports := [IInterface {| if_types := [{| td_named := true; td_kind := KFuture (Some u8) |}]; if_funcs := [] |}]; exports := [] |}.
Definition w_named_stream : world :=
  {| imports := [IInterface {| if_types := [{| td_named := true; td_kind := KStream None |}]; if_funcs := [] |}]; exports := [] |}.
(** [interface i { resource r; type t = own<r>; }] imported *)
Definition w_handle_alias : world :=
  {| imports := [IInterface {| if_types := [{| td_named := true; td_kind := KResource |};
                                             {| td_named := true; td_kind := KHandleOwn TNamed |}]; if_funcs := [] |}];
     exports := [] |}.

Theorem md_refuted_anon_fixed : world_shape w_anon_fixed = true /\ md_generate w_anon_fixed = Panic SitePrintTyFixedLengthList.
Proof. split; vm_compute; reflexivity. Qed.
Theorem md_refuted_named_future : world_shape w_named_future = true /\ md_generate w_named_future = Panic SiteMdTypeFuture.
Proof. split; vm_compute; reflexivity. Qed.
Theorem md_refuted_named_stream : world_shape w_named_stream = true /\ md_generate w_named_stream = Panic SiteMdTypeStream.
Proof. split; vm_compute; reflexivity. Qed.
Theorem md_refuted_handle_alias : world_shape w_handle_alias = true /\ md_generate w_handle_alias = Panic SiteDefineTypeHandle.
Proof. split; vm_compute; reflexivity. Qed.

(** Non-vacuity: a world exercising every supported constructor in every position is well shaped, outside the known
    classes, and handled. *)
Definition w_rich : world :=
  let big := TAnon (KTuple [TAnon (KOption (TAnon (KList (TPrim PString))));
                            TAnon (KResult (Some TNamed) (Some (TPrim PErrorContext)));
                            TAnon (KMap (TPrim PU32) (TAnon (KFuture (Some (TAnon (KStream None))))));
                            TAnon (KHandleBorrow TNamed); TAnon (KHandleOwn TNamed); TAnon (KType (TPrim PF64))]) in
  let defs := [ {| td_named := true; td_kind := KRecord [big; u8] |}; {| td_named := true; td_kind := KResource |};
                {| td_named := true; td_kind := KFlags |}; {| td_named := true; td_kind := KEnum |};
                {| td_named := true; td_kind := KVariant [None; Some big] |}; {| td_named := true; td_kind := KTuple [big] |};
                {| td_named := true; td_kind := KOption big |}; {| td_named := true; td_kind := KResult None (Some big) |};
                {| td_named := true; td_kind := KList big |}; {| td_named := true; td_kind := KMap u8 big |};
                {| td_named := true; td_kind := KFixedLengthList u8 4 |}; {| td_named := true; td_kind := KType big |} ] in
  let f := {| params := [big; TNamed]; result := Some big |} in
  {| imports := [IInterface {| if_types := defs; if_funcs := [f] |}; IType {| td_named := true; td_kind := KRecord [u8] |}; IFunction f];
     exports := [IFunction f; IInterface {| if_types := defs; if_funcs := [f] |}] |}.

Example w_rich_in_scope : world_shape w_rich = true /\ world_known w_rich = false /\ md_generate w_rich = Done.
Proof. repeat split; vm_compute; reflexivity. Qed.
