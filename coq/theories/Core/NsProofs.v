(** Proofs about the Ns model (property C26). *)
From Coq Require Import List String Ascii NArith Bool DecimalString DecimalN DecimalPos Lia Arith FinFun.
From WB Require Import Core.Ns.
Import ListNotations.
Local Open Scope string_scope.

Lemma smem_In s l : smem s l = true <-> In s l.
Proof.
  unfold smem. rewrite existsb_exists. split.
  - intros [x [Hx He]]. apply String.eqb_eq in He. subst. exact Hx.
  - intros H. exists s. split; [exact H | apply String.eqb_refl].
Qed.

Lemma smem_false s l : smem s l = false <-> ~ In s l.
Proof.
  rewrite <- smem_In. destruct (smem s l); split; intros H; congruence.
Qed.

(** * Decimal rendering is injective and non-empty *)

Lemma to_uint_nonnil n : N.to_uint n <> Decimal.Nil.
Proof.
  destruct n as [|p]; [discriminate|]. apply DecimalPos.Unsigned.to_uint_nonnil.
Qed.

Lemma dec_inj a b : dec a = dec b -> a = b.
Proof.
  unfold dec. intros H.
  assert (Ha := NilZero.usu (N.to_uint a) (to_uint_nonnil a)).
  assert (Hb := NilZero.usu (N.to_uint b) (to_uint_nonnil b)).
  rewrite H in Ha. rewrite Ha in Hb. injection Hb as Hb.
  apply (f_equal N.of_uint) in Hb. rewrite !DecimalN.Unsigned.of_to in Hb. exact Hb.
Qed.

Lemma dec_nonempty a : dec a <> "".
Proof.
  unfold dec. intro H.
  assert (Ha := NilZero.usu (N.to_uint a) (to_uint_nonnil a)).
  rewrite H in Ha. simpl in Ha. discriminate.
Qed.

Lemma append_inj_l p a b : p ++ a = p ++ b -> a = b.
Proof. induction p as [|c p IH]; simpl; intros H; [exact H|]. injection H as H. auto. Qed.

Lemma append_nil_r_only p a : p = p ++ a -> a = "".
Proof.
  induction p as [|c p IH]; simpl; intros H; [symmetry; exact H|]. injection H as H. auto.
Qed.

(** * The loop *)

(** Candidates examined after the first one. *)
Definition cand (name : string) (t : N) (i : nat) : string := name ++ dec (t + N.of_nat i).

Lemma tmp_loop_some fuel name d t ret r t' :
  tmp_loop fuel name d t ret = Some (r, t') -> smem r d = false.
Proof.
  revert t ret. induction fuel as [|f IH]; cbn [tmp_loop]; intros t ret H; [discriminate|].
  destruct (smem ret d) eqn:E.
  - eapply IH; eauto.
  - injection H as <- <-. exact E.
Qed.

Lemma tmp_loop_none fuel name d t ret :
  tmp_loop fuel name d t ret = None ->
  forall i, (i < fuel)%nat ->
     In (match i with O => ret | S j => cand name t j end) d.
Proof.
  revert t ret. induction fuel as [|f IH]; cbn [tmp_loop]; intros t ret H i Hi; [lia|].
  destruct (smem ret d) eqn:E; [|discriminate].
  destruct i as [|j].
  - apply smem_In; exact E.
  - specialize (IH _ _ H j ltac:(lia)). destruct j as [|k].
    + unfold cand. replace (t + N.of_nat 0)%N with t by lia. exact IH.
    + unfold cand in *. replace (t + N.of_nat (S k))%N with (N.succ t + N.of_nat k)%N by lia.
      exact IH.
Qed.

Lemma cand_inj name t i j : cand name t i = cand name t j -> i = j.
Proof. unfold cand. intros H. apply append_inj_l, dec_inj in H. lia. Qed.

Lemma cand_not_name name t i : name <> cand name t i.
Proof. unfold cand. intro H. apply append_nil_r_only in H. revert H. apply dec_nonempty. Qed.

Lemma NoDup_cands name t n : NoDup (map (cand name t) (seq 0 n)).
Proof.
  apply FinFun.Injective_map_NoDup.
  - intros i j. apply cand_inj.
  - apply seq_NoDup.
Qed.

(** Fuel |d|+1 is always enough (pigeonhole). *)
Lemma tmp_loop_fuel_enough name d t :
  tmp_loop (S (List.length d)) name d t name <> None.
Proof.
  intro H. pose proof (tmp_loop_none _ _ _ _ _ H) as Hall.
  set (cs := name :: map (cand name t) (seq 0 (List.length d))).
  assert (Hnd : NoDup cs).
  { constructor; [|apply NoDup_cands].
    intro Hin. apply in_map_iff in Hin. destruct Hin as [i [Hi _]].
    symmetry in Hi. revert Hi. apply cand_not_name. }
  assert (Hincl : incl cs d).
  { intros x [Hx|Hx].
    - subst x. apply (Hall 0%nat). lia.
    - apply in_map_iff in Hx. destruct Hx as [i [<- Hi]]. apply in_seq in Hi.
      apply (Hall (S i)). lia. }
  pose proof (NoDup_incl_length Hnd Hincl) as Hlen.
  unfold cs in Hlen. cbn [List.length] in Hlen. rewrite map_length, seq_length in Hlen. lia.
Qed.

Lemma ns_tmp_total s name : ns_tmp s name <> None.
Proof.
  unfold ns_tmp. pose proof (tmp_loop_fuel_enough name (defined s) (tmpc s)) as H.
  destruct (tmp_loop _ _ _ _ _) as [[r t]|]; congruence.
Qed.

Lemma ns_tmp_fresh s name s' r :
  ns_tmp s name = Some (s', r) -> ~ In r (defined s) /\ defined s' = r :: defined s.
Proof.
  unfold ns_tmp. destruct (tmp_loop _ _ _ _ _) as [[r0 t]|] eqn:E; [|discriminate].
  intros H. injection H as <- <-. split; [|reflexivity].
  apply smem_false. eapply tmp_loop_some; eauto.
Qed.

(** * Histories *)

(** Names "previously defined or handed out": every name given to [insert] plus every name
    returned by [tmp]. *)
Fixpoint known (ops : list nsop) (outs : list nsout) : list string :=
  match ops, outs with
  | Insert n :: ops', _ :: outs' => n :: known ops' outs'
  | Tmp _ :: ops', TmpName r :: outs' => r :: known ops' outs'
  | _ :: ops', _ :: outs' => known ops' outs'
  | _, _ => []
  end.

Definition verdict (K : list string) (o : nsop) (r : nsout) : Prop :=
  match o, r with
  | Tmp _, TmpName x => ~ In x K
  | Insert n, InsOk => ~ In n K
  | Insert n, InsErr => In n K
  | _, _ => False
  end.

Lemma ns_run_length s ops : List.length (ns_run s ops) = List.length ops.
Proof.
  revert s; induction ops as [|o ops IH]; intros s; cbn [ns_run]; [reflexivity|].
  destruct (ns_step s o) as [s' out]. cbn [List.length]. f_equal. apply IH.
Qed.

(** Generalised statement: from any state whose [defined] set equals the known names [K0]. *)
Lemma ns_run_verdict : forall pre s K0 o post,
  (forall x, In x (defined s) <-> In x K0) ->
  let outs := ns_run s (pre ++ o :: post) in
  verdict (K0 ++ known pre (firstn (List.length pre) outs)) o (nth (List.length pre) outs OutOfFuel).
Proof.
  induction pre as [|p pre IH]; intros s K0 o post HK.
  - cbn [app List.length firstn nth ns_run known]. rewrite app_nil_r.
    destruct (ns_step s o) as [s' out] eqn:E. cbn [nth].
    destruct o as [n|n]; cbn [ns_step] in E.
    + unfold ns_insert in E. destruct (smem n (defined s)) eqn:M; injection E as <- <-; cbn [verdict].
      * apply HK, smem_In, M.
      * intro Hin. apply HK in Hin. apply smem_false in M. auto.
    + destruct (ns_tmp s n) as [[s1 r]|] eqn:T.
      * injection E as <- <-. cbn [verdict]. apply ns_tmp_fresh in T. destruct T as [T _].
        intro Hin. apply HK in Hin. auto.
      * exfalso. revert T. apply ns_tmp_total.
  - cbn [app List.length ns_run]. destruct (ns_step s p) as [s' out] eqn:E.
    cbn [firstn nth].
    assert (Hstep : exists K1, (forall x, In x (defined s') <-> In x (K0 ++ K1)%list) /\
              forall ops' outs', known (p :: ops') (out :: outs') = (K1 ++ known ops' outs')%list).
    { destruct p as [n|n]; cbn [ns_step] in E.
      - exists [n]. split; [|reflexivity].
        unfold ns_insert in E. destruct (smem n (defined s)) eqn:M; injection E as <- <-; intros x;
          rewrite in_app_iff; cbn [In defined].
        + rewrite HK. apply smem_In in M. apply HK in M. split; [tauto|].
          intros [H|[<-|[]]]; auto.
        + rewrite HK. tauto.
      - destruct (ns_tmp s n) as [[s1 r]|] eqn:T.
        + injection E as <- <-. exists [r]. split; [|reflexivity].
          apply ns_tmp_fresh in T. destruct T as [_ T]. intros x. rewrite T, in_app_iff.
          cbn [In]. rewrite HK. tauto.
        + exfalso. revert T. apply ns_tmp_total. }
    destruct Hstep as [K1 [HK1 Hkn]]. rewrite Hkn, app_assoc.
    apply (IH s' (K0 ++ K1)%list o post HK1).
Qed.

Theorem ns_history_correct : forall pre o post,
  let outs := ns_run ns_init (pre ++ o :: post) in
  verdict (known pre (firstn (List.length pre) outs)) o (nth (List.length pre) outs OutOfFuel).
Proof.
  intros pre o post. apply (ns_run_verdict pre ns_init [] o post).
  intros x. cbn. tauto.
Qed.

(** Non-vacuity: a concrete history in which base+digits names collide. *)
Example ns_example :
  ns_run ns_init [Insert "a0"; Insert "a"; Tmp "a"; Tmp "a"; Insert "a1"; Tmp "b"; Insert "b"]
  = [InsOk; InsOk; TmpName "a1"; TmpName "a2"; InsErr; TmpName "b"; InsErr].
Proof. vm_compute. reflexivity. Qed.
