(** C25: basic facts about the text functions of Core.Source / Core.SourceSpec. *)
From Coq Require Import List Ascii Bool Arith Lia.
From WB Require Import Core.Source Core.SourceSpec.
Import ListNotations.

(** ** white space, spaces *)
Lemma drop_ws_idem l : drop_ws (drop_ws l) = drop_ws l.
Proof.
  induction l as [|c r IH]; simpl; auto.
  destruct (is_ws c) eqn:E; auto. simpl. rewrite E. reflexivity.
Qed.

Lemma all_ws_drop_ws l : all_ws (drop_ws l) = all_ws l.
Proof.
  induction l as [|c r IH]; simpl; auto.
  destruct (is_ws c) eqn:E; simpl; auto. rewrite E. reflexivity.
Qed.

Lemma drop_ws_no_lead l : no_lead_ws l = true -> drop_ws l = l.
Proof. destruct l as [|c r]; simpl; auto. destruct (is_ws c); simpl; congruence. Qed.

Lemma drop_ws_all_ws l : all_ws l = true -> drop_ws l = [].
Proof.
  induction l as [|c r IH]; simpl; auto. destruct (is_ws c); simpl; auto. discriminate.
Qed.

Lemma is_ws_SP : is_ws SP = true.
Proof. reflexivity. Qed.

Lemma spaces_S n : spaces (S n) = SP :: spaces n.
Proof. reflexivity. Qed.

Lemma spaces_2S n : spaces (2 * S n) = SP :: SP :: spaces (2 * n).
Proof. replace (2 * S n) with (S (S (2 * n))) by lia. reflexivity. Qed.

Lemma rev_spaces n : rev (spaces n) = spaces n.
Proof.
  unfold spaces. induction n; simpl; auto. rewrite IHn.
  clear IHn. induction n; simpl; auto. f_equal. exact IHn.
Qed.

Lemma has_lf_spaces n : has_lf (spaces n) = false.
Proof. induction n; simpl; auto. Qed.

Lemma all_ws_spaces n : all_ws (spaces n) = true.
Proof. induction n; simpl; auto. Qed.

Lemma has_lf_app a b : has_lf (a ++ b) = has_lf a || has_lf b.
Proof. unfold has_lf. apply existsb_app. Qed.

Lemma has_lf_drop_ws l : has_lf l = false -> has_lf (drop_ws l) = false.
Proof.
  induction l as [|c r IH]; simpl; auto. intro H. apply orb_false_iff in H as [H1 H2].
  destruct (is_ws c); auto. simpl. rewrite H1, H2. reflexivity.
Qed.

(** ** strip_lead / bol_after *)
Lemma strip_app b x y : strip_lead b (x ++ y) = strip_lead b x ++ strip_lead (bol_after b x) y.
Proof.
  revert b. induction x as [|c r IH]; intro b; simpl; auto.
  destruct (Ascii.eqb c LF). { rewrite IH. reflexivity. }
  destruct (b && is_ws c); simpl; rewrite IH; reflexivity.
Qed.

Lemma bol_app b x y : bol_after b (x ++ y) = bol_after (bol_after b x) y.
Proof.
  revert b. induction x as [|c r IH]; intro b; simpl; auto.
  destruct (Ascii.eqb c LF); apply IH.
Qed.

Lemma strip_false_nolf l : has_lf l = false -> strip_lead false l = l.
Proof.
  induction l as [|c r IH]; simpl; auto. intro H. apply orb_false_iff in H as [H1 H2].
  rewrite H1. simpl. rewrite IH; auto.
Qed.

Lemma strip_true_nolf l : has_lf l = false -> strip_lead true l = drop_ws l.
Proof.
  induction l as [|c r IH]; simpl; auto. intro H. apply orb_false_iff in H as [H1 H2].
  rewrite H1. destruct (is_ws c); auto. rewrite strip_false_nolf; auto.
Qed.

Lemma bol_false_nolf l : has_lf l = false -> bol_after false l = false.
Proof.
  induction l as [|c r IH]; simpl; auto. intro H. apply orb_false_iff in H as [H1 H2].
  rewrite H1. auto.
Qed.

Lemma bol_true_nolf l : has_lf l = false -> bol_after true l = all_ws l.
Proof.
  induction l as [|c r IH]; simpl; auto. intro H. apply orb_false_iff in H as [H1 H2].
  rewrite H1. destruct (is_ws c); simpl; auto. apply bol_false_nolf; auto.
Qed.

Lemma strip_nolf b l : has_lf l = false -> strip_lead b l = if b then drop_ws l else l.
Proof. destruct b; [apply strip_true_nolf | apply strip_false_nolf]. Qed.

Lemma bol_nolf b l : has_lf l = false -> bol_after b l = b && all_ws l.
Proof. destruct b; [apply bol_true_nolf | apply bol_false_nolf]. Qed.

(** ** the reversed buffer *)
Lemma as_str_push x b i c k : as_str (mkSource (rev x ++ b) i c k) = rev b ++ x.
Proof. unfold as_str. simpl. rewrite rev_app_distr, rev_involutive. reflexivity. Qed.

Lemma ends2sp_inv rb : ends2sp rb = true -> exists r, rb = SP :: SP :: r.
Proof.
  destruct rb as [|a [|b r]]; simpl; try discriminate. intro H.
  apply andb_true_iff in H as [H1 H2]. apply Ascii.eqb_eq in H1, H2. subst. eauto.
Qed.

(** ** split_nl, rust_lines *)
Lemma split_nl_nonempty s : split_nl s <> [].
Proof.
  destruct s as [|c r]; simpl; try discriminate.
  destruct (Ascii.eqb c LF); try discriminate. destruct (split_nl r); discriminate.
Qed.

Lemma ends_with_lf_cons c r : ends_with_lf (c :: r) = if is_nil r then Ascii.eqb c LF else ends_with_lf r.
Proof.
  unfold ends_with_lf, ends_with_c. destruct r as [|d r']; simpl; auto.
  destruct (rev r' ++ [d]) eqn:E.
  - destruct (rev r'); discriminate.
  - reflexivity.
Qed.

Lemma ends_with_lf_nolf s : has_lf s = false -> ends_with_lf s = false.
Proof.
  induction s as [|c r IH]; auto. simpl. intro H. apply orb_false_iff in H as [H1 H2].
  rewrite ends_with_lf_cons. destruct r; simpl; auto.
Qed.

Lemma split_single r l : split_nl r = [l] -> r = l /\ has_lf r = false.
Proof.
  revert l. induction r as [|c r IH]; simpl; intros l H.
  - inversion H. auto.
  - destruct (Ascii.eqb c LF) eqn:E.
    + inversion H. exfalso. eapply split_nl_nonempty; eauto.
    + destruct (split_nl r) as [|l0 ls0] eqn:S. { exfalso. eapply split_nl_nonempty; eauto. }
      inversion H; subst. destruct (IH l0 eq_refl) as [-> Hl]. simpl. rewrite Hl. auto.
Qed.

Lemma split_nl_nolf s : Forall (fun l => has_lf l = false) (split_nl s).
Proof.
  induction s as [|c r IH]; simpl. { constructor; auto. }
  destruct (Ascii.eqb c LF) eqn:E. { constructor; auto. }
  destruct (split_nl r) as [|l ls]; inversion IH; subst; constructor; auto; simpl; rewrite E; simpl; auto.
Qed.

Lemma split_nl_nocr s : has_cr s = false -> Forall (fun l => has_cr l = false) (split_nl s).
Proof.
  induction s as [|c r IH]; simpl; intro H. { constructor; auto. }
  apply orb_false_iff in H as [H1 H2]. specialize (IH H2).
  destruct (Ascii.eqb c LF) eqn:E. { constructor; auto. }
  destruct (split_nl r) as [|l ls]; inversion IH; subst; constructor; auto; simpl; rewrite H1; simpl; auto.
Qed.

Lemma strip_cr_nocr l : has_cr l = false -> strip_cr l = l.
Proof.
  unfold strip_cr. intro H. destruct (rev l) as [|c r] eqn:E; auto.
  destruct (Ascii.eqb c CR) eqn:Ec; auto. exfalso.
  assert (In c l) as Hin. { apply in_rev. rewrite E. left. reflexivity. }
  unfold has_cr in H. assert (existsb (fun c => Ascii.eqb c CR) l = true); [|congruence].
  apply existsb_exists. eauto.
Qed.

Lemma has_lf_strip_cr l : has_lf l = false -> has_lf (strip_cr l) = false.
Proof.
  unfold strip_cr. intro H. destruct (rev l) as [|c r] eqn:E; auto.
  destruct (Ascii.eqb c CR); auto.
  assert (l = rev r ++ [c]) as ->. { rewrite <- (rev_involutive l), E. reflexivity. }
  rewrite has_lf_app in H. apply orb_false_iff in H. tauto.
Qed.

Lemma rust_lines_of_nolf ls : Forall (fun l => has_lf l = false) ls ->
  Forall (fun l => has_lf l = false) (rust_lines_of ls).
Proof.
  induction ls as [|l rest IH]; simpl; intro H; auto. inversion H; subst.
  destruct rest as [|l2 rest2].
  - destruct (is_nil l); constructor; auto.
  - constructor; auto. apply has_lf_strip_cr; auto.
Qed.

Lemma rust_lines_nolf f : Forall (fun l => has_lf l = false) (rust_lines f).
Proof. apply rust_lines_of_nolf, split_nl_nolf. Qed.

(** a fragment is the concatenation of its lines and the newlines [push_str_impl] emits *)
Fixpoint join_tail (endnl : bool) (ls : list text) : text :=
  match ls with
  | [] => if endnl then [LF] else []
  | l :: rest => LF :: l ++ join_tail endnl rest
  end.
Definition join_lines (endnl : bool) (ls : list text) : text :=
  match ls with [] => [] | l :: rest => l ++ join_tail endnl rest end.

Lemma rust_lines_nil r : rust_lines r = [] -> r = [].
Proof.
  unfold rust_lines. destruct (split_nl r) as [|l0 [|l1 ls]] eqn:S; simpl.
  - intros _. exfalso. eapply split_nl_nonempty; eauto.
  - destruct l0; simpl; try discriminate. intros _. apply split_single in S. tauto.
  - discriminate.
Qed.

Lemma join_rust_lines f : has_cr f = false -> join_lines (ends_with_lf f) (rust_lines f) = f.
Proof.
  induction f as [|c r IH]; intro Hcr; auto.
  simpl in Hcr. apply orb_false_iff in Hcr as [Hc Hcr]. specialize (IH Hcr).
  rewrite ends_with_lf_cons. unfold rust_lines in *. simpl.
  pose proof (split_nl_nocr r Hcr) as Hn.
  destruct (split_nl r) as [|l0 ls0] eqn:S. { exfalso. eapply split_nl_nonempty; eauto. }
  destruct (Ascii.eqb c LF) eqn:E.
  - apply Ascii.eqb_eq in E. subst c.
    change (rust_lines_of ([] :: l0 :: ls0)) with (strip_cr [] :: rust_lines_of (l0 :: ls0)).
    change (strip_cr []) with (@nil ascii).
    destruct (rust_lines_of (l0 :: ls0)) as [|x xs] eqn:R.
    + assert (r = []) as ->. { apply rust_lines_nil. unfold rust_lines. rewrite S. exact R. }
      reflexivity.
    + destruct r as [|d r']. { simpl in S. inversion S; subst. discriminate. }
      simpl (is_nil _). cbv iota. simpl. f_equal. exact IH.
  - destruct ls0 as [|l1 ls1].
    + apply split_single in S as [-> Hl]. simpl.
      destruct l0; simpl; auto.
      rewrite (ends_with_lf_nolf _ Hl). rewrite app_nil_r. reflexivity.
    + change (rust_lines_of ((c :: l0) :: l1 :: ls1)) with (strip_cr (c :: l0) :: rust_lines_of (l1 :: ls1)).
      change (rust_lines_of (l0 :: l1 :: ls1)) with (strip_cr l0 :: rust_lines_of (l1 :: ls1)) in IH.
      inversion Hn; subst.
      rewrite strip_cr_nocr in *; auto; [| simpl; rewrite Hc; auto].
      destruct r as [|d r']. { simpl in S. inversion S. }
      simpl (is_nil _). cbv iota. simpl in *. f_equal. exact IH.
Qed.
