(** Links between the specification notions of TypesEqSpec and their executable twins. *)
From Coq Require Import List String Bool Arith NArith Lia.
From WB Require Import Core.TypesEq Core.TypesEqSpec Core.TypesEqWf.
Import ListNotations.

(* ------------------------------------------------------------------------------------------ *)
(** * 1. [tree_eqb] decides equality of trees *)

Definition optP (P : tree -> Prop) (o : option tree) : Prop :=
  match o with Some t => P t | None => True end.

Section TreeInd.
  Variable P : tree -> Prop.
  Hypothesis HPrim : forall p, P (XPrim p).
  Hypothesis HRecord : forall fs, Forall (fun p => P (snd p)) fs -> P (XRecord fs).
  Hypothesis HResource : forall i, P (XResource i).
  Hypothesis HOwn : forall r, P r -> P (XOwn r).
  Hypothesis HBorrow : forall r, P r -> P (XBorrow r).
  Hypothesis HFlags : forall ns, P (XFlags ns).
  Hypothesis HTuple : forall ts, Forall P ts -> P (XTuple ts).
  Hypothesis HVariant : forall cs, Forall (fun p => optP P (snd p)) cs -> P (XVariant cs).
  Hypothesis HEnum : forall ns, P (XEnum ns).
  Hypothesis HOption : forall t, P t -> P (XOption t).
  Hypothesis HResult : forall a b, optP P a -> optP P b -> P (XResult a b).
  Hypothesis HList : forall t, P t -> P (XList t).
  Hypothesis HFixed : forall t n, P t -> P (XFixed t n).
  Hypothesis HMap : forall k v, P k -> P v -> P (XMap k v).
  Hypothesis HFuture : forall o, optP P o -> P (XFuture o).
  Hypothesis HStream : forall o, optP P o -> P (XStream o).
  Hypothesis HBad : P XBad.

  Fixpoint tree_ind' (x : tree) : P x :=
    match x as x0 return P x0 with
    | XPrim p => HPrim p
    | XRecord fs =>
        HRecord fs
          ((fix go (l : list (string * tree)) : Forall (fun p => P (snd p)) l :=
              match l as l0 return Forall (fun p => P (snd p)) l0 with
              | [] => Forall_nil _
              | p :: r => @Forall_cons _ (fun p => P (snd p)) p r (tree_ind' (snd p)) (go r)
              end) fs)
    | XResource i => HResource i
    | XOwn r => HOwn r (tree_ind' r)
    | XBorrow r => HBorrow r (tree_ind' r)
    | XFlags ns => HFlags ns
    | XTuple ts =>
        HTuple ts
          ((fix go (l : list tree) : Forall P l :=
              match l as l0 return Forall P l0 with
              | [] => Forall_nil _
              | t :: r => @Forall_cons _ P t r (tree_ind' t) (go r)
              end) ts)
    | XVariant cs =>
        HVariant cs
          ((fix go (l : list (string * option tree)) : Forall (fun p => optP P (snd p)) l :=
              match l as l0 return Forall (fun p => optP P (snd p)) l0 with
              | [] => Forall_nil _
              | p :: r =>
                  @Forall_cons _ (fun p => optP P (snd p)) p r
                    (match snd p as o return optP P o with
                     | Some t => tree_ind' t
                     | None => I
                     end) (go r)
              end) cs)
    | XEnum ns => HEnum ns
    | XOption t => HOption t (tree_ind' t)
    | XResult a b =>
        HResult a b
          (match a as o return optP P o with Some t => tree_ind' t | None => I end)
          (match b as o return optP P o with Some t => tree_ind' t | None => I end)
    | XList t => HList t (tree_ind' t)
    | XFixed t n => HFixed t n (tree_ind' t)
    | XMap k v => HMap k v (tree_ind' k) (tree_ind' v)
    | XFuture o =>
        HFuture o (match o as o0 return optP P o0 with Some t => tree_ind' t | None => I end)
    | XStream o =>
        HStream o (match o as o0 return optP P o0 with Some t => tree_ind' t | None => I end)
    | XBad => HBad
    end.
End TreeInd.

Lemma prim_eqb_iff p q : prim_eqb p q = true <-> p = q.
Proof. destruct p, q; cbn; split; intros H; try reflexivity; discriminate H. Qed.

Lemma list_eqb_ok {A} (e : A -> A -> bool) l1 :
  Forall (fun x => forall y, e x y = true <-> x = y) l1 ->
  forall l2, list_eqb e l1 l2 = true <-> l1 = l2.
Proof.
  induction 1 as [|x l Hx _ IH]; intros [|y l2]; cbn [list_eqb];
    try (split; [discriminate | congruence]); try (split; congruence).
  rewrite andb_true_iff, Hx, IH. split; [intros [-> ->]; reflexivity | intros E; injection E; auto].
Qed.

Lemma strlist_eqb_ok (l1 l2 : list string) : list_eqb String.eqb l1 l2 = true <-> l1 = l2.
Proof.
  apply list_eqb_ok. apply Forall_forall. intros x _ y. apply String.eqb_eq.
Qed.

Lemma opt_eqb_ok (e : tree -> tree -> bool) a :
  optP (fun x => forall y, e x y = true <-> x = y) a ->
  forall b, opt_eqb e a b = true <-> a = b.
Proof.
  destruct a as [x|]; cbn [optP opt_eqb]; intros H [y|];
    try (split; [discriminate | congruence]); try (split; congruence).
  rewrite H. split; congruence.
Qed.

Section ListEq.
  Variable e : tree -> tree -> bool.

  Fixpoint rec_eqb (l1 l2 : list (string * tree)) : bool :=
    match l1, l2 with
    | [], [] => true
    | p :: r1, q :: r2 => String.eqb (fst p) (fst q) && e (snd p) (snd q) && rec_eqb r1 r2
    | _, _ => false
    end.

  Fixpoint tup_eqb (l1 l2 : list tree) : bool :=
    match l1, l2 with
    | [], [] => true
    | p :: r1, q :: r2 => e p q && tup_eqb r1 r2
    | _, _ => false
    end.

  Fixpoint var_eqb (l1 l2 : list (string * option tree)) : bool :=
    match l1, l2 with
    | [], [] => true
    | p :: r1, q :: r2 =>
        String.eqb (fst p) (fst q) && opt_eqb e (snd p) (snd q) && var_eqb r1 r2
    | _, _ => false
    end.

  Lemma rec_eqb_ok l1 :
    Forall (fun p => forall y, e (snd p) y = true <-> snd p = y) l1 ->
    forall l2, rec_eqb l1 l2 = true <-> l1 = l2.
  Proof.
    induction 1 as [|[n x] l Hx _ IH]; intros [|[m y] l2]; cbn [rec_eqb fst snd] in *;
      try (split; [discriminate | congruence]); try (split; congruence).
    rewrite !andb_true_iff, String.eqb_eq, Hx, IH.
    split; [intros [[-> ->] ->]; reflexivity | intros E; injection E; auto].
  Qed.

  Lemma tup_eqb_ok l1 :
    Forall (fun x => forall y, e x y = true <-> x = y) l1 ->
    forall l2, tup_eqb l1 l2 = true <-> l1 = l2.
  Proof.
    induction 1 as [|x l Hx _ IH]; intros [|y l2]; cbn [tup_eqb];
      try (split; [discriminate | congruence]); try (split; congruence).
    rewrite andb_true_iff, Hx, IH. split; [intros [-> ->]; reflexivity | intros E; injection E; auto].
  Qed.

  Lemma var_eqb_ok l1 :
    Forall (fun p => optP (fun x => forall y, e x y = true <-> x = y) (snd p)) l1 ->
    forall l2, var_eqb l1 l2 = true <-> l1 = l2.
  Proof.
    induction 1 as [|[n x] l Hx _ IH]; intros [|[m y] l2]; cbn [var_eqb fst snd] in *;
      try (split; [discriminate | congruence]); try (split; congruence).
    rewrite !andb_true_iff, String.eqb_eq, (opt_eqb_ok e x Hx), IH.
    split; [intros [[-> ->] ->]; reflexivity | intros E; injection E; auto].
  Qed.
End ListEq.

Lemma tree_eqb_record f1 f2 : tree_eqb (XRecord f1) (XRecord f2) = rec_eqb tree_eqb f1 f2.
Proof. reflexivity. Qed.
Lemma tree_eqb_tuple f1 f2 : tree_eqb (XTuple f1) (XTuple f2) = tup_eqb tree_eqb f1 f2.
Proof. reflexivity. Qed.
Lemma tree_eqb_variant f1 f2 : tree_eqb (XVariant f1) (XVariant f2) = var_eqb tree_eqb f1 f2.
Proof. reflexivity. Qed.
Lemma tree_eqb_result a1 b1 a2 b2 :
  tree_eqb (XResult a1 b1) (XResult a2 b2) = opt_eqb tree_eqb a1 a2 && opt_eqb tree_eqb b1 b2.
Proof. reflexivity. Qed.
Lemma tree_eqb_future a1 a2 : tree_eqb (XFuture a1) (XFuture a2) = opt_eqb tree_eqb a1 a2.
Proof. reflexivity. Qed.
Lemma tree_eqb_stream a1 a2 : tree_eqb (XStream a1) (XStream a2) = opt_eqb tree_eqb a1 a2.
Proof. reflexivity. Qed.

Lemma tree_eqb_eq : forall x y, tree_eqb x y = true <-> x = y.
Proof.
  apply (tree_ind' (fun x => forall y, tree_eqb x y = true <-> x = y)).
  - (* XPrim *) intros p y. destruct y; try (split; [cbn [tree_eqb]; discriminate | discriminate]).
    cbn [tree_eqb]. rewrite prim_eqb_iff. split; congruence.
  - (* XRecord *) intros fs H y. destruct y; try (split; [cbn [tree_eqb]; discriminate | discriminate]).
    rewrite tree_eqb_record, (rec_eqb_ok tree_eqb fs H). split; congruence.
  - (* XResource *) intros i y. destruct y; try (split; [cbn [tree_eqb]; discriminate | discriminate]).
    cbn [tree_eqb]. rewrite Nat.eqb_eq. split; congruence.
  - (* XOwn *) intros r H y. destruct y; try (split; [cbn [tree_eqb]; discriminate | discriminate]).
    cbn [tree_eqb]. rewrite H. split; congruence.
  - (* XBorrow *) intros r H y. destruct y; try (split; [cbn [tree_eqb]; discriminate | discriminate]).
    cbn [tree_eqb]. rewrite H. split; congruence.
  - (* XFlags *) intros ns y. destruct y; try (split; [cbn [tree_eqb]; discriminate | discriminate]).
    cbn [tree_eqb]. rewrite strlist_eqb_ok. split; congruence.
  - (* XTuple *) intros ts H y. destruct y; try (split; [cbn [tree_eqb]; discriminate | discriminate]).
    rewrite tree_eqb_tuple, (tup_eqb_ok tree_eqb ts H). split; congruence.
  - (* XVariant *) intros cs H y. destruct y; try (split; [cbn [tree_eqb]; discriminate | discriminate]).
    rewrite tree_eqb_variant, (var_eqb_ok tree_eqb cs H). split; congruence.
  - (* XEnum *) intros ns y. destruct y; try (split; [cbn [tree_eqb]; discriminate | discriminate]).
    cbn [tree_eqb]. rewrite strlist_eqb_ok. split; congruence.
  - (* XOption *) intros t H y. destruct y; try (split; [cbn [tree_eqb]; discriminate | discriminate]).
    cbn [tree_eqb]. rewrite H. split; congruence.
  - (* XResult *) intros a b Ha Hb y.
    destruct y; try (split; [cbn [tree_eqb]; discriminate | discriminate]).
    rewrite tree_eqb_result, andb_true_iff, (opt_eqb_ok tree_eqb a Ha), (opt_eqb_ok tree_eqb b Hb).
    split; [intros [-> ->]; reflexivity | intros E; injection E; auto].
  - (* XList *) intros t H y. destruct y; try (split; [cbn [tree_eqb]; discriminate | discriminate]).
    cbn [tree_eqb]. rewrite H. split; congruence.
  - (* XFixed *) intros t n H y. destruct y; try (split; [cbn [tree_eqb]; discriminate | discriminate]).
    cbn [tree_eqb]. rewrite andb_true_iff, H, N.eqb_eq.
    split; [intros [-> ->]; reflexivity | intros E; injection E; auto].
  - (* XMap *) intros k v Hk Hv y.
    destruct y; try (split; [cbn [tree_eqb]; discriminate | discriminate]).
    cbn [tree_eqb]. rewrite andb_true_iff, Hk, Hv.
    split; [intros [-> ->]; reflexivity | intros E; injection E; auto].
  - (* XFuture *) intros o H y. destruct y; try (split; [cbn [tree_eqb]; discriminate | discriminate]).
    rewrite tree_eqb_future, (opt_eqb_ok tree_eqb o H). split; congruence.
  - (* XStream *) intros o H y. destruct y; try (split; [cbn [tree_eqb]; discriminate | discriminate]).
    rewrite tree_eqb_stream, (opt_eqb_ok tree_eqb o H). split; congruence.
  - (* XBad *) intros y. destruct y; try (split; [cbn [tree_eqb]; discriminate | discriminate]).
    cbn [tree_eqb]. split; reflexivity.
Qed.

(* ------------------------------------------------------------------------------------------ *)
(** * 2-3. [struct_eqb], [seqb] *)

Lemma struct_eqb_ok : forall T a b, struct_eqb T a b = true <-> struct_eq T a b.
Proof. intros T a b. unfold struct_eqb, struct_eq. apply tree_eqb_eq. Qed.

Lemma expansions_length T : List.length (expansions T) = List.length T.
Proof. unfold expansions. rewrite map_length, seq_length. reflexivity. Qed.

Lemma nth_expansions T a : a < List.length T -> nth a (expansions T) XBad = xp T (TId a).
Proof.
  intros H. unfold expansions.
  transitivity (nth a (map (fun i => xp T (TId i)) (seq 0 (List.length T)))
                    ((fun i => xp T (TId i)) 0)).
  - apply nth_indep. rewrite map_length, seq_length. exact H.
  - pose proof (map_nth (fun i => xp T (TId i)) (seq 0 (List.length T)) 0 a) as E.
    rewrite seq_nth in E by exact H. exact E.
Qed.

Lemma seqb_ok : forall (T : table) a b, a < List.length T -> b < List.length T ->
  (seqb (expansions T) a b = true <-> struct_eq T a b).
Proof.
  intros T a b Ha Hb. unfold seqb. rewrite (nth_expansions T a Ha), (nth_expansions T b Hb).
  unfold struct_eq. apply tree_eqb_eq.
Qed.

(* ------------------------------------------------------------------------------------------ *)
(** * 4-5. Descendant sets *)

Lemma mem_iff x l : mem x l = true <-> In x l.
Proof.
  induction l as [|y r IH]; cbn [mem In].
  - split; [discriminate | tauto].
  - rewrite orb_true_iff, Nat.eqb_eq, IH.
    split; (intros [H|H]; [left; symmetry; exact H | right; exact H]).
Qed.

Lemma In_dedup x l : In x (dedup l) <-> In x l.
Proof.
  induction l as [|y r IH]; cbn [dedup]; [tauto|].
  destruct (mem y r) eqn:M.
  - rewrite IH. cbn [In]. split; [intros H; right; exact H|].
    intros [E|H]; [|exact H]. subst y. apply mem_iff. exact M.
  - cbn [In]. rewrite IH. tauto.
Qed.

Lemma reaches_inv T i k :
  reaches T i k <->
  i = k \/ exists d j, lookup T i = Some d /\ In j (kind_refs (tkind d)) /\ reaches T j k.
Proof.
  split.
  - intros H. destruct H as [i|i d j k L I R].
    + left. reflexivity.
    + right. exists d, j. split; [exact L|]. split; [exact I|exact R].
  - intros [E|(d & j & L & I & R)].
    + subst k. apply reach_refl.
    + exact (reach_step T i d j k L I R).
Qed.

Lemma reaches_trans T i j k : reaches T i j -> reaches T j k -> reaches T i k.
Proof.
  intros H. induction H as [i|i d j0 j L I _ IH]; intros R; [exact R|].
  exact (reach_step T i d j0 k L I (IH R)).
Qed.

Lemma desc_aux_inv T : wf_table T ->
  forall l n acc,
    (forall i, nth_error l i = nth_error T (n + i)) ->
    List.length acc = n ->
    (forall i, i < n -> forall k, In k (nth i acc []) <-> reaches T i k) ->
    List.length (desc_aux n l acc) = n + List.length l /\
    (forall i, i < n + List.length l ->
               forall k, In k (nth i (desc_aux n l acc) []) <-> reaches T i k).
Proof.
  intros W. induction l as [|d r IH]; intros n acc HL Hlen Hacc; cbn [desc_aux List.length].
  - rewrite Nat.add_0_r. split; [exact Hlen | exact Hacc].
  - assert (Ld : lookup T n = Some d).
    { pose proof (HL 0) as H0. rewrite Nat.add_0_r in H0. cbn [nth_error] in H0.
      unfold lookup. symmetry. exact H0. }
    replace (n + S (List.length r)) with (S n + List.length r) by lia.
    apply IH.
    + intros i. replace (S n + i) with (n + S i) by lia. rewrite <- HL. reflexivity.
    + rewrite app_length. cbn [List.length]. lia.
    + intros i Hi k. destruct (Nat.eq_dec i n) as [E|Hne].
      * subst i. rewrite app_nth2 by lia. rewrite Hlen, Nat.sub_diag. cbn [nth].
        unfold desc_step. cbn [In]. rewrite In_dedup, in_flat_map, reaches_inv.
        split.
        -- intros [E|(j & Hj & Hk)]; [left; exact E|right].
           exists d, j. split; [exact Ld|]. split; [exact Hj|].
           apply (Hacc j); [|exact Hk].
           apply (wf_ref_lt T n d j W Ld). apply in_kind_refs. exact Hj.
        -- intros [E|(d' & j & L' & Hj & Hk)]; [left; exact E|right].
           rewrite Ld in L'. injection L' as <-.
           exists j. split; [exact Hj|].
           apply (Hacc j); [|exact Hk].
           apply (wf_ref_lt T n d j W Ld). apply in_kind_refs. exact Hj.
      * rewrite app_nth1 by lia. apply Hacc. lia.
Qed.

Lemma desc_table_length T : wf_table T -> List.length (desc_table T) = List.length T.
Proof.
  intros W. unfold desc_table.
  destruct (desc_aux_inv T W T 0 []) as [H _].
  - intros j. reflexivity.
  - reflexivity.
  - intros j Hj. lia.
  - exact H.
Qed.

Lemma desc_table_ok : forall T, wf_table T -> forall i d, lookup T i = Some d ->
  forall k, (mem k (nth i (desc_table T) []) = true <-> reaches T i k).
Proof.
  intros T W i d L k. rewrite mem_iff. unfold desc_table.
  destruct (desc_aux_inv T W T 0 []) as [_ H].
  - intros j. reflexivity.
  - reflexivity.
  - intros j Hj. lia.
  - apply H. cbn [plus]. exact (lookup_lt T i d L).
Qed.

Lemma ty_reachesb_ok : forall T, wf_table T -> forall t k,
  (forall i, t = TId i -> exists d, lookup T i = Some d) ->
  (ty_reachesb (desc_table T) t k = true <-> ty_reaches T t k).
Proof.
  intros T W t k Hex. destruct t as [p|i]; cbn [ty_reachesb]; unfold ty_reaches.
  - split; [discriminate|]. intros (i & E & _). discriminate E.
  - destruct (Hex i eq_refl) as [d L]. rewrite (desc_table_ok T W i d L k). split.
    + intros R. exists i. split; [reflexivity|exact R].
    + intros (i' & E & R). injection E as E. subst i'. exact R.
Qed.

(* ------------------------------------------------------------------------------------------ *)
(** * 6. Alias chasing *)

Definition alias_id (k : kind) : option tid :=
  match k with KType (TId j) => Some j | _ => None end.

Lemma alias_id_some k j : alias_id k = Some j <-> k = KType (TId j).
Proof.
  destruct k; cbn [alias_id]; try (split; intros H; discriminate H).
  match goal with t : ty |- _ => destruct t end; split; intros H; try discriminate H; congruence.
Qed.

Lemma alias_id_none k : alias_id k = None <-> (forall j, k <> KType (TId j)).
Proof.
  split.
  - intros H j E. subst k. discriminate H.
  - intros H. destruct (alias_id k) as [j|] eqn:E; [|reflexivity].
    apply alias_id_some in E. exfalso. exact (H j E).
Qed.

Lemma chaseb_step T f i :
  chaseb T (S f) i =
  match lookup T i with
  | None => None
  | Some d => match alias_id (tkind d) with Some j => chaseb T f j | None => Some i end
  end.
Proof.
  cbn [chaseb]. destruct (lookup T i) as [d|]; [|reflexivity].
  destruct (tkind d); try reflexivity.
  match goal with t : ty |- _ => destruct t end; reflexivity.
Qed.

Lemma chases_inv T i k :
  chases T i k <->
  exists d, lookup T i = Some d /\
            (((forall j, tkind d <> KType (TId j)) /\ k = i) \/
             exists j, tkind d = KType (TId j) /\ chases T j k).
Proof.
  split.
  - intros H. destruct H as [i d L N|i d j k L K C]; exists d; (split; [exact L|]).
    + left. split; [exact N|reflexivity].
    + right. exists j. split; [exact K|exact C].
  - intros (d & L & [[N E]|(j & K & C)]).
    + subst k. exact (chase_stop T i d L N).
    + exact (chase_step T i d j k L K C).
Qed.

Lemma chases_lookup T i k : chases T i k -> exists d, lookup T i = Some d.
Proof. intros H. apply chases_inv in H. destruct H as (d & L & _). exists d. exact L. Qed.

Lemma chases_fun T i k k' : chases T i k -> chases T i k' -> k = k'.
Proof.
  intros H. revert k'. induction H as [i d L N|i d j k L K _ IH]; intros k' H';
    apply chases_inv in H'; destruct H' as (d' & L' & [[N' E']|(j' & K' & C')]);
    rewrite L in L'; injection L' as L'; subst d'.
  - symmetry. exact E'.
  - exfalso. exact (N j' K').
  - exfalso. exact (N' j K).
  - rewrite K in K'. injection K' as K'. subst j'. exact (IH k' C').
Qed.

Lemma chaseb_gen T : wf_table T ->
  forall fuel i k, i < fuel -> (chaseb T fuel i = Some k <-> chases T i k).
Proof.
  intros W. induction fuel as [|f IH]; intros i k Hi; [lia|].
  rewrite chaseb_step, chases_inv.
  destruct (lookup T i) as [d|] eqn:L.
  - destruct (alias_id (tkind d)) as [j|] eqn:A.
    + apply alias_id_some in A.
      assert (Hj : j < i).
      { apply (wf_ref_lt T i d j W L). rewrite A. cbn [kind_tys In]. left. reflexivity. }
      rewrite (IH j k) by lia. split.
      * intros C. exists d. split; [reflexivity|]. right. exists j. split; [exact A|exact C].
      * intros (d' & L' & [[N _]|(j' & K & C)]); injection L' as L'; subst d'.
        -- exfalso. exact (N j A).
        -- rewrite A in K. injection K as K. subst j'. exact C.
    + pose proof (proj1 (alias_id_none _) A) as N. split.
      * intros E. injection E as E. subst k. exists d. split; [reflexivity|].
        left. split; [exact N|reflexivity].
      * intros (d' & L' & [[_ E]|(j' & K & _)]); injection L' as L'; subst d'.
        -- subst k. reflexivity.
        -- exfalso. exact (N j' K).
  - split; [discriminate|]. intros (d' & L' & _). discriminate L'.
Qed.

(** no existence hypothesis is needed: both sides fail on a dangling id *)
Lemma chaseb_iff T : wf_table T -> forall i k, chaseb T (S i) i = Some k <-> chases T i k.
Proof. intros W i k. apply (chaseb_gen T W (S i) i k). lia. Qed.

Lemma chaseb_ok : forall T, wf_table T -> forall i k, (exists d, lookup T i = Some d) ->
  (chaseb T (S i) i = Some k <-> chases T i k).
Proof. intros T W i k _. exact (chaseb_iff T W i k). Qed.

(* ------------------------------------------------------------------------------------------ *)
(** * 7. Usage facts *)

Definition funcs_ok (T : table) (fs : list (bool * func)) : Prop :=
  forall imp f, In (imp, f) fs ->
    (forall p i, In p (fparams f) -> p = TId i -> exists d, lookup T i = Some d) /\
    (forall i, fresult f = Some (TId i) -> exists d, lookup T i = Some d).

Lemma funcs_ok_param T fs imp f p :
  funcs_ok T fs -> In (imp, f) fs -> In p (fparams f) ->
  forall i, p = TId i -> exists d, lookup T i = Some d.
Proof. intros F Hin Hp i E. destruct (F imp f Hin) as [Fp _]. exact (Fp p i Hp E). Qed.

Lemma funcs_ok_result T fs imp f t :
  funcs_ok T fs -> In (imp, f) fs -> fresult f = Some t ->
  forall i, t = TId i -> exists d, lookup T i = Some d.
Proof. intros F Hin R i E. destruct (F imp f Hin) as [_ Fr]. subst t. exact (Fr i R). Qed.

Lemma namedb_ok T i : namedb T i = true <-> named T i.
Proof.
  unfold namedb, named. destruct (lookup T i) as [d|]; split.
  - intros H. exists d. split; [reflexivity|exact H].
  - intros (d' & E & H). injection E as E. subst d'. exact H.
  - discriminate.
  - intros (d' & E & _). discriminate E.
Qed.

Lemma spec_borrowedb_ok : forall T ws i, wf_table T -> funcs_ok T (all_funcs ws) ->
  (spec_borrowedb T (desc_table T) (all_funcs ws) i = true <-> spec_borrowed T ws i).
Proof.
  intros T ws i W F. unfold spec_borrowedb, spec_borrowed.
  rewrite andb_true_iff, namedb_ok, existsb_exists.
  split; intros [N H]; (split; [exact N|]).
  - destruct H as ([imp f] & Hin & Hb). cbn [fst snd] in Hb.
    apply andb_true_iff in Hb. destruct Hb as [Himp Hp]. subst imp.
    apply existsb_exists in Hp. destruct Hp as (p & Hp & Hr).
    exists f, p. split; [exact Hin|]. split; [exact Hp|].
    exact (proj1 (ty_reachesb_ok T W p i (funcs_ok_param T _ true f p F Hin Hp)) Hr).
  - destruct H as (f & p & Hin & Hp & Hr). exists (true, f). split; [exact Hin|].
    cbn [fst snd andb]. apply existsb_exists. exists p. split; [exact Hp|].
    exact (proj2 (ty_reachesb_ok T W p i (funcs_ok_param T _ true f p F Hin Hp)) Hr).
Qed.

Lemma spec_ownedb_ok : forall T ws i, wf_table T -> funcs_ok T (all_funcs ws) ->
  (spec_ownedb T (desc_table T) (all_funcs ws) i = true <-> spec_owned T ws i).
Proof.
  intros T ws i W F. unfold spec_ownedb, spec_owned.
  rewrite andb_true_iff, namedb_ok, existsb_exists.
  split; intros [N H]; (split; [exact N|]).
  - destruct H as ([imp f] & Hin & Hb). cbn [fst snd] in Hb.
    apply orb_true_iff in Hb. destruct Hb as [Hb|Hb].
    + apply andb_true_iff in Hb. destruct Hb as [Himp Hp].
      apply negb_true_iff in Himp. subst imp.
      apply existsb_exists in Hp. destruct Hp as (p & Hp & Hr).
      exists false, f, p. split; [exact Hin|]. split.
      * left. split; [reflexivity|exact Hp].
      * exact (proj1 (ty_reachesb_ok T W p i (funcs_ok_param T _ false f p F Hin Hp)) Hr).
    + destruct (fresult f) as [t|] eqn:R; [|discriminate Hb].
      exists imp, f, t. split; [exact Hin|]. split.
      * right. exact R.
      * exact (proj1 (ty_reachesb_ok T W t i (funcs_ok_result T _ imp f t F Hin R)) Hb).
  - destruct H as (imp & f & t & Hin & [[Himp Hp]|R] & Hr); exists (imp, f);
      (split; [exact Hin|]); cbn [fst snd]; apply orb_true_iff.
    + left. subst imp. cbn [negb andb]. apply existsb_exists. exists t. split; [exact Hp|].
      exact (proj2 (ty_reachesb_ok T W t i (funcs_ok_param T _ false f t F Hin Hp)) Hr).
    + right. rewrite R.
      exact (proj2 (ty_reachesb_ok T W t i (funcs_ok_result T _ imp f t F Hin R)) Hr).
Qed.

Lemma error_via_ok T b f i : wf_table T ->
  (error_via T b f i = true <->
   exists r0 rid d ok e0,
     fresult f = Some (TId r0) /\ (if b then chases T r0 rid else r0 = rid) /\
     lookup T rid = Some d /\ tkind d = KResult ok (Some (TId e0)) /\ chases T e0 i).
Proof.
  intros W. unfold error_via. split.
  - intros H.
    destruct (fresult f) as [[p|r0]|]; try discriminate H.
    destruct (if b then chaseb T (S r0) r0 else Some r0) as [rid|] eqn:C; try discriminate H.
    destruct (lookup T rid) as [d|] eqn:L; try discriminate H.
    destruct (tkind d) as [?| |?|?|?|?|?|?|?|ok er|?|? ?|? ?|?|?|?| ] eqn:K; try discriminate H.
    destruct er as [[p|e0]|]; try discriminate H.
    destruct (chaseb T (S e0) e0) as [x|] eqn:C2; try discriminate H.
    apply Nat.eqb_eq in H. subst x.
    exists r0, rid, d, ok, e0. split; [reflexivity|]. split.
    { destruct b.
      - exact (proj1 (chaseb_iff T W r0 rid) C).
      - injection C as C. exact C. }
    split; [exact L|]. split; [exact K|].
    exact (proj1 (chaseb_iff T W e0 i) C2).
  - intros (r0 & rid & d & ok & e0 & R & C & L & K & C2). rewrite R. cbv beta iota.
    assert (E : (if b then chaseb T (S r0) r0 else Some r0) = Some rid).
    { destruct b.
      - exact (proj2 (chaseb_iff T W r0 rid) C).
      - rewrite C. reflexivity. }
    rewrite E. cbv beta iota. rewrite L. cbv beta iota. rewrite K. cbv beta iota.
    rewrite (proj2 (chaseb_iff T W e0 i) C2). cbv beta iota. apply Nat.eqb_refl.
Qed.

Lemma spec_errorb_ok : forall T ws i, wf_table T -> funcs_ok T (all_funcs ws) ->
  (spec_errorb T (all_funcs ws) i = true <-> spec_error T ws i).
Proof.
  intros T ws i W _. unfold spec_errorb, spec_error. rewrite existsb_exists. split.
  - intros ([imp f] & Hin & H). cbn [snd] in H.
    apply (proj1 (error_via_ok T true f i W)) in H.
    destruct H as (r0 & rid & d & ok & e0 & R & C & L & K & C2).
    exists imp, f, r0, rid, d, ok, e0.
    split; [exact Hin|]. split; [exact R|]. split; [exact C|]. split; [exact L|].
    split; [exact K|exact C2].
  - intros (imp & f & r0 & rid & d & ok & e0 & Hin & R & C & L & K & C2).
    exists (imp, f). split; [exact Hin|]. cbn [snd].
    apply (proj2 (error_via_ok T true f i W)).
    exists r0, rid, d, ok, e0.
    split; [exact R|]. split; [exact C|]. split; [exact L|]. split; [exact K|exact C2].
Qed.

Lemma spec_error_directb_ok : forall T ws i, wf_table T -> funcs_ok T (all_funcs ws) ->
  (spec_error_directb T (all_funcs ws) i = true <-> spec_error_direct T ws i).
Proof.
  intros T ws i W _. unfold spec_error_directb, spec_error_direct. rewrite existsb_exists. split.
  - intros ([imp f] & Hin & H). cbn [snd] in H.
    apply (proj1 (error_via_ok T false f i W)) in H.
    destruct H as (r0 & rid & d & ok & e0 & R & C & L & K & C2). subst rid.
    exists imp, f, r0, d, ok, e0.
    split; [exact Hin|]. split; [exact R|]. split; [exact L|]. split; [exact K|exact C2].
  - intros (imp & f & rid & d & ok & e0 & Hin & R & L & K & C2).
    exists (imp, f). split; [exact Hin|]. cbn [snd].
    apply (proj2 (error_via_ok T false f i W)).
    exists rid, rid, d, ok, e0.
    split; [exact R|]. split; [reflexivity|]. split; [exact L|]. split; [exact K|exact C2].
Qed.

Definition aer_f (T : table) (f : func) : bool :=
  match fresult f with
  | Some (TId r0) =>
      match lookup T r0 with
      | Some d0 =>
          match tkind d0 with
          | KType (TId r1) =>
              match chaseb T (S r1) r1 with
              | Some rid =>
                  match lookup T rid with
                  | Some d => match tkind d with
                              | KResult _ (Some (TId _)) => true
                              | _ => false
                              end
                  | None => false
                  end
              | None => false
              end
          | _ => false
          end
      | None => false
      end
  | _ => false
  end.

Lemma aliased_error_resultb_unfold T fs :
  aliased_error_resultb T fs = existsb (fun bf => aer_f T (snd bf)) fs.
Proof. reflexivity. Qed.

Lemma aer_f_ok T f : wf_table T ->
  (aer_f T f = true <->
   exists r0 d0 r1 rid d ok e0,
     fresult f = Some (TId r0) /\ lookup T r0 = Some d0 /\ tkind d0 = KType (TId r1) /\
     chases T r1 rid /\ lookup T rid = Some d /\ tkind d = KResult ok (Some (TId e0))).
Proof.
  intros W. unfold aer_f. split.
  - intros H.
    destruct (fresult f) as [[p|r0]|]; try discriminate H.
    destruct (lookup T r0) as [d0|] eqn:L0; try discriminate H.
    destruct (tkind d0) as [?| |?|?|?|?|?|?|?|? ?|?|? ?|? ?|?|?|t0| ] eqn:K0; try discriminate H.
    destruct t0 as [p|r1]; try discriminate H.
    destruct (chaseb T (S r1) r1) as [rid|] eqn:C; try discriminate H.
    destruct (lookup T rid) as [d|] eqn:L; try discriminate H.
    destruct (tkind d) as [?| |?|?|?|?|?|?|?|ok er|?|? ?|? ?|?|?|?| ] eqn:K; try discriminate H.
    destruct er as [[p|e0]|]; try discriminate H.
    exists r0, d0, r1, rid, d, ok, e0.
    split; [reflexivity|]. split; [exact L0|]. split; [exact K0|].
    split; [exact (proj1 (chaseb_iff T W r1 rid) C)|]. split; [exact L|exact K].
  - intros (r0 & d0 & r1 & rid & d & ok & e0 & R & L0 & K0 & C & L & K).
    rewrite R. cbv beta iota. rewrite L0. cbv beta iota. rewrite K0. cbv beta iota.
    rewrite (proj2 (chaseb_iff T W r1 rid) C). cbv beta iota.
    rewrite L. cbv beta iota. rewrite K. reflexivity.
Qed.

Lemma aliased_error_resultb_ok : forall T ws, wf_table T -> funcs_ok T (all_funcs ws) ->
  (aliased_error_resultb T (all_funcs ws) = true <-> aliased_error_result T ws).
Proof.
  intros T ws W _. rewrite aliased_error_resultb_unfold. unfold aliased_error_result.
  rewrite existsb_exists. split.
  - intros ([imp f] & Hin & H). cbn [snd] in H.
    apply (proj1 (aer_f_ok T f W)) in H.
    destruct H as (r0 & d0 & r1 & rid & d & ok & e0 & R & L0 & K0 & C & L & K).
    exists imp, f, r0, d0, r1, rid, d, ok, e0.
    split; [exact Hin|]. split; [exact R|]. split; [exact L0|]. split; [exact K0|].
    split; [exact C|]. split; [exact L|exact K].
  - intros (imp & f & r0 & d0 & r1 & rid & d & ok & e0 & Hin & R & L0 & K0 & C & L & K).
    exists (imp, f). split; [exact Hin|]. cbn [snd].
    apply (proj2 (aer_f_ok T f W)).
    exists r0, d0, r1, rid, d, ok, e0.
    split; [exact R|]. split; [exact L0|]. split; [exact K0|].
    split; [exact C|]. split; [exact L|exact K].
Qed.

(* ------------------------------------------------------------------------------------------ *)
(** * 8. The search-leg checks *)

Lemma flat_map_nil {A B} (f : A -> list B) l :
  flat_map f l = [] <-> forall x, In x l -> f x = [].
Proof.
  induction l as [|a l IH]; cbn [flat_map In].
  - split; [intros _ x []|reflexivity].
  - split.
    + intros H. apply app_eq_nil in H. destruct H as [H1 H2].
      intros x [E|Hx]; [subst x; exact H1|exact (proj1 IH H2 x Hx)].
    + intros H. rewrite (H a (or_introl eq_refl)). cbn [app]. apply IH.
      intros x Hx. apply H. right. exact Hx.
Qed.

Lemma if_nil {A} (c : bool) (x : A) : (if c then [x] else []) = [] <-> c = false.
Proof. destruct c; split; intros H; try reflexivity; discriminate H. Qed.

Lemma check_sound_nil : forall T reps,
  check_sound (expansions T) reps = [] <->
  (forall a b, a < List.length T -> b < List.length T -> a < b ->
               repf reps a = repf reps b -> struct_eq T a b).
Proof.
  intros T reps. unfold check_sound. cbv zeta. rewrite expansions_length, flat_map_nil. split.
  - intros H a b Ha Hb Hab E.
    assert (Ia : In a (seq 0 (List.length T))) by (apply in_seq; lia).
    assert (Ib : In b (seq 0 (List.length T))) by (apply in_seq; lia).
    specialize (H a Ia). rewrite flat_map_nil in H. specialize (H b Ib).
    apply if_nil in H. apply (seqb_ok T a b Ha Hb).
    destruct (seqb (expansions T) a b); [reflexivity|].
    rewrite (proj2 (Nat.ltb_lt a b) Hab), E, Nat.eqb_refl in H. cbn in H. discriminate H.
  - intros H a Ia. apply in_seq in Ia. rewrite flat_map_nil. intros b Ib. apply in_seq in Ib.
    apply if_nil.
    destruct (a <? b) eqn:Lt; [|reflexivity].
    destruct (repf reps a =? repf reps b) eqn:E; [|reflexivity]. cbn [andb].
    apply Nat.ltb_lt in Lt. apply Nat.eqb_eq in E.
    assert (Ha : a < List.length T) by lia. assert (Hb : b < List.length T) by lia.
    rewrite (proj2 (seqb_ok T a b Ha Hb) (H a b Ha Hb Lt E)). reflexivity.
Qed.

Lemma check_complete_nil : forall (T : table) live reps,
  (forall x, In x live -> x < List.length T) ->
  (check_complete (expansions T) live reps = [] <->
   (forall a b, In a live -> In b live -> a < b -> struct_eq T a b -> repf reps a = repf reps b)).
Proof.
  intros T live reps HL. unfold check_complete. rewrite flat_map_nil. split.
  - intros H a b Ia Ib Hab S.
    specialize (H a Ia). rewrite flat_map_nil in H. specialize (H b Ib).
    apply if_nil in H.
    rewrite (proj2 (Nat.ltb_lt a b) Hab) in H.
    rewrite (proj2 (seqb_ok T a b (HL a Ia) (HL b Ib)) S) in H. cbn [andb] in H.
    apply negb_false_iff in H. apply Nat.eqb_eq in H. exact H.
  - intros H a Ia. rewrite flat_map_nil. intros b Ib. apply if_nil.
    destruct (a <? b) eqn:Lt; [|reflexivity].
    destruct (seqb (expansions T) a b) eqn:S; [|reflexivity]. cbn [andb].
    apply Nat.ltb_lt in Lt. apply (seqb_ok T a b (HL a Ia) (HL b Ib)) in S.
    apply negb_false_iff. apply Nat.eqb_eq. exact (H a b Ia Ib Lt S).
Qed.
