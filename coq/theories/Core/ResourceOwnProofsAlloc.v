(** * Core/ResourceOwnProofsAlloc.v — C07, steps that put a new entry into the handle table and wrap it
    ([HGiveOwnImported], [HGiveOwnExported], [HLendBorrowImported], [UNew]): each preserves [Inv] and [Ledger] and ends
    without a trap or panic. *)
From Coq Require Import List NArith Bool Permutation Lia.
From WB Require Import Core.ResourceOwn Core.ResourceOwnSpec Core.ResourceOwnProofsList Core.ResourceOwnProofsInv
  Core.ResourceOwnProofsLedger.
Import ListNotations.
Local Open Scope N_scope.

(** what one step must achieve from a good state *)
Definition good_after (s s' : st) : Prop :=
  match err s' with
  | None => Inv s' /\ (Ledger s -> Ledger s')
  | Some (EApi _) => True
  | Some _ => False
  end.

Ltac proj := cbn [tbl freeh nexth ws nextw reps nextrep hostown in_export need_drop log err
                  set_tbl set_ws set_reps set_hostown set_export emit fail table_remove].
Tactic Notation "projin" hyp(H) :=
  cbn [tbl freeh nexth ws nextw reps nextrep hostown in_export need_drop log err
       set_tbl set_ws set_reps set_hostown set_export emit fail table_remove] in H.

(** ** the host's [Table.add] and the guest's [from_handle] *)
Lemma table_add_spec s e :
  TblInv (tbl s) (freeh s) (nexth s) -> err s = None ->
  let h := fst (table_add s e) in let s1 := snd (table_add s e) in
  (err s1 = Some (EApi 10)) \/
  (err s1 = None /\ 0 < h < TABLE_MAX /\ ~ In h (keys (tbl s)) /\ tbl s1 = (h, e) :: tbl s /\
   TblInv ((h, e) :: tbl s) (freeh s1) (nexth s1) /\ ws s1 = ws s /\ nextw s1 = nextw s /\ reps s1 = reps s /\
   nextrep s1 = nextrep s /\ hostown s1 = hostown s /\ in_export s1 = in_export s /\ need_drop s1 = need_drop s /\
   log s1 = EvNewHandle h (e_own e) :: log s).
Proof.
  intros HT He. unfold table_add. destruct (freeh s) as [|i f] eqn:Ef.
  - destruct (N.leb_spec TABLE_MAX (nexth s)) as [Hle|Hlt]; cbn [fst snd]; proj; [now left|right].
    destruct (tbl_add_next _ _ e HT Hlt) as [HT' Hni]. pose proof (ti_next _ _ _ HT).
    repeat apply conj; auto; lia.
  - cbn [fst snd]; proj. right.
    destruct (tbl_add_free _ _ _ _ e HT) as [HT' [Hni Hr]]. pose proof (ti_next _ _ _ HT).
    repeat apply conj; auto; lia.
Qed.

Lemma new_wrapper_ok s k h t :
  err s = None -> 0 < h < TABLE_MAX ->
  snd (new_wrapper s k h t) = set_ws s ((nextw s, {| w_kind := k; w_handle := h; w_temp := t |}) :: ws s) (nextw s + 1).
Proof.
  intros He Hh. unfold new_wrapper. rewrite He.
  destruct (N.eqb_spec h 0); [lia|]. destruct (N.eqb_spec h MAXH); [unfold TABLE_MAX, MAXH in *; lia|]. reflexivity.
Qed.

Lemma new_wrapper_err s k h t e : err s = Some e -> snd (new_wrapper s k h t) = s.
Proof. intros He. unfold new_wrapper. now rewrite He. Qed.

Lemma user_owned_Some s w x : user_owned s w = Some x -> lookup w (ws s) = Some x /\ w_temp x = false.
Proof.
  unfold user_owned. destruct (lookup w (ws s)) as [y|]; [|discriminate].
  destruct (w_temp y) eqn:E; [discriminate|]. intros H; inversion H; subst; auto.
Qed.

Lemma MAXH_range h : 0 < h < TABLE_MAX -> h <> MAXH.
Proof. unfold TABLE_MAX, MAXH. lia. Qed.

(** ** allocation of an own handle: [HGiveOwnImported], [HGiveOwnExported], [UNew] *)
Lemma step_give_own_imported s rep : Inv s -> err s = None -> good_after s (step s (HGiveOwnImported rep)).
Proof.
  intros HI He. unfold step, good_after. rewrite He.
  pose proof HI as HI0. apply Inv_iff in HI0 as (HT & HW & HX & HB).
  set (e := {| e_kind := Imported; e_rep := rep; e_own := true; e_lends := 0 |}).
  pose proof (table_add_spec s e HT He) as Hs. destruct (table_add s e) as [h s1]. cbn [fst snd] in Hs.
  destruct Hs as [Hapi|(He1 & Hh & Hni & Ht & HT1 & Hws & Hnw & Hr & Hnr & Hho & Hie & Hnd & Hlg)].
  - rewrite (new_wrapper_err _ _ _ _ _ Hapi), Hapi. exact I.
  - rewrite (new_wrapper_ok s1 _ _ _ He1 Hh). proj. rewrite He1. split.
    + apply Inv_iff. proj. rewrite Ht, Hws, Hnw, Hr, Hnr, Hho, Hie, Hnd. repeat apply conj.
      * exact HT1.
      * apply (ws_alloc _ _ _ h e); auto using MAXH_range; try (cbn; discriminate).
      * apply exp_alloc_own; auto.
      * exact HB.
    + intros HL. apply Ledger_iff in HL. apply Ledger_iff. proj. rewrite Hlg, Ht, Hr, Hnr.
      apply (led_alloc _ _ _ _ h e), HL.
Qed.

Lemma step_give_own_exported s rep : Inv s -> err s = None -> good_after s (step s (HGiveOwnExported rep)).
Proof.
  intros HI He. unfold step, good_after. rewrite He.
  destruct (memN rep (hostown s)) eqn:Hm; cbn [negb]; [|exact I].
  apply memN_In in Hm.
  pose proof HI as HI0. apply Inv_iff in HI0 as (HT & HW & HX & HB).
  set (e := {| e_kind := Exported; e_rep := rep; e_own := true; e_lends := 0 |}).
  set (s0 := set_hostown s (remove_one rep (hostown s))).
  assert (He0 : err s0 = None) by exact He.
  pose proof (table_add_spec s0 e HT He0) as Hs. destruct (table_add s0 e) as [h s1]. cbn [fst snd] in Hs.
  destruct Hs as [Hapi|(He1 & Hh & Hni & Ht & HT1 & Hws & Hnw & Hr & Hnr & Hho & Hie & Hnd & Hlg)].
  - rewrite (new_wrapper_err _ _ _ _ _ Hapi), Hapi. exact I.
  - rewrite (new_wrapper_ok s1 _ _ _ He1 Hh). proj. rewrite He1. unfold s0 in *. proj. projin Hni. split.
    + apply Inv_iff. proj. rewrite Ht, Hws, Hnw, Hr, Hnr, Hho, Hie, Hnd. proj. repeat apply conj.
      * exact HT1.
      * apply (ws_alloc _ _ _ h e); auto using MAXH_range; try (cbn; discriminate).
      * apply exp_alloc_own; auto.
      * rewrite eor_cons. cbn. apply box_give; auto.
    + intros HL. apply Ledger_iff in HL. apply Ledger_iff. proj. rewrite Hlg, Ht, Hr, Hnr. proj.
      apply (led_alloc _ _ _ _ h e), HL.
Qed.

Lemma step_new s v : Inv s -> err s = None -> good_after s (step s (UNew v)).
Proof.
  intros HI He. unfold step, good_after. rewrite He.
  pose proof HI as HI0. apply Inv_iff in HI0 as (HT & HW & HX & HB).
  set (e := {| e_kind := Exported; e_rep := nextrep s; e_own := true; e_lends := 0 |}).
  set (s0 := emit (set_reps s ((nextrep s, RSome v) :: reps s) (nextrep s + 8)) (EvNewBox (nextrep s) v)).
  assert (He0 : err s0 = None) by exact He.
  pose proof (table_add_spec s0 e HT He0) as Hs. destruct (table_add s0 e) as [h s1]. cbn [fst snd] in Hs.
  destruct Hs as [Hapi|(He1 & Hh & Hni & Ht & HT1 & Hws & Hnw & Hr & Hnr & Hho & Hie & Hnd & Hlg)].
  - rewrite (new_wrapper_err _ _ _ _ _ Hapi), Hapi. exact I.
  - rewrite (new_wrapper_ok s1 _ _ _ He1 Hh). proj. rewrite He1. unfold s0 in *. proj. projin Hni. split.
    + apply Inv_iff. proj. rewrite Ht, Hws, Hnw, Hr, Hnr, Hho, Hie, Hnd. proj. repeat apply conj.
      * exact HT1.
      * apply (ws_alloc _ _ _ h e); auto using MAXH_range; try (cbn; discriminate).
      * apply exp_alloc_own; auto.
      * rewrite eor_cons. cbn. apply box_new; auto.
    + intros HL. apply Ledger_iff in HL. apply Ledger_iff. proj. rewrite Hlg, Ht, Hr, Hnr. proj.
      apply (led_alloc _ _ _ _ h e). apply led_newbox; auto.
      intros a Ha. apply (bi_range _ _ _ _ HB). now left.
Qed.

Lemma step_lend_borrow_imported s rep : Inv s -> err s = None -> good_after s (step s (HLendBorrowImported rep)).
Proof.
  intros HI He. unfold step, good_after. rewrite He.
  destruct (in_export s) eqn:Hin; cbn [negb]; [|exact I].
  pose proof HI as HI0. apply Inv_iff in HI0 as (HT & HW & HX & HB).
  set (e := {| e_kind := Imported; e_rep := rep; e_own := false; e_lends := 0 |}).
  pose proof (table_add_spec s e HT He) as Hs. destruct (table_add s e) as [h s1]. cbn [fst snd] in Hs.
  destruct Hs as [Hapi|(He1 & Hh & Hni & Ht & HT1 & Hws & Hnw & Hr & Hnr & Hho & Hie & Hnd & Hlg)].
  - rewrite Hapi. rewrite (new_wrapper_err _ _ _ _ _ Hapi), Hapi. exact I.
  - rewrite He1.
    assert (He2 : err (set_export s1 true (need_drop s1 + 1)) = None) by exact He1.
    rewrite (new_wrapper_ok _ _ _ _ He2 Hh). proj. rewrite He1. split.
    + apply Inv_iff. proj. rewrite Ht, Hws, Hnw, Hr, Hnr, Hho, Hnd. repeat apply conj.
      * exact HT1.
      * apply (ws_alloc _ _ _ h e); auto using MAXH_range; try (cbn; discriminate).
      * apply exp_alloc_borrow; auto. rewrite <- Hin. exact HX.
      * exact HB.
    + intros HL. apply Ledger_iff in HL. apply Ledger_iff. proj. rewrite Hlg, Ht, Hr, Hnr.
      apply (led_alloc _ _ _ _ h e), HL.
Qed.
