(** Classification of module-name collisions by mechanism (definitions only).
    Given two distinct packages [a], [b] of one namespace inside the package set [S], [classify]
    names the weakest normalisation of the *inputs* under which they become equal:
      MSep       same name, version texts equal once '.', '-', '+' are all read as one separator
      MFold      ... and once runs of separators are folded and a trailing separator is dropped
      MNameCase  the names differ only in letter case (versions equal up to case and separators)
      MVerCase   same name, version texts differ (beyond separators) only in letter case
      MCamel     same snake-cased name and the version texts differ only by heck's camel-case word
                 boundaries ("aB" = "a-b")
      MConcatVV  the (snake name, snake version) pairs differ but their concatenations are equal, both
                 packages carrying a version suffix  (a ++ "10_0_0" = a1 ++ "0_0_0")
      MConcatNV  same, one of the two has no suffix     (a1-0-0 = a ++ "1_0_0")
      MUnexplained  none of these: the two inputs stay different under every normalisation.
    The check classifies every collision it finds on the REAL function with this (extracted) function;
    only the registered mechanisms are known findings, [MUnexplained] is always a violation. *)
From Coq Require Import List Ascii NArith Bool.
From WB Require Import Core.PkgName.
Import ListNotations.

Inductive mech := MSep | MFold | MNameCase | MVerCase | MCamel | MConcatVV | MConcatNV | MUnexplained.

Definition mangled (S : list pkg) (p : pkg) : bool :=
  negb (Nat.eqb (List.length (filter (same_name p) S)) 1)
  && match pver p with Some _ => true | None => false end.

(** the version text that takes part in the module name ([] when no suffix is added) *)
Definition vtext (S : list pkg) (p : pkg) : str :=
  if mangled S p then match pver p with Some v => version_to_string v | None => [] end else [].

Fixpoint join_us (ws : list str) : str :=
  match ws with
  | [] => []
  | [w] => w
  | w :: t => w ++ ch_us :: join_us t
  end.
Definition nonempty (s : str) : bool := match s with [] => false | _ => true end.
(** fold runs of '_' into one, drop leading/trailing ones *)
Definition fold_us (s : str) : str :=
  join_us (filter nonempty (split_by (fun c => Ascii.eqb c ch_us) s [])).

Definition classify (S : list pkg) (a b : pkg) : mech :=
  let ta := replace3 (vtext S a) in
  let tb := replace3 (vtext S b) in
  let same := str_eqb (pname a) (pname b) in
  if same && str_eqb ta tb then MSep
  else if same && str_eqb (fold_us ta) (fold_us tb) then MFold
  else if str_eqb (lowercase (pname a)) (lowercase (pname b))
          && str_eqb (lowercase (fold_us ta)) (lowercase (fold_us tb))
       then (if same then MVerCase else MNameCase)
  else if str_eqb (to_snake_case (pname a)) (to_snake_case (pname b))
          && str_eqb (to_snake_case ta) (to_snake_case tb) then MCamel
  else if str_eqb (to_snake_case (pname a) ++ to_snake_case ta)
                  (to_snake_case (pname b) ++ to_snake_case tb)
       then (if mangled S a && mangled S b then MConcatVV else MConcatNV)
  else MUnexplained.

Definition mech_eqb (x y : mech) : bool :=
  match x, y with
  | MSep, MSep | MFold, MFold | MNameCase, MNameCase | MVerCase, MVerCase | MCamel, MCamel
  | MConcatVV, MConcatVV | MConcatNV, MConcatNV | MUnexplained, MUnexplained => true
  | _, _ => false
  end.

(** The registered (known) collision classes: every mechanism above except [MUnexplained]. *)
Definition KnownClass (S : list pkg) (a b : pkg) : bool :=
  negb (mech_eqb (classify S a b) MUnexplained).

(** [colliding S a b]: the two packages are different, belong to [S], and get one module name. *)
Definition colliding (S : list pkg) (a b : pkg) : bool :=
  existsb (pkg_eqb a) S && existsb (pkg_eqb b) S && negb (pkg_eqb a b)
  && str_eqb (name_package_module S a) (name_package_module S b).
