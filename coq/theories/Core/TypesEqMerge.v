(** The merge of [TypeInfo] at the end of [collect_equal_types]: every entry receives the OR of the
    infos of its whole class; the union-find partition is unchanged. *)
From Coq Require Import List Bool Arith Lia.
From WB Require Import Core.TypesEq Core.TypesEqUF Core.TypesEqEq.
Import ListNotations.

Definition class_or (u : uf) (m : imap) (i : tid) : info :=
  fold_left (fun acc p => if rep u (fst p) =? rep u i then info_or acc (snd p) else acc) m info0.

(* ------------------------------------------------------------------------------------------ *)
(** * Association-list facts *)

Lemma im_get_update m i f j :
  im_get (im_update m i f) j = if i =? j then option_map f (im_get m i) else im_get m j.
Proof.
  induction m as [|[k v] m IH]; cbn [im_update im_get option_map].
  - destruct (i =? j); reflexivity.
  - destruct (k =? i) eqn:E.
    + apply Nat.eqb_eq in E. subst k. cbn [im_get option_map].
      destruct (i =? j) eqn:E2; reflexivity.
    + cbn [im_get]. destruct (k =? j) eqn:E2.
      * destruct (i =? j) eqn:E3; [|reflexivity].
        apply Nat.eqb_eq in E2. apply Nat.eqb_eq in E3. apply Nat.eqb_neq in E. lia.
      * exact IH.
Qed.

Lemma info_or_info0_l x : info_or info0 x = x.
Proof. destruct x. reflexivity. Qed.

(** the OR over the members of class [r] (a representative) in [l], starting from [acc] *)
Definition cls_step (u : uf) (r : tid) (acc : info) (p : tid * info) : info :=
  if rep u (fst p) =? r then info_or acc (snd p) else acc.
Definition cls_in (u : uf) (r : tid) (l : imap) : bool := existsb (fun p => rep u (fst p) =? r) l.
Definition cls_spec (u : uf) (l : imap) (r : tid) : option info :=
  if cls_in u r l then Some (fold_left (cls_step u r) l info0) else None.

Lemma class_or_cls u m i : class_or u m i = fold_left (cls_step u (rep u i)) m info0.
Proof. reflexivity. Qed.

Lemma cls_fold_none u r l : forall acc, cls_in u r l = false -> fold_left (cls_step u r) l acc = acc.
Proof.
  unfold cls_in. induction l as [|p l IH]; intros acc H; cbn [fold_left]; [reflexivity|].
  cbn [existsb] in H. apply orb_false_iff in H. destruct H as [H1 H2].
  unfold cls_step at 2. rewrite H1. apply IH. exact H2.
Qed.

Lemma cls_spec_snoc u pre i inf mg :
  (forall r, im_get mg r = cls_spec u pre r) ->
  forall r, im_get (mg_or mg (rep u i) inf) r = cls_spec u (pre ++ [(i, inf)]) r.
Proof.
  intros H r. unfold cls_spec, cls_in. rewrite existsb_app, fold_left_app.
  cbn [existsb fold_left fst snd]. unfold cls_step at 1. cbn [fst snd].
  rewrite orb_false_r.
  fold (cls_in u r pre).
  unfold mg_or. destruct (im_get mg (rep u i)) as [x|] eqn:G.
  - rewrite im_get_update. rewrite G. cbn [option_map].
    destruct (rep u i =? r) eqn:E.
    + apply Nat.eqb_eq in E. rewrite orb_true_r.
      rewrite H in G. unfold cls_spec in G. rewrite E in G.
      destruct (cls_in u r pre); [|discriminate]. injection G as G. rewrite G. reflexivity.
    + rewrite orb_false_r. rewrite H. reflexivity.
  - cbn [im_get]. destruct (rep u i =? r) eqn:E.
    + apply Nat.eqb_eq in E. rewrite orb_true_r.
      rewrite H in G. unfold cls_spec in G. rewrite E in G.
      destruct (cls_in u r pre) eqn:C; [discriminate|].
      rewrite (cls_fold_none u r pre info0 C). reflexivity.
    + rewrite orb_false_r. rewrite H. reflexivity.
Qed.

(* ------------------------------------------------------------------------------------------ *)
(** * The two passes *)

Lemma merge_pass1_ok u0 : forall l u mg pre, Good u0 u ->
  (forall r, im_get mg r = cls_spec u0 pre r) ->
  exists mg' u', merge_pass1 u l mg = ROk (mg', u') /\ Good u0 u' /\
                 (forall r, im_get mg' r = cls_spec u0 (pre ++ l) r).
Proof.
  induction l as [|[i inf] l IH]; intros u mg pre G H; cbn [merge_pass1].
  - exists mg, u. split; [reflexivity|]. split; [exact G|]. rewrite app_nil_r. exact H.
  - destruct (Good_find u0 u i G) as (u1 & F & G1). rewrite F. cbn [bind].
    destruct (IH u1 (mg_or mg (rep u0 i) inf) (pre ++ [(i, inf)]) G1
                 (cls_spec_snoc u0 pre i inf mg H)) as (mg' & u' & E & G' & H').
    exists mg', u'. split; [exact E|]. split; [exact G'|].
    intros r. rewrite H'. rewrite <- app_assoc. reflexivity.
Qed.

Lemma merge_pass2_ok u0 mg : forall l u, Good u0 u ->
  exists u', merge_pass2 u l mg =
             ROk (map (fun p => (fst p, match im_get mg (rep u0 (fst p)) with
                                        | Some x => x | None => snd p end)) l, u') /\ Good u0 u'.
Proof.
  induction l as [|[i inf] l IH]; intros u G; cbn [merge_pass2 map].
  - exists u. split; [reflexivity | exact G].
  - destruct (Good_find u0 u i G) as (u1 & F & G1). rewrite F. cbn [bind].
    destruct (IH u1 G1) as (u' & E & G'). rewrite E. cbn [bind fst snd].
    exists u'. split; [reflexivity | exact G'].
Qed.

Lemma cls_in_member u m p : In p m -> cls_in u (rep u (fst p)) m = true.
Proof.
  intros H. unfold cls_in. apply existsb_exists. exists p. split; [exact H|]. apply Nat.eqb_refl.
Qed.

Lemma merge_infos_ok : forall u m, uf_wf u ->
  exists u', merge_infos u m = ROk (map (fun p => (fst p, class_or u m (fst p))) m, u') /\ Good u u'.
Proof.
  intros u m W. unfold merge_infos.
  destruct (merge_pass1_ok u m u [] [] (Good_refl u W)) as (mg & u1 & E1 & G1 & H1).
  { intros r. reflexivity. }
  rewrite E1. cbn [bind]. cbn [app] in H1.
  destruct (merge_pass2_ok u mg m u1 G1) as (u2 & E2 & G2).
  exists u2. split; [|exact G2]. rewrite E2. f_equal. f_equal.
  apply map_ext_in. intros p Hp. f_equal.
  rewrite H1. unfold cls_spec. rewrite (cls_in_member u m p Hp). apply eq_sym, class_or_cls.
Qed.

(* ------------------------------------------------------------------------------------------ *)
(** * Reading the result *)

Lemma class_or_field : forall (fld : info -> bool), (forall a b, fld (info_or a b) = fld a || fld b) -> fld info0 = false ->
  forall u m i, fld (class_or u m i) = existsb (fun p => (rep u (fst p) =? rep u i) && fld (snd p)) m.
Proof.
  intros fld Hor H0 u m i. unfold class_or.
  assert (A : forall l acc,
    fld (fold_left (fun acc p => if rep u (fst p) =? rep u i then info_or acc (snd p) else acc) l acc)
    = fld acc || existsb (fun p => (rep u (fst p) =? rep u i) && fld (snd p)) l).
  { induction l as [|p l IH]; intros acc; cbn [fold_left existsb].
    - rewrite orb_false_r. reflexivity.
    - rewrite IH. destruct (rep u (fst p) =? rep u i); cbn [andb orb].
      + rewrite Hor. rewrite orb_assoc. reflexivity.
      + reflexivity. }
  rewrite A, H0. reflexivity.
Qed.

Lemma im_get_map_snd : forall (g : tid -> info) m i, im_get (map (fun p => (fst p, g (fst p))) m) i = match im_get m i with Some _ => Some (g i) | None => None end.
Proof.
  intros g m i. induction m as [|[k v] m IH]; cbn [map im_get fst]; [reflexivity|].
  destruct (k =? i) eqn:E.
  - apply Nat.eqb_eq in E. subst k. reflexivity.
  - exact IH.
Qed.
