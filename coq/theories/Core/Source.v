(** Model of crates/core/src/source.rs : [Source { s, indent, in_line_comment, continuing_line }].

    Text is [list ascii] (ASCII only: Rust's [trim]/[trim_start] use Unicode White_Space, whose ASCII
    members are U+0009..U+000D and U+0020; non-ASCII white space such as U+00A0 is outside the model
    and outside the tie's alphabet).  The buffer [s] is kept REVERSED ([rbuf]; [as_str = rev rbuf]) so
    that [push_str]/[ends_with]/[pop] are the obvious list operations.  [indent : usize] is [nat]
    ([+=] overflow needs 2^64 levels); [deindent]'s [-=] underflow panics in a debug build (the tie runs
    a debug build) and is modelled as [None].  Definitions only; proofs are in SourceProofs.v. *)
From Coq Require Import List Ascii String Bool Arith.
Import ListNotations.

Definition text := list ascii.

Definition LF : ascii := "010"%char.
Definition CR : ascii := "013"%char.
Definition SP : ascii := " "%char.
Definition LBRACE : ascii := "{"%char.
Definition RBRACE : ascii := "}"%char.
Definition SLASH : ascii := "/"%char.

(** [char::is_whitespace] restricted to ASCII. *)
Definition is_ws (c : ascii) : bool :=
  existsb (Ascii.eqb c) ["009"%char; LF; "011"%char; "012"%char; CR; SP].

Definition is_nil {A} (l : list A) : bool := match l with [] => true | _ => false end.

Fixpoint drop_ws (l : text) : text :=
  match l with
  | c :: r => if is_ws c then drop_ws r else l
  | [] => []
  end.

(** [str::trim_start] / [str::trim] *)
Definition trim_start (l : text) : text := drop_ws l.
Definition trim (l : text) : text := rev (drop_ws (rev (drop_ws l))).

Definition starts_with_c (c : ascii) (l : text) : bool :=
  match l with x :: _ => Ascii.eqb x c | [] => false end.
Definition ends_with_c (c : ascii) (l : text) : bool := starts_with_c c (rev l).
(** [starts_with("//")] *)
Definition starts_with_slashes (l : text) : bool :=
  match l with x :: y :: _ => Ascii.eqb x SLASH && Ascii.eqb y SLASH | _ => false end.

(** Split at every '\n'; always non-empty: "a\nb" -> [a;b], "a\n" -> [a;""], "" -> [""]. *)
Fixpoint split_nl (s : text) : list text :=
  match s with
  | [] => [[]]
  | c :: r =>
      if Ascii.eqb c LF then [] :: split_nl r
      else match split_nl r with
           | l :: ls => (c :: l) :: ls
           | [] => [[c]]
           end
  end.

(** strip one trailing '\r' (only applied to lines that were terminated by '\n') *)
Definition strip_cr (l : text) : text :=
  match rev l with
  | c :: r => if Ascii.eqb c CR then rev r else l
  | [] => l
  end.

(** [str::lines] (Rust >= 1.77: [split_inclusive('\n')], then strip "\n", then strip "\r" — a bare
    trailing "\r" on an unterminated last line is kept; a final empty piece is not a line). *)
Fixpoint rust_lines_of (ls : list text) : list text :=
  match ls with
  | [] => []
  | [last] => if is_nil last then [] else [last]
  | l :: rest => strip_cr l :: rust_lines_of rest
  end.
Definition rust_lines (s : text) : list text := rust_lines_of (split_nl s).

(** [src.ends_with('\n')] *)
Definition ends_with_lf (s : text) : bool := ends_with_c LF s.

Record source := mkSource {
  rbuf : text;          (* self.s, reversed *)
  ind : nat;            (* self.indent *)
  in_comment : bool;    (* self.in_line_comment *)
  continuing : bool;    (* self.continuing_line *)
}.

Definition source_default : source := mkSource [] 0 false false.
Definition as_str (st : source) : text := rev (rbuf st).

Definition spaces (n : nat) : text := repeat SP n.

(** [self.s.ends_with("  ")] and the two [pop]s, on the reversed buffer *)
Definition ends2sp (rb : text) : bool :=
  match rb with a :: b :: _ => Ascii.eqb a SP && Ascii.eqb b SP | _ => false end.
Definition pop2 (rb : text) : text := tl (tl rb).

(** [newline] *)
Definition newline (st : source) : source :=
  mkSource (LF :: rbuf st) (ind st) false false.

(** One iteration of the [for (i, line)] loop body of [push_str_impl], up to (not including) the
    final [if ... { self.newline() }].  [single] is [lines.len() == 1]. *)
Definition push_piece (interp single : bool) (st : source) (line : text) : source :=
  let buf1 := if continuing st then rbuf st
              else if is_nil line then rbuf st
              else spaces (2 * ind st) ++ rbuf st in
  let trimmed := trim line in
  let com := in_comment st || (interp && starts_with_slashes trimmed) in
  let active := interp && negb com in
  let buf2 := if active && starts_with_c RBRACE trimmed && ends2sp buf1 then pop2 buf1 else buf1 in
  let buf3 := rev (if single then line else trim_start line) ++ buf2 in
  let ind1 := if active && ends_with_c LBRACE trimmed then S (ind st) else ind st in
  let ind2 := if active && starts_with_c RBRACE trimmed then pred ind1 else ind1 in
  mkSource buf3 ind2 com true.

(** the loop; [endnl] is [src.ends_with('\n')] *)
Fixpoint push_lines (interp single endnl : bool) (st : source) (ls : list text) : source :=
  match ls with
  | [] => st
  | [l] => let st' := push_piece interp single st l in if endnl then newline st' else st'
  | l :: rest => push_lines interp single endnl (newline (push_piece interp single st l)) rest
  end.

Definition push_str_impl (interp : bool) (st : source) (src : text) : source :=
  let ls := rust_lines src in
  push_lines interp (Nat.eqb (List.length ls) 1) (ends_with_lf src) st ls.

Definition push_str := push_str_impl true.
Definition push_str_literal := push_str_impl false.

Definition indent (st : source) (amt : nat) : source :=
  mkSource (rbuf st) (ind st + amt) (in_comment st) (continuing st).
(** [None] = arithmetic-overflow panic of [self.indent -= amt] (debug build) *)
Definition deindent (st : source) (amt : nat) : option source :=
  if amt <=? ind st then Some (mkSource (rbuf st) (ind st - amt) (in_comment st) (continuing st))
  else None.
Definition set_indent (st : source) (amt : nat) : source * nat :=
  (mkSource (rbuf st) amt (in_comment st) (continuing st), ind st).
(** [append_src]: note that [continuing_line] is NOT touched *)
Definition append_src (st src : source) : source :=
  mkSource (rbuf src ++ rbuf st) (ind st + ind src) (in_comment src) (continuing st).

(** Call sequences.  [Write parts] is [write!(s, "{}{}..", parts..)]: one [write_str] = [push_str] per part. *)
Inductive bop :=
| Push (f : text)
| Lit (f : text)
| Write (parts : list text)
| Indent (n : nat)
| Deindent (n : nat)
| SetIndent (n : nat)
| Query.                      (* [let o = s.set_indent(0); s.set_indent(o);] output [o] *)

Inductive op :=
| B (b : bop)
| Append (sub : list bop).   (* build a fresh Source with [sub], then [append_src] it *)

(** every step also yields what the call returns ([set_indent] returns the old level) *)
Definition step_b (st : source) (b : bop) : option (source * list nat) :=
  match b with
  | Push f => Some (push_str st f, [])
  | Lit f => Some (push_str_literal st f, [])
  | Write parts => Some (fold_left push_str parts st, [])
  | Indent n => Some (indent st n, [])
  | Deindent n => match deindent st n with Some st' => Some (st', []) | None => None end
  | SetIndent n => let '(st', old) := set_indent st n in Some (st', [old])
  | Query => let '(st1, old) := set_indent st 0 in let '(st2, _) := set_indent st1 old in Some (st2, [old])
  end.

Fixpoint run_b (st : source) (ops : list bop) : option (source * list nat) :=
  match ops with
  | [] => Some (st, [])
  | b :: rest =>
      match step_b st b with
      | None => None
      | Some (st', o1) =>
          match run_b st' rest with
          | None => None
          | Some (st'', o2) => Some (st'', o1 ++ o2)
          end
      end
  end.

Definition step (st : source) (o : op) : option (source * list nat) :=
  match o with
  | B b => step_b st b
  | Append sub =>
      match run_b source_default sub with
      | None => None
      | Some (src, outs) => Some (append_src st src, outs)
      end
  end.

Fixpoint run (st : source) (ops : list op) : option (source * list nat) :=
  match ops with
  | [] => Some (st, [])
  | o :: rest =>
      match step st o with
      | None => None
      | Some (st', o1) =>
          match run st' rest with
          | None => None
          | Some (st'', o2) => Some (st'', o1 ++ o2)
          end
      end
  end.

(** What the tie compares: the final [as_str] and everything the calls returned; [None] = panic. *)
Definition observe (ops : list op) : option (text * list nat) :=
  match run source_default ops with
  | Some (st, outs) => Some (as_str st, outs)
  | None => None
  end.

(** Helper for writing examples: "\n" "\r" "\t" "\\" escapes inside a Coq string literal. *)
Fixpoint unesc (s : text) : text :=
  match s with
  | "\"%char :: c :: r =>
      (if Ascii.eqb c "n"%char then LF
       else if Ascii.eqb c "r"%char then CR
       else if Ascii.eqb c "t"%char then "009"%char
       else c) :: unesc r
  | c :: r => c :: unesc r
  | [] => []
  end.
Definition tx (s : string) : text := unesc (list_ascii_of_string s).
