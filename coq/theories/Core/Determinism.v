(** C15 (proved part) — models of the places where a std HashMap/HashSet is iterated on the way to the generated
    output.  The hash collection is given as a LIST IN ARBITRARY ORDER (whatever order RandomState and the allocator
    produce in a given process); the theorems (DeterminismProofs.v) say that the emitted text does not depend on that
    order.  Definitions only.

    Sites (anchors in the working tree; the list is re-scanned on every run, corpus/C15-sites.txt):
      crates/moonbit/src/lib.rs  write_moon_pkg   `imports.packages.iter().map(fmt).collect(); deps.sort(); join(",\n")`
      crates/moonbit/src/lib.rs  write_moon_pkg   `self.export.iter().map(fmt).collect(); push(realloc); exports.sort(); join`
                                                  ([export] was a HashMap until /repo 8cfe635; the sort is still there)
      crates/core/src/types.rs   collect_equal_types   `for (&id,&info) in &self.type_info { merged[find(id)] |= info }`,
                                                       `for (&id,info) in &mut self.type_info { *info = merged[find(id)] }`
      crates/core/src/source.rs  Files (BTreeMap)      pushes with distinct names come out in name order
      crates/csharp/src/world_generator.rs finish      `self.bidirectional_types_src.iter().cloned().collect::<Vec<_>>().join("\n")`
      crates/csharp/src/world_generator.rs import_interface / export_interface
                                                       `by_resource(funcs, new_resources.keys())` appends to an IndexMap, emitted in that order
    The two C# sites have NO ordering step: [render_lines] and the [_refuted] theorem.  (The MoonBit loops
    `for b in builtins.iter() { uwriteln!(ffi, b) }` and `for (_, (_, impl_)) in self.export.iter()` were of the same kind;
    this check exhibited them and they were repaired in /repo by 6c38ab3 and 8cfe635.) *)
From Coq Require Import List String Ascii NArith Bool.
Import ListNotations.
Local Open Scope string_scope.

(** * Rust's [Ord for String]: lexicographic on bytes *)
Fixpoint sleb (a b : string) : bool :=
  match a, b with
  | EmptyString, _ => true
  | String _ _, EmptyString => false
  | String c1 s1, String c2 s2 =>
      let n1 := N_of_ascii c1 in let n2 := N_of_ascii c2 in
      if N.ltb n1 n2 then true else if N.eqb n1 n2 then sleb s1 s2 else false
  end.

(** * [Vec::sort] — modelled as insertion sort; for a total antisymmetric order the sorted permutation is unique
    (proved), so every correct sorting algorithm computes this function. *)
Section Sort.
  Context {A : Type} (leb : A -> A -> bool).
  Fixpoint insert (x : A) (l : list A) : list A :=
    match l with
    | [] => [x]
    | y :: r => if leb x y then x :: l else y :: insert x r
    end.
  Fixpoint isort (l : list A) : list A :=
    match l with [] => [] | x :: r => insert x (isort r) end.
End Sort.

Fixpoint join (sep : string) (l : list string) : string :=
  match l with
  | [] => ""
  | [x] => x
  | x :: r => x ++ sep ++ join sep r
  end.

Definition nl : string := String (ascii_of_nat 10) "".

(** [str.replace(".", "/")] *)
Fixpoint replace_dot (s : string) : string :=
  match s with
  | EmptyString => EmptyString
  | String c r => String (if Ascii.eqb c "."%char then "/"%char else c) (replace_dot r)
  end.

(** * MoonBit [write_moon_pkg]: the "import" list.  [es] = the entries of [imports.packages : HashMap<String,String>]. *)
Definition fmt_dep (project : string) (e : string * string) : string :=
  "{ ""path"" : """ ++ project ++ "/" ++ replace_dot (fst e) ++ """, ""alias"" : """ ++ snd e ++ """ }".

Definition render_moon_deps (project : string) (es : list (string * string)) : string :=
  join ("," ++ nl) (isort sleb (map (fmt_dep project) es)).

(** * MoonBit [write_moon_pkg]: the link "exports" list.  [es] = entries of [self.export : HashMap<String,(String,String)>]
    (export name -> (function name, impl text)); the realloc entry is pushed before sorting. *)
Definition fmt_export (e : string * (string * string)) : string :=
  """" ++ fst (snd e) ++ ":" ++ fst e ++ """".

Definition render_moon_exports (realloc_name : string) (es : list (string * (string * string))) : string :=
  join ("," ++ nl) (isort sleb (map fmt_export es ++ ["""mbt_ffi_cabi_realloc:" ++ realloc_name ++ """"])).

(** * [Types::collect_equal_types]: the merge loop.  [TypeInfo] = 8 booleans, [|=] is field-wise or: a bit mask with
    [N.lor].  [type_info : HashMap<TypeId,TypeInfo>] is the list [es]; [find] is the union-find representative (it does
    not change during the two loops); [merged] is a map with default [TypeInfo::default()] = 0. *)
Definition nmap := N -> N.
Definition nempty : nmap := fun _ => 0%N.
Definition nupd (m : nmap) (k v : N) : nmap := fun x => if N.eqb x k then v else m x.

Definition merge_step (find : N -> N) (m : nmap) (e : N * N) : nmap :=
  nupd m (find (fst e)) (N.lor (m (find (fst e))) (snd e)).

(** first loop *)
Definition merged (find : N -> N) (es : list (N * N)) : nmap := fold_left (merge_step find) es nempty.

(** second loop: every entry is overwritten with the merged info of its class ([merged] has an entry for every
    representative of a key, so the [if let Some] always fires); the resulting map, queried at [id]. *)
Definition type_info_after (find : N -> N) (es : list (N * N)) (id : N) : option N :=
  if existsb (fun e => N.eqb (fst e) id) es then Some (merged find es (find id)) else None.

(** * [Files] (BTreeMap<String, Vec<u8>>): with pairwise distinct names, iteration = name order *)
Definition pair_leb (a b : string * string) : bool :=
  if sleb (fst a) (fst b) then (if sleb (fst b) (fst a) then sleb (snd a) (snd b) else true) else false.

Definition files_iter (pushes : list (string * string)) : list (string * string) := isort pair_leb pushes.

(** * A hash collection written out with no ordering step (C# world-level enums, C# function-less resources) *)
Definition render_lines (es : list string) : string := concat "" (map (fun s => s ++ nl) es).
