(** Model of the file tracking of the Rust [generate!] macro
      crates/guest-rust/macro/src/lib.rs : [Config::parse] (how the `path` / `inline` fields build the
      [Source]), [parse_source] (which paths are handed to wit-parser and how [files] is collected),
      [Config::expand] (one `include_bytes!` const per collected file).
    wit-parser's [Resolve::push_path] is a Section function [walk] (it is outside the repository; the
    property trusts it): for a normalised path it fails, or returns the source paths it REPORTS
    ([PackageSourceMap::paths]) together with the files it READ.  A second, executable instance of
    [walk] over a concrete directory tree ([walk_tree], transcribed from wit-parser 0.257
    src/resolve/fs.rs + SourceMap::push_dir) is used for the correspondence run and to pin down exactly
    where "reported" and "read" differ.   Definitions only. *)
From Coq Require Import List String Ascii Bool.
Import ListNotations.
Local Open Scope list_scope.

Section ParseSource.
  Variable path : Type.
  Variable root_join : path -> path.     (* root.join(p), root = $CARGO_MANIFEST_DIR (an absolute p is kept) *)
  Variable canon : path -> path.         (* fs::canonicalize(p), or p itself when that fails *)
  Variable exists_ : path -> bool.       (* Path::exists *)
  Variable walk : path -> option (list path * list path).   (* push_path: Err | (reported, read) *)
  Variable default_dir : path.           (* root.join("wit") *)

  (** [enum Source]; the inline text itself is never a file. *)
  Inductive source := Paths (ps : list path) | Inline (ps : option (list path)).

  (** The fields of the macro input that matter here, in the order written. *)
  Inductive field := FPath (ps : list path) | FInline | FOther.

  (** The [Opt::Path] / [Opt::Inline] arms of [Config::parse]; [None] = "cannot specify second source". *)
  Definition add_field (src : option source) (f : field) : option (option source) :=
    match f with
    | FPath ps =>
        match src with
        | Some (Paths _) | Some (Inline (Some _)) => None
        | Some (Inline None) => Some (Some (Inline (Some ps)))
        | None => Some (Some (Paths ps))
        end
    | FInline =>
        match src with
        | Some (Inline _) => None
        | Some (Paths p) => Some (Some (Inline (Some p)))
        | None => Some (Some (Inline None))
        end
    | FOther => Some src
    end.

  Fixpoint fields_source (src : option source) (fs : list field) : option (option source) :=
    match fs with
    | [] => Some src
    | f :: r => match add_field src f with None => None | Some s => fields_source s r end
    end.

  Record outcome := mkout {
    tracked : list path;   (* [files]: what ends up in include_bytes! consts *)
    readf : list path;     (* files wit-parser read on behalf of the macro *)
    parsed : list path     (* the normalised paths handed to push_path, in order *)
  }.

  Definition empty : outcome := mkout [] [] [].

  (** The closure [parse] of [parse_source]: an error (`?`) aborts the expansion. *)
  Fixpoint parse_paths (ps : list path) (acc : outcome) : option outcome :=
    match ps with
    | [] => Some acc
    | p :: r =>
        let n := canon (root_join p) in
        match walk n with
        | None => None
        | Some (srcs, rd) =>
            parse_paths r (mkout (tracked acc ++ srcs) (readf acc ++ rd) (parsed acc ++ [n]))
        end
    end.

  Definition parse_source (s : option source) : option outcome :=
    match s with
    | Some (Inline (Some ps)) => parse_paths ps empty
    | Some (Inline None) => if exists_ default_dir then parse_paths [default_dir] empty else Some empty
    | Some (Paths ps) => parse_paths ps empty
    | None => parse_paths [default_dir] empty
    end.

  (** The paths a given source makes the macro parse (specification side of the theorem). *)
  Definition paths_of (s : option source) : list path :=
    match s with
    | Some (Inline (Some ps)) => ps
    | Some (Inline None) => if exists_ default_dir then [default_dir] else []
    | Some (Paths ps) => ps
    | None => [default_dir]
    end.

  (** [Config::expand]: one `const _: &[u8] = include_bytes!(r#"<file>"#);` per entry of [files]. *)
  Definition expand_includes (o : outcome) : list path := map (fun f => f) (tracked o).

  (** The whole macro as far as files are concerned: fields -> include_bytes! paths and files read. *)
  Definition macro_files (fs : list field) : option outcome :=
    match fields_source None fs with
    | None => None
    | Some s => parse_source s
    end.
End ParseSource.

Arguments Paths {path} ps.
Arguments Inline {path} ps.
Arguments FPath {path} ps.
Arguments FInline {path}.
Arguments FOther {path}.
Arguments mkout {path} _ _ _.
Arguments tracked {path} o.
Arguments readf {path} o.
Arguments parsed {path} o.

(** * A concrete directory tree and wit-parser's walk over it *)

Inductive fkind :=
| KWit        (* text that parses as WIT *)
| KWasmPkg    (* a WIT package encoded as a binary wasm component *)
| KOther.     (* anything else *)

Inductive node :=
| NFile (name : string) (k : fkind)
| NDir (name : string) (children : list node).

Definition node_name (n : node) : string := match n with NFile s _ => s | NDir s _ => s end.

Definition tpath := list string.   (* segments below $CARGO_MANIFEST_DIR *)

Fixpoint find_node (name : string) (l : list node) : option node :=
  match l with
  | [] => None
  | n :: r => if String.eqb (node_name n) name then Some n else find_node name r
  end.

(** Lookup of a path below the root (the root itself is the directory with children [fs]). *)
Fixpoint lookup (fs : list node) (p : tpath) : option node :=
  match p with
  | [] => Some (NDir ""%string fs)
  | s :: r =>
      match find_node s fs with
      | Some (NDir n ch) => match r with [] => Some (NDir n ch) | _ => lookup ch r end
      | Some (NFile n k) => match r with [] => Some (NFile n k) | _ => None end
      | None => None
      end
  end.

Fixpoint rev_string (s : string) : string :=
  match s with EmptyString => EmptyString | String c r => String.append (rev_string r) (String c EmptyString) end.

(** Rust [str::ends_with] *)
Definition ends_with (suffix s : string) : bool := prefix (rev_string suffix) (rev_string s).

(** Rust [Path::extension] of a file name: the part after the last '.', none if there is no '.' or
    the only '.' is the first character. *)
Fixpoint after_last_dot (s : string) (acc : option string) : option string :=
  match s with
  | EmptyString => acc
  | String c r => if Ascii.eqb c "."%char then after_last_dot r (Some r) else after_last_dot r acc
  end.

Definition extension (name : string) : option string :=
  match name with
  | EmptyString => None
  | String c r => if Ascii.eqb c "."%char
                  then (match after_last_dot r None with Some e => Some e | None => None end)
                  else after_last_dot r None
  end.

(** [SourceMap::push_dir]: the `*.wit` files directly inside a directory (sub-directories skipped).
    Every such file is read and reported; a file that does not parse makes the whole walk fail. *)
Fixpoint dir_wit_files (base : tpath) (ch : list node) : option (list tpath) :=
  match ch with
  | [] => Some []
  | NDir _ _ :: r => dir_wit_files base r
  | NFile n k :: r =>
      if ends_with ".wit"%string n then
        match k, dir_wit_files base r with
        | KWit, Some l => Some ((base ++ [n]) :: l)
        | _, _ => None
        end
      else dir_wit_files base r
  end.

(** [Resolve::parse_deps_dir]: (reported, read) for the entries of `deps/`. *)
Fixpoint deps_entries (base : tpath) (ch : list node) : option (list tpath * list tpath) :=
  match ch with
  | [] => Some ([], [])
  | e :: r =>
      match deps_entries base r with
      | None => None
      | Some (rep, rd) =>
          match e with
          | NDir n dch =>
              match dir_wit_files (base ++ [n]) dch with
              | None => None
              | Some l => Some (l ++ rep, l ++ rd)
              end
          | NFile n k =>
              match extension n with
              | Some ext =>
                  if String.eqb ext "wit"%string || String.eqb ext "wat"%string || String.eqb ext "wasm"%string then
                    match k with
                    | KWit => Some ((base ++ [n]) :: rep, (base ++ [n]) :: rd)
                    | KWasmPkg => Some (rep, (base ++ [n]) :: rd)   (* ParsedFile::Package(_) => continue *)
                    | KOther => None
                    end
                  else Some (rep, rd)
              | None => Some (rep, rd)
              end
          end
      end
  end.

(** [Resolve::push_path] on a path below the root. *)
Definition walk_tree (fs : list node) (p : tpath) : option (list tpath * list tpath) :=
  match lookup fs p with
  | None => None                                   (* push_file: "failed to read path" *)
  | Some (NFile _ KOther) => None
  | Some (NFile _ _) => Some ([p], [p])            (* PackageSourceMap::from_single_source *)
  | Some (NDir _ ch) =>
      match dir_wit_files p ch with
      | None => None
      | Some top =>
          match find_node "deps"%string ch with
          | Some (NDir _ dch) =>
              match deps_entries (p ++ ["deps"%string]) dch with
              | None => None
              | Some (rep, rd) => Some (top ++ rep, top ++ rd)
              end
          | _ => Some (top, top)
          end
      end
  end.

Definition tree_exists (fs : list node) (p : tpath) : bool :=
  match lookup fs p with Some _ => true | None => false end.

(** The macro on a concrete tree; paths are root-relative segment lists, so [root_join] and [canon]
    are the identity (symbolic links are resolved by whoever builds the tree). *)
Definition macro_tree (fs : list node) (fields : list (@field tpath)) : option (@outcome tpath) :=
  macro_files tpath (fun p => p) (fun p => p) (tree_exists fs) (walk_tree fs) ["wit"%string] fields.

(** No entry of a `deps/` directory that the walk of [p] visits is a binary-encoded package. *)
Fixpoint no_wasm_pkg (ch : list node) : bool :=
  match ch with
  | [] => true
  | NFile _ KWasmPkg :: _ => false
  | _ :: r => no_wasm_pkg r
  end.

Definition deps_clean (fs : list node) (p : tpath) : bool :=
  match lookup fs p with
  | Some (NDir _ ch) =>
      match find_node "deps"%string ch with
      | Some (NDir _ dch) => no_wasm_pkg dch
      | _ => true
      end
  | _ => true
  end.
