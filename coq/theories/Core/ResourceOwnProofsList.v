(** * Core/ResourceOwnProofsList.v — association-list and multiset lemmas used by the C07 proofs
    ([lookup]/[remove]/[keys] of Core/ResourceOwn.v, [remove_one]/[memN], Permutation helpers). *)
From Coq Require Import List NArith Bool Permutation Lia.
From WB Require Import Core.ResourceOwn.
Import ListNotations.
Local Open Scope N_scope.

Lemma Permutation_filter {A} (p : A -> bool) (l l' : list A) :
  Permutation l l' -> Permutation (filter p l) (filter p l').
Proof.
  induction 1; cbn.
  - constructor.
  - destruct (p x); auto.
  - destruct (p x), (p y); auto using perm_swap.
  - eauto using perm_trans.
Qed.

Lemma filter_nil_iff {A} (p : A -> bool) (l : list A) :
  filter p l = [] <-> (forall x, In x l -> p x = false).
Proof.
  induction l as [|a r IH]; cbn.
  - split; [intros _ x []|auto].
  - destruct (p a) eqn:E; split.
    + discriminate.
    + intros H. specialize (H a (or_introl eq_refl)). congruence.
    + intros H x [<-|Hx]; auto. apply IH; auto.
    + intros H. apply IH. auto.
Qed.

Lemma filter_ext_In {A} (p q : A -> bool) (l : list A) :
  (forall x, In x l -> p x = q x) -> filter p l = filter q l.
Proof.
  induction l as [|a r IH]; cbn; auto.
  intros H. rewrite (H a (or_introl eq_refl)). rewrite IH by auto. reflexivity.
Qed.

Section AL.
  Context {A : Type}.
  Implicit Types (l : list (N * A)) (k : N) (v : A).

  Lemma lookup_In k l v : lookup k l = Some v -> In (k, v) l.
  Proof.
    induction l as [|[k' v'] r IH]; cbn; [discriminate|].
    destruct (N.eqb_spec k k'); intros H.
    - inversion H; subst; auto.
    - auto.
  Qed.

  Lemma In_keys k v l : In (k, v) l -> In k (keys l).
  Proof. intros H. unfold keys. change k with (fst (k, v)). now apply in_map. Qed.

  Lemma lookup_In_keys k l v : lookup k l = Some v -> In k (keys l).
  Proof. intros H. eapply In_keys, lookup_In, H. Qed.

  Lemma In_keys_lookup k l : In k (keys l) -> exists v, lookup k l = Some v.
  Proof.
    induction l as [|[k' v'] r IH]; cbn; [intros []|].
    destruct (N.eqb_spec k k'); eauto.
    intros [H|H]; [congruence|auto].
  Qed.

  Lemma lookup_None_notin k l : lookup k l = None -> ~ In k (keys l).
  Proof. intros H Hin. apply In_keys_lookup in Hin as [v Hv]. congruence. Qed.

  Lemma notin_lookup_None k l : ~ In k (keys l) -> lookup k l = None.
  Proof.
    intros H. destruct (lookup k l) eqn:E; auto. apply lookup_In_keys in E. contradiction.
  Qed.

  Lemma In_lookup_nodup k v l : NoDup (keys l) -> In (k, v) l -> lookup k l = Some v.
  Proof.
    induction l as [|[k' v'] r IH]; cbn; [intros _ []|].
    intros Hnd [H|H].
    - inversion H; subst. now rewrite N.eqb_refl.
    - inversion Hnd; subst. destruct (N.eqb_spec k k').
      + subst. exfalso. apply H2. eapply In_keys, H.
      + auto.
  Qed.

  Lemma perm_remove k v l : lookup k l = Some v -> Permutation l ((k, v) :: remove k l).
  Proof.
    induction l as [|[k' v'] r IH]; cbn; [discriminate|].
    destruct (N.eqb_spec k k'); intros H.
    - inversion H; subst. reflexivity.
    - eapply perm_trans; [apply perm_skip, IH, H|apply perm_swap].
  Qed.

  Lemma perm_keys_remove k v l : lookup k l = Some v -> Permutation (keys l) (k :: keys (remove k l)).
  Proof. intros H. apply perm_remove in H. apply (Permutation_map fst) in H. exact H. Qed.

  Lemma In_remove (p : N * A) k l : In p (remove k l) -> In p l.
  Proof.
    induction l as [|[k' v'] r IH]; cbn; auto.
    destruct (N.eqb k k'); cbn; intuition.
  Qed.

  Lemma In_keys_remove k' k l : In k' (keys (remove k l)) -> In k' (keys l).
  Proof.
    unfold keys. rewrite !in_map_iff. intros [p [Hp Hin]]. exists p. split; auto. eapply In_remove, Hin.
  Qed.

  Lemma In_remove_other k' v' k l : In (k', v') l -> k' <> k -> In (k', v') (remove k l).
  Proof.
    induction l as [|[k0 v0] r IH]; cbn; auto.
    intros [H|H] Hne.
    - inversion H; subst. destruct (N.eqb_spec k k'); [congruence|]. now left.
    - destruct (N.eqb k k0); [auto|]. right; auto.
  Qed.

  Lemma NoDup_keys_remove k l : NoDup (keys l) -> NoDup (keys (remove k l)).
  Proof.
    induction l as [|[k' v'] r IH]; cbn; auto.
    intros H. inversion H; subst. destruct (N.eqb k k'); auto.
    cbn. constructor; auto. intros Hin. apply H2. eapply In_keys_remove, Hin.
  Qed.

  Lemma notin_keys_remove k l : NoDup (keys l) -> ~ In k (keys (remove k l)).
  Proof.
    induction l as [|[k' v'] r IH]; cbn; auto.
    intros H. inversion H; subst. destruct (N.eqb_spec k k').
    - subst. auto.
    - cbn. intros [E|Hin]; [congruence|]. now apply IH.
  Qed.

  Lemma lookup_remove_other k k' l : k' <> k -> lookup k' (remove k l) = lookup k' l.
  Proof.
    intros Hne. induction l as [|[k0 v0] r IH]; cbn; auto.
    destruct (N.eqb_spec k k0).
    - subst. destruct (N.eqb_spec k' k0); [congruence|reflexivity].
    - cbn. now rewrite IH.
  Qed.

  Lemma lookup_remove_same k l : NoDup (keys l) -> lookup k (remove k l) = None.
  Proof. intros H. apply notin_lookup_None, notin_keys_remove, H. Qed.

  Lemma filter_remove_false (p : N * A -> bool) k v l :
    lookup k l = Some v -> p (k, v) = false -> filter p (remove k l) = filter p l.
  Proof.
    induction l as [|[k' v'] r IH]; cbn; [discriminate|].
    destruct (N.eqb_spec k k'); intros H Hp.
    - inversion H; subst. now rewrite Hp.
    - cbn. now rewrite IH.
  Qed.

  Lemma length_filter_remove (p : N * A -> bool) k v l :
    lookup k l = Some v ->
    length (filter p l) = ((if p (k, v) then 1 else 0) + length (filter p (remove k l)))%nat.
  Proof.
    intros H. apply perm_remove in H. apply (Permutation_filter p) in H. apply Permutation_length in H.
    rewrite H. cbn. destruct (p (k, v)); reflexivity.
  Qed.

  Lemma length_remove k v l : lookup k l = Some v -> length l = S (length (remove k l)).
  Proof. intros H. apply perm_remove in H. apply Permutation_length in H. exact H. Qed.

  Lemma remove_cons_same k v l : remove k ((k, v) :: l) = l.
  Proof. cbn. now rewrite N.eqb_refl. Qed.

  Lemma lookup_cons_same k v l : lookup k ((k, v) :: l) = Some v.
  Proof. cbn. now rewrite N.eqb_refl. Qed.

  Lemma lookup_cons_other k k' v l : k <> k' -> lookup k ((k', v) :: l) = lookup k l.
  Proof. intros H. cbn. destruct (N.eqb_spec k k'); [congruence|reflexivity]. Qed.
End AL.

(** [remove_one] / [memN] on plain lists of numbers *)
Lemma memN_In x l : memN x l = true <-> In x l.
Proof.
  unfold memN. rewrite existsb_exists. split.
  - intros [y [Hy E]]. apply N.eqb_eq in E. now subst.
  - intros H. exists x. split; auto. apply N.eqb_refl.
Qed.

Lemma perm_remove_one x l : In x l -> Permutation l (x :: remove_one x l).
Proof.
  induction l as [|y r IH]; cbn; [intros []|].
  destruct (N.eqb_spec x y); intros H.
  - subst. reflexivity.
  - destruct H as [H|H]; [congruence|].
    eapply perm_trans; [apply perm_skip, IH, H|apply perm_swap].
Qed.

Lemma In_remove_one y x l : In y (remove_one x l) -> In y l.
Proof.
  induction l as [|z r IH]; cbn; auto.
  destruct (N.eqb x z); cbn; intuition.
Qed.
