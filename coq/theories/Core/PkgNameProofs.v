(** Proofs about the model of [name_package_module] (Core/PkgName.v):
    - [dec] (u64 Display) prints digits only, never the empty string, and is injective;
    - heck's snake-case automaton is the character map "non-alphanumeric -> '_'" on every *simple*
      string (lower-case letters and digits in non-empty words separated by single separators);
    - valid lower-case WIT identifiers and the texts of simple versions are simple strings;
    - the two injectivity theorems behind C27_partial_plain / C27_partial_prerelease;
    - every collision of the model is classified by [classify] (Core/PkgNameClass.v). *)
From Coq Require Import List Ascii NArith Bool Lia.
From WB Require Import Core.PkgName Core.PkgNameClass.
Import ListNotations.

(** * Character classes *)
Ltac cc := unfold is_alnum, is_alpha, is_digit, is_lower, is_upper in *;
  repeat match goal with
         | |- context [(?a <=? ?b)%N] => destruct (N.leb_spec a b)
         | H : context [(?a <=? ?b)%N] |- _ => destruct (N.leb_spec a b)
         end; simpl in *; try congruence; try lia.

Definition lowdig (c : ascii) : bool := is_lower c || is_digit c.

Lemma lowdig_alnum c : lowdig c = true -> is_alnum c = true.
Proof. unfold lowdig. cc. Qed.
Lemma lowdig_not_upper c : lowdig c = true -> is_upper c = false.
Proof. unfold lowdig. cc. Qed.
Lemma digit_lowdig c : is_digit c = true -> lowdig c = true.
Proof. unfold lowdig. intros ->. apply orb_true_r. Qed.
Lemma digit_not_lower c : is_digit c = true -> is_lower c = false.
Proof. cc. Qed.
Lemma to_lower_lowdig c : lowdig c = true -> to_lower c = c.
Proof. intros H. unfold to_lower. now rewrite (lowdig_not_upper c H). Qed.
Lemma lowercase_lowdig s : forallb lowdig s = true -> lowercase s = s.
Proof.
  induction s as [|c s IH]; simpl; intros H; [reflexivity|].
  apply andb_prop in H as [H1 H2]. now rewrite to_lower_lowdig, IH.
Qed.

Lemma us_not_alnum : is_alnum ch_us = false. Proof. reflexivity. Qed.
Lemma us_not_digit : is_digit ch_us = false. Proof. reflexivity. Qed.

Lemma forallb_rev {A} (f : A -> bool) l : forallb f (rev l) = forallb f l.
Proof.
  destruct (forallb f l) eqn:E.
  - apply forallb_forall. intros x Hx. apply in_rev in Hx. eapply forallb_forall in E; eauto.
  - destruct (forallb f (rev l)) eqn:E'; [|reflexivity].
    assert (forallb f l = true); [|congruence].
    apply forallb_forall. intros x Hx. apply in_rev in Hx. eapply forallb_forall in E'; eauto.
Qed.

Lemma str_eqb_eq a b : str_eqb a b = true <-> a = b.
Proof.
  revert b; induction a as [|x a IH]; destruct b as [|y b]; simpl; split; intros H; try congruence.
  - apply andb_prop in H as [H1 H2]. apply Ascii.eqb_eq in H1. apply IH in H2. congruence.
  - injection H as -> ->. rewrite Ascii.eqb_refl. simpl. now apply IH.
Qed.
Lemma str_eqb_refl a : str_eqb a a = true.
Proof. now apply str_eqb_eq. Qed.

(** * Decimal printing *)
Lemma undec_snoc l c : undec (l ++ [c]) = (10 * undec l + digit_val c)%N.
Proof. unfold undec. now rewrite fold_left_app. Qed.

Lemma digit_char_digit d : (d < 10)%N -> is_digit (digit_char d) = true /\ digit_val (digit_char d) = d.
Proof.
  intros H. unfold digit_char, digit_val, is_digit, code.
  rewrite N_ascii_embedding by lia.
  split; [|lia].
  apply andb_true_intro; split; apply N.leb_le; lia.
Qed.

Lemma dec_aux_spec f : forall n acc, (n < 2 ^ N.of_nat (S f))%N ->
  exists ds, dec_aux (S f) n acc = ds ++ acc /\ forallb is_digit ds = true /\ ds <> [] /\ undec ds = n.
Proof.
  induction f as [|f IH]; intros n acc Hn.
  - assert (n / 10 = 0)%N as E by (apply N.div_small; change (2 ^ N.of_nat 1)%N with 2%N in Hn; lia).
    assert (n mod 10 = n)%N as E2 by (apply N.mod_small; change (2 ^ N.of_nat 1)%N with 2%N in Hn; lia).
    simpl. rewrite E. simpl.
    destruct (digit_char_digit n) as [D1 D2]; [change (2 ^ N.of_nat 1)%N with 2%N in Hn; lia|].
    exists [digit_char (n mod 10)]. rewrite E2. simpl. rewrite D1. repeat split; try congruence.
    unfold undec. simpl. rewrite D2. lia.
  - change (dec_aux (S (S f)) n acc) with
      (let acc' := digit_char (n mod 10) :: acc in
       if (n / 10 =? 0)%N then acc' else dec_aux (S f) (n / 10) acc').
    cbv zeta.
    assert (n mod 10 < 10)%N as Hm by (apply N.mod_lt; lia).
    destruct (digit_char_digit _ Hm) as [D1 D2].
    destruct (N.eqb_spec (n / 10) 0) as [E|E].
    + exists [digit_char (n mod 10)]. simpl. rewrite D1. repeat split; try congruence.
      unfold undec. simpl. rewrite D2.
      pose proof (N.div_mod n 10). lia.
    + assert (n / 10 < 2 ^ N.of_nat (S f))%N as Hd.
      { rewrite Nat2N.inj_succ in Hn. rewrite N.pow_succ_r' in Hn.
        apply N.div_lt_upper_bound; lia. }
      destruct (IH (n / 10)%N (digit_char (n mod 10) :: acc) Hd) as (ds & E1 & E2 & E3 & E4).
      exists (ds ++ [digit_char (n mod 10)]). rewrite E1.
      repeat split.
      * now rewrite <- app_assoc.
      * rewrite forallb_app, E2. simpl. now rewrite D1.
      * intros Hc. apply app_eq_nil in Hc as [_ Hc]. discriminate.
      * rewrite undec_snoc, E4, D2. pose proof (N.div_mod n 10). lia.
Qed.

Lemma dec_spec n : forallb is_digit (dec n) = true /\ dec n <> [] /\ undec (dec n) = n.
Proof.
  unfold dec.
  destruct (dec_aux_spec (N.to_nat (N.log2 n)) n []) as (ds & E1 & E2 & E3 & E4).
  - rewrite Nat2N.inj_succ, N2Nat.id.
    destruct n as [|p]; [reflexivity|]. apply N.log2_spec. lia.
  - rewrite E1, app_nil_r. auto.
Qed.

Lemma dec_digits n : forallb is_digit (dec n) = true. Proof. apply dec_spec. Qed.
Lemma dec_nonempty n : dec n <> []. Proof. apply dec_spec. Qed.
Lemma dec_injective a b : dec a = dec b -> a = b.
Proof.
  intros H. destruct (dec_spec a) as (_ & _ & Ea). destruct (dec_spec b) as (_ & _ & Eb). congruence.
Qed.

(** * Unique splitting of a concatenation *)
Definition starts_not (P : ascii -> bool) (x : str) : bool :=
  match x with [] => true | c :: _ => negb (P c) end.

Lemma prefix_split_unique (P : ascii -> bool) : forall a b x y,
  forallb P a = true -> forallb P b = true -> starts_not P x = true -> starts_not P y = true ->
  a ++ x = b ++ y -> a = b /\ x = y.
Proof.
  induction a as [|c a IH]; intros [|d b] x y Ha Hb Hx Hy E; simpl in *.
  - auto.
  - subst x. simpl in Hx. apply andb_prop in Hb as [Hb _]. now rewrite Hb in Hx.
  - subst y. simpl in Hy. apply andb_prop in Ha as [Ha _]. now rewrite Ha in Hy.
  - injection E as -> E. apply andb_prop in Ha as [_ Ha]. apply andb_prop in Hb as [_ Hb].
    destruct (IH b x y Ha Hb Hx Hy E) as [-> ->]. auto.
Qed.

(** [X ++ c :: d = X' ++ c :: d'] where [c] occurs neither in [d] nor in [d'] *)
Lemma split_last (c : ascii) X X' d d' :
  forallb (fun x => negb (Ascii.eqb x c)) d = true -> forallb (fun x => negb (Ascii.eqb x c)) d' = true ->
  X ++ c :: d = X' ++ c :: d' -> X = X' /\ d = d'.
Proof.
  intros Hd Hd' E. apply (f_equal (@rev ascii)) in E.
  rewrite !rev_app_distr in E. simpl in E. rewrite <- !app_assoc in E. simpl in E.
  apply prefix_split_unique with (P := fun x => negb (Ascii.eqb x c)) in E.
  - destruct E as [E1 E2]. injection E2 as E2.
    apply (f_equal (@rev ascii)) in E1, E2. rewrite !rev_involutive in E1, E2. auto.
  - now rewrite forallb_rev.
  - now rewrite forallb_rev.
  - simpl. now rewrite Ascii.eqb_refl.
  - simpl. now rewrite Ascii.eqb_refl.
Qed.

Lemma digits_no_us d : forallb is_digit d = true -> forallb (fun x => negb (Ascii.eqb x ch_us)) d = true.
Proof.
  intros H. apply forallb_forall. intros x Hx. eapply forallb_forall in H; eauto.
  destruct (Ascii.eqb_spec x ch_us); [subst; discriminate|reflexivity].
Qed.

(** * heck's automaton on simple strings *)
Definition usmap (s : str) : str := map (fun c => if is_alnum c then c else ch_us) s.

Definition head_alnum (s : str) : bool := match s with [] => false | c :: _ => is_alnum c end.
(** every alphanumeric character is a lower-case letter or a digit; a separator is always followed by
    an alphanumeric character (so: no two separators in a row, none at the end) *)
Fixpoint tail_ok (s : str) : bool :=
  match s with
  | [] => true
  | c :: t => if is_alnum c then lowdig c && tail_ok t else head_alnum t && tail_ok t
  end.
Definition simple (s : str) : bool := head_alnum s && tail_ok s.

Lemma word_loop_lowdig : forall w acc mode first,
  w <> [] -> forallb lowdig w = true -> mode <> Uppercase ->
  word_loop w acc mode first = (false, bsep first ++ lowercase (rev acc ++ w)).
Proof.
  induction w as [|c rest IH]; intros acc mode first Hne Hw Hm; [congruence|].
  simpl in Hw. apply andb_prop in Hw as [Hc Hrest].
  destruct rest as [|next rest'].
  - simpl. reflexivity.
  - assert (Hn : lowdig next = true) by (simpl in Hrest; now apply andb_prop in Hrest as [? _]).
    change (word_loop (c :: next :: rest') acc mode first) with
      (let next_mode := if is_lower c then Lowercase else if is_upper c then Uppercase else mode in
       if wmode_eqb next_mode Lowercase && is_upper next then
         let '(f', o) := word_loop (next :: rest') [] Boundary false in
         (f', bsep first ++ lowercase (rev (c :: acc)) ++ o)
       else if wmode_eqb mode Uppercase && is_upper c && is_lower next then
         let '(f', o) := word_loop (next :: rest') [c] Boundary false in
         (f', bsep first ++ lowercase (rev acc) ++ o)
       else word_loop (next :: rest') (c :: acc)
                      (if is_lower c then Lowercase else if is_upper c then Uppercase else mode) first).
    cbv zeta.
    rewrite (lowdig_not_upper next Hn), andb_false_r.
    rewrite (lowdig_not_upper c Hc), andb_false_r. simpl andb. cbv iota.
    rewrite IH; [| congruence | exact Hrest | destruct (is_lower c); congruence].
    simpl rev. now rewrite <- app_assoc.
Qed.

(** the [for word in s.split(..)] loop, one character at a time; [cur] = current word reversed *)
Definition G (s cur : str) (first : bool) : str :=
  words_loop (split_by (fun c => negb (is_alnum c)) s cur) first.

Lemma word_cur cur first : cur <> [] -> forallb lowdig cur = true ->
  word_loop (rev cur) [] Boundary first = (false, bsep first ++ rev cur).
Proof.
  intros Hne Hc. rewrite word_loop_lowdig.
  - simpl. rewrite lowercase_lowdig; [reflexivity| now rewrite forallb_rev].
  - intros E. apply (f_equal (@rev ascii)) in E. rewrite rev_involutive in E. simpl in E. congruence.
  - now rewrite forallb_rev.
  - congruence.
Qed.

Lemma usmap_alnum_cons c t : is_alnum c = true -> usmap (c :: t) = c :: usmap t.
Proof. intros H. unfold usmap. simpl. now rewrite H. Qed.
Lemma usmap_sep_cons c t : is_alnum c = false -> usmap (c :: t) = ch_us :: usmap t.
Proof. intros H. unfold usmap. simpl. now rewrite H. Qed.

Lemma G_simple : forall s cur first, forallb lowdig cur = true -> tail_ok s = true ->
  (cur <> [] -> G s cur first = bsep first ++ rev cur ++ usmap s) /\
  (cur = [] -> head_alnum s = true -> G s [] first = bsep first ++ usmap s).
Proof.
  induction s as [|c t IH]; intros cur first Hcur Hs.
  - split.
    + intros Hne. unfold G. simpl. rewrite word_cur by assumption. now rewrite !app_nil_r.
    + intros _ H. discriminate.
  - simpl in Hs. destruct (is_alnum c) eqn:Ec.
    + apply andb_prop in Hs as [Hc Ht].
      assert (Hcur' : forallb lowdig (c :: cur) = true) by (simpl; now rewrite Hc).
      destruct (IH (c :: cur) first Hcur' Ht) as [IH1 _].
      assert (E : G (c :: t) cur first = G t (c :: cur) first) by (unfold G; simpl; now rewrite Ec).
      split.
      * intros _. rewrite E, IH1 by congruence. rewrite usmap_alnum_cons by assumption.
        simpl. now rewrite <- app_assoc.
      * intros -> _. rewrite E, IH1 by congruence. now rewrite usmap_alnum_cons.
    + apply andb_prop in Hs as [Hh Ht]. split.
      * intros Hne. unfold G. simpl. rewrite Ec. simpl. rewrite word_cur by assumption.
        destruct (IH [] false eq_refl Ht) as [_ IH2].
        fold (G t [] false). rewrite IH2 by auto. rewrite ?usmap_sep_cons by assumption.
        simpl. now rewrite <- !app_assoc.
      * intros _ H. simpl in H. congruence.
Qed.

Theorem snake_simple s : simple s = true -> to_snake_case s = usmap s.
Proof.
  unfold simple. intros H. apply andb_prop in H as [H1 H2].
  destruct (G_simple s [] true eq_refl H2) as [_ E]. exact (E eq_refl H1).
Qed.

(** building simple strings *)
Lemma tail_ok_app d rest : forallb lowdig d = true -> tail_ok (d ++ rest) = tail_ok rest.
Proof.
  induction d as [|c d IH]; simpl; intros H; [reflexivity|].
  apply andb_prop in H as [Hc Hd]. rewrite (lowdig_alnum c Hc), Hc. simpl. auto.
Qed.
Lemma head_alnum_app d rest : d <> [] -> forallb lowdig d = true -> head_alnum (d ++ rest) = true.
Proof.
  destruct d as [|c d]; [congruence|]. simpl. intros _ H. apply andb_prop in H as [Hc _].
  now apply lowdig_alnum.
Qed.
Lemma usmap_app a b : usmap (a ++ b) = usmap a ++ usmap b.
Proof. unfold usmap. apply map_app. Qed.
Lemma usmap_lowdig d : forallb lowdig d = true -> usmap d = d.
Proof.
  induction d as [|c d IH]; intros H; [reflexivity|]. simpl in H.
  apply andb_prop in H as [Hc Hd]. rewrite usmap_alnum_cons by now apply lowdig_alnum. now rewrite IH.
Qed.
Lemma digits_lowdig d : forallb is_digit d = true -> forallb lowdig d = true.
Proof.
  intros H. apply forallb_forall. intros x Hx. eapply forallb_forall in H; eauto. now apply digit_lowdig.
Qed.

(** * Splitting: all parts non-empty means "separators are single and inside" *)
Lemma split_nonempty (p : ascii -> bool) :
  (forall c, p c = true -> is_alnum c = false) ->
  forall s cur, forallb nonempty (split_by p s cur) = true ->
  forallb (fun c => p c || lowdig c) s = true ->
  (cur <> [] -> tail_ok s = true) /\ (cur = [] -> head_alnum s = true /\ tail_ok s = true).
Proof.
  intros Hp. induction s as [|c t IH]; intros cur Hsp Hch.
  - simpl in Hsp. split; [reflexivity|]. intros ->. discriminate.
  - simpl in Hsp, Hch. apply andb_prop in Hch as [Hc Ht]. destruct (p c) eqn:Epc.
    + simpl in Hsp. apply andb_prop in Hsp as [Hr Hsp].
      destruct (IH [] Hsp Ht) as [_ IH2]. destruct (IH2 eq_refl) as [Hh Hto].
      split.
      * intros _. simpl. rewrite (Hp c Epc). now rewrite Hh, Hto.
      * intros ->. discriminate.
    + simpl in Hc. destruct (IH (c :: cur) Hsp Ht) as [IH1 _].
      assert (Hto : tail_ok t = true) by (apply IH1; congruence).
      assert (Ha : is_alnum c = true) by now apply lowdig_alnum.
      split; intros _; simpl; rewrite Ha, Hc, Hto; auto.
Qed.

(** * Names *)
Definition lower_name (n : str) : bool :=
  forallb (fun c => Ascii.eqb c ch_dash || lowdig c) n.
Definition ends_in_digit (n : str) : bool :=
  match rev n with [] => false | c :: _ => is_digit c end.
Definition digit_free (n : str) : bool := forallb (fun c => negb (is_digit c)) n.

Lemma part_ok_nonempty b part : part_ok b part = true -> nonempty part = true.
Proof. destruct part; simpl; congruence. Qed.

Lemma valid_lower_simple n : valid_id n = true -> lower_name n = true -> simple n = true.
Proof.
  unfold valid_id, lower_name, simple. intros Hv Hl.
  destruct n as [|c n]; [discriminate|].
  set (s := c :: n) in *.
  assert (Hne : forallb nonempty (split_by (fun c => Ascii.eqb c ch_dash) s []) = true).
  { unfold parts_ok in Hv. destruct (split_by _ s []) as [|p0 ps]; [discriminate|].
    apply andb_prop in Hv as [H0 Hps]. simpl. rewrite (part_ok_nonempty _ _ H0). simpl.
    apply forallb_forall. intros x Hx. eapply forallb_forall in Hps; eauto.
    now apply part_ok_nonempty in Hps. }
  destruct (split_nonempty (fun c => Ascii.eqb c ch_dash)) with (s := s) (cur := @nil ascii) as [_ H]; auto.
  - intros x Hx. apply Ascii.eqb_eq in Hx. now subst.
  - destruct (H eq_refl) as [-> ->]. reflexivity.
Qed.

(** the character map is injective on alphabets with a single separator character *)
Lemma usmap_inj (sepc : ascii) : forall a b,
  forallb (fun c => Ascii.eqb c sepc || lowdig c) a = true ->
  forallb (fun c => Ascii.eqb c sepc || lowdig c) b = true ->
  usmap a = usmap b -> a = b.
Proof.
  induction a as [|x a IH]; intros [|y b] Ha Hb E; simpl in *; try discriminate; [reflexivity|].
  apply andb_prop in Ha as [Hx Ha]. apply andb_prop in Hb as [Hy Hb].
  injection E as E0 E. f_equal; [|now apply IH].
  destruct (lowdig x) eqn:Lx, (lowdig y) eqn:Ly.
  - now rewrite (lowdig_alnum x Lx), (lowdig_alnum y Ly) in E0.
  - rewrite orb_false_r in Hy. apply Ascii.eqb_eq in Hy.
    rewrite (lowdig_alnum x Lx) in E0. destruct (is_alnum y) eqn:Ay; [assumption|].
    subst x. discriminate.
  - rewrite orb_false_r in Hx. apply Ascii.eqb_eq in Hx.
    rewrite (lowdig_alnum y Ly) in E0. destruct (is_alnum x) eqn:Ax; [assumption|].
    subst y. discriminate.
  - rewrite orb_false_r in Hx, Hy. apply Ascii.eqb_eq in Hx, Hy. congruence.
Qed.

Lemma usmap_rev s : rev (usmap s) = usmap (rev s).
Proof. unfold usmap. symmetry. apply map_rev. Qed.

Lemma usmap_ends_in_digit n : ends_in_digit (usmap n) = ends_in_digit n.
Proof.
  unfold ends_in_digit. rewrite usmap_rev. destruct (rev n) as [|c t]; [reflexivity|].
  unfold usmap. simpl. destruct (is_alnum c) eqn:E; [reflexivity|].
  rewrite us_not_digit. symmetry. destruct (is_digit c) eqn:D; [|reflexivity].
  unfold is_alnum in E. now rewrite D in E.
Qed.

Lemma usmap_digit_free n : digit_free n = true -> digit_free (usmap n) = true.
Proof.
  unfold digit_free, usmap. intros H. rewrite forallb_forall in *. intros x Hx.
  apply in_map_iff in Hx as (c & <- & Hc). destruct (is_alnum c); [auto|reflexivity].
Qed.

(** * Versions *)
(** no build metadata; the pre-release part uses lower-case letters, digits and '.' only *)
Definition simple_version (v : version) : bool :=
  match build v with [] => true | _ => false end
  && forallb (fun c => Ascii.eqb c ch_dot || lowdig c) (pre v).
Definition plain_version (v : version) : bool :=
  match build v, pre v with [], [] => true | _, _ => false end.

Lemma plain_simple v : plain_version v = true -> simple_version v = true.
Proof. unfold plain_version, simple_version. destruct (build v), (pre v); simpl; congruence. Qed.

(** the mangled text of a simple version *)
Definition sfx_text (v : version) : str :=
  dec (major v) ++ ch_us :: dec (minor v) ++ ch_us :: dec (patch v)
  ++ (match pre v with [] => [] | p => ch_us :: usmap p end).

Lemma replace3_lowdig d : forallb lowdig d = true -> replace3 d = d.
Proof.
  induction d as [|c d IH]; simpl; intros H; [reflexivity|].
  apply andb_prop in H as [Hc Hd]. rewrite IH by assumption. f_equal.
  destruct (Ascii.eqb_spec c ch_dot); [subst; discriminate|].
  destruct (Ascii.eqb_spec c ch_dash); [subst; discriminate|].
  destruct (Ascii.eqb_spec c ch_plus); [subst; discriminate|]. reflexivity.
Qed.
Lemma replace3_app a b : replace3 (a ++ b) = replace3 a ++ replace3 b.
Proof. apply map_app. Qed.

Lemma replace3_cons_dot x : replace3 (ch_dot :: x) = ch_us :: replace3 x.
Proof. reflexivity. Qed.
Lemma replace3_cons_dash x : replace3 (ch_dash :: x) = ch_us :: replace3 x.
Proof. reflexivity. Qed.
Lemma tail_ok_us x : tail_ok (ch_us :: x) = head_alnum x && tail_ok x.
Proof. reflexivity. Qed.

Lemma replace3_pre p : forallb (fun c => Ascii.eqb c ch_dot || lowdig c) p = true ->
  tail_ok (replace3 p) = tail_ok p /\ head_alnum (replace3 p) = head_alnum p /\ usmap (replace3 p) = usmap p.
Proof.
  induction p as [|c p IH]; simpl; intros H; [auto|].
  apply andb_prop in H as [Hc Hp]. destruct (IH Hp) as (I1 & I2 & I3).
  destruct (Ascii.eqb_spec c ch_dot) as [->|Hn].
  - simpl. rewrite I1, I2, I3. auto.
  - simpl in Hc.
    destruct (Ascii.eqb_spec c ch_dash); [subst; discriminate|].
    destruct (Ascii.eqb_spec c ch_plus); [subst; discriminate|]. simpl.
    rewrite (lowdig_alnum c Hc), I1, I3. auto.
Qed.

Lemma pre_idents_nonempty p : forallb pre_ident_ok (idents p) = true -> forallb nonempty (idents p) = true.
Proof.
  intros H. apply forallb_forall. intros x Hx. eapply forallb_forall in H; eauto.
  destruct x; simpl in *; congruence.
Qed.

Lemma version_suffix_simple v : valid_version v = true -> simple_version v = true ->
  version_suffix v = sfx_text v.
Proof.
  intros Hv Hs. unfold simple_version in Hs. apply andb_prop in Hs as [Hb Hp].
  unfold version_suffix, version_to_string, sfx_text.
  destruct (build v) eqn:Eb; [|discriminate]. rewrite app_nil_r.
  pose proof (digits_lowdig _ (dec_digits (major v))) as L1.
  pose proof (digits_lowdig _ (dec_digits (minor v))) as L2.
  pose proof (digits_lowdig _ (dec_digits (patch v))) as L3.
  assert (Hpre : pre v = [] \/ (pre v <> [] /\ head_alnum (pre v) = true /\ tail_ok (pre v) = true)).
  { destruct (pre v) as [|c p] eqn:Ep; [now left|right]. split; [congruence|].
    unfold valid_version in Hv. rewrite Ep in Hv.
    apply andb_prop in Hv as [Hv _]. apply andb_prop in Hv as [_ Hv].
    apply pre_idents_nonempty in Hv. unfold idents in Hv.
    destruct (split_nonempty (fun c => Ascii.eqb c ch_dot)) with (s := c :: p) (cur := @nil ascii) as [_ H]; auto.
    intros x Hx. apply Ascii.eqb_eq in Hx. now subst. }
  set (P := match pre v with [] => [] | p => ch_dash :: p end).
  assert (R : replace3 (dec (major v) ++ ch_dot :: dec (minor v) ++ ch_dot :: dec (patch v) ++ P)
              = dec (major v) ++ ch_us :: dec (minor v) ++ ch_us :: dec (patch v) ++ replace3 P).
  { repeat first [rewrite replace3_app | rewrite replace3_cons_dot].
    now rewrite (replace3_lowdig _ L1), (replace3_lowdig _ L2), (replace3_lowdig _ L3). }
  rewrite R. clear R.
  rewrite snake_simple.
  - rewrite usmap_app, (usmap_lowdig _ L1). rewrite usmap_sep_cons by reflexivity.
    rewrite usmap_app, (usmap_lowdig _ L2). rewrite usmap_sep_cons by reflexivity.
    rewrite usmap_app, (usmap_lowdig _ L3).
    subst P. destruct (pre v) as [|c p] eqn:Ep; [reflexivity|].
    rewrite replace3_cons_dash.
    rewrite usmap_sep_cons by reflexivity.
    destruct (replace3_pre (c :: p) Hp) as (_ & _ & ->). reflexivity.
  - unfold simple.
    rewrite head_alnum_app by (auto using dec_nonempty). simpl andb.
    rewrite tail_ok_app by assumption. rewrite tail_ok_us.
    rewrite head_alnum_app by (auto using dec_nonempty). simpl andb.
    rewrite tail_ok_app by assumption. rewrite tail_ok_us.
    subst P.
    destruct Hpre as [->|(Hne & Hh & Ht)].
    + rewrite head_alnum_app by (auto using dec_nonempty). simpl andb.
      now rewrite tail_ok_app.
    + destruct (pre v) as [|c p] eqn:Ep; [congruence|].
      rewrite head_alnum_app by (auto using dec_nonempty). simpl andb.
      rewrite tail_ok_app by assumption.
      change (tail_ok (ch_us :: replace3 (c :: p)) = true). rewrite tail_ok_us.
      destruct (replace3_pre (c :: p) Hp) as (-> & -> & _). now rewrite Hh, Ht.
Qed.

Lemma sfx_text_starts_digit v : starts_not (fun c => negb (is_digit c)) (sfx_text v) = true /\ sfx_text v <> [].
Proof.
  unfold sfx_text. pose proof (dec_digits (major v)) as D. pose proof (dec_nonempty (major v)) as N.
  destruct (dec (major v)) as [|c d]; [congruence|]. simpl in *.
  apply andb_prop in D as [-> _]. split; [reflexivity|congruence].
Qed.

Lemma sfx_text_injective v w : simple_version v = true -> simple_version w = true ->
  sfx_text v = sfx_text w -> v = w.
Proof.
  unfold simple_version, sfx_text. intros Hv Hw E.
  apply andb_prop in Hv as [Bv Pv]. apply andb_prop in Hw as [Bw Pw].
  assert (S1 : forall x, starts_not is_digit (ch_us :: x) = true) by reflexivity.
  apply prefix_split_unique with (P := is_digit) in E; auto using dec_digits.
  destruct E as [E1 E]. injection E as E.
  apply prefix_split_unique with (P := is_digit) in E; auto using dec_digits.
  destruct E as [E2 E]. injection E as E.
  assert (Sv : starts_not is_digit (match pre v with [] => [] | p => ch_us :: usmap p end) = true)
    by (destruct (pre v); reflexivity).
  assert (Sw : starts_not is_digit (match pre w with [] => [] | p => ch_us :: usmap p end) = true)
    by (destruct (pre w); reflexivity).
  apply prefix_split_unique with (P := is_digit) in E; auto using dec_digits.
  destruct E as [E3 E].
  apply dec_injective in E1, E2, E3.
  assert (E4 : pre v = pre w).
  { destruct (pre v) as [|c p] eqn:Ev, (pre w) as [|c' p'] eqn:Ew; try discriminate; [reflexivity|].
    change (ch_us :: usmap (c :: p) = ch_us :: usmap (c' :: p')) in E.
    assert (E' : usmap (c :: p) = usmap (c' :: p')) by congruence.
    eapply (usmap_inj ch_dot); eauto. }
  destruct v as [a1 a2 a3 a4 a5], w as [b1 b2 b3 b4 b5]; simpl in *.
  destruct a5, b5; try discriminate. congruence.
Qed.

(** * Package sets *)
Lemma version_eqb_eq a b : version_eqb a b = true <-> a = b.
Proof.
  unfold version_eqb. split.
  - intros H. repeat (apply andb_prop in H as [H ?]).
    apply N.eqb_eq in H. repeat match goal with X : N.eqb _ _ = true |- _ => apply N.eqb_eq in X end.
    repeat match goal with X : str_eqb _ _ = true |- _ => apply str_eqb_eq in X end.
    destruct a, b; simpl in *; congruence.
  - intros ->. now rewrite !N.eqb_refl, !str_eqb_refl.
Qed.
Lemma pkg_eqb_eq p q : pkg_eqb p q = true <-> p = q.
Proof.
  unfold pkg_eqb, same_name, over_eqb. split.
  - intros H. apply andb_prop in H as [H Hv]. apply andb_prop in H as [H1 H2].
    apply str_eqb_eq in H1, H2.
    destruct p as [a b [v|]], q as [a' b' [v'|]]; simpl in *; try discriminate.
    + apply version_eqb_eq in Hv. congruence.
    + congruence.
  - intros ->. rewrite !str_eqb_refl. simpl. destruct (pver q); [now apply version_eqb_eq|reflexivity].
Qed.

Lemma nodupb_NoDup S : nodupb S = true -> NoDup S.
Proof.
  induction S as [|p S IH]; simpl; intros H; [constructor|].
  apply andb_prop in H as [H1 H2]. constructor; [|auto].
  intros Hin. apply negb_true_iff in H1.
  assert (existsb (pkg_eqb p) S = true); [|congruence].
  apply existsb_exists. exists p. split; [assumption|now apply pkg_eqb_eq].
Qed.

Lemma one_ns_spec S p q : one_ns S = true -> In p S -> In q S -> pns p = pns q.
Proof.
  destruct S as [|r S]; [contradiction|]. simpl. intros H Hp Hq.
  assert (forall x, In x (r :: S) -> pns x = pns r) as A.
  { intros x [<-|Hx]; [reflexivity|]. eapply forallb_forall in H; eauto. now apply str_eqb_eq. }
  rewrite (A p), (A q); auto.
Qed.

Lemma filter_one {A} (f : A -> bool) l x y :
  List.length (filter f l) = 1 -> In x l -> In y l -> f x = true -> f y = true -> x = y.
Proof.
  intros H Hx Hy Fx Fy.
  assert (Ix : In x (filter f l)) by (apply filter_In; auto).
  assert (Iy : In y (filter f l)) by (apply filter_In; auto).
  destruct (filter f l) as [|a [|b t]]; simpl in *; try discriminate; try contradiction.
  destruct Ix as [<-|[]], Iy as [<-|[]]. reflexivity.
Qed.

Lemma NoDup_map_inj_in {A B} (f : A -> B) l :
  (forall x y, In x l -> In y l -> f x = f y -> x = y) -> NoDup l -> NoDup (map f l).
Proof.
  induction l as [|a l IH]; simpl; intros Hinj Hnd; [constructor|].
  inversion Hnd as [|? ? Hn Hnd']; subst. constructor.
  - intros Hin. apply in_map_iff in Hin as (x & E & Hx).
    assert (x = a) by (apply Hinj; auto). subst. contradiction.
  - apply IH; auto.
Qed.

(** the suffix the model appends *)
Definition sfx (S : list pkg) (p : pkg) : str :=
  if mangled S p then match pver p with Some v => version_suffix v | None => [] end else [].

Lemma npm_sfx S p : name_package_module S p = to_snake_case (pname p) ++ sfx S p.
Proof.
  unfold name_package_module, sfx, mangled.
  destruct (Nat.eqb _ 1); simpl; [now rewrite app_nil_r|].
  destruct (pver p); [reflexivity|now rewrite app_nil_r].
Qed.

Lemma same_name_names p q : pns p = pns q -> pname p = pname q -> forall x, same_name p x = same_name q x.
Proof. intros E1 E2 x. unfold same_name. now rewrite E1, E2. Qed.

(** Step 2 (common to both theorems): equal bases and equal suffixes force equal packages. *)
Lemma same_base_same_sfx S p q :
  one_ns S = true -> In p S -> In q S ->
  lower_name (pname p) = true -> lower_name (pname q) = true ->
  (forall v, pver p = Some v -> valid_version v = true /\ simple_version v = true) ->
  (forall v, pver q = Some v -> valid_version v = true /\ simple_version v = true) ->
  usmap (pname p) = usmap (pname q) -> sfx S p = sfx S q -> p = q.
Proof.
  intros Hns Hp Hq Lp Lq Vp Vq Eb Es.
  assert (En : pname p = pname q) by (eapply usmap_inj; eauto).
  assert (Ens : pns p = pns q) by (eapply one_ns_spec; eauto).
  assert (Ef : filter (same_name p) S = filter (same_name q) S)
    by (apply filter_ext; now apply same_name_names).
  unfold sfx, mangled in Es. rewrite Ef in Es.
  destruct (Nat.eqb (List.length (filter (same_name q) S)) 1) eqn:Ec.
  - apply PeanoNat.Nat.eqb_eq in Ec.
    apply (filter_one (same_name q) S); auto; unfold same_name; rewrite ?Ens, ?En, !str_eqb_refl; reflexivity.
  - simpl in Es.
    destruct p as [a b [v|]], q as [a' b' [w|]]; simpl in *; subst.
    + destruct (Vp v eq_refl) as [V1 V2]. destruct (Vq w eq_refl) as [W1 W2].
      rewrite !version_suffix_simple in Es by assumption.
      apply sfx_text_injective in Es; auto. congruence.
    + destruct (Vp v eq_refl) as [V1 V2]. rewrite version_suffix_simple in Es by assumption.
      destruct (sfx_text_starts_digit v) as [_ N]. congruence.
    + destruct (Vq w eq_refl) as [W1 W2]. rewrite version_suffix_simple in Es by assumption.
      destruct (sfx_text_starts_digit w) as [_ N]. congruence.
    + reflexivity.
Qed.

Lemma sfx_cases S p :
  (forall v, pver p = Some v -> valid_version v = true /\ simple_version v = true) ->
  sfx S p = [] \/ exists v, pver p = Some v /\ sfx S p = sfx_text v.
Proof.
  intros V. unfold sfx. destruct (mangled S p); [|now left].
  destruct (pver p) as [v|]; [|now left]. right. exists v. split; [reflexivity|].
  destruct (V v eq_refl). now apply version_suffix_simple.
Qed.

(** ** Theorem 1: lower-case names that do not end in a digit, plain versions *)
Definition plain_pkg (p : pkg) : bool :=
  lower_name (pname p) && negb (ends_in_digit (pname p))
  && match pver p with None => true | Some v => plain_version v end.

Lemma plain_text v : plain_version v = true ->
  sfx_text v = dec (major v) ++ ch_us :: dec (minor v) ++ ch_us :: dec (patch v).
Proof. unfold plain_version, sfx_text. destruct (build v), (pre v); try discriminate. now rewrite app_nil_r. Qed.

Lemma ends_digit_app a d : d <> [] -> forallb is_digit d = true -> ends_in_digit (a ++ d) = true.
Proof.
  intros N D. unfold ends_in_digit. rewrite rev_app_distr.
  rewrite <- forallb_rev in D.
  destruct (rev d) as [|c t] eqn:E.
  - apply (f_equal (@rev ascii)) in E. rewrite rev_involutive in E. simpl in E. congruence.
  - simpl in *. now apply andb_prop in D as [-> _].
Qed.

Lemma ends_digit_plain a v : plain_version v = true ->
  ends_in_digit (a ++ dec (major v) ++ ch_us :: dec (minor v) ++ ch_us :: dec (patch v)) = true.
Proof.
  intros _. change (ch_us :: dec (patch v)) with ([ch_us] ++ dec (patch v)).
  change (ch_us :: dec (minor v) ++ [ch_us] ++ dec (patch v))
    with ([ch_us] ++ dec (minor v) ++ [ch_us] ++ dec (patch v)).
  rewrite !app_assoc. apply ends_digit_app; auto using dec_nonempty, dec_digits.
Qed.

Lemma trailing_digits a b d e :
  ends_in_digit a = false -> ends_in_digit b = false ->
  forallb is_digit d = true -> forallb is_digit e = true -> a ++ d = b ++ e -> a = b /\ d = e.
Proof.
  intros Ha Hb Hd He E. apply (f_equal (@rev ascii)) in E. rewrite !rev_app_distr in E.
  apply prefix_split_unique with (P := is_digit) in E.
  - destruct E as [E1 E2]. apply (f_equal (@rev ascii)) in E1, E2. rewrite !rev_involutive in E1, E2. auto.
  - now rewrite forallb_rev.
  - now rewrite forallb_rev.
  - unfold ends_in_digit in Ha. destruct (rev a); simpl; [reflexivity|now rewrite Ha].
  - unfold ends_in_digit in Hb. destruct (rev b); simpl; [reflexivity|now rewrite Hb].
Qed.

Lemma plain_split a b v w :
  ends_in_digit a = false -> ends_in_digit b = false ->
  plain_version v = true -> plain_version w = true ->
  a ++ sfx_text v = b ++ sfx_text w -> a = b /\ sfx_text v = sfx_text w.
Proof.
  intros Ha Hb Pv Pw E. rewrite (plain_text v Pv), (plain_text w Pw) in *.
  pose proof (dec_digits (major v)). pose proof (dec_digits (minor v)). pose proof (dec_digits (patch v)).
  pose proof (dec_digits (major w)). pose proof (dec_digits (minor w)). pose proof (dec_digits (patch w)).
  replace (a ++ dec (major v) ++ ch_us :: dec (minor v) ++ ch_us :: dec (patch v))
    with ((a ++ dec (major v) ++ ch_us :: dec (minor v)) ++ ch_us :: dec (patch v)) in E
    by (rewrite <- !app_assoc; simpl; now rewrite <- ?app_assoc).
  replace (b ++ dec (major w) ++ ch_us :: dec (minor w) ++ ch_us :: dec (patch w))
    with ((b ++ dec (major w) ++ ch_us :: dec (minor w)) ++ ch_us :: dec (patch w)) in E
    by (rewrite <- !app_assoc; simpl; now rewrite <- ?app_assoc).
  apply split_last in E; auto using digits_no_us. destruct E as [E E3].
  rewrite !app_assoc in E. apply split_last in E; auto using digits_no_us. destruct E as [E E2].
  apply trailing_digits in E; auto. destruct E as [E0 E1].
  split; [assumption|]. now rewrite E1, E2, E3.
Qed.

Theorem plain_injective S :
  valid_set S = true -> one_ns S = true -> forallb plain_pkg S = true ->
  NoDup (module_names S).
Proof.
  intros Hv Hns Hpl. unfold valid_set in Hv. apply andb_prop in Hv as [Hval Hnd].
  apply NoDup_map_inj_in; [|now apply nodupb_NoDup].
  intros p q Hp Hq E.
  assert (Fp := proj1 (forallb_forall _ _) Hpl p Hp). assert (Fq := proj1 (forallb_forall _ _) Hpl q Hq).
  assert (Wp := proj1 (forallb_forall _ _) Hval p Hp). assert (Wq := proj1 (forallb_forall _ _) Hval q Hq).
  unfold plain_pkg in Fp, Fq. unfold valid_pkg in Wp, Wq.
  apply andb_prop in Fp as [Fp Pp]. apply andb_prop in Fp as [Lp Dp].
  apply andb_prop in Fq as [Fq Pq]. apply andb_prop in Fq as [Lq Dq].
  apply andb_prop in Wp as [Wp Vp]. apply andb_prop in Wp as [_ Ip].
  apply andb_prop in Wq as [Wq Vq]. apply andb_prop in Wq as [_ Iq].
  apply negb_true_iff in Dp, Dq.
  assert (VSp : forall v, pver p = Some v -> valid_version v = true /\ simple_version v = true).
  { intros v Ev. rewrite Ev in *. split; [assumption|now apply plain_simple]. }
  assert (VSq : forall v, pver q = Some v -> valid_version v = true /\ simple_version v = true).
  { intros v Ev. rewrite Ev in *. split; [assumption|now apply plain_simple]. }
  rewrite !npm_sfx in E.
  rewrite !snake_simple in E by (apply valid_lower_simple; assumption).
  assert (Bp : ends_in_digit (usmap (pname p)) = false) by now rewrite usmap_ends_in_digit.
  assert (Bq : ends_in_digit (usmap (pname q)) = false) by now rewrite usmap_ends_in_digit.
  assert (usmap (pname p) = usmap (pname q) /\ sfx S p = sfx S q) as [E1 E2].
  { destruct (sfx_cases S p VSp) as [Sp|(v & Ev & Sp)], (sfx_cases S q VSq) as [Sq|(w & Ew & Sq)];
      rewrite Sp, Sq in *.
    - rewrite !app_nil_r in E. auto.
    - exfalso. rewrite app_nil_r in E. rewrite E in Bp.
      rewrite Ew in Pq. rewrite (plain_text w Pq) in Bp.
      rewrite ends_digit_plain in Bp; [discriminate|assumption].
    - exfalso. rewrite app_nil_r in E. rewrite <- E in Bq.
      rewrite Ev in Pp. rewrite (plain_text v Pp) in Bq.
      rewrite ends_digit_plain in Bq; [discriminate|assumption].
    - rewrite Ev in Pp. rewrite Ew in Pq. apply plain_split in E; auto. }
  eapply same_base_same_sfx; eauto.
Qed.

(** ** Theorem 2: digit-free lower-case names, simple versions (pre-release identifiers allowed) *)
Definition prerelease_pkg (p : pkg) : bool :=
  lower_name (pname p) && digit_free (pname p)
  && match pver p with None => true | Some v => simple_version v end.

Theorem prerelease_injective S :
  valid_set S = true -> one_ns S = true -> forallb prerelease_pkg S = true ->
  NoDup (module_names S).
Proof.
  intros Hv Hns Hpl. unfold valid_set in Hv. apply andb_prop in Hv as [Hval Hnd].
  apply NoDup_map_inj_in; [|now apply nodupb_NoDup].
  intros p q Hp Hq E.
  assert (Fp := proj1 (forallb_forall _ _) Hpl p Hp). assert (Fq := proj1 (forallb_forall _ _) Hpl q Hq).
  assert (Wp := proj1 (forallb_forall _ _) Hval p Hp). assert (Wq := proj1 (forallb_forall _ _) Hval q Hq).
  unfold prerelease_pkg in Fp, Fq. unfold valid_pkg in Wp, Wq.
  apply andb_prop in Fp as [Fp Pp]. apply andb_prop in Fp as [Lp Dp].
  apply andb_prop in Fq as [Fq Pq]. apply andb_prop in Fq as [Lq Dq].
  apply andb_prop in Wp as [Wp Vp]. apply andb_prop in Wp as [_ Ip].
  apply andb_prop in Wq as [Wq Vq]. apply andb_prop in Wq as [_ Iq].
  assert (VSp : forall v, pver p = Some v -> valid_version v = true /\ simple_version v = true).
  { intros v Ev. rewrite Ev in *. auto. }
  assert (VSq : forall v, pver q = Some v -> valid_version v = true /\ simple_version v = true).
  { intros v Ev. rewrite Ev in *. auto. }
  rewrite !npm_sfx in E.
  rewrite !snake_simple in E by (apply valid_lower_simple; assumption).
  apply prefix_split_unique with (P := fun c => negb (is_digit c)) in E.
  - destruct E as [E1 E2]. eapply same_base_same_sfx; eauto.
  - apply usmap_digit_free in Dp. exact Dp.
  - apply usmap_digit_free in Dq. exact Dq.
  - destruct (sfx_cases S p VSp) as [->|(v & _ & ->)]; [reflexivity|apply sfx_text_starts_digit].
  - destruct (sfx_cases S q VSq) as [->|(v & _ & ->)]; [reflexivity|apply sfx_text_starts_digit].
Qed.

(** * Every collision of the model is explained by [classify] *)
Lemma vtext_sfx S p : to_snake_case (replace3 (vtext S p)) = sfx S p.
Proof.
  unfold vtext, sfx. destruct (mangled S p); [|reflexivity].
  destruct (pver p); reflexivity.
Qed.

Theorem collisions_classified S a b : colliding S a b = true -> KnownClass S a b = true.
Proof.
  unfold colliding, KnownClass. intros H. apply andb_prop in H as [_ H].
  apply str_eqb_eq in H. rewrite !npm_sfx, <- !vtext_sfx in H.
  unfold classify. cbv zeta. rewrite H, str_eqb_refl.
  repeat match goal with |- context [if ?c then _ else _] => destruct c; try reflexivity end.
Qed.
