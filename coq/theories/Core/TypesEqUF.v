(** Proofs about the UnionFind model: [find] (with its path compression) returns the root of the
    uncompressed structure and does not change any root; [union] merges exactly two classes. *)
From Coq Require Import List Bool Arith Lia.
From WB Require Import Core.TypesEq.
Import ListNotations.

(** every stored binding points to a smaller id (the code roots a union at the smaller id) *)
Definition uf_wf (u : uf) : Prop := forall x p, uf_get u x = Some p -> p < x.

(** the root of [x], without compression *)
Fixpoint rep_f (fuel : nat) (u : uf) (x : tid) : tid :=
  match fuel with
  | O => x
  | S f => let p := uf_parent u x in if p =? x then x else rep_f f u p
  end.
Definition rep (u : uf) (x : tid) : tid := rep_f (S x) u x.

Lemma uf_wf_empty : uf_wf uf_empty.
Proof. intros x p H. discriminate. Qed.

Lemma uf_parent_lt u x : uf_wf u -> uf_parent u x <> x -> uf_parent u x < x.
Proof.
  unfold uf_parent. intros W H. destruct (uf_get u x) eqn:E; [apply W; auto | congruence].
Qed.

Lemma rep_f_indep u : uf_wf u -> forall f f' x, x < f -> x < f' -> rep_f f u x = rep_f f' u x.
Proof.
  intros W. induction f as [|f IH]; intros f' x H1 H2; [lia|].
  destruct f' as [|f']; [lia|]. cbn [rep_f].
  destruct (uf_parent u x =? x) eqn:E; auto.
  apply Nat.eqb_neq in E. pose proof (uf_parent_lt u x W E). apply IH; lia.
Qed.

Lemma rep_f_rep u f x : uf_wf u -> x < f -> rep_f f u x = rep u x.
Proof. intros. unfold rep. apply rep_f_indep; auto. Qed.

Lemma rep_unfold u x : uf_wf u ->
  rep u x = if uf_parent u x =? x then x else rep u (uf_parent u x).
Proof.
  intros W. unfold rep at 1. cbn [rep_f].
  destruct (uf_parent u x =? x) eqn:E; auto.
  apply Nat.eqb_neq in E. pose proof (uf_parent_lt u x W E). apply rep_f_rep; auto.
Qed.

Lemma rep_le u : uf_wf u -> forall x, rep u x <= x.
Proof.
  intros W x. induction x as [x IH] using lt_wf_ind.
  rewrite rep_unfold by auto. destruct (uf_parent u x =? x) eqn:E; auto.
  apply Nat.eqb_neq in E. pose proof (uf_parent_lt u x W E). specialize (IH _ H). lia.
Qed.

Lemma rep_root u : uf_wf u -> forall x, uf_parent u (rep u x) = rep u x.
Proof.
  intros W x. induction x as [x IH] using lt_wf_ind.
  rewrite rep_unfold by auto. destruct (uf_parent u x =? x) eqn:E.
  - apply Nat.eqb_eq in E. auto.
  - apply Nat.eqb_neq in E. apply IH. apply uf_parent_lt; auto.
Qed.

Lemma rep_of_root u x : uf_wf u -> uf_parent u x = x -> rep u x = x.
Proof. intros W H. rewrite rep_unfold by auto. rewrite H, Nat.eqb_refl. auto. Qed.

Lemma rep_idem u x : uf_wf u -> rep u (rep u x) = rep u x.
Proof. intros W. apply rep_of_root; auto. apply rep_root; auto. Qed.

Lemma rep_empty x : rep uf_empty x = x.
Proof. apply rep_of_root. apply uf_wf_empty. reflexivity. Qed.

Lemma uf_wf_cons u x r : uf_wf u -> r < x -> uf_wf ((x, r) :: u).
Proof.
  intros W H y p. cbn [uf_get]. destruct (x =? y) eqn:E.
  - apply Nat.eqb_eq in E. intros [= <-]. lia.
  - apply W.
Qed.

Lemma uf_parent_cons u x r y :
  uf_parent ((x, r) :: u) y = if x =? y then r else uf_parent u y.
Proof. unfold uf_parent. cbn [uf_get]. destruct (x =? y); auto. Qed.

(** path compression: binding [x] directly to its root changes no root *)
Lemma rep_compress u x r : uf_wf u -> r = rep u x -> r < x ->
  forall y, rep ((x, r) :: u) y = rep u y.
Proof.
  intros W Hr Hlt. assert (W2 : uf_wf ((x, r) :: u)) by (apply uf_wf_cons; auto).
  intros y. induction y as [y IH] using lt_wf_ind.
  rewrite (rep_unfold _ y W2). rewrite uf_parent_cons.
  destruct (x =? y) eqn:E.
  - apply Nat.eqb_eq in E. subst y.
    assert (r =? x = false) as -> by (apply Nat.eqb_neq; lia).
    rewrite IH by auto. subst r. apply rep_idem; auto.
  - rewrite (rep_unfold u y W).
    destruct (uf_parent u y =? y) eqn:E2; auto.
    apply Nat.eqb_neq in E2. apply IH. apply uf_parent_lt; auto.
Qed.

Lemma find_f_spec u : uf_wf u -> forall f x, x < f ->
  exists u', uf_find_f f u x = ROk (rep u x, u') /\ uf_wf u' /\ (forall y, rep u' y = rep u y).
Proof.
  intros W. induction f as [|f IH]; intros x Hx; [lia|].
  cbn [uf_find_f]. rewrite (rep_unfold u x W).
  destruct (uf_parent u x =? x) eqn:E.
  - exists u. auto.
  - apply Nat.eqb_neq in E. pose proof (uf_parent_lt u x W E) as Hp.
    destruct (IH (uf_parent u x)) as (u1 & H1 & W1 & R1); [lia|].
    rewrite H1. cbn [bind]. eexists. split; [reflexivity|].
    assert (Hlt : rep u (uf_parent u x) < x).
    { pose proof (rep_le u W (uf_parent u x)). lia. }
    assert (Hr : rep u (uf_parent u x) = rep u1 x).
    { rewrite R1. rewrite (rep_unfold u x W).
      destruct (uf_parent u x =? x) eqn:E3; auto. apply Nat.eqb_eq in E3. congruence. }
    split.
    + apply uf_wf_cons; auto.
    + intros y. rewrite (rep_compress u1 x _ W1 Hr Hlt). apply R1.
Qed.

Lemma find_spec u x : uf_wf u ->
  exists u', uf_find u x = ROk (rep u x, u') /\ uf_wf u' /\ (forall y, rep u' y = rep u y).
Proof. intros W. apply find_f_spec; auto. Qed.

(** linking root [rb] below root [ra] merges the class of [rb] into that of [ra] *)
Lemma rep_link u ra rb : uf_wf u -> rep u ra = ra -> rep u rb = rb -> ra < rb ->
  forall y, rep ((rb, ra) :: u) y = if rep u y =? rb then ra else rep u y.
Proof.
  intros W Ha Hb Hlt. assert (W2 : uf_wf ((rb, ra) :: u)) by (apply uf_wf_cons; auto).
  intros y. induction y as [y IH] using lt_wf_ind.
  rewrite (rep_unfold _ y W2). rewrite uf_parent_cons.
  destruct (rb =? y) eqn:E.
  - apply Nat.eqb_eq in E. subst y.
    assert (ra =? rb = false) as -> by (apply Nat.eqb_neq; lia).
    rewrite IH by auto. rewrite Ha, Hb, Nat.eqb_refl.
    assert (ra =? rb = false) as -> by (apply Nat.eqb_neq; lia). auto.
  - apply Nat.eqb_neq in E. rewrite (rep_unfold u y W).
    destruct (uf_parent u y =? y) eqn:E2.
    + assert (y =? rb = false) as -> by (apply Nat.eqb_neq; lia). auto.
    + apply Nat.eqb_neq in E2. apply IH. apply uf_parent_lt; auto.
Qed.

(** [union a b]: afterwards two ids have the same root iff they had, or one was in [a]'s class
    and the other in [b]'s *)
Lemma union_spec u a b : uf_wf u ->
  exists u', uf_union u a b = ROk u' /\ uf_wf u' /\
    (forall y, rep u' y =
               if (rep u y =? rep u a) || (rep u y =? rep u b)
               then Nat.min (rep u a) (rep u b) else rep u y).
Proof.
  intros W. unfold uf_union.
  destruct (find_spec u a W) as (u1 & H1 & W1 & R1). rewrite H1. cbn [bind].
  destruct (find_spec u1 b W1) as (u2 & H2 & W2 & R2). rewrite H2. cbn [bind].
  rewrite R1.
  assert (R : forall y, rep u2 y = rep u y) by (intros; rewrite R2, R1; auto).
  set (ra := rep u a). set (rb := rep u b).
  assert (Ia : rep u2 ra = ra) by (rewrite R; apply rep_idem; auto).
  assert (Ib : rep u2 rb = rb) by (rewrite R; apply rep_idem; auto).
  destruct (ra =? rb) eqn:E.
  - apply Nat.eqb_eq in E. exists u2. split; [auto|]. split; [auto|].
    intros y. rewrite R. rewrite <- E. rewrite Nat.min_id.
    destruct (rep u y =? ra) eqn:E2; cbn; auto. apply Nat.eqb_eq in E2. auto.
  - apply Nat.eqb_neq in E. destruct (ra <? rb) eqn:E2.
    + apply Nat.ltb_lt in E2. eexists. split; [reflexivity|]. split; [apply uf_wf_cons; auto|].
      intros y. rewrite (rep_link u2 ra rb W2 Ia Ib E2). rewrite R.
      rewrite Nat.min_l by lia.
      destruct (rep u y =? rb) eqn:E3; destruct (rep u y =? ra) eqn:E4; cbn; auto.
      apply Nat.eqb_eq in E4. auto.
    + apply Nat.ltb_ge in E2. assert (rb < ra) by lia.
      eexists. split; [reflexivity|]. split; [apply uf_wf_cons; auto|].
      intros y. rewrite (rep_link u2 rb ra W2 Ib Ia H). rewrite R.
      rewrite Nat.min_r by lia.
      destruct (rep u y =? rb) eqn:E3; destruct (rep u y =? ra) eqn:E4; cbn; auto.
      apply Nat.eqb_eq in E3. auto.
Qed.

(** consequences used by the clients *)
Lemma union_joins u a b u' : uf_wf u -> uf_union u a b = ROk u' -> rep u' a = rep u' b.
Proof.
  intros W H. destruct (union_spec u a b W) as (u2 & H2 & _ & R). rewrite H in H2.
  injection H2 as <-. rewrite !R. rewrite !Nat.eqb_refl. rewrite Bool.orb_true_r. auto.
Qed.

Lemma union_mono u a b u' : uf_wf u -> uf_union u a b = ROk u' ->
  forall x y, rep u x = rep u y -> rep u' x = rep u' y.
Proof.
  intros W H x y E. destruct (union_spec u a b W) as (u2 & H2 & _ & R). rewrite H in H2.
  injection H2 as <-. rewrite !R. rewrite E. auto.
Qed.
