#!/usr/bin/env python3
"""tools/seedtest.py <Cnn> [--checks C01,C03] [--suite]   — confirm a seeded regression produced by a fresh sub-agent
in /tmp/seeds/<Cnn>/{wt,out} and run our checks against it.
 1. patch applies cleanly to /repo's HEAD (git apply --check)
 2. demonstration: out/run.sh <path> fails on the changed worktree and passes on /repo (clean)
 3. (--suite) the pinned test suite passes in the changed worktree
 4. VERIF_REPO=<worktree> ./check <id> for each check: must exit 1 with a VIOLATION line
 5. copies patch.diff, the demonstration and meta.json to /verif/seeded/<Cnn>/ (only if 1-2 hold)"""
import json, os, shutil, subprocess, sys, time
ROOT = os.path.dirname(os.path.dirname(os.path.abspath(__file__)))

def sh(cmd, cwd=None, env=None, timeout=7200):
    e = dict(os.environ); e.update(env or {})
    p = subprocess.run(cmd, shell=True, cwd=cwd, env=e, stdout=subprocess.PIPE, stderr=subprocess.STDOUT, text=True, timeout=timeout)
    return p.returncode, p.stdout

def main():
    pid = sys.argv[1]
    checks = [pid]
    suite = "--suite" in sys.argv
    for i, a in enumerate(sys.argv):
        if a == "--checks":
            checks = sys.argv[i + 1].split(",")
    sd = "/tmp/seeds/%s" % pid
    out, wt = sd + "/out", sd + "/wt"
    res = {"property": pid, "at": time.strftime("%Y-%m-%dT%H:%M:%SZ", time.gmtime())}
    patch = out + "/patch.diff"
    if not os.path.exists(patch):
        rc, d = sh("git -C %s diff" % wt)
        open(patch, "w").write(d)
    rc, o = sh("git -C /repo apply --check %s" % patch)
    res["patch_applies_to_repo_head"] = (rc == 0)
    if rc != 0:
        res["apply_error"] = o[-500:]
    if os.path.exists(out + "/run.sh"):
        rc1, o1 = sh("bash %s/run.sh %s" % (out, wt), cwd=out, timeout=3600)
        # one cargo target dir per source tree: a shared dir silently reuses the other tree's mtime-fresh binary
        rc0, o0 = sh("bash %s/run.sh /repo" % out, cwd=out, timeout=3600, env={pid + "_TARGET_DIR": sd + "/target-repo"})
        res["demo_with_change"] = {"rc": rc1, "tail": o1[-600:]}
        res["demo_without_change"] = {"rc": rc0, "tail": o0[-600:]}
        res["demo_confirms"] = (rc1 != 0 and rc0 == 0)
    else:
        res["demo_confirms"] = None
    if suite:
        rc, o = sh("cargo test --workspace --no-fail-fast --offline --target-dir %s/target 2>&1 | grep -E '^test result|FAILED|panicked|error(\\[|:)' | tail -40" % sd, cwd=wt, timeout=7200)
        res["suite_with_change"] = {"rc": rc, "failed_lines": [l for l in o.split("\n") if "FAILED" in l or "failed;" in l and " 0 failed" not in l][:10],
                                    "ok": all(" 0 failed" in l for l in o.split("\n") if l.startswith("test result"))}
    res["checks"] = {}
    for c in checks:
        t = time.time()
        rc, o = sh("./check %s --tier quick" % c, cwd=ROOT, env={"VERIF_REPO": wt}, timeout=7200)
        viol = [l for l in o.split("\n") if l.startswith("VIOLATION")]
        res["checks"][c] = {"rc": rc, "violation_lines": viol[:5], "wall_s": round(time.time() - t, 1),
                            "caught": rc == 1 and bool(viol), "with_concrete_replay": any("no-failing-input-found" not in v for v in viol)}
        for v in viol[:2]:
            rp = v.split("replay=")[1].split(" ")[0]
            if os.path.exists(rp):
                try:
                    res["checks"][c].setdefault("replays", []).append(json.load(open(rp)).get("what", "")[:300])
                except Exception:
                    pass
    dst = os.path.join(ROOT, "seeded", pid)
    os.makedirs(dst, exist_ok=True)
    shutil.copy(patch, dst + "/patch.diff")
    for f in os.listdir(out):
        if f in ("patch.diff",) or f.startswith("target"):
            continue
        s = os.path.join(out, f)
        if os.path.isdir(s):
            shutil.copytree(s, os.path.join(dst, f), dirs_exist_ok=True, ignore=shutil.ignore_patterns("target", "*.rlib", "*.rmeta", "Cargo.lock"))
        elif os.path.getsize(s) < 2_000_000:
            shutil.copy(s, dst)
    meta = os.path.join(dst, "meta.json")
    old = json.load(open(meta)) if os.path.exists(meta) else {}
    old.update(res)
    json.dump(old, open(meta, "w"), indent=1)
    print(json.dumps(res, indent=1)[:3000])

main()
