#!/usr/bin/env python3
"""Regenerates MANIFEST.json from the META dict of every checks/cNN.py and tools/not_applicable.json.
A property without a check module must be listed in not_applicable.json (asserted here)."""
import glob, importlib, json, os, sys
ROOT = os.path.dirname(os.path.dirname(os.path.abspath(__file__)))
sys.path.insert(0, os.path.join(ROOT, "lib")); sys.path.insert(0, ROOT)
props = [json.loads(l)["id"] for l in open(os.path.join(ROOT, "properties.jsonl"))]
reasons = json.load(open(os.path.join(ROOT, "tools", "na_reasons.json")))
checks = []
engines = {}
for m in sorted(glob.glob(os.path.join(ROOT, "checks", "c[0-9]*.py"))):
    mod = importlib.import_module("checks." + os.path.basename(m)[:-3])
    if not getattr(mod, "READY", False):
        continue
    meta = mod.META
    pid = os.path.basename(m)[1:-3].upper()
    pid = "C" + pid
    checks.append({
        "property_id": pid,
        "quick_cmd": "./check %s --tier quick" % pid,
        "thorough_cmd": "./check %s --tier thorough" % pid,
        "evidence_file": "/verif/evidence/%s.json" % pid,
        "replay_cmd_template": "./check %s --replay {path}" % pid,
        "engine": meta["engine"],
        "level_claimed": {"category": mod.LEVEL, "text": meta["text"], "design_ref": meta.get("design_ref", "DESIGN.md section 5, " + pid)},
        "level_note": meta["note"],
        "technique": meta["technique"],
    })
    engines.setdefault(meta["engine"], []).append(pid)
claimed = {c["property_id"] for c in checks}
DEFAULT = "not claimed: no finished check (proof + tie) exists for it in this tree; see DESIGN.md section 5 for the plan and section 8 for the order of work"
na = [{"property_id": p, "reason": reasons.get(p, DEFAULT)} for p in props if p not in claimed]
ENG = {
    "coq+corelib": ("harness/corelib", "Coq model + theorems; real wit-bindgen-core pure components driven through a line protocol and compared with the extracted model"),
    "coq+absdump": ("harness/absdump", "Coq model of abi.rs + canonical-ABI spec; recording Bindgen dumps the real instruction streams, compared token-for-token with the model and interpreted against the spec"),
    "coq+scrape": ("harness/scrape", "generators run as libraries; emitted expressions/declarations translated to Coq and decided by proved normalisers/checkers"),
    "coq+rtmock": ("harness/rtmock", "Coq state-machine models of the async runtime; native mock component-model host drives the real runtime (hook H1)"),
    "coq+genrun": ("harness/genrun", "generated bindings compiled natively and run against the Coq canonical-ABI oracle"),
    "coq+cli": ("harness/cli", "Coq model; real wit-bindgen binary run on temp dirs"),
}
man = {
    "version": 1,
    "setup_cmd": "./check --setup",
    "hooks": {
        "guard": "--cfg bytecodealliance_wit_bindgen_verif",
        "enable": "RUSTFLAGS='--cfg bytecodealliance_wit_bindgen_verif' (set by lib/vf.py cargo_build(hook=True) for harness crates that need hook H1)",
        "baseline_off_cmd": "cd /repo && cargo test --workspace --no-fail-fast --offline",
        "source_commits": json.load(open(os.path.join(ROOT, "tools", "hook_commits.json"))),
        "add_only": True,
    },
    "engines": [{"name": k, "path": ENG.get(k, (k, ""))[0], "serves_properties": v, "kind_free_text": ENG.get(k, ("", k))[1]} for k, v in sorted(engines.items())],
    "checks": checks,
    "not_applicable": na,
    "notes": "Technique family: machine-checked proof in Coq 8.16.1. Every check = proof leg (make + Print Assumptions audit + hygiene grep) + tie leg (correspondence or translator) + search leg; see DESIGN.md sections 1, 4, 7.",
}
json.dump(man, open(os.path.join(ROOT, "MANIFEST.json"), "w"), indent=1)
print("MANIFEST.json: %d checks, %d not applicable" % (len(checks), len(na)))
