//! encoder <wit dir or file> <out.wasm>: WIT package -> binary wasm-encoded WIT package.
fn main() -> anyhow::Result<()> {
    let mut args = std::env::args().skip(1);
    let src = args.next().expect("source");
    let out = args.next().expect("output");
    let mut resolve = wit_parser::Resolve::default();
    let (pkg, _) = resolve.push_path(&src)?;
    let bytes = wit_component::encode(&resolve, pkg)?;
    std::fs::write(&out, bytes)?;
    Ok(())
}
