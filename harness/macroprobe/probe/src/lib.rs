// placeholder invocation used for the warm-up build; checks/c32.py writes one lib.rs per case
wit_bindgen::generate!({
    inline: "package probe:warmup; world w { import f: func(x: u32) -> string; }",
});
