//! C28 tie: drives the real `wit_bindgen_core::Types` (analyze / collect_equal_types / get /
//! get_representative_type) and `wit_parser::LiveTypes` on a WIT package and dumps
//!   (1) the type table of the Resolve + all world items (the INPUT both sides work on) and
//!   (2) after `@@`, the REAL answers (live list, representatives, TypeInfo before/after merge).
//! One case per stdin line:  <mode>\x1e<seed>\x1e<world name or empty>\x1e<wit text, \n as \x1f>
//!   mode: all | kind (Rust's non-merge predicate) | rand (hash of seed,id) | none
//! Output grammar (space separated tokens):
//!   ok T <n> {<name|_> <kind>}*n  W <nworlds> {<nitems> {item}*}*  SEL <world idx>  MAY <n> <id>*
//!      @@ LIVE <n> <id>* REP <n> <id>* I0 <n> <8 bits>* I1 <n> <8 bits>* TOPO <0|1> <0|1>
//!   kind := rec n {fname ty}* | res | own id | bor id | flags n name* | tup n ty* | var n {cname oty}*
//!         | enum n name* | opt ty | result oty oty | list ty | fixed ty len | map ty ty | fut oty
//!         | stream oty | type ty | unknown
//!   ty := prim name | #id        oty := ty | _
//!   item := IF <import 0/1> <ntypes> <id>* <nfuncs> func* | FN <import> func | TY <import> <id>
//!   func := <static resource id | _> <nparams> ty* oty
//! or `err <msg>` / `PANIC <msg>`.
use std::fmt::Write as _;
use std::io::{self, BufRead, Write};
use wit_bindgen_core::Types;
use wit_parser::*;

fn ty(t: &Type) -> String {
    match t {
        Type::Bool => "bool".into(),
        Type::U8 => "u8".into(),
        Type::U16 => "u16".into(),
        Type::U32 => "u32".into(),
        Type::U64 => "u64".into(),
        Type::S8 => "s8".into(),
        Type::S16 => "s16".into(),
        Type::S32 => "s32".into(),
        Type::S64 => "s64".into(),
        Type::F32 => "f32".into(),
        Type::F64 => "f64".into(),
        Type::Char => "char".into(),
        Type::String => "string".into(),
        Type::ErrorContext => "errctx".into(),
        Type::Id(i) => format!("#{}", i.index()),
    }
}
fn oty(t: &Option<Type>) -> String {
    match t {
        Some(t) => ty(t),
        None => "_".into(),
    }
}

fn kind(k: &TypeDefKind) -> String {
    let mut s = String::new();
    match k {
        TypeDefKind::Record(r) => {
            write!(s, "rec {}", r.fields.len()).unwrap();
            for f in &r.fields {
                write!(s, " {} {}", f.name, ty(&f.ty)).unwrap();
            }
        }
        TypeDefKind::Resource => s.push_str("res"),
        TypeDefKind::Handle(Handle::Own(i)) => write!(s, "own {}", i.index()).unwrap(),
        TypeDefKind::Handle(Handle::Borrow(i)) => write!(s, "bor {}", i.index()).unwrap(),
        TypeDefKind::Flags(f) => {
            write!(s, "flags {}", f.flags.len()).unwrap();
            for f in &f.flags {
                write!(s, " {}", f.name).unwrap();
            }
        }
        TypeDefKind::Tuple(t) => {
            write!(s, "tup {}", t.types.len()).unwrap();
            for t in &t.types {
                write!(s, " {}", ty(t)).unwrap();
            }
        }
        TypeDefKind::Variant(v) => {
            write!(s, "var {}", v.cases.len()).unwrap();
            for c in &v.cases {
                write!(s, " {} {}", c.name, oty(&c.ty)).unwrap();
            }
        }
        TypeDefKind::Enum(e) => {
            write!(s, "enum {}", e.cases.len()).unwrap();
            for c in &e.cases {
                write!(s, " {}", c.name).unwrap();
            }
        }
        TypeDefKind::Option(t) => write!(s, "opt {}", ty(t)).unwrap(),
        TypeDefKind::Result(r) => write!(s, "result {} {}", oty(&r.ok), oty(&r.err)).unwrap(),
        TypeDefKind::List(t) => write!(s, "list {}", ty(t)).unwrap(),
        TypeDefKind::FixedLengthList(t, n) => write!(s, "fixed {} {}", ty(t), n).unwrap(),
        TypeDefKind::Map(k, v) => write!(s, "map {} {}", ty(k), ty(v)).unwrap(),
        TypeDefKind::Future(t) => write!(s, "fut {}", oty(t)).unwrap(),
        TypeDefKind::Stream(t) => write!(s, "stream {}", oty(t)).unwrap(),
        TypeDefKind::Type(t) => write!(s, "type {}", ty(t)).unwrap(),
        TypeDefKind::Unknown => s.push_str("unknown"),
    }
    s
}

fn func(f: &Function) -> String {
    let mut s = String::new();
    match f.kind {
        FunctionKind::Static(id) | FunctionKind::AsyncStatic(id) => write!(s, "{}", id.index()).unwrap(),
        _ => s.push('_'),
    }
    write!(s, " {}", f.params.len()).unwrap();
    for p in &f.params {
        write!(s, " {}", ty(&p.ty)).unwrap();
    }
    write!(s, " {}", oty(&f.result)).unwrap();
    s
}

fn refs(k: &TypeDefKind) -> Vec<TypeId> {
    fn t(v: &mut Vec<TypeId>, t: &Type) {
        if let Type::Id(i) = t {
            v.push(*i)
        }
    }
    fn o(v: &mut Vec<TypeId>, x: &Option<Type>) {
        if let Some(x) = x {
            t(v, x)
        }
    }
    let mut v = Vec::new();
    match k {
        TypeDefKind::Record(r) => r.fields.iter().for_each(|f| t(&mut v, &f.ty)),
        TypeDefKind::Resource | TypeDefKind::Flags(_) | TypeDefKind::Enum(_) | TypeDefKind::Unknown => {}
        TypeDefKind::Handle(Handle::Own(i)) | TypeDefKind::Handle(Handle::Borrow(i)) => v.push(*i),
        TypeDefKind::Tuple(tt) => tt.types.iter().for_each(|x| t(&mut v, x)),
        TypeDefKind::Variant(vv) => vv.cases.iter().for_each(|c| o(&mut v, &c.ty)),
        TypeDefKind::Option(x) | TypeDefKind::List(x) | TypeDefKind::FixedLengthList(x, _) | TypeDefKind::Type(x) => t(&mut v, x),
        TypeDefKind::Result(r) => {
            o(&mut v, &r.ok);
            o(&mut v, &r.err)
        }
        TypeDefKind::Map(a, b) => {
            t(&mut v, a);
            t(&mut v, b)
        }
        TypeDefKind::Future(x) | TypeDefKind::Stream(x) => o(&mut v, x),
    }
    v
}

fn bits(i: wit_bindgen_core::TypeInfo) -> String {
    [i.borrowed, i.owned, i.error, i.has_list, i.has_tuple, i.has_resource, i.has_borrow_handle, i.has_own_handle]
        .iter()
        .map(|b| if *b { '1' } else { '0' })
        .collect()
}

fn mix(seed: u64, id: u64) -> u64 {
    // splitmix64 finaliser of seed + id*golden
    let mut z = seed.wrapping_add(id.wrapping_mul(0x9E3779B97F4A7C15)).wrapping_add(0x9E3779B97F4A7C15);
    z = (z ^ (z >> 30)).wrapping_mul(0xBF58476D1CE4E5B9);
    z = (z ^ (z >> 27)).wrapping_mul(0x94D049BB133111EB);
    z ^ (z >> 31)
}

fn run_case(line: &str) -> String {
    let parts: Vec<&str> = line.split('\x1e').collect();
    if parts.len() != 4 {
        return "err bad case line".into();
    }
    let (mode, seed, wname, text) = (parts[0], parts[1].parse::<u64>().unwrap_or(0), parts[2], parts[3].replace('\x1f', "\n"));
    let mut resolve = Resolve::default();
    if let Err(e) = resolve.push_str("case.wit", &text) {
        return format!("err {}", format!("{e:#}").lines().next().unwrap_or(""));
    }
    let sel = if wname.is_empty() {
        resolve.worlds.iter().next().map(|(i, _)| i)
    } else {
        resolve.worlds.iter().find(|(_, w)| w.name == wname).map(|(i, _)| i)
    };
    let Some(sel) = sel else { return "err no such world".into() };
    let n = resolve.types.len();
    let ids: Vec<TypeId> = resolve.types.iter().map(|(i, _)| i).collect();
    let mut s = String::from("ok");
    write!(s, " T {}", n).unwrap();
    for (pos, (id, def)) in resolve.types.iter().enumerate() {
        assert_eq!(pos, id.index());
        write!(s, " {} {}", def.name.as_deref().unwrap_or("_"), kind(&def.kind)).unwrap();
    }
    write!(s, " W {}", resolve.worlds.len()).unwrap();
    let mut selidx = 0;
    for (pos, (wid, w)) in resolve.worlds.iter().enumerate() {
        if wid == sel {
            selidx = pos;
        }
        write!(s, " {}", w.imports.len() + w.exports.len()).unwrap();
        for (import, (_, item)) in w.imports.iter().map(|i| (1, i)).chain(w.exports.iter().map(|i| (0, i))) {
            match item {
                WorldItem::Interface { id, .. } => {
                    let i = &resolve.interfaces[*id];
                    write!(s, " IF {} {}", import, i.types.len()).unwrap();
                    for (_, t) in i.types.iter() {
                        write!(s, " {}", t.index()).unwrap();
                    }
                    write!(s, " {}", i.functions.len()).unwrap();
                    for (_, f) in i.functions.iter() {
                        write!(s, " {}", func(f)).unwrap();
                    }
                }
                WorldItem::Function(f) => write!(s, " FN {} {}", import, func(f)).unwrap(),
                WorldItem::Type { id, .. } => write!(s, " TY {} {}", import, id.index()).unwrap(),
            }
        }
    }
    write!(s, " SEL {}", selidx).unwrap();
    let rust_kind = |a: TypeId| {
        matches!(
            resolve.types[a].kind,
            TypeDefKind::Type(_)
                | TypeDefKind::Handle(_)
                | TypeDefKind::List(_)
                | TypeDefKind::Tuple(_)
                | TypeDefKind::Option(_)
                | TypeDefKind::Result(_)
                | TypeDefKind::Future(_)
                | TypeDefKind::Stream(_)
                | TypeDefKind::Map(..)
                | TypeDefKind::FixedLengthList(..)
        )
    };
    let may = |a: TypeId| -> bool {
        match mode {
            "all" => true,
            "none" => false,
            "kind" => rust_kind(a),
            _ => mix(seed, a.index() as u64) % 3 != 0,
        }
    };
    let mays: Vec<usize> = ids.iter().filter(|i| may(**i)).map(|i| i.index()).collect();
    write!(s, " MAY {}", mays.len()).unwrap();
    for m in &mays {
        write!(s, " {}", m).unwrap();
    }
    // ---------------------------------------------------------------- the real code
    s.push_str(" @@");
    let mut live = LiveTypes::default();
    live.add_world(&resolve, sel);
    let livev: Vec<TypeId> = live.iter().collect();
    write!(s, " LIVE {}", livev.len()).unwrap();
    for l in &livev {
        write!(s, " {}", l.index()).unwrap();
    }
    let mut types = Types::default();
    types.analyze(&resolve);
    let i0: Vec<String> = ids.iter().map(|i| bits(types.get(*i))).collect();
    types.collect_equal_types(&resolve, sel, &may);
    write!(s, " REP {}", n).unwrap();
    for i in &ids {
        write!(s, " {}", types.get_representative_type(*i).index()).unwrap();
    }
    write!(s, " I0 {}", n).unwrap();
    for b in &i0 {
        write!(s, " {}", b).unwrap();
    }
    write!(s, " I1 {}", n).unwrap();
    for i in &ids {
        write!(s, " {}", bits(types.get(*i))).unwrap();
    }
    // preconditions: (a) every definition only refers to smaller ids; (b) the live list is a post-order
    // (every referenced id occurs earlier in the list)
    let topo_ids = resolve.types.iter().all(|(id, d)| refs(&d.kind).iter().all(|r| r.index() < id.index()));
    let mut pos = std::collections::HashMap::new();
    for (p, l) in livev.iter().enumerate() {
        pos.insert(*l, p);
    }
    let topo_live = livev
        .iter()
        .enumerate()
        .all(|(p, l)| refs(&resolve.types[*l].kind).iter().all(|r| pos.get(r).map(|q| *q < p).unwrap_or(false)));
    write!(s, " TOPO {} {}", topo_ids as u8, topo_live as u8).unwrap();
    s
}

fn main() {
    let stdin = io::stdin();
    let stdout = io::stdout();
    let mut out = io::BufWriter::new(stdout.lock());
    std::panic::set_hook(Box::new(|_| {}));
    for line in stdin.lock().lines() {
        let line = line.unwrap();
        let r = std::panic::catch_unwind(|| run_case(&line)).unwrap_or_else(|e| {
            let m = e.downcast_ref::<String>().cloned().or_else(|| e.downcast_ref::<&str>().map(|s| s.to_string())).unwrap_or_default();
            format!("PANIC {}", m.lines().next().unwrap_or(""))
        });
        writeln!(out, "{r}").unwrap();
    }
}
