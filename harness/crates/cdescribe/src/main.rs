//! cdescribe (C10/C11): for one WIT world, (1) a JSON description of everything the world imports and
//! exports as wit-parser resolves it — functions with fully resolved, *named* type trees, resources, and
//! the canonical core names (`Resolve::wasm_import_name` / `wasm_export_name`, legacy sync mangling: the
//! names the component encoder wires) — and (2) the files the REAL C generator emits for the same Resolve.
//!
//! Input line : <generator option words> \x1e <world or empty> \x1e <WIT text, newlines as \x1f>
//! Output line: ok \x1e <json> \x1e <file> \x1d <content (\n as \x1f)> ...   |  err <msg>  |  panic <msg>
use clap::Parser;
use std::fmt::Write as _;
use std::io::{self, BufRead, Write};
use wit_parser::*;

#[derive(Debug, Parser)]
struct CW {
    #[clap(flatten)]
    opts: wit_bindgen_c::Opts,
}

fn parse_wit(text: &str) -> anyhow::Result<(Resolve, PackageId)> {
    let mut resolve = Resolve::default();
    resolve.all_features = true;
    let pkg = resolve.push_str("case.wit", text)?;
    Ok((resolve, pkg))
}

const SYNC: ManglingAndAbi = ManglingAndAbi::Legacy(LiftLowerAbi::Sync);

fn js(s: &str) -> String {
    let mut o = String::from("\"");
    for c in s.chars() {
        match c {
            '"' => o.push_str("\\\""),
            '\\' => o.push_str("\\\\"),
            c if (c as u32) < 0x20 => {
                let _ = write!(o, "\\u{:04x}", c as u32);
            }
            c => o.push(c),
        }
    }
    o.push('"');
    o
}

fn opt_ty(r: &Resolve, t: Option<&Type>) -> String {
    match t {
        Some(t) => ty(r, t),
        None => "null".into(),
    }
}

fn name_of(r: &Resolve, id: TypeId) -> String {
    match &r.types[id].name {
        Some(n) => js(n),
        None => "null".into(),
    }
}

fn owner_of(r: &Resolve, id: TypeId) -> String {
    match r.types[id].owner {
        TypeOwner::Interface(i) => match r.id_of(i) {
            Some(s) => js(&s),
            None => js(&format!("#iface{}", i.index())),
        },
        TypeOwner::World(_) => js("$world"),
        TypeOwner::None => "null".into(),
    }
}

fn dealias(r: &Resolve, mut id: TypeId) -> TypeId {
    loop {
        match &r.types[id].kind {
            TypeDefKind::Type(Type::Id(t)) => id = *t,
            _ => return id,
        }
    }
}

fn ty(r: &Resolve, t: &Type) -> String {
    let prim = |s: &str| format!("{{\"k\":\"{s}\"}}");
    match t {
        Type::Bool => prim("bool"),
        Type::U8 => prim("u8"),
        Type::S8 => prim("s8"),
        Type::U16 => prim("u16"),
        Type::S16 => prim("s16"),
        Type::U32 => prim("u32"),
        Type::S32 => prim("s32"),
        Type::U64 => prim("u64"),
        Type::S64 => prim("s64"),
        Type::F32 => prim("f32"),
        Type::F64 => prim("f64"),
        Type::Char => prim("char"),
        Type::String => prim("string"),
        Type::ErrorContext => prim("errctx"),
        Type::Id(id) => {
            let d = &r.types[*id];
            let nm = name_of(r, *id);
            match &d.kind {
                TypeDefKind::Type(t) => {
                    // aliases are transparent for values; keep the alias name for diagnostics
                    let inner = ty(r, t);
                    format!("{{\"k\":\"alias\",\"name\":{nm},\"t\":{inner}}}")
                }
                TypeDefKind::Record(rec) => {
                    let fs: Vec<String> =
                        rec.fields.iter().map(|f| format!("[{},{}]", js(&f.name), ty(r, &f.ty))).collect();
                    format!("{{\"k\":\"record\",\"name\":{nm},\"fields\":[{}]}}", fs.join(","))
                }
                TypeDefKind::Tuple(t) => {
                    let fs: Vec<String> = t.types.iter().map(|t| ty(r, t)).collect();
                    format!("{{\"k\":\"tuple\",\"name\":{nm},\"items\":[{}]}}", fs.join(","))
                }
                TypeDefKind::Variant(v) => {
                    let cs: Vec<String> =
                        v.cases.iter().map(|c| format!("[{},{}]", js(&c.name), opt_ty(r, c.ty.as_ref()))).collect();
                    format!("{{\"k\":\"variant\",\"name\":{nm},\"cases\":[{}]}}", cs.join(","))
                }
                TypeDefKind::Enum(e) => {
                    let cs: Vec<String> = e.cases.iter().map(|c| js(&c.name)).collect();
                    format!("{{\"k\":\"enum\",\"name\":{nm},\"cases\":[{}]}}", cs.join(","))
                }
                TypeDefKind::Flags(f) => {
                    let cs: Vec<String> = f.flags.iter().map(|c| js(&c.name)).collect();
                    format!("{{\"k\":\"flags\",\"name\":{nm},\"flags\":[{}]}}", cs.join(","))
                }
                TypeDefKind::Option(t) => format!("{{\"k\":\"option\",\"name\":{nm},\"t\":{}}}", ty(r, t)),
                TypeDefKind::Result(x) => format!(
                    "{{\"k\":\"result\",\"name\":{nm},\"ok\":{},\"err\":{}}}",
                    opt_ty(r, x.ok.as_ref()),
                    opt_ty(r, x.err.as_ref())
                ),
                TypeDefKind::List(t) => format!("{{\"k\":\"list\",\"name\":{nm},\"t\":{}}}", ty(r, t)),
                TypeDefKind::FixedLengthList(t, n) => {
                    format!("{{\"k\":\"fixed\",\"name\":{nm},\"t\":{},\"n\":{n}}}", ty(r, t))
                }
                TypeDefKind::Map(k, v) => {
                    format!("{{\"k\":\"map\",\"name\":{nm},\"key\":{},\"value\":{}}}", ty(r, k), ty(r, v))
                }
                TypeDefKind::Handle(h) => {
                    let (k, rid) = match h {
                        Handle::Own(i) => ("own", *i),
                        Handle::Borrow(i) => ("borrow", *i),
                    };
                    let root = dealias(r, rid);
                    format!(
                        "{{\"k\":\"{k}\",\"name\":{nm},\"res\":{},\"rid\":{},\"owner\":{}}}",
                        name_of(r, root),
                        root.index(),
                        owner_of(r, root)
                    )
                }
                TypeDefKind::Future(p) => format!("{{\"k\":\"future\",\"name\":{nm},\"t\":{}}}", opt_ty(r, p.as_ref())),
                TypeDefKind::Stream(p) => format!("{{\"k\":\"stream\",\"name\":{nm},\"t\":{}}}", opt_ty(r, p.as_ref())),
                TypeDefKind::Resource => format!("{{\"k\":\"resource\",\"name\":{nm}}}"),
                TypeDefKind::Unknown => prim("unknown"),
            }
        }
    }
}

fn sig_str(s: &abi::WasmSignature) -> String {
    let c = |t: &abi::WasmType| match t {
        abi::WasmType::I32 => "i32",
        abi::WasmType::I64 => "i64",
        abi::WasmType::F32 => "f32",
        abi::WasmType::F64 => "f64",
        abi::WasmType::Pointer => "ptr",
        abi::WasmType::PointerOrI64 => "ptr64",
        abi::WasmType::Length => "len",
    };
    let ps: Vec<String> = s.params.iter().map(|t| js(c(t))).collect();
    let rs: Vec<String> = s.results.iter().map(|t| js(c(t))).collect();
    format!(
        "{{\"params\":[{}],\"results\":[{}],\"indirect_params\":{},\"retptr\":{}}}",
        ps.join(","),
        rs.join(","),
        s.indirect_params,
        s.retptr
    )
}

fn func(r: &Resolve, key: Option<&WorldKey>, f: &Function, exported: bool) -> String {
    let (kind, res) = match &f.kind {
        FunctionKind::Freestanding | FunctionKind::AsyncFreestanding => ("func", None),
        FunctionKind::Method(id) | FunctionKind::AsyncMethod(id) => ("method", Some(*id)),
        FunctionKind::Static(id) | FunctionKind::AsyncStatic(id) => ("static", Some(*id)),
        FunctionKind::Constructor(id) => ("constructor", Some(*id)),
    };
    let ps: Vec<String> = f.params.iter().map(|p| format!("[{},{}]", js(&p.name), ty(r, &p.ty))).collect();
    let mut o = format!(
        "{{\"name\":{},\"kind\":\"{kind}\",\"async\":{},\"resource\":{},\"params\":[{}],\"result\":{}",
        js(&f.name),
        f.kind.is_async(),
        match res {
            Some(id) => name_of(r, id),
            None => "null".into(),
        },
        ps.join(","),
        opt_ty(r, f.result.as_ref())
    );
    if exported {
        let n = r.wasm_export_name(SYNC, WasmExport::Func { interface: key, func: f, kind: WasmExportKind::Normal });
        let p = r.wasm_export_name(SYNC, WasmExport::Func { interface: key, func: f, kind: WasmExportKind::PostReturn });
        let s = r.wasm_signature(abi::AbiVariant::GuestExport, f);
        let _ = write!(o, ",\"export_name\":{},\"post_return_name\":{},\"sig\":{}", js(&n), js(&p), sig_str(&s));
    } else {
        let (m, n) = r.wasm_import_name(SYNC, WasmImport::Func { interface: key, func: f });
        let s = r.wasm_signature(abi::AbiVariant::GuestImport, f);
        let _ = write!(o, ",\"import_module\":{},\"import_name\":{},\"sig\":{}", js(&m), js(&n), sig_str(&s));
    }
    o.push('}');
    o
}

fn resources(r: &Resolve, key: &WorldKey, id: InterfaceId, exported: bool) -> String {
    let mut out = Vec::new();
    for (_, t) in r.interfaces[id].types.iter() {
        if !matches!(r.types[*t].kind, TypeDefKind::Resource) {
            continue;
        }
        let name = r.types[*t].name.clone().unwrap();
        let mut o = format!("{{\"name\":{},\"rid\":{}", js(&name), t.index());
        if exported {
            for (lab, intr) in [
                ("drop", ResourceIntrinsic::ExportedDrop),
                ("new", ResourceIntrinsic::ExportedNew),
                ("rep", ResourceIntrinsic::ExportedRep),
            ] {
                let (m, n) =
                    r.wasm_import_name(SYNC, WasmImport::ResourceIntrinsic { interface: Some(key), resource: *t, intrinsic: intr });
                let _ = write!(o, ",\"{lab}\":[{},{}]", js(&m), js(&n));
            }
            let d = r.wasm_export_name(SYNC, WasmExport::ResourceDtor { interface: key, resource: *t });
            let _ = write!(o, ",\"dtor\":{}", js(&d));
        } else {
            let (m, n) = r.wasm_import_name(
                SYNC,
                WasmImport::ResourceIntrinsic { interface: Some(key), resource: *t, intrinsic: ResourceIntrinsic::ImportedDrop },
            );
            let _ = write!(o, ",\"drop\":[{},{}]", js(&m), js(&n));
        }
        o.push('}');
        out.push(o);
    }
    format!("[{}]", out.join(","))
}

fn describe(r: &Resolve, wid: WorldId) -> String {
    let w = &r.worlds[wid];
    let mut items = Vec::new();
    for (exported, list) in [(false, &w.imports), (true, &w.exports)] {
        let mut world_funcs = Vec::new();
        for (k, it) in list.iter() {
            match it {
                WorldItem::Interface { id, .. } => {
                    let fs: Vec<String> =
                        r.interfaces[*id].functions.values().map(|f| func(r, Some(k), f, exported)).collect();
                    let owner_key = match r.id_of(*id) {
                        Some(s) => s,
                        None => format!("#iface{}", id.index()),
                    };
                    items.push(format!(
                        "{{\"dir\":\"{}\",\"iface\":{},\"owner_key\":{},\"id_key\":{},\"funcs\":[{}],\"resources\":{}}}",
                        if exported { "export" } else { "import" },
                        js(&r.name_world_key(k)),
                        js(&owner_key),
                        matches!(k, WorldKey::Interface(_)),
                        fs.join(","),
                        resources(r, k, *id, exported)
                    ));
                }
                WorldItem::Function(f) => world_funcs.push(func(r, None, f, exported)),
                WorldItem::Type { .. } => {}
            }
        }
        if !world_funcs.is_empty() {
            items.push(format!(
                "{{\"dir\":\"{}\",\"iface\":null,\"id_key\":false,\"funcs\":[{}],\"resources\":[]}}",
                if exported { "export" } else { "import" },
                world_funcs.join(",")
            ));
        }
    }
    format!("{{\"world\":{},\"items\":[{}]}}", js(&w.name), items.join(","))
}

fn one(line: &str) -> String {
    let parts: Vec<&str> = line.split('\x1e').collect();
    if parts.len() != 3 {
        return "err bad protocol line".into();
    }
    let args: Vec<String> = parts[0].split(' ').filter(|s| !s.is_empty()).map(|s| s.to_string()).collect();
    let world = parts[1].to_string();
    let wit = parts[2].replace('\x1f', "\n");
    let r = std::panic::catch_unwind(move || -> anyhow::Result<String> {
        let (mut resolve, pkg) = parse_wit(&wit)?;
        let wid = resolve.select_world(&[pkg], if world.is_empty() { None } else { Some(world.as_str()) })?;
        let desc = describe(&resolve, wid);
        let argv = std::iter::once("x".to_string()).chain(args.iter().cloned());
        let mut generator = CW::try_parse_from(argv)?.opts.build();
        let mut files = wit_bindgen_core::Files::default();
        generator.generate(&mut resolve, wid, &mut files)?;
        let mut out = format!("ok\x1e{desc}");
        for (n, c) in files.iter() {
            if let Ok(s) = std::str::from_utf8(c) {
                let _ = write!(out, "\x1e{}\x1d{}", n, s.replace('\r', "\x1c").replace('\n', "\x1f"));
            }
        }
        Ok(out)
    });
    match r {
        Ok(Ok(s)) => s,
        Ok(Err(e)) => format!("err {}", format!("{e:#}").replace('\n', " | ")),
        Err(p) => {
            let msg = if let Some(s) = p.downcast_ref::<String>() {
                s.clone()
            } else if let Some(s) = p.downcast_ref::<&str>() {
                s.to_string()
            } else {
                "non-string panic".to_string()
            };
            format!("panic {}", msg.replace('\n', " | "))
        }
    }
}

fn main() {
    std::panic::set_hook(Box::new(|_| {}));
    let stdin = io::stdin();
    let out = io::stdout();
    let mut out = out.lock();
    for line in stdin.lock().lines() {
        let line = line.unwrap();
        let _ = writeln!(out, "{}", one(&line));
    }
}
