//! C24 tie + search driver: runs the REAL `cabi_realloc`, `Cleanup::{new,forget,drop}` (text cut from
//! crates/guest-rust/src/rt/mod.rs by build.rs) and the REAL generated `cabi_dealloc` (text cut from
//! crates/rust/src/lib.rs) natively under a checking global allocator.
//!
//! Usage: realloctie [--single]      cases on stdin (one per line), one result line per case.
//!        realloctie --cut           prints the text that was cut and compiled.
//! Case:  f-|f<n>  op op ...         (f<n>: the n-th tracked alloc/realloc call returns null)
//!   R:<pref>:<old_len>:<align>:<new_len>   cabi_realloc          pref = b<k> (k-th result) | l<addr>
//!   W:<k>:<off>:<v>   store a byte        G:<k>:<off>   load a byte
//!   N:<size>:<align>  Cleanup::new        D:<i> drop    F:<i> forget (block joins the result table)
//!   X:<pref>:<size>:<align>                cabi_dealloc
//! Result: one token per op (see `run_case`), then `| live=<n>`; a trap / allocator-contract violation
//! ends the case.  With --single every token is flushed at once (the case may abort the process).
use std::alloc::{GlobalAlloc, Layout, System};
use std::cell::UnsafeCell;
use std::io::{self, BufRead, Write};
use std::sync::atomic::{AtomicBool, AtomicIsize, AtomicUsize, Ordering::SeqCst};

#[allow(dead_code, unused_imports, unused_unsafe, clippy::all)]
mod rt {
    extern crate alloc;
    use core::alloc::Layout;
    use core::ptr::{self, NonNull};
    include!(concat!(env!("OUT_DIR"), "/rt_cut.rs"));
}

#[allow(dead_code, unused_imports, unused_unsafe, clippy::all)]
mod generated {
    extern crate alloc as alloc_crate;
    pub use alloc_crate::alloc;
    include!(concat!(env!("OUT_DIR"), "/gen_cut.rs"));
}

// ------------------------------------------------------------------------------------------------
// Checking allocator.  Single-threaded use only (the driver never spawns threads).

const CAP: usize = 4096;
/// Fresh memory is filled with a byte that differs from one allocation to the next, so that bytes
/// nobody wrote are still told apart when a block moves.
fn poison(n: usize) -> u8 {
    0xA5u8.wrapping_add((n as u8).wrapping_mul(37))
}
const POISON_FREED: u8 = 0xDD;

#[derive(Clone, Copy)]
struct Ev {
    kind: u8, // b'a' alloc, b'r' realloc, b'd' dealloc
    ptr: usize,
    size: usize,
    align: usize,
    new_size: usize,
    res: usize,
    ff: bool,               // dealloc: every byte of the block was 0xff
    viol: Option<&'static str>,
}

struct St {
    blocks: [(usize, usize, usize); CAP], // live tracked blocks (ptr, size, align)
    nblocks: usize,
    evs: [Ev; 64],
    nevs: usize,
    viol: Option<&'static str>,
}

struct Cell(UnsafeCell<St>);
unsafe impl Sync for Cell {}

const EV0: Ev = Ev { kind: 0, ptr: 0, size: 0, align: 0, new_size: 0, res: 0, ff: false, viol: None };
static ST: Cell = Cell(UnsafeCell::new(St {
    blocks: [(0, 0, 0); CAP],
    nblocks: 0,
    evs: [EV0; 64],
    nevs: 0,
    viol: None,
}));
static TRACK: AtomicBool = AtomicBool::new(false);
static FAIL_AT: AtomicIsize = AtomicIsize::new(-1);
static NCALLS: AtomicUsize = AtomicUsize::new(0);

/// Calls are tracked between `tracked`'s start and end, except those the panic machinery makes
/// (the panic message is formatted, allocating, before the panic hook runs).
fn tracking() -> bool {
    TRACK.load(SeqCst) && !std::thread::panicking()
}

fn st() -> &'static mut St {
    unsafe { &mut *ST.0.get() }
}

impl St {
    fn find(&self, ptr: usize) -> Option<usize> {
        (0..self.nblocks).find(|&i| self.blocks[i].0 == ptr)
    }
    fn add(&mut self, b: (usize, usize, usize)) {
        assert!(self.nblocks < CAP);
        self.blocks[self.nblocks] = b;
        self.nblocks += 1;
    }
    fn remove(&mut self, i: usize) {
        self.nblocks -= 1;
        self.blocks[i] = self.blocks[self.nblocks];
    }
    fn ev(&mut self, e: Ev) {
        if e.viol.is_some() && self.viol.is_none() {
            self.viol = e.viol;
        }
        if self.nevs < self.evs.len() {
            self.evs[self.nevs] = e;
            self.nevs += 1;
        }
    }
}

struct Chk;

unsafe impl GlobalAlloc for Chk {
    unsafe fn alloc(&self, l: Layout) -> *mut u8 {
        if !tracking() {
            return System.alloc(l);
        }
        let s = st();
        let mut e = Ev { kind: b'a', size: l.size(), align: l.align(), ..EV0 };
        if l.size() == 0 {
            e.viol = Some("zerosize");
            s.ev(e);
            return core::ptr::null_mut();
        }
        let n = NCALLS.fetch_add(1, SeqCst);
        if n as isize == FAIL_AT.load(SeqCst) {
            s.ev(e);
            return core::ptr::null_mut();
        }
        let p = System.alloc(l);
        if !p.is_null() {
            core::ptr::write_bytes(p, poison(n), l.size());
            s.add((p as usize, l.size(), l.align()));
        }
        e.res = p as usize;
        s.ev(e);
        p
    }

    unsafe fn dealloc(&self, p: *mut u8, l: Layout) {
        let s = st();
        if !tracking() {
            if let Some(i) = s.find(p as usize) {
                s.remove(i); // the driver releasing what a case left behind
            }
            return System.dealloc(p, l);
        }
        let mut e = Ev { kind: b'd', ptr: p as usize, size: l.size(), align: l.align(), ..EV0 };
        match s.find(p as usize) {
            Some(i) if s.blocks[i] == (p as usize, l.size(), l.align()) => {
                e.ff = (0..l.size()).all(|j| *p.add(j) == 0xff);
                core::ptr::write_bytes(p, POISON_FREED, l.size());
                s.remove(i);
                s.ev(e);
                System.dealloc(p, l);
            }
            _ => {
                // double free, foreign pointer or wrong layout: record, do not touch memory
                e.viol = Some("notlive");
                s.ev(e);
            }
        }
    }

    unsafe fn realloc(&self, p: *mut u8, l: Layout, new_size: usize) -> *mut u8 {
        if !tracking() {
            return System.realloc(p, l, new_size);
        }
        let s = st();
        let mut e = Ev { kind: b'r', ptr: p as usize, size: l.size(), align: l.align(), new_size, ..EV0 };
        let i = match s.find(p as usize) {
            Some(i) if s.blocks[i] == (p as usize, l.size(), l.align()) => i,
            _ => {
                e.viol = Some("notlive");
                s.ev(e);
                return core::ptr::null_mut();
            }
        };
        if new_size == 0 {
            e.viol = Some("zerosize");
            s.ev(e);
            return core::ptr::null_mut();
        }
        let n = NCALLS.fetch_add(1, SeqCst);
        if n as isize == FAIL_AT.load(SeqCst) {
            s.ev(e);
            return core::ptr::null_mut(); // the old block stays valid
        }
        // always move (allowed by the contract, and the most demanding behaviour for the caller)
        let nl = Layout::from_size_align_unchecked(new_size, l.align());
        let q = System.alloc(nl);
        if q.is_null() {
            s.ev(e);
            return q;
        }
        core::ptr::write_bytes(q, poison(n), new_size);
        core::ptr::copy_nonoverlapping(p, q, l.size().min(new_size));
        core::ptr::write_bytes(p, POISON_FREED, l.size());
        System.dealloc(p, l);
        s.remove(i);
        s.add((q as usize, new_size, l.align()));
        e.res = q as usize;
        s.ev(e);
        q
    }
}

#[global_allocator]
static GLOBAL: Chk = Chk;

// ------------------------------------------------------------------------------------------------
// Driver

static PANIC_MSG: std::sync::Mutex<String> = std::sync::Mutex::new(String::new());

#[derive(Clone, Copy)]
struct Blk {
    ptr: usize,
    size: usize,
    align: usize,
}

struct Case {
    tab: Vec<Option<Blk>>,
    hs: Vec<Option<(rt::Cleanup, Blk)>>,
}

enum Pref {
    B(usize),
    L(usize),
}

fn parse_pref(s: &str) -> Pref {
    let n: usize = s[1..].parse().expect("pref");
    match &s[..1] {
        "b" => Pref::B(n),
        "l" => Pref::L(n),
        _ => panic!("bad pref {s}"),
    }
}

impl Case {
    fn entry(&self, k: usize) -> Option<Blk> {
        self.tab.get(k).copied().flatten()
    }
    fn resolve(&self, p: &Pref) -> Option<usize> {
        match p {
            Pref::L(v) => Some(*v),
            Pref::B(k) => self.entry(*k).map(|b| b.ptr),
        }
    }
    fn name(&self, ptr: usize) -> String {
        for (k, e) in self.tab.iter().enumerate() {
            if let Some(b) = e {
                if b.size != 0 && b.ptr == ptr {
                    return format!("b{k}");
                }
            }
        }
        for (i, e) in self.hs.iter().enumerate() {
            if let Some((_, b)) = e {
                if b.ptr == ptr {
                    return format!("h{i}");
                }
            }
        }
        "?".to_string()
    }
    /// checksum of every live table block except `except` and of every live Cleanup block
    fn others_sum(&self, except: Option<usize>) -> u64 {
        let mut h: u64 = 0xcbf29ce484222325;
        let mut eat = |b: &Blk| {
            for j in 0..b.size {
                h = (h ^ unsafe { *(b.ptr as *const u8).add(j) } as u64).wrapping_mul(0x100000001b3);
            }
            h = h.wrapping_add(0x9e3779b97f4a7c15);
        };
        for (k, e) in self.tab.iter().enumerate() {
            if Some(k) != except {
                if let Some(b) = e {
                    eat(b);
                }
            }
        }
        for e in self.hs.iter() {
            if let Some((_, b)) = e {
                eat(b);
            }
        }
        h
    }
}

/// The allocator events of the last op, with pointers replaced by the names they had BEFORE the op.
fn calls_ff(names: &dyn Fn(usize) -> String, show_ff: bool) -> String {
    let s = st();
    let mut out = String::from("[");
    for i in 0..s.nevs {
        let e = s.evs[i];
        if i > 0 {
            out.push(',');
        }
        let res = if e.res == 0 { "null" } else { "nz" };
        match e.kind {
            b'a' => out.push_str(&format!("alloc({},{})={res}", e.size, e.align)),
            b'r' => out.push_str(&format!("realloc({},{},{},{})={res}", names(e.ptr), e.size, e.align, e.new_size)),
            b'd' => out.push_str(&format!("dealloc({},{},{}){}", names(e.ptr), e.size, e.align, if e.ff && show_ff { "ff" } else { "" })),
            _ => {}
        }
    }
    out.push(']');
    out
}

fn calls(names: &dyn Fn(usize) -> String) -> String {
    calls_ff(names, false)
}

/// Runs `f` with allocator tracking on; Err(kind) if it panicked.
fn tracked<T>(f: impl FnOnce() -> T) -> Result<T, String> {
    st().nevs = 0;
    PANIC_MSG.lock().unwrap().clear();
    TRACK.store(true, SeqCst);
    let r = std::panic::catch_unwind(std::panic::AssertUnwindSafe(f));
    TRACK.store(false, SeqCst);
    r.map_err(|_| {
        let m = PANIC_MSG.lock().unwrap().clone();
        if m.contains("non-zero old_len requires non-zero new_len") {
            "debugassert".to_string()
        } else if m.contains("entered unreachable code") {
            "unreachable".to_string()
        } else {
            format!("panic({})", m.replace(|c: char| c.is_whitespace(), "_"))
        }
    })
}

fn run_case(line: &str, emit: &mut dyn FnMut(&str)) {
    let mut toks = line.split_whitespace();
    let f = toks.next().unwrap_or("f-");
    let s = st();
    s.nblocks = 0;
    s.viol = None;
    NCALLS.store(0, SeqCst);
    FAIL_AT.store(if f == "f-" { -1 } else { f[1..].parse().expect("fail index") }, SeqCst);
    let mut c = Case { tab: Vec::new(), hs: Vec::new() };
    for t in toks {
        let p: Vec<&str> = t.split(':').collect();
        let mut stop = false;
        let tok: String = match p[0] {
            "R" => {
                let pr = parse_pref(p[1]);
                let (old_len, align, new_len): (usize, usize, usize) =
                    (p[2].parse().unwrap(), p[3].parse().unwrap(), p[4].parse().unwrap());
                let lit = matches!(pr, Pref::L(_));
                match c.resolve(&pr) {
                    Some(ptr) if !(lit && old_len != 0) => {
                        let k_old = if let (Pref::B(k), true) = (&pr, old_len != 0) { Some(*k) } else { None };
                        // facts for the property's statement, taken natively: old prefix, other blocks
                        let n = old_len.min(new_len);
                        let consistent = k_old.map_or(false, |k| {
                            let b = c.entry(k).unwrap();
                            b.size == old_len && b.align == align
                        });
                        let before: Vec<u8> = if consistent {
                            unsafe { std::slice::from_raw_parts(ptr as *const u8, n).to_vec() }
                        } else {
                            Vec::new()
                        };
                        let others0 = c.others_sum(if consistent { k_old } else { None });
                        let r = tracked(|| unsafe { rt::cabi_realloc(ptr as *mut u8, old_len, align, new_len) });
                        let cl = calls(&|q| c.name(q));
                        match r {
                            Err(kind) => {
                                stop = true;
                                format!("trap:{kind}{cl}")
                            }
                            Ok(q) => {
                                let q = q as usize;
                                if let Some(k) = k_old {
                                    c.tab[k] = None;
                                }
                                let pres = !consistent
                                    || q == 0
                                    || unsafe { std::slice::from_raw_parts(q as *const u8, n) } == &before[..];
                                let others1 = c.others_sum(None);
                                let lv = if new_len == 0 {
                                    "-"
                                } else if st().find(q).map_or(false, |i| st().blocks[i] == (q, new_len, align)) {
                                    "1"
                                } else {
                                    stop = true; // not a block we may touch: nothing after this is meaningful
                                    "0"
                                };
                                c.tab.push(Some(Blk { ptr: q, size: new_len, align }));
                                let e = if old_len == 0 && new_len == 0 {
                                    if q == align { "1" } else { "0" }
                                } else {
                                    "-"
                                };
                                format!(
                                    "ret:{}:m{}:e{e}:l{lv}:p{}:o{}{cl}",
                                    if q == 0 { "null" } else { "nz" },
                                    if align != 0 { q % align } else { 0 },
                                    pres as u8,
                                    (others0 == others1) as u8
                                )
                            }
                        }
                    }
                    _ => {
                        stop = true;
                        "invalid".to_string()
                    }
                }
            }
            "W" | "G" => {
                let (k, off): (usize, usize) = (p[1].parse().unwrap(), p[2].parse().unwrap());
                match c.entry(k) {
                    Some(b) if off < b.size => unsafe {
                        let a = (b.ptr as *mut u8).add(off);
                        if p[0] == "W" {
                            *a = p[3].parse::<u8>().unwrap();
                            "unit[]".to_string()
                        } else {
                            format!("byte:{}", *a)
                        }
                    },
                    _ => {
                        stop = true;
                        "invalid".to_string()
                    }
                }
            }
            "N" => {
                let (size, align): (usize, usize) = (p[1].parse().unwrap(), p[2].parse().unwrap());
                match Layout::from_size_align(size, align) {
                    Err(_) => {
                        stop = true;
                        "invalid".to_string()
                    }
                    Ok(l) => {
                        let others0 = c.others_sum(None);
                        let r = tracked(|| rt::Cleanup::new(l));
                        let cl = calls(&|q| c.name(q));
                        match r {
                            Err(kind) => {
                                stop = true;
                                format!("trap:{kind}{cl}")
                            }
                            Ok((ptr, cleanup)) => {
                                let ptr = ptr as usize;
                                let o = others0 == c.others_sum(None);
                                let some = cleanup.is_some();
                                let lv = if !some {
                                    "-"
                                } else if st().find(ptr).map_or(false, |i| st().blocks[i] == (ptr, size, align)) {
                                    "1"
                                } else {
                                    stop = true;
                                    "0"
                                };
                                c.hs.push(cleanup.map(|cu| (cu, Blk { ptr, size, align })));
                                format!(
                                    "new:{}:m{}:{}:l{lv}:o{}{cl}",
                                    if ptr == 0 { "null" } else { "nz" },
                                    ptr % align,
                                    if some { "some" } else { "none" },
                                    o as u8
                                )
                            }
                        }
                    }
                }
            }
            "D" | "F" => {
                let i: usize = p[1].parse().unwrap();
                match c.hs.get_mut(i).and_then(|e| e.take()) {
                    None => {
                        stop = true;
                        "invalid".to_string()
                    }
                    Some((cu, b)) => {
                        let others0 = c.others_sum(None);
                        let hname = format!("h{i}");
                        let r = if p[0] == "D" {
                            tracked(move || drop(cu))
                        } else {
                            tracked(move || cu.forget())
                        };
                        let cl = calls_ff(&|q| if q == b.ptr { hname.clone() } else { c.name(q) }, true);
                        let o = others0 == c.others_sum(None);
                        if p[0] == "F" {
                            c.tab.push(Some(b));
                        }
                        match r {
                            Err(kind) => {
                                stop = true;
                                format!("trap:{kind}{cl}")
                            }
                            Ok(()) => format!("unit:o{}{cl}", o as u8),
                        }
                    }
                }
            }
            "X" => {
                let pr = parse_pref(p[1]);
                let (size, align): (usize, usize) = (p[2].parse().unwrap(), p[3].parse().unwrap());
                let lit = matches!(pr, Pref::L(_));
                match c.resolve(&pr) {
                    Some(ptr) if !(lit && size != 0) => {
                        let k_old = if let (Pref::B(k), true) = (&pr, size != 0) { Some(*k) } else { None };
                        let others0 = c.others_sum(k_old);
                        let r = tracked(|| unsafe { generated::cabi_dealloc(ptr as *mut u8, size, align) });
                        let cl = calls(&|q| c.name(q));
                        if st().viol.is_none() {
                            if let Some(k) = k_old {
                                c.tab[k] = None;
                            }
                        }
                        let o = others0 == c.others_sum(None);
                        match r {
                            Err(kind) => {
                                stop = true;
                                format!("trap:{kind}{cl}")
                            }
                            Ok(()) => format!("unit:o{}{cl}", o as u8),
                        }
                    }
                    _ => {
                        stop = true;
                        "invalid".to_string()
                    }
                }
            }
            other => panic!("unknown op {other}"),
        };
        if let Some(v) = st().viol {
            // the code under test broke the allocator's safety contract: nothing after this is meaningful
            emit(&format!("trap:ub:{v}"));
            break;
        }
        emit(&tok);
        if stop {
            break;
        }
    }
    emit(&format!("| live={}", st().nblocks));
    // release what the case left behind (tracking is off: the allocator forgets these blocks silently)
    for e in c.hs.drain(..) {
        drop(e);
    }
    let s = st();
    while s.nblocks > 0 {
        let (p, size, align) = s.blocks[0];
        unsafe { GLOBAL.dealloc(p as *mut u8, Layout::from_size_align_unchecked(size, align)) };
    }
}

fn main() {
    let arg = std::env::args().nth(1).unwrap_or_default();
    if arg == "--cut" {
        print!("{}", include_str!(concat!(env!("OUT_DIR"), "/cut_all.txt")));
        return;
    }
    let single = arg == "--single";
    std::panic::set_hook(Box::new(|info| {
        TRACK.store(false, SeqCst);
        *PANIC_MSG.lock().unwrap() = info.to_string();
    }));
    let stdin = io::stdin();
    let mut out = io::BufWriter::new(io::stdout());
    for line in stdin.lock().lines() {
        let line = line.unwrap();
        let mut first = true;
        let mut buf = String::new();
        {
            let mut emit = |t: &str| {
                if single {
                    let mut o = io::stdout();
                    if !first {
                        o.write_all(b" ").unwrap();
                    }
                    o.write_all(t.as_bytes()).unwrap();
                    o.flush().unwrap();
                } else {
                    if !first {
                        buf.push(' ');
                    }
                    buf.push_str(t);
                }
                first = false;
            };
            run_case(&line, &mut emit);
        }
        if single {
            println!();
        } else {
            writeln!(out, "{buf}").unwrap();
        }
    }
}
