//! Cuts the items property C24 is about out of the WORKING TREE of wit-bindgen on every build:
//!   /repo/crates/guest-rust/src/rt/mod.rs : `pub unsafe fn cabi_realloc`, `pub struct Cleanup`,
//!                                           `impl Cleanup`, `impl Drop for Cleanup`
//!   /repo/crates/rust/src/lib.rs          : the `pub unsafe fn cabi_dealloc` text the generator emits
//!                                           (a string literal inside `emit_runtime_item`)
//! and writes them to $OUT_DIR/rt_cut.rs and $OUT_DIR/gen_cut.rs, which src/main.rs `include!`s.
//! Fails loudly (build error) if an item is no longer found exactly once or its braces do not match.
use std::{env, fs, path::Path};

const RT: &str = "/repo/crates/guest-rust/src/rt/mod.rs";
const GEN: &str = "/repo/crates/rust/src/lib.rs";

/// Returns the text from `marker` to the brace that closes the first `{` after it.
/// Comments, string and char literals are skipped while counting braces.
fn cut(src: &str, file: &str, marker: &str) -> String {
    let hits: Vec<usize> = src.match_indices(marker).map(|(i, _)| i).collect();
    if hits.len() != 1 {
        panic!("C24 cut: expected exactly one `{marker}` in {file}, found {}", hits.len());
    }
    let start = hits[0];
    let b = src.as_bytes();
    let mut i = start;
    let mut depth = 0usize;
    let mut seen_open = false;
    while i < b.len() {
        let c = b[i];
        if c == b'/' && i + 1 < b.len() && b[i + 1] == b'/' {
            while i < b.len() && b[i] != b'\n' {
                i += 1;
            }
            continue;
        }
        if c == b'/' && i + 1 < b.len() && b[i + 1] == b'*' {
            i += 2;
            while i + 1 < b.len() && !(b[i] == b'*' && b[i + 1] == b'/') {
                i += 1;
            }
            i += 2;
            continue;
        }
        if c == b'"' {
            i += 1;
            while i < b.len() && b[i] != b'"' {
                if b[i] == b'\\' {
                    i += 1;
                }
                i += 1;
            }
            i += 1;
            continue;
        }
        if c == b'\'' && i + 2 < b.len() && b[i + 2] == b'\'' {
            i += 3; // char literal such as '{'
            continue;
        }
        if c == b'{' {
            depth += 1;
            seen_open = true;
        } else if c == b'}' {
            if depth == 0 {
                panic!("C24 cut: unbalanced `}}` after `{marker}` in {file}");
            }
            depth -= 1;
            if depth == 0 && seen_open {
                return src[start..=i].to_string();
            }
        }
        i += 1;
    }
    panic!("C24 cut: no closing brace for `{marker}` in {file}");
}

fn main() {
    println!("cargo:rerun-if-changed={RT}");
    println!("cargo:rerun-if-changed={GEN}");
    println!("cargo:rerun-if-changed=build.rs");
    let out = env::var("OUT_DIR").unwrap();
    let rt = fs::read_to_string(RT).unwrap_or_else(|e| panic!("C24 cut: cannot read {RT}: {e}"));
    let mut rt_cut = String::new();
    for m in [
        "pub unsafe fn cabi_realloc(",
        "pub struct Cleanup {",
        "impl Cleanup {",
        "impl Drop for Cleanup {",
    ] {
        rt_cut.push_str(&cut(&rt, RT, m));
        rt_cut.push_str("\n\n");
    }
    fs::write(Path::new(&out).join("rt_cut.rs"), &rt_cut).unwrap();

    let gen = fs::read_to_string(GEN).unwrap_or_else(|e| panic!("C24 cut: cannot read {GEN}: {e}"));
    let g = cut(&gen, GEN, "pub unsafe fn cabi_dealloc(");
    // the text sits inside a plain "..." literal handed to push_str: it must be free of escapes and of
    // format!-style doubled braces, otherwise what we compile is not what the generator emits
    if g.contains('\\') || g.contains("{{") || g.contains("}}") {
        panic!("C24 cut: the cabi_dealloc text in {GEN} now contains escapes or doubled braces; update the cut");
    }
    fs::write(Path::new(&out).join("gen_cut.rs"), &g).unwrap();
    // also make the cut text available to the check's evidence
    fs::write(Path::new(&out).join("cut_all.txt"), format!("{rt_cut}\n{g}\n")).unwrap();
}
