//! Independent judge on the implementation side: a synthetic core module with exactly the given
//! imports/exports is handed to the real wit-component `ComponentEncoder` together with the world's
//! component-type section; the produced component is validated by wasmparser and inspected for exports
//! that were never aliased (= silently ignored) and exported resources that got no destructor.
use anyhow::{bail, Result};
use std::collections::{BTreeMap, BTreeSet};
use wasm_encoder as we;
use wit_parser::*;

fn vt(c: char) -> Result<we::ValType> {
    Ok(match c {
        'i' => we::ValType::I32,
        'I' => we::ValType::I64,
        'f' => we::ValType::F32,
        'F' => we::ValType::F64,
        _ => bail!("bad sig char {c}"),
    })
}

fn parse_sig(s: &str) -> Result<(Vec<we::ValType>, Vec<we::ValType>)> {
    let (p, r) = s.split_once('>').ok_or_else(|| anyhow::anyhow!("bad sig {s}"))?;
    Ok((p.chars().map(vt).collect::<Result<_>>()?, r.chars().map(vt).collect::<Result<_>>()?))
}

pub fn encode(parts: &[String]) -> Result<String> {
    if parts.len() != 3 {
        bail!("bad protocol line");
    }
    let (resolve, wid) = crate::load(&parts[1], &parts[0])?;
    let mut imports: BTreeMap<(String, String), String> = BTreeMap::new();
    let mut exports: BTreeMap<String, String> = BTreeMap::new();
    for d in parts[2].split('\x1c').filter(|s| !s.is_empty()) {
        let f: Vec<&str> = d.split('\x1d').collect();
        if f.len() < 4 {
            bail!("bad decl {d:?}");
        }
        if f[0] == "I" {
            if let Some(prev) = imports.insert((f[1].to_string(), f[2].to_string()), f[3].to_string()) {
                if prev != f[3] {
                    bail!("import {}::{} declared with two signatures {prev} and {}", f[1], f[2], f[3]);
                }
            }
        } else {
            if exports.insert(f[2].to_string(), f[3].to_string()).is_some() {
                bail!("duplicate export {}", f[2]);
            }
        }
    }
    if !exports.contains_key("cabi_realloc") {
        exports.insert("cabi_realloc".into(), "iiii>i".into());
    }
    let mut types = we::TypeSection::new();
    let mut tidx: BTreeMap<String, u32> = BTreeMap::new();
    let mut ty = |s: &str, types: &mut we::TypeSection| -> Result<u32> {
        if let Some(i) = tidx.get(s) {
            return Ok(*i);
        }
        let (p, r) = parse_sig(s)?;
        let i = tidx.len() as u32;
        types.ty().function(p, r);
        tidx.insert(s.to_string(), i);
        Ok(i)
    };
    let mut imps = we::ImportSection::new();
    let mut nimp = 0u32;
    for ((m, n), s) in &imports {
        let t = ty(s, &mut types)?;
        imps.import(m, n, we::EntityType::Function(t));
        nimp += 1;
    }
    let mut funcs = we::FunctionSection::new();
    let mut exps = we::ExportSection::new();
    let mut code = we::CodeSection::new();
    for (i, (n, s)) in exports.iter().enumerate() {
        let t = ty(s, &mut types)?;
        funcs.function(t);
        exps.export(n, we::ExportKind::Func, nimp + i as u32);
        let mut f = we::Function::new([]);
        f.instruction(&we::Instruction::Unreachable);
        f.instruction(&we::Instruction::End);
        code.function(&f);
    }
    let mut mems = we::MemorySection::new();
    mems.memory(we::MemoryType { minimum: 1, maximum: None, memory64: false, shared: false, page_size_log2: None });
    exps.export("memory", we::ExportKind::Memory, 0);
    let mut module = we::Module::new();
    module.section(&types).section(&imps).section(&funcs).section(&mems).section(&exps).section(&code);
    let mut bytes = module.finish();
    wit_component::embed_component_metadata(&mut bytes, &resolve, wid, wit_component::StringEncoding::UTF8)?;
    let comp = wit_component::ComponentEncoder::default().validate(true).module(&bytes)?.encode()?;

    // which core exports of the main module does the component use?
    let mut aliased: BTreeSet<String> = BTreeSet::new();
    let mut dtors = 0usize;
    let mut resources = 0usize;
    for p in wasmparser::Parser::new(0).parse_all(&comp) {
        match p? {
            wasmparser::Payload::ComponentAliasSection(r) => {
                for a in r {
                    if let wasmparser::ComponentAlias::CoreInstanceExport { name, .. } = a? {
                        aliased.insert(name.to_string());
                    }
                }
            }
            wasmparser::Payload::InstanceSection(r) => {
                // exports handed to shim/fixup instances by name
                for i in r {
                    if let wasmparser::Instance::FromExports(es) = i? {
                        for e in es.iter() {
                            let _ = e;
                        }
                    }
                }
            }
            wasmparser::Payload::ComponentTypeSection(r) => {
                for t in r {
                    if let wasmparser::ComponentType::Resource { dtor, .. } = t? {
                        resources += 1;
                        if dtor.is_some() {
                            dtors += 1;
                        }
                    }
                }
            }
            _ => {}
        }
    }
    let ignored: Vec<&String> = exports.keys().filter(|n| !aliased.contains(*n) && *n != "cabi_realloc" && *n != "_initialize").collect();
    // cabi_realloc / _initialize may legitimately be unused by a world without lists/strings
    Ok(format!(
        "accept\x1e{}\x1eresources={resources} with_dtor={dtors}",
        ignored.iter().map(|s| s.as_str()).collect::<Vec<_>>().join("\x1c")
    ))
}
