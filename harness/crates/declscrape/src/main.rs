//! C13 harness: everything that needs the REAL wit-parser / wit-component / generators.
//!
//! Usage: declscrape <mode>      (cases on stdin, one per line; one result line per case on stdout)
//! Fields of a line are separated by \x1e; a WIT source is either the WIT text with newlines as \x1f or
//! `@<path>` (file or directory, loaded with Resolve::push_path like crates/test does).
//!
//!  world   <world or empty> \x1e <source>
//!          -> ok \x1e <world term, tab separated tokens (see dump.rs)> \x1e <oracle items> \x1e <required groups>
//!             \x1e <dummy-module items>
//!             items: dir \x1d module \x1d field \x1d sig \x1d needs, joined by \x1c     (dir = I | E)
//!  gen     <lang> \x1e <opt words> \x1e <world or empty> \x1e <source>
//!          -> same reply format as harness/crates/genlib (ok \x1e name \x1d content ... | err .. | panic ..)
//!  encode  <world or empty> \x1e <source> \x1e <decls: dir \x1d module \x1d field \x1d sig joined by \x1c>
//!          -> accept \x1e <exports never aliased by the produced component, joined by \x1c> \x1e <resources without dtor>
//!           | reject <message>
use std::io::{self, BufRead, Write};

mod dump;
mod encode;

fn one_line(s: &str) -> String {
    s.replace('\n', " | ").replace('\r', "")
}

pub fn load(src: &str, world: &str) -> anyhow::Result<(wit_parser::Resolve, wit_parser::WorldId)> {
    let (resolve, pkg) = if let Some(p) = src.strip_prefix('@') {
        let mut r = wit_parser::Resolve::default();
        r.all_features = true;
        let (pkg, _) = r.push_path(p)?;
        (r, pkg)
    } else {
        genlib::parse_wit(&src.replace('\x1f', "\n"))?
    };
    let w = if world.is_empty() {
        // same selection rule as crates/test/src/lib.rs::codegen_test
        resolve
            .select_world(&[pkg], None)
            .or_else(|err| resolve.select_world(&[pkg], Some("imports")).map_err(|_| err))?
    } else {
        resolve.select_world(&[pkg], Some(world))?
    };
    Ok((resolve, w))
}

fn gen(parts: &[&str]) -> String {
    if parts.len() != 4 {
        return "err bad protocol line".into();
    }
    let lang = parts[0].trim().to_string();
    let args: Vec<String> = parts[1].split(' ').filter(|s| !s.is_empty()).map(|s| s.to_string()).collect();
    let world = parts[2].to_string();
    let src = parts[3].to_string();
    let r = std::panic::catch_unwind(move || -> anyhow::Result<Vec<(String, Vec<u8>)>> {
        let (mut resolve, w) = load(&src, &world)?;
        let mut generator = genlib::build(&lang, &args)?;
        let mut files = wit_bindgen_core::Files::default();
        generator.generate(&mut resolve, w, &mut files)?;
        Ok(files.iter().map(|(n, c)| (n.to_string(), c.to_vec())).collect())
    });
    match r {
        Ok(Ok(fs)) => {
            let mut s = String::from("ok");
            for (n, c) in fs {
                s.push('\x1e');
                s.push_str(&n);
                s.push('\x1d');
                match std::str::from_utf8(&c) {
                    Ok(t) if !t.chars().any(|ch| matches!(ch, '\x1c'..='\x1f' | '\x02')) => {
                        s.push_str(&t.replace('\n', "\x1f").replace('\r', "\x1c"))
                    }
                    _ => {
                        s.push_str("\x02HEX");
                        for b in &c {
                            s.push_str(&format!("{b:02x}"));
                        }
                    }
                }
            }
            s
        }
        Ok(Err(e)) => format!("err {}", one_line(&format!("{e:#}"))),
        Err(p) => {
            let msg = if let Some(s) = p.downcast_ref::<String>() {
                s.clone()
            } else if let Some(s) = p.downcast_ref::<&str>() {
                s.to_string()
            } else {
                "non-string panic".to_string()
            };
            format!("panic {}", one_line(&msg))
        }
    }
}

fn main() {
    std::panic::set_hook(Box::new(|_| {}));
    let mode = std::env::args().nth(1).expect("mode");
    let stdin = io::stdin();
    let stdout = io::stdout();
    let mut out = io::BufWriter::new(stdout.lock());
    for line in stdin.lock().lines() {
        let line = line.unwrap();
        let parts: Vec<&str> = line.split('\x1e').collect();
        let reply = match mode.as_str() {
            "gen" => gen(&parts),
            "world" => {
                let p: Vec<String> = parts.iter().map(|s| s.to_string()).collect();
                match std::panic::catch_unwind(move || dump::world(&p)) {
                    Ok(Ok(s)) => s,
                    Ok(Err(e)) => format!("err {}", one_line(&format!("{e:#}"))),
                    Err(_) => "err panic in world dump".to_string(),
                }
            }
            "encode" => {
                let p: Vec<String> = parts.iter().map(|s| s.to_string()).collect();
                match std::panic::catch_unwind(move || encode::encode(&p)) {
                    Ok(Ok(s)) => s,
                    Ok(Err(e)) => format!("reject {}", one_line(&format!("{e:#}"))),
                    Err(_) => "reject panic in encoder".to_string(),
                }
            }
            other => panic!("unknown mode {other}"),
        };
        writeln!(out, "{reply}").unwrap();
    }
}
