//! (1) The world as a token stream for the Coq model (coq/theories/Valid/CoreDecls.v, parsed by
//!     ocaml/coredecls_driver.ml), and
//! (2) the ORACLE: the core names wit-parser itself assigns through its public
//!     `Resolve::wasm_import_name` / `wasm_export_name` / `Function::task_return_import` and the signatures
//!     of `Resolve::wasm_signature`, enumerated the way wit-component's `dummy.rs`/`validation.rs` walk a
//!     world; plus (3) the imports/exports of wit-component's own `dummy_module` for the three legacy ABIs.
//!
//! World term grammar (tokens separated by \t):
//!   world  := "W" n iface^n  n func^n  n res^n   n iface^n  n func^n
//!             (imported interfaces, imported world funcs, imported world resources, exported interfaces, exported world funcs)
//!   iface  := key n func^n n res^n
//!   key    := "N" name | "I" namespace package interface version("" = none)
//!   func   := kind(F|M|S|C) resource("" for F) item async(0|1) sig^6 n pay^n
//!             sigs: import-sync, import-async, export-sync, export-async-callback, export-async-stackful, task-return
//!   sig    := [iIfF]* ">" [iIfF]*          (i = i32, I = i64, f = f32, F = f64)
//!   pay    := ("f"|"s") typeid
use anyhow::{bail, Result};
use wit_parser::abi::{AbiVariant, WasmSignature, WasmType};
use wit_parser::*;

pub fn ty_char(t: &WasmType) -> char {
    match t {
        WasmType::I32 | WasmType::Pointer | WasmType::Length => 'i',
        WasmType::I64 | WasmType::PointerOrI64 => 'I',
        WasmType::F32 => 'f',
        WasmType::F64 => 'F',
    }
}

pub fn sig_str(s: &WasmSignature) -> String {
    let mut o: String = s.params.iter().map(ty_char).collect();
    o.push('>');
    o.extend(s.results.iter().map(ty_char));
    o
}

struct Out {
    toks: Vec<String>,
    items: Vec<String>,
    required: Vec<String>,
}

fn item(dir: &str, module: &str, field: &str, sig: &str, needs: &str) -> String {
    format!("{dir}\x1d{module}\x1d{field}\x1d{sig}\x1d{needs}")
}

const SYNC: ManglingAndAbi = ManglingAndAbi::Legacy(LiftLowerAbi::Sync);
const ACB: ManglingAndAbi = ManglingAndAbi::Legacy(LiftLowerAbi::AsyncCallback);
const ASF: ManglingAndAbi = ManglingAndAbi::Legacy(LiftLowerAbi::AsyncStackful);

fn func_tokens(resolve: &Resolve, key: Option<&WorldKey>, f: &Function, o: &mut Out) -> Result<()> {
    let (kind, res) = match &f.kind {
        FunctionKind::Freestanding | FunctionKind::AsyncFreestanding => ("F", String::new()),
        FunctionKind::Method(id) | FunctionKind::AsyncMethod(id) => ("M", resolve.types[*id].name.clone().unwrap()),
        FunctionKind::Static(id) | FunctionKind::AsyncStatic(id) => ("S", resolve.types[*id].name.clone().unwrap()),
        FunctionKind::Constructor(id) => ("C", resolve.types[*id].name.clone().unwrap()),
    };
    o.toks.push(kind.into());
    o.toks.push(res);
    o.toks.push(if kind == "C" { String::new() } else { f.item_name().to_string() });
    o.toks.push(if f.kind.is_async() { "1" } else { "0" }.into());
    for v in [
        AbiVariant::GuestImport,
        AbiVariant::GuestImportAsync,
        AbiVariant::GuestExport,
        AbiVariant::GuestExportAsync,
        AbiVariant::GuestExportAsyncStackful,
    ] {
        o.toks.push(sig_str(&resolve.wasm_signature(v, f)));
    }
    let (_, _, trs) = f.task_return_import(resolve, key, Mangling::Legacy);
    o.toks.push(sig_str(&trs));
    let pays = f.find_futures_and_streams(resolve);
    o.toks.push(pays.len().to_string());
    for id in &pays {
        let k = match &resolve.types[*id].kind {
            TypeDefKind::Future(_) => "f",
            TypeDefKind::Stream(_) => "s",
            _ => bail!("payload is neither future nor stream"),
        };
        o.toks.push(format!("{k}{}", id.index()));
    }
    Ok(())
}

/// future/stream intrinsics of one function through `wasm_import_name`.
fn payload_items(resolve: &Resolve, key: Option<&WorldKey>, f: &Function, exported: bool, o: &mut Out) {
    let pays = f.find_futures_and_streams(resolve);
    for (pos, id) in pays.iter().enumerate() {
        let first = pays.iter().position(|x| x == id).unwrap();
        let is_future = matches!(resolve.types[*id].kind, TypeDefKind::Future(_));
        // (intrinsic name, may be async-lowered, signature)
        let rw = if is_future { "ii>i" } else { "iii>i" };
        let table: [(&str, bool, &str); 7] = [
            ("new", false, ">I"),
            ("read", true, rw),
            ("write", true, rw),
            ("cancel-read", true, "i>i"),
            ("cancel-write", true, "i>i"),
            ("drop-readable", false, "i>"),
            ("drop-writable", false, "i>"),
        ];
        for (idx, (_n, may_async, sig)) in table.iter().enumerate() {
            for async_ in [false, true] {
                if async_ && !may_async {
                    continue;
                }
                let (module, name) = if is_future {
                    let intrinsic = match idx {
                        0 => FutureIntrinsic::New,
                        1 => FutureIntrinsic::Read,
                        2 => FutureIntrinsic::Write,
                        3 => FutureIntrinsic::CancelRead,
                        4 => FutureIntrinsic::CancelWrite,
                        5 => FutureIntrinsic::DropReadable,
                        _ => FutureIntrinsic::DropWritable,
                    };
                    resolve.wasm_import_name(
                        SYNC,
                        WasmImport::FutureIntrinsic { interface: key, func: f, ty: Some(*id), intrinsic, exported, async_ },
                    )
                } else {
                    let intrinsic = match idx {
                        0 => StreamIntrinsic::New,
                        1 => StreamIntrinsic::Read,
                        2 => StreamIntrinsic::Write,
                        3 => StreamIntrinsic::CancelRead,
                        4 => StreamIntrinsic::CancelWrite,
                        5 => StreamIntrinsic::DropReadable,
                        _ => StreamIntrinsic::DropWritable,
                    };
                    resolve.wasm_import_name(
                        SYNC,
                        WasmImport::StreamIntrinsic { interface: key, func: f, ty: Some(*id), intrinsic, exported, async_ },
                    )
                };
                // wit-parser names a type by its FIRST position in find_futures_and_streams; the encoder
                // (validation.rs prefixed_payload) accepts every position < len, so for a repeated type id the later
                // positions are derived from the wit-parser name by substituting the index.
                let name = if pos == first { name } else { name.replacen(&format!("-{first}]"), &format!("-{pos}]"), 1) };
                o.items.push(item("I", &module, &name, sig, ""));
            }
        }
    }
}

/// the payload-less `future` / `stream` ("unit") intrinsics: `ty: None`
fn unit_items(resolve: &Resolve, key: Option<&WorldKey>, f: &Function, exported: bool, o: &mut Out) {
    for is_future in [true, false] {
        let rw = if is_future { "ii>i" } else { "iii>i" };
        let table: [(bool, &str); 7] = [(false, ">I"), (true, rw), (true, rw), (true, "i>i"), (true, "i>i"), (false, "i>"), (false, "i>")];
        for (idx, (may_async, sig)) in table.iter().enumerate() {
            for async_ in [false, true] {
                if async_ && !may_async {
                    continue;
                }
                let (module, name) = if is_future {
                    let intrinsic = match idx {
                        0 => FutureIntrinsic::New,
                        1 => FutureIntrinsic::Read,
                        2 => FutureIntrinsic::Write,
                        3 => FutureIntrinsic::CancelRead,
                        4 => FutureIntrinsic::CancelWrite,
                        5 => FutureIntrinsic::DropReadable,
                        _ => FutureIntrinsic::DropWritable,
                    };
                    resolve.wasm_import_name(SYNC, WasmImport::FutureIntrinsic { interface: key, func: f, ty: None, intrinsic, exported, async_ })
                } else {
                    let intrinsic = match idx {
                        0 => StreamIntrinsic::New,
                        1 => StreamIntrinsic::Read,
                        2 => StreamIntrinsic::Write,
                        3 => StreamIntrinsic::CancelRead,
                        4 => StreamIntrinsic::CancelWrite,
                        5 => StreamIntrinsic::DropReadable,
                        _ => StreamIntrinsic::DropWritable,
                    };
                    resolve.wasm_import_name(SYNC, WasmImport::StreamIntrinsic { interface: key, func: f, ty: None, intrinsic, exported, async_ })
                };
                o.items.push(item("I", &module, &name, sig, ""));
            }
        }
    }
}

fn import_func(resolve: &Resolve, key: Option<&WorldKey>, f: &Function, o: &mut Out) {
    // `ManglingAndAbi::for_func` is wit-parser's rule for which ABI a function may use: a function whose
    // WIT type is not `async` is forced to the sync ABI.
    let mut seen = Vec::new();
    for m in [SYNC, ACB, ASF] {
        let m = m.for_func(f);
        let (module, name) = resolve.wasm_import_name(m, WasmImport::Func { interface: key, func: f });
        let it = item("I", &module, &name, &sig_str(&resolve.wasm_signature(m.import_variant(), f)), "");
        if !seen.contains(&it) {
            seen.push(it.clone());
            o.items.push(it);
        }
    }
    payload_items(resolve, key, f, false, o);
    unit_items(resolve, key, f, false, o);
}

fn export_func(resolve: &Resolve, key: Option<&WorldKey>, f: &Function, o: &mut Out) {
    let mut seen: Vec<String> = Vec::new();
    let mut alts: Vec<String> = Vec::new();
    for m in [SYNC, ACB, ASF] {
        let m = m.for_func(f);
        let n = resolve.wasm_export_name(m, WasmExport::Func { interface: key, func: f, kind: WasmExportKind::Normal });
        if alts.contains(&n) {
            continue;
        }
        alts.push(n.clone());
        let s = resolve.wasm_signature(m.export_variant(), f);
        match m {
            ManglingAndAbi::Legacy(LiftLowerAbi::Sync) => {
                seen.push(item("E", "", &n, &sig_str(&s), ""));
                let n_post = resolve.wasm_export_name(m, WasmExport::Func { interface: key, func: f, kind: WasmExportKind::PostReturn });
                // wit-component validate_post_return: params := results of the sync export signature, no results
                let post: String = s.results.iter().map(ty_char).collect::<String>() + ">";
                seen.push(item("E", "", &n_post, &post, ""));
            }
            ManglingAndAbi::Legacy(LiftLowerAbi::AsyncCallback) => {
                let n_cb = resolve.wasm_export_name(m, WasmExport::Func { interface: key, func: f, kind: WasmExportKind::Callback });
                seen.push(item("E", "", &n, &sig_str(&s), &n_cb));
                seen.push(item("E", "", &n_cb, "iii>i", ""));
            }
            _ => seen.push(item("E", "", &n, &sig_str(&s), "")),
        }
    }
    o.items.extend(seen);
    let (module, name, sig) = f.task_return_import(resolve, key, Mangling::Legacy);
    o.items.push(item("I", &module, &name, &sig_str(&sig), ""));
    payload_items(resolve, key, f, true, o);
    unit_items(resolve, key, f, true, o);
    o.required.push(alts.join("\x1d"));
}

fn key_tokens(resolve: &Resolve, key: &WorldKey, o: &mut Out) -> Result<()> {
    match key {
        WorldKey::Name(n) => {
            o.toks.push("N".into());
            o.toks.push(n.clone());
        }
        WorldKey::Interface(id) => {
            let i = &resolve.interfaces[*id];
            let p = &resolve.packages[i.package.unwrap()];
            o.toks.push("I".into());
            o.toks.push(p.name.namespace.clone());
            o.toks.push(p.name.name.clone());
            o.toks.push(i.name.clone().ok_or_else(|| anyhow::anyhow!("anonymous interface with id key"))?);
            o.toks.push(p.name.version.as_ref().map(|v| v.to_string()).unwrap_or_default());
        }
    }
    Ok(())
}

fn resources_of(resolve: &Resolve, id: InterfaceId) -> Vec<TypeId> {
    resolve.interfaces[id]
        .types
        .iter()
        .filter(|(_, t)| matches!(resolve.types[**t].kind, TypeDefKind::Resource))
        .map(|(_, t)| *t)
        .collect()
}

fn iface(resolve: &Resolve, key: &WorldKey, id: InterfaceId, exported: bool, o: &mut Out) -> Result<()> {
    key_tokens(resolve, key, o)?;
    let funcs: Vec<&Function> = resolve.interfaces[id].functions.values().collect();
    o.toks.push(funcs.len().to_string());
    for f in funcs {
        func_tokens(resolve, Some(key), f, o)?;
        if exported {
            export_func(resolve, Some(key), f, o);
        } else {
            import_func(resolve, Some(key), f, o);
        }
    }
    let res = resources_of(resolve, id);
    o.toks.push(res.len().to_string());
    for r in res {
        o.toks.push(resolve.types[r].name.clone().unwrap());
        if exported {
            for (intr, sig) in [
                (ResourceIntrinsic::ExportedDrop, "i>"),
                (ResourceIntrinsic::ExportedNew, "i>i"),
                (ResourceIntrinsic::ExportedRep, "i>i"),
            ] {
                let (m, n) = resolve.wasm_import_name(
                    SYNC,
                    WasmImport::ResourceIntrinsic { interface: Some(key), resource: r, intrinsic: intr },
                );
                o.items.push(item("I", &m, &n, sig, ""));
            }
            for m in [SYNC, ACB, ASF] {
                let d = resolve.wasm_export_name(m, WasmExport::ResourceDtor { interface: key, resource: r });
                o.items.push(item("E", "", &d, "i>", ""));
            }
        } else {
            let (m, n) = resolve.wasm_import_name(
                SYNC,
                WasmImport::ResourceIntrinsic { interface: Some(key), resource: r, intrinsic: ResourceIntrinsic::ImportedDrop },
            );
            o.items.push(item("I", &m, &n, "i>", ""));
        }
    }
    Ok(())
}

fn module_items(bytes: &[u8]) -> Result<Vec<String>> {
    use wasmparser::{Parser, Payload, TypeRef, ExternalKind, CompositeInnerType};
    let mut types: Vec<String> = Vec::new();
    let mut funcs: Vec<u32> = Vec::new();
    let mut out = Vec::new();
    let vt = |v: &wasmparser::ValType| match v {
        wasmparser::ValType::I32 => 'i',
        wasmparser::ValType::I64 => 'I',
        wasmparser::ValType::F32 => 'f',
        wasmparser::ValType::F64 => 'F',
        _ => '?',
    };
    for p in Parser::new(0).parse_all(bytes) {
        match p? {
            Payload::TypeSection(r) => {
                for rg in r {
                    for st in rg?.into_types() {
                        if let CompositeInnerType::Func(ft) = &st.composite_type.inner {
                            let mut s: String = ft.params().iter().map(vt).collect();
                            s.push('>');
                            s.extend(ft.results().iter().map(vt));
                            types.push(s);
                        } else {
                            types.push("?".into());
                        }
                    }
                }
            }
            Payload::ImportSection(r) => {
                for imp in r.into_imports() {
                    let imp = imp?;
                    if let TypeRef::Func(t) = imp.ty {
                        funcs.push(t);
                        out.push(item("I", imp.module, imp.name, &types[t as usize], ""));
                    }
                }
            }
            Payload::FunctionSection(r) => {
                for t in r {
                    funcs.push(t?);
                }
            }
            Payload::ExportSection(r) => {
                for e in r {
                    let e = e?;
                    if e.kind == ExternalKind::Func {
                        out.push(item("E", "", e.name, &types[funcs[e.index as usize] as usize], ""));
                    }
                }
            }
            _ => {}
        }
    }
    Ok(out)
}

pub fn world(parts: &[String]) -> Result<String> {
    if parts.len() != 2 {
        bail!("bad protocol line");
    }
    let (resolve, wid) = crate::load(&parts[1], &parts[0])?;
    let w = &resolve.worlds[wid];
    let mut o = Out { toks: vec!["W".into()], items: vec![], required: vec![] };

    // imports
    let mut ifs = Vec::new();
    let mut fns = Vec::new();
    let mut res = Vec::new();
    for (k, it) in w.imports.iter() {
        match it {
            WorldItem::Interface { id, .. } => ifs.push((k, *id)),
            WorldItem::Function(f) => fns.push((k, f)),
            WorldItem::Type { id, .. } => {
                if matches!(resolve.types[*id].kind, TypeDefKind::Resource) {
                    res.push(*id)
                }
            }
        }
    }
    o.toks.push(ifs.len().to_string());
    for (k, id) in &ifs {
        iface(&resolve, k, *id, false, &mut o)?;
    }
    o.toks.push(fns.len().to_string());
    for (_, f) in &fns {
        func_tokens(&resolve, None, f, &mut o)?;
        import_func(&resolve, None, f, &mut o);
    }
    o.toks.push(res.len().to_string());
    for r in &res {
        o.toks.push(resolve.types[*r].name.clone().unwrap());
        let (m, n) = resolve.wasm_import_name(
            SYNC,
            WasmImport::ResourceIntrinsic { interface: None, resource: *r, intrinsic: ResourceIntrinsic::ImportedDrop },
        );
        o.items.push(item("I", &m, &n, "i>", ""));
    }
    // exports
    let mut ifs = Vec::new();
    let mut fns = Vec::new();
    for (k, it) in w.exports.iter() {
        match it {
            WorldItem::Interface { id, .. } => ifs.push((k, *id)),
            WorldItem::Function(f) => fns.push((k, f)),
            WorldItem::Type { .. } => bail!("exported type in world"),
        }
    }
    o.toks.push(ifs.len().to_string());
    for (k, id) in &ifs {
        iface(&resolve, k, *id, true, &mut o)?;
    }
    o.toks.push(fns.len().to_string());
    for (_, f) in &fns {
        func_tokens(&resolve, None, f, &mut o)?;
        export_func(&resolve, None, f, &mut o);
    }
    o.items.push(item("E", "", &resolve.wasm_export_name(SYNC, WasmExport::Realloc), "iiii>i", ""));
    o.items.push(item("E", "", &resolve.wasm_export_name(SYNC, WasmExport::Initialize), ">", ""));

    // wit-component's own dummy modules for the three ABIs
    let mut dummy = Vec::new();
    for m in [SYNC, ACB, ASF] {
        let r = std::panic::catch_unwind(std::panic::AssertUnwindSafe(|| wit_component::dummy_module(&resolve, wid, m)));
        match r {
            Ok(bytes) => dummy.extend(module_items(&bytes)?),
            Err(_) => dummy.push(item("X", "", "dummy_module panicked", "", "")),
        }
    }
    dummy.sort();
    dummy.dedup();
    for t in &o.toks {
        if t.contains('\t') {
            bail!("tab in name");
        }
    }
    Ok(format!(
        "ok\x1e{}\x1e{}\x1e{}\x1e{}",
        o.toks.join("\t"),
        o.items.join("\x1c"),
        o.required.join("\x1c"),
        dummy.join("\x1c")
    ))
}
