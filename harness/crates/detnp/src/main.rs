//! Work package det-nopanic (C15, C16).  Line protocol, one case per line on stdin, one result line on stdout.
//! Input line (same as genlib): <lang> \x1e <opt words> \x1e <world or empty> \x1e <WIT text, newlines as \x1f>
//!
//!   detnp gen     -> `ok <n files> <total bytes>` | `err <msg>` | `panic <file>:<line>:<col>\x1e<message on one line>`
//!                    (the panic location comes from a panic hook; generation itself is genlib::generate = the
//!                    generator run as a library under catch_unwind)
//!   detnp hash    -> `ok` then per file ` <name>\x1d<len>\x1d<fnv1a-64 hex>\x1d<second hash hex>\x1d<line-multiset hash>` (sorted by name, as
//!                    `Files` yields them) | `err …` | `panic …`      (C15: compared across separate processes)
//!   detnp files   -> like genlib's own output (full file contents), used by replay/shrink to show a diff
//!   detnp valid   -> `ok` | `err <msg>`: the world is a VALID WIT world = wit-parser accepts the text, the world can be
//!                    selected, and the package encodes (wit-component) to a binary that wasmparser validates with all
//!                    features on (this is where e.g. "cannot have more than 32 flags" is enforced)
//!   detnp typesmerge -> `ok` then per TypeId ` <id>:<representative>:<TypeInfo before collect_equal_types>:<after>` (TypeInfo as the
//!                    bit mask borrowed=1 owned=2 error=4 has_list=8 has_tuple=16 has_resource=32 has_borrow_handle=64
//!                    has_own_handle=128) — the real `Types::analyze` + `Types::collect_equal_types` (every type may alias),
//!                    input for the model's merge loop (C15)
//!   detnp mddump  -> `ok <s-expression of the world as the Markdown generator will traverse it>` | `err <msg>`
//!                    (input for the Coq model WB.Core.MdTotal; lang/opts fields are ignored)
use std::cell::RefCell;
use std::io::{self, BufRead, Write};

mod mddump;

thread_local! {
    static LAST_PANIC_LOC: RefCell<Option<String>> = RefCell::new(None);
}

fn one_line(s: &str) -> String {
    s.replace('\n', " | ").replace('\r', "")
}

fn fnv1a(data: &[u8]) -> u64 {
    let mut h: u64 = 0xcbf29ce484222325;
    for b in data {
        h ^= *b as u64;
        h = h.wrapping_mul(0x100000001b3);
    }
    h
}

fn poly(data: &[u8]) -> u64 {
    // independent second hash (polynomial mod 2^61-1) so that a collision of one is not a collision of both
    const P: u128 = (1u128 << 61) - 1;
    let mut h: u128 = 7;
    for b in data {
        h = (h * 1_000_003 + (*b as u128) + 1) % P;
    }
    h as u64
}

fn main() {
    let mode = std::env::args().nth(1).expect("mode");
    std::panic::set_hook(Box::new(|info| {
        let loc = info
            .location()
            .map(|l| format!("{}:{}:{}", l.file(), l.line(), l.column()))
            .unwrap_or_else(|| "?:0:0".to_string());
        LAST_PANIC_LOC.with(|c| *c.borrow_mut() = Some(loc));
    }));
    let stdin = io::stdin();
    let stdout = io::stdout();
    let mut out = io::BufWriter::new(stdout.lock());
    for line in stdin.lock().lines() {
        out.flush().unwrap(); // one result line per case is visible to the supervisor before the next case starts
        let line = line.unwrap();
        let parts: Vec<&str> = line.splitn(4, '\x1e').collect();
        if parts.len() != 4 {
            writeln!(out, "err bad protocol line").unwrap();
            continue;
        }
        let args: Vec<String> = parts[1].split(' ').filter(|s| !s.is_empty()).map(|s| s.to_string()).collect();
        let world = if parts[2].is_empty() { None } else { Some(parts[2]) };
        let wit = parts[3].replace('\x1f', "\n");
        if mode == "valid" {
            let r = std::panic::catch_unwind(|| -> anyhow::Result<()> {
                let (resolve, pkg) = genlib::parse_wit(&wit)?;
                resolve.select_world(&[pkg], world)?;
                let bytes = wit_component::encode(&resolve, pkg)?;
                wasmparser::Validator::new_with_features(wasmparser::WasmFeatures::all()).validate_all(&bytes)?;
                Ok(())
            });
            match r {
                Ok(Ok(())) => writeln!(out, "ok").unwrap(),
                Ok(Err(e)) => writeln!(out, "err {}", one_line(&format!("{e:#}"))).unwrap(),
                Err(_) => writeln!(out, "err panic while validating").unwrap(),
            }
            continue;
        }
        if mode == "typesmerge" {
            let r = std::panic::catch_unwind(|| -> anyhow::Result<String> {
                use wit_bindgen_core::{TypeInfo, Types};
                let (resolve, pkg) = genlib::parse_wit(&wit)?;
                let w = resolve.select_world(&[pkg], world)?;
                let bits = |i: TypeInfo| -> u32 {
                    (i.borrowed as u32) | (i.owned as u32) << 1 | (i.error as u32) << 2 | (i.has_list as u32) << 3
                        | (i.has_tuple as u32) << 4 | (i.has_resource as u32) << 5 | (i.has_borrow_handle as u32) << 6
                        | (i.has_own_handle as u32) << 7
                };
                let mut types = Types::default();
                types.analyze(&resolve);
                let before: Vec<_> = resolve.types.iter().map(|(id, _)| (id, bits(types.get(id)))).collect();
                types.collect_equal_types(&resolve, w, &|_| true);
                let mut s = String::new();
                for (id, b) in before {
                    let rep = types.get_representative_type(id);
                    s.push_str(&format!(" {}:{}:{}:{}", id.index(), rep.index(), b, bits(types.get(id))));
                }
                Ok(s)
            });
            match r {
                Ok(Ok(s)) => writeln!(out, "ok{s}").unwrap(),
                Ok(Err(e)) => writeln!(out, "err {}", one_line(&format!("{e:#}"))).unwrap(),
                Err(_) => writeln!(out, "err panic in typesmerge").unwrap(),
            }
            continue;
        }
        if mode == "mddump" {
            let r = std::panic::catch_unwind(|| mddump::dump(&wit, world));
            match r {
                Ok(Ok(s)) => writeln!(out, "ok {s}").unwrap(),
                Ok(Err(e)) => writeln!(out, "err {}", one_line(&format!("{e:#}"))).unwrap(),
                Err(_) => writeln!(out, "err panic in mddump").unwrap(),
            }
            continue;
        }
        LAST_PANIC_LOC.with(|c| *c.borrow_mut() = None);
        match genlib::generate(parts[0].trim(), &args, &wit, world) {
            genlib::Outcome::Files(fs) => match mode.as_str() {
                "gen" => {
                    let total: usize = fs.values().map(|c| c.len()).sum();
                    writeln!(out, "ok {} {}", fs.len(), total).unwrap()
                }
                "hash" => {
                    let mut s = String::from("ok");
                    for (n, c) in &fs {
                        // last field: order-insensitive hash of the multiset of lines (equal in two outputs whose content
                        // hashes differ <=> the difference is a pure reordering of lines)
                        let lines: u64 = c.split(|b| *b == b'\n').fold(0u64, |a, l| a.wrapping_add(fnv1a(l).wrapping_mul(0x9E3779B97F4A7C15)));
                        s.push_str(&format!(" {}\x1d{}\x1d{:016x}\x1d{:016x}\x1d{:016x}", n.replace(' ', "\x1c"), c.len(), fnv1a(c), poly(c), lines));
                    }
                    writeln!(out, "{s}").unwrap()
                }
                _ => {
                    let mut s = String::from("ok");
                    for (n, c) in fs {
                        s.push('\x1e');
                        s.push_str(&n);
                        s.push('\x1d');
                        match std::str::from_utf8(&c) {
                            Ok(t) if !t.chars().any(|ch| matches!(ch, '\x1c'..='\x1f' | '\x02')) => {
                                s.push_str(&t.replace('\n', "\x1f").replace('\r', "\x1c"))
                            }
                            _ => {
                                s.push_str("\x02HEX");
                                for b in &c {
                                    s.push_str(&format!("{b:02x}"));
                                }
                            }
                        }
                    }
                    writeln!(out, "{s}").unwrap();
                }
            },
            genlib::Outcome::Error(e) => writeln!(out, "err {}", one_line(&e)).unwrap(),
            genlib::Outcome::Panic(e) => {
                let loc = LAST_PANIC_LOC.with(|c| c.borrow().clone()).unwrap_or_else(|| "?:0:0".to_string());
                writeln!(out, "panic {}\x1e{}", loc, one_line(&e)).unwrap()
            }
        }
    }
}
