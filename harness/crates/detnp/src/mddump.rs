//! Translator for the Coq model WB.Core.MdTotal: unfolds the `Resolve` type graph of one world into the tree
//! shape the model works on (the Rust `print_ty` follows `resolve.types[id]`; it stops at every named type, so the
//! unfolding is exactly the syntactic nesting of anonymous types) and lists the world items in the IndexMap order
//! `WorldGenerator::generate` iterates them.  Exhaustive matches on purpose: a new `TypeDefKind`/`Type`/`WorldItem`
//! constructor makes this file fail to compile, which the check reports as a broken tie.
use anyhow::Result;
use wit_parser::*;

fn ty(r: &Resolve, t: &Type, o: &mut String) {
    match t {
        Type::Bool => o.push_str("bool"),
        Type::U8 => o.push_str("u8"),
        Type::U16 => o.push_str("u16"),
        Type::U32 => o.push_str("u32"),
        Type::U64 => o.push_str("u64"),
        Type::S8 => o.push_str("s8"),
        Type::S16 => o.push_str("s16"),
        Type::S32 => o.push_str("s32"),
        Type::S64 => o.push_str("s64"),
        Type::F32 => o.push_str("f32"),
        Type::F64 => o.push_str("f64"),
        Type::Char => o.push_str("char"),
        Type::String => o.push_str("string"),
        Type::ErrorContext => o.push_str("errctx"),
        Type::Id(id) => {
            let td = &r.types[*id];
            if td.name.is_some() {
                o.push('N');
            } else {
                o.push_str("(A ");
                kind(r, &td.kind, o);
                o.push(')');
            }
        }
    }
}

fn opt(r: &Resolve, t: &Option<Type>, o: &mut String) {
    match t {
        Some(t) => ty(r, t, o),
        None => o.push('_'),
    }
}

fn kind(r: &Resolve, k: &TypeDefKind, o: &mut String) {
    match k {
        TypeDefKind::Record(rec) => {
            o.push_str("(record");
            for f in &rec.fields {
                o.push(' ');
                ty(r, &f.ty, o);
            }
            o.push(')');
        }
        TypeDefKind::Resource => o.push_str("resource"),
        TypeDefKind::Handle(Handle::Own(id)) => {
            o.push_str("(own ");
            ty(r, &Type::Id(*id), o);
            o.push(')');
        }
        TypeDefKind::Handle(Handle::Borrow(id)) => {
            o.push_str("(borrow ");
            ty(r, &Type::Id(*id), o);
            o.push(')');
        }
        TypeDefKind::Flags(_) => o.push_str("flags"),
        TypeDefKind::Tuple(t) => {
            o.push_str("(tuple");
            for t in &t.types {
                o.push(' ');
                ty(r, t, o);
            }
            o.push(')');
        }
        TypeDefKind::Variant(v) => {
            o.push_str("(variant");
            for c in &v.cases {
                o.push(' ');
                opt(r, &c.ty, o);
            }
            o.push(')');
        }
        TypeDefKind::Enum(_) => o.push_str("enum"),
        TypeDefKind::Option(t) => {
            o.push_str("(option ");
            ty(r, t, o);
            o.push(')');
        }
        TypeDefKind::Result(res) => {
            o.push_str("(result ");
            opt(r, &res.ok, o);
            o.push(' ');
            opt(r, &res.err, o);
            o.push(')');
        }
        TypeDefKind::List(t) => {
            o.push_str("(list ");
            ty(r, t, o);
            o.push(')');
        }
        TypeDefKind::Map(k, v) => {
            o.push_str("(map ");
            ty(r, k, o);
            o.push(' ');
            ty(r, v, o);
            o.push(')');
        }
        TypeDefKind::FixedLengthList(t, n) => {
            o.push_str("(fixed ");
            ty(r, t, o);
            o.push_str(&format!(" {n})"));
        }
        TypeDefKind::Future(t) => {
            o.push_str("(future ");
            opt(r, t, o);
            o.push(')');
        }
        TypeDefKind::Stream(t) => {
            o.push_str("(stream ");
            opt(r, t, o);
            o.push(')');
        }
        TypeDefKind::Type(t) => {
            o.push_str("(type ");
            ty(r, t, o);
            o.push(')');
        }
        TypeDefKind::Unknown => o.push_str("unknown"),
    }
}

fn def(r: &Resolve, id: TypeId, o: &mut String) {
    let td = &r.types[id];
    o.push_str(if td.name.is_some() { "(def 1 " } else { "(def 0 " });
    kind(r, &td.kind, o);
    o.push(')');
}

fn func(r: &Resolve, f: &Function, o: &mut String) {
    o.push_str("(func (");
    for (i, p) in f.params.iter().enumerate() {
        if i > 0 {
            o.push(' ');
        }
        ty(r, &p.ty, o);
    }
    o.push_str(") ");
    opt(r, &f.result, o);
    o.push(')');
}

fn items(r: &Resolve, m: &indexmap_like::Items, o: &mut String) {
    for (_, it) in m.iter() {
        o.push(' ');
        match it {
            WorldItem::Interface { id, .. } => {
                let i = &r.interfaces[*id];
                o.push_str("(iface (types");
                for (_, t) in i.types.iter() {
                    o.push(' ');
                    def(r, *t, o);
                }
                o.push_str(") (funcs");
                for (_, f) in i.functions.iter() {
                    o.push(' ');
                    func(r, f, o);
                }
                o.push_str("))");
            }
            WorldItem::Function(f) => func(r, f, o),
            WorldItem::Type { id, .. } => def(r, *id, o),
        }
    }
}

mod indexmap_like {
    pub type Items = wit_parser::IndexMap<wit_parser::WorldKey, wit_parser::WorldItem>;
}

pub fn dump(wit: &str, world: Option<&str>) -> Result<String> {
    let (mut resolve, pkg) = genlib::parse_wit(wit)?;
    let w = resolve.select_world(&[pkg], world)?;
    // Markdown keeps the default `uses_nominal_type_ids() = true`, so `generate` starts with this call.
    resolve.generate_nominal_type_ids(w);
    let wd = &resolve.worlds[w];
    let mut o = String::from("(world (imports");
    items(&resolve, &wd.imports, &mut o);
    o.push_str(") (exports");
    items(&resolve, &wd.exports, &mut o);
    o.push_str("))");
    Ok(o)
}
