//! ops: `i:<name>` (insert) / `t:<name>` (tmp), space separated. Names are [a-z0-9]* (may be empty: written `i:`).
use wit_bindgen_core::Ns;

pub fn run_case(line: &str) -> String {
    let mut ns = Ns::default();
    let mut out = Vec::new();
    for op in line.split(' ').filter(|s| !s.is_empty()) {
        let (k, name) = op.split_once(':').unwrap();
        match k {
            "i" => out.push(match ns.insert(name) {
                Ok(()) => "ok".to_string(),
                Err(_) => "err".to_string(),
            }),
            "t" => out.push(format!("={}", ns.tmp(name))),
            _ => panic!("bad op"),
        }
    }
    out.join(" ")
}
