//! Line-protocol drivers around the real wit-bindgen-core pure components.
//! Usage: corelib <engine>   (cases on stdin, one per line; one result line per case on stdout)
use std::io::{self, BufRead, Write};

mod cast;
mod ns;
pub mod parse;
mod source;
mod pkgname;
mod asyncfilter;

fn main() {
    let engine = std::env::args().nth(1).expect("engine");
    let f: fn(&str) -> String = match engine.as_str() {
        "cast" => cast::run_case,
        "ns" => ns::run_case,
        "parse" => parse::run_case,
        "source" => source::run_case,
        "pkgname" => pkgname::run_case,
        "asyncfilter" => asyncfilter::run_case,
        other => panic!("unknown engine {other}"),
    };
    let stdin = io::stdin();
    let stdout = io::stdout();
    let mut out = io::BufWriter::new(stdout.lock());
    for line in stdin.lock().lines() {
        let line = line.unwrap();
        let r = std::panic::catch_unwind(|| f(&line)).unwrap_or_else(|_| "PANIC".to_string());
        writeln!(out, "{r}").unwrap();
    }
}
