//! `parse`: one WIT package per line (newlines encoded as \x1f); answers `ok <n worlds> <n interfaces> <n types>`
//! or `err <first line of the error>`.
use wit_parser::Resolve;

pub fn decode(line: &str) -> String {
    line.replace('\x1f', "\n")
}

pub fn load(line: &str) -> anyhow::Result<(Resolve, wit_parser::PackageId)> {
    let text = decode(line);
    let mut resolve = Resolve::default();
    let pkg = resolve.push_str("case.wit", &text)?;
    Ok((resolve, pkg))
}

pub fn run_case(line: &str) -> String {
    match load(line) {
        Ok((r, _)) => format!("ok {} {} {}", r.worlds.len(), r.interfaces.len(), r.types.len()),
        Err(e) => format!("err {}", format!("{e:#}").lines().next().unwrap_or("").to_string()),
    }
}
